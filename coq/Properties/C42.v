(* Properties/C42.v — Blob pool stays consistent across operations and restarts.
   Theorems about the model Pool/Blob.v (transcribed from core/txpool/blobpool and the part of
   holiman/billy it relies on).  Full statement of the property, for every history of
   Add / SetGasTip / Reset / restart (clean or abrupt):
     blob_contiguous, blob_affordable, evict_order_matches_priority, limbo_until_final,
     index_store_agree, reopen_reproduces.
   Proved here: the building blocks for all inputs (what recheck keeps is consecutive and carries
   rolling minima; validateTx admits only the next nonce within the balance and replacements with
   the bump on all three fee caps; appending the admitted nonce keeps a list that starts at the
   state nonce consecutive; the SetGasTip split; the eviction loop preserves the per-account
   invariant Inv for every pool state; an abrupt stop only adds entries to what a clean shutdown
   leaves on disk), and the refutations of the unguarded clauses by kernel-evaluated histories
   (Pool/BlobWitness.v, replayed on the real pool from corpus/C42/edge.txt).
   Inv (per account: non-empty, consecutive, starting at the state nonce, spent = sum of costs
   <= balance) is carried through every history of Add and SetGasTip (including replacements,
   the gapped buffer and its promotion, and the Datacap eviction loop).
   Inv is carried through every history of Add / SetGasTip / Reset / restart (clean or abrupt)
   of the repaired code, under the explicit guards: transaction nonces are uint64 values, a Reset
   is chain-consistent and not skipped (at most 64 blocks between the heads, no missing
   parent); a uint256 overflow of a spent total is an explicit model error (Err 3), not a run.
   Init establishes Inv from ANY store image (clean shutdown, abrupt stop, arbitrary content).
   Limbo: finalize deletes exactly the entries at or below the finalised block; push records
   the including block.  Eviction: drop() removes the last transaction of the heap's first
   account; the loop ends within the data cap.
   Store: the billy laws (Put returns a fresh id, Get after Put, Put/Delete leave other live ids
   alone) at shelf and id level; billy_open on what a clean Close leaves hands back exactly the
   live entries, each once.  reopen_reproduces for clean shutdowns is proved
   (C42_clean_restart_reproduces) under the guards: index and store describe the same
   transactions, pooled tips >= tip, stored sizes within Datacap.
   Limbo over a Reset: reorg()'s walk is complete; recheck only pushes inclusions; after a Reset
   every entry is above the finalised block and is an old entry or an inclusion on the new
   chain; a limbo sound for the old chain stays sound for the new one except possibly for
   surviving entries of discarded transactions; pull/reinject remove every entry of the hash.
   PARTIAL: closing that exception over histories (the consistency invariant lcons through
   update, finalize and the limbo's reopen; transactor/blob-flag completeness of reorg),
   index_store_agree as a history invariant and minimality of the evicted account for a freshly
   built heap are checked by correspondence and the Go oracle only. *)
From GV Require Import Lib.Tactics Pool.Blob Pool.BlobProofs Pool.BlobAddProofs Pool.BlobResetProofs Pool.BlobInitProofs Pool.BlobLimboProofs Pool.BlobLimboReset Pool.BlobLimboFrame Pool.BlobLimboEntry Pool.BlobRollingProofs Pool.BlobRollingTip Pool.BlobRollingReset Pool.BlobReopenProofs Pool.BlobReopenPerm Pool.BillyOpenProofs Pool.BlobRestartProofs Pool.BlobRestartMain Pool.BlobRestartFinal Pool.BillyLawsProofs Pool.BillyIdLaws Pool.BlobReorgProofs Pool.BlobLimboRecheck Pool.BlobLimboSound Pool.BlobLimboResetSound Pool.BlobLimboCons Pool.BlobRollingWitness Pool.BlobWitness Pool.BlobWitness2.
Local Open Scope N_scope.

(* blob_contiguous, list level: whatever recheck's threshold loop keeps has consecutive nonces
   (modulo 2^64, as the code compares them), for every input list and every pool state *)
Theorem C42_recheck_keeps_consecutive : forall rest a prev acc p l p',
  recheck_scan a prev rest acc p = Ok (l, p') ->
  chain acc -> last_opt acc = Some prev -> chain l.
Proof. exact recheck_scan_chain. Qed.
Print Assumptions C42_recheck_keeps_consecutive.

(* recheck sorts the account's entries by nonce without losing or inventing one *)
Theorem C42_recheck_sort : forall l,
  Sorted.Sorted nonce_le (sort_metas l) /\ Permutation.Permutation l (sort_metas l).
Proof. exact sort_metas_spec. Qed.
Print Assumptions C42_recheck_sort.

(* blob_contiguous / blob_affordable, admission: validateTx accepts a new nonce only directly
   behind the pooled ones, within the balance and below the per-account cap ... *)
Theorem C42_add_only_next_nonce_within_balance : forall c t p,
  validate_tx c t p = E_ok ->
  nth_error (txs_of p (t_from t)) (N.to_nat (t_nonce t - nonce_of p (t_from t))) = None ->
  t_nonce t = nonce_of p (t_from t) + lenN (txs_of p (t_from t)) /\
  nonce_of p (t_from t) + lenN (txs_of p (t_from t)) < two64 /\
  spent_of p (t_from t) + t_cost t <= bal_of p (t_from t) /\
  (length (txs_of p (t_from t)) < maxTxsPerAccount)%nat.
Proof. exact validate_append. Qed.
Print Assumptions C42_add_only_next_nonce_within_balance.

(* ... and appending that nonce to a consecutive list starting at the state nonce keeps it so *)
Theorem C42_append_keeps_contiguous : forall n l m,
  chain l -> (match l with [] => True | x :: _ => m_nonce x = n end) ->
  n + lenN l < two64 -> m_nonce m = n + lenN l -> chain (l ++ [m]).
Proof. exact chain_starts_append. Qed.
Print Assumptions C42_append_keeps_contiguous.

(* replacement rule: strictly more and at least the configured percentage on all three fee
   caps, a different transaction, and the balance covers the bumped total *)
Theorem C42_replacement_requires_bump : forall c t p prev,
  validate_tx c t p = E_ok ->
  nth_error (txs_of p (t_from t)) (N.to_nat (t_nonce t - nonce_of p (t_from t))) = Some prev ->
  t_fee (m_tx prev) < t_fee t /\ t_tip (m_tx prev) < t_tip t /\ t_bfee (m_tx prev) < t_bfee t /\
  wrap256 ((100 + c_bump c) * t_fee (m_tx prev)) / 100 <= t_fee t /\
  wrap256 ((100 + c_bump c) * t_tip (m_tx prev)) / 100 <= t_tip t /\
  wrap256 ((100 + c_bump c) * t_bfee (m_tx prev)) / 100 <= t_bfee t /\
  m_id prev <> t_id t /\
  (Z.of_N (spent_of p (t_from t)) + (Z.of_N (t_cost t) - Z.of_N (m_cost prev)) <= Z.of_N (bal_of p (t_from t)))%Z.
Proof. exact validate_replacement_bump. Qed.
Print Assumptions C42_replacement_requires_bump.

(* eviction priorities: the fields recomputed by addLocked are the rolling minima over the prefix *)
Theorem C42_eviction_fields_rolling : forall o l, rolling o (reev o l 0).
Proof. exact reev_rolling. Qed.
Print Assumptions C42_eviction_fields_rolling.

(* ... and that is what addLocked leaves behind after a replacement at ANY position or an append:
   untouched prefix, recomputation from the replaced index to the tail (a recomputation that
   stops before the tail does not satisfy this) *)
Theorem C42_add_recompute_gives_prefix_minima : forall (l1 : list meta) off,
  (off <= length l1)%nat -> rolling None (firstn off l1) ->
  rolling None (firstn off l1 ++ reev (match off with O => None | S o => nth_error l1 o end) (skipn off l1) 0).
Proof. exact rebuilt_rolling. Qed.
Print Assumptions C42_add_recompute_gives_prefix_minima.

(* over every history of Add (extension, replacement anywhere, gapped promotion, eviction) and
   SetGasTip, from the empty pool on: the three eviction fields of every pooled transaction are
   the minima over the prefix of its account's list *)
Theorem C42_eviction_fields_prefix_minima_through_histories : forall prioE prioB gtE gtB c ops p q,
  RInv p -> hrun prioE prioB gtE gtB c ops p = Ok q -> RInv q.
Proof. exact hrun_rinv. Qed.
Print Assumptions C42_eviction_fields_prefix_minima_through_histories.

(* ... and over the same histories as C42_inv_through_all_histories (Add / SetGasTip / Reset /
   restart, clean or abrupt): recheck recomputes the fields of every account it touches from
   scratch, Init rechecks every account *)
Theorem C42_eviction_fields_prefix_minima_through_all_histories :
  forall prioE prioB gtE gtB nearE nearB c ll ops p q,
  Inv p -> RInv p -> hguard prioE prioB gtE gtB nearE nearB c ll ops p ->
  hrun2 prioE prioB gtE gtB nearE nearB c ll ops p = Ok q -> RInv q.
Proof. exact hrun2_rinv. Qed.
Print Assumptions C42_eviction_fields_prefix_minima_through_all_histories.

Theorem C42_reset_keeps_prefix_minima : forall prioE prioB nearE nearB ll bs newh final p q,
  Inv p -> RInv p -> pool_reset prioE prioB nearE nearB false ll bs newh final p = Ok q -> RInv q.
Proof. exact reset_rinv. Qed.
Print Assumptions C42_reset_keeps_prefix_minima.

Theorem C42_init_establishes_prefix_minima : forall prioE prioB gtE gtB c qimg limg head tip q,
  pool_init prioE prioB gtE gtB c false qimg limg head tip = Ok q -> RInv q.
Proof. exact init_rinv. Qed.
Print Assumptions C42_init_establishes_prefix_minima.

(* the recomputation must reach the tail: a variant that stops at the first transaction whose tip
   and exec-fee minima did not change leaves a stale blob-fee minimum two positions after a
   replaced blob-fee bottleneck, while the full recomputation of the same list is correct *)
Theorem C42_early_exit_recompute_refuted :
  ~ rolling None (reev_early true None early_in) /\ rolling None (reev None early_in 0).
Proof. exact early_exit_refuted. Qed.
Print Assumptions C42_early_exit_recompute_refuted.

Theorem C42_prefix_minima_of_empty_pool : forall p, p_index p = [] -> RInv p.
Proof. exact rinv_empty. Qed.
Print Assumptions C42_prefix_minima_of_empty_pool.

(* SetGasTip keeps exactly the prefix before the first underpriced transaction *)
Theorem C42_tip_split : forall tip l keep dropped,
  split_tip tip l = (keep, dropped) ->
  l = keep ++ dropped /\ Forall (fun m => tip <= t_tip (m_tx m)) keep /\
  match dropped with [] => True | m :: _ => t_tip (m_tx m) < tip end.
Proof. exact split_tip_spec. Qed.
Print Assumptions C42_tip_split.

(* blob_contiguous + blob_affordable through the Datacap eviction loop, for every pool state:
   Inv = every account's list is non-empty, consecutive, starts at the state nonce, spent is
   exactly the sum of the costs and within the balance *)
Theorem C42_eviction_loop_preserves_inv : forall prioE prioB gtE gtB c fuel p q,
  Inv p -> drop_loop prioE prioB gtE gtB c fuel p = Ok q -> Inv q.
Proof. exact drop_loop_inv. Qed.
Print Assumptions C42_eviction_loop_preserves_inv.

(* blob_contiguous + blob_affordable over histories: every history of Add (ValidateTxBasics +
   AddPooledTx: extension, replacement, gapped buffering and promotion, eviction) and
   SetGasTip keeps the invariant, from every pool state that satisfies it (guard: transaction
   nonces are uint64 values) *)
Theorem C42_inv_through_add_and_tip_histories : forall prioE prioB gtE gtB c ops p q,
  Inv p -> Forall hop_ok ops -> hrun prioE prioB gtE gtB c ops p = Ok q -> Inv q.
Proof. exact hrun_inv. Qed.
Print Assumptions C42_inv_through_add_and_tip_histories.

(* ... and a pool without transactions (what Init yields on an empty directory) satisfies it *)
Theorem C42_inv_of_empty_pool : forall p,
  p_index p = [] -> p_spent p = [] -> Inv p.
Proof. exact inv_empty. Qed.
Print Assumptions C42_inv_of_empty_pool.

Theorem C42_set_gas_tip_preserves_inv : forall prioE prioB tip p q,
  Inv p -> set_gas_tip prioE prioB tip p = Ok q -> Inv q.
Proof. exact set_gas_tip_inv. Qed.
Print Assumptions C42_set_gas_tip_preserves_inv.

(* recheck (repaired code) on any account whose spent total is the sum of its listed costs:
   whatever the nonces, order, duplicates, gaps and balance, the account comes out well-formed
   for the chain state and no other account is touched *)
Theorem C42_recheck_establishes_account_invariant : forall prioE prioB a incl p q,
  recheck prioE prioB false a incl p = Ok q -> wf_acct p a -> frame a p q /\ acct_ok q a /\ rk q a.
Proof. exact recheck_ok. Qed.
Print Assumptions C42_recheck_establishes_account_invariant.

(* Reset (head change with or without reorg: included transactions leave the pool, reorged-out
   ones are reinjected from the limbo, gaps and overdrafts are dropped) keeps Inv, for both
   versions of the limbo update, under reset_guard: the reorg is not skipped (at most 64 blocks
   between the heads, parents present) and accounts without a transaction on either branch keep
   their nonce and do not lose balance *)
Theorem C42_reset_preserves_inv : forall prioE prioB nearE nearB ll bs newh final p q,
  Inv p -> reset_guard bs newh p ->
  pool_reset prioE prioB nearE nearB false ll bs newh final p = Ok q -> Inv q.
Proof. exact reset_inv. Qed.
Print Assumptions C42_reset_preserves_inv.

(* Init on ANY queue / limbo image (clean shutdown, abrupt stop with resurrected entries,
   arbitrary content), any head state and tip yields a pool satisfying Inv *)
Theorem C42_init_establishes_inv : forall prioE prioB gtE gtB c qimg limg head tip q,
  pool_init prioE prioB gtE gtB c false qimg limg head tip = Ok q -> Inv q.
Proof. exact init_inv. Qed.
Print Assumptions C42_init_establishes_inv.

(* blob_contiguous + blob_affordable over ALL histories of Add / SetGasTip / Reset / restart
   (Close+New+Init or Init on a copy of the live directory), under the guards of hguard *)
Theorem C42_inv_through_all_histories : forall prioE prioB gtE gtB nearE nearB c ll ops p q,
  Inv p -> hguard prioE prioB gtE gtB nearE nearB c ll ops p ->
  hrun2 prioE prioB gtE gtB nearE nearB c ll ops p = Ok q -> Inv q.
Proof. exact hrun2_inv. Qed.
Print Assumptions C42_inv_through_all_histories.

(* limbo.finalize: groups at or below the finalised number are deleted, groups above it are
   untouched, and exactly the owners recorded at or below it leave the index *)
Theorem C42_limbo_finalize_deletes_exactly_final : forall l final l',
  limbo_finalize l final = Ok l' ->
  (forall blk, blk <= final -> aget (l_groups l') blk = None) /\
  (forall blk, final < blk -> aget (l_groups l') blk = aget (l_groups l) blk) /\
  (forall h, aget (l_index l') h =
             if existsb (N.eqb h) (finalised_owners (l_groups l) final) then None else aget (l_index l) h).
Proof. exact limbo_finalize_spec. Qed.
Print Assumptions C42_limbo_finalize_deletes_exactly_final.

(* finalised entries are deleted: after every Reset (any history, either version of the code) the
   limbo holds no group at or below the finalised block number *)
Theorem C42_reset_leaves_nothing_finalised_in_limbo : forall prioE prioB nearE nearB lg ll bs newh final p q,
  pool_reset prioE prioB nearE nearB lg ll bs newh final p = Ok q ->
  forall blk, blk <= final -> aget (l_groups (p_limbo q)) blk = None.
Proof. exact reset_finalises. Qed.
Print Assumptions C42_reset_leaves_nothing_finalised_in_limbo.

(* the limbo changes in Reset and restart only: Add (with replacement, promotion, eviction) and
   SetGasTip leave it untouched ... *)
Theorem C42_add_and_tip_leave_limbo_alone : forall prioE prioB gtE gtB c ops p q,
  hrun prioE prioB gtE gtB c ops p = Ok q -> p_limbo q = p_limbo p.
Proof. exact hrun_limbo. Qed.
Print Assumptions C42_add_and_tip_leave_limbo_alone.

(* ... so finalised entries stay deleted over histories: after a Reset that finalised [final]
   (from ANY pool state, either version of the code) and any number of Adds / SetGasTips, the limbo
   holds no group at or below [final] *)
Theorem C42_finalised_entries_stay_deleted : forall prioE prioB gtE gtB nearE nearB c lg ll bs newh final p0 p ops q,
  pool_reset prioE prioB nearE nearB lg ll bs newh final p0 = Ok p ->
  hrun prioE prioB gtE gtB c ops p = Ok q ->
  forall blk, blk <= final -> aget (l_groups (p_limbo q)) blk = None.
Proof. exact finalised_gone_history. Qed.
Print Assumptions C42_finalised_entries_stay_deleted.

(* soundness of what enters the limbo: offload is the only producer; during a Reset it records a
   stored transaction under the number of a block that is reachable from the NEW head by parent
   links (the current chain) and contains that transaction *)
Theorem C42_limbo_entries_are_inclusions_of_the_current_chain : forall bs oldh newh ro id p q,
  reorg bs oldh newh = Some ro ->
  offload id (inclusions_of (ro_incl ro)) p = Ok q ->
  p_limbo q = p_limbo p \/
  exists it blk b t, p_limbo q = limbo_push (p_limbo p) (i_tx it) blk /\
                     reach bs newh b /\ b_num b = blk /\ In t (b_txs b) /\ bt_id t = t_id (i_tx it).
Proof. exact reset_push_sound. Qed.
Print Assumptions C42_limbo_entries_are_inclusions_of_the_current_chain.

(* limbo.push of an untracked transaction records it under the including block *)
Theorem C42_limbo_push_records_block : forall l t blk b id,
  aget (l_index l) (t_id t) = None ->
  billy_put (l_store l) (t_shelf t) (mkItem t blk) = Some (b, id) ->
  let l' := limbo_push l t blk in
  aget (l_index l') (t_id t) = Some id /\
  (exists g, aget (l_groups l') blk = Some g /\ aget g id = Some (t_id t)) /\
  billy_get (l_store l') id = billy_get b id.
Proof. exact limbo_push_spec. Qed.
Print Assumptions C42_limbo_push_records_block.

(* eviction, the part that holds: drop() removes exactly the last transaction of the heap's
   first account, and the loop only returns within the data cap *)
Theorem C42_drop_removes_last_of_heap_top : forall prioE prioB gtE gtB p q,
  drop prioE prioB gtE gtB p = Ok q ->
  exists from hr d, p_heap p = from :: hr /\ last_opt (txs_of p from) = Some d /\
    txs_of q from = removelast (txs_of p from) /\
    (forall a, a <> from -> aget (p_index q) a = aget (p_index p) a).
Proof. exact drop_effect. Qed.
Print Assumptions C42_drop_removes_last_of_heap_top.

Theorem C42_eviction_loop_ends_within_datacap : forall prioE prioB gtE gtB c fuel p q,
  drop_loop prioE prioB gtE gtB c fuel p = Ok q -> p_stored q <= c_datacap c.
Proof. exact drop_loop_cap. Qed.
Print Assumptions C42_eviction_loop_ends_within_datacap.

(* reopen_reproduces, the pool-side half (clean shutdown).  recheck as Init runs it leaves a
   well-formed account exactly as it is: nothing is dropped, whatever order the store hands the
   entries back in ... *)
Theorem C42_recheck_keeps_wellformed_account : forall prioE prioB a p l0 first tl,
  aget (p_index p) a = Some l0 ->
  sort_metas l0 = first :: tl ->
  chain (first :: tl) -> m_nonce first = nonce_of p a ->
  aget (p_spent p) a = Some (sum_cost l0) -> sum_cost l0 <= bal_of p a ->
  (length (first :: tl) <= maxTxsPerAccount)%nat ->
  recheck prioE prioB false a None p =
  Ok (set_index (aset (aset (p_index p) a (first :: tl)) a (reev None (first :: tl) 0)) p).
Proof. exact recheck_keeps_wellformed. Qed.
Print Assumptions C42_recheck_keeps_wellformed_account.

(* ... so for the running pool p (Inv, prefix minima, within the cap) and the pool x that Init has
   built by tracking the store entries (any order, fresh store ids, fields unset, same chain
   state): if the nonce-sorted tracked entries of an account carry the transactions of p's list,
   the reopened account has the same transactions in the same order, the same three eviction
   fields and the same spent total. *)
Theorem C42_reopen_account_reproduces : forall prioE prioB a p x s l0 s0,
  aget (p_index p) a = Some s -> acct_ok p a -> rk p a -> (length s <= maxTxsPerAccount)%nat ->
  p_nonce x = p_nonce p -> p_bal x = p_bal p ->
  aget (p_index x) a = Some l0 -> sort_metas l0 = s0 -> map m_tx s0 = map m_tx s ->
  aget (p_spent x) a = Some (sum_cost l0) ->
  exists y s2, recheck prioE prioB false a None x = Ok y /\
    aget (p_index y) a = Some s2 /\ map m_tx s2 = map m_tx s /\ map evs s2 = map evs s /\
    aget (p_spent y) a = aget (p_spent p) a.
Proof. exact reopen_account. Qed.
Print Assumptions C42_reopen_account_reproduces.

(* ... and the order in which the store hands the entries back does not matter: the tracked
   entries may be ANY permutation of the running account's transactions (whose nonces are strictly
   increasing) *)
Theorem C42_reopen_account_reproduces_any_store_order : forall prioE prioB a p x s l0,
  aget (p_index p) a = Some s -> acct_ok p a -> rk p a -> (length s <= maxTxsPerAccount)%nat ->
  Sorted.StronglySorted tx_lt (map m_tx s) ->
  p_nonce x = p_nonce p -> p_bal x = p_bal p ->
  aget (p_index x) a = Some l0 -> Permutation.Permutation (map m_tx l0) (map m_tx s) ->
  aget (p_spent x) a = Some (sum_cost l0) ->
  exists y s2, recheck prioE prioB false a None x = Ok y /\
    aget (p_index y) a = Some s2 /\ map m_tx s2 = map m_tx s /\ map evs s2 = map evs s /\
    aget (p_spent y) a = aget (p_spent p) a.
Proof. exact reopen_account_perm. Qed.
Print Assumptions C42_reopen_account_reproduces_any_store_order.

(* the store half: billy.Open (shelf.go compact, the two-directional loop) on what a clean Close
   left on disk hands the index callback exactly the live entries of the store, each once (store
   ids may differ: compaction moves entries) *)
Theorem C42_billy_open_after_close_returns_live_entries : forall (b : billy) b' calls,
  billy_open (close_image b) = (b', calls) ->
  Permutation.Permutation (map snd calls) (map snd (billy_live b)).
Proof. exact billy_open_close. Qed.
Print Assumptions C42_billy_open_after_close_returns_live_entries.

(* reopen_reproduces for clean shutdowns: Init on what a clean Close of the queue store leaves on
   disk rebuilds every account with the same transactions in the same order, the same three
   eviction fields and the same spent total.  Guards: Inv and RInv (both hold over all
   histories), every account within the per-account cap and with strictly increasing nonces, index
   and queue store describe the same transactions (per sender, no duplicate hashes), pooled tips
   >= tip, stored slot sizes within Datacap (a Reset that reinjects can break the last two: then
   Init legitimately drops), same chain state *)
Theorem C42_clean_restart_reproduces : forall prioE prioB gtE gtB c p limg head tip q,
  Inv p -> RInv p -> within_cap p -> strict_nonces p ->
  (forall a, Permutation.Permutation (txs_by a (billy_live (p_store p))) (map m_tx (txs_of p a))) ->
  NoDup (map (fun cl => t_id (call_tx cl)) (billy_live (p_store p))) ->
  tips_ok tip p ->
  sum_sizes (map call_tx (billy_live (p_store p))) <= c_datacap c ->
  b_nonce head = p_nonce p -> b_bal head = p_bal p ->
  pool_init prioE prioB gtE gtB c false (close_image (p_store p)) limg head tip = Ok q ->
  forall a, same_acct p q a.
Proof. exact clean_restart_reproduces. Qed.
Print Assumptions C42_clean_restart_reproduces.

(* the store laws of the billy shelf model (shelf.go getSlot / update / Delete with tail
   truncation), for shelves whose gap list is in range and strictly increasing (preserved):
   Put returns a slot no live id names, makes it live with the item, and leaves every other
   live slot alive with its content *)
Theorem C42_shelf_put_laws : forall s it s' slot,
  shelf_wf s -> shelf_put s it = (s', slot) ->
  ~ live_slot s slot /\ live_slot s' slot /\ slot_get s' slot = Some (Some it) /\ shelf_wf s' /\
  (forall j, live_slot s j -> live_slot s' j /\ slot_get s' j = slot_get s j).
Proof. exact shelf_put_laws. Qed.
Print Assumptions C42_shelf_put_laws.

(* Delete kills its slot and leaves every other live slot alive with its content *)
Theorem C42_shelf_delete_laws : forall s slot,
  shelf_wf s -> slot < lenN (sh_slots s) ->
  let s' := shelf_delete s slot in
  shelf_wf s' /\ ~ live_slot s' slot /\
  (forall j, live_slot s j -> j <> slot -> live_slot s' j /\ slot_get s' j = slot_get s j).
Proof. exact shelf_delete_laws. Qed.
Print Assumptions C42_shelf_delete_laws.

(* the same laws for billy ids (slot | shelf<<28) as the pool and the limbo use them.  Put:
   the id is new (no live id equals it), live afterwards, Get returns the item, every other live
   id stays live with the same Get.  Guard: the shelf written to holds fewer than 2^28 slots *)
Theorem C42_billy_put_laws : forall b k s it b' id,
  billy_wf b -> nth_error b (N.to_nat k) = Some s -> lenN (sh_slots s) < two28 ->
  billy_put b k it = Some (b', id) ->
  ~ live_id b id /\ live_id b' id /\ billy_get b' id = Ok (Some it) /\ billy_wf b' /\
  (forall j, live_id b j -> live_id b' j /\ billy_get b' j = billy_get b j).
Proof. exact billy_put_laws. Qed.
Print Assumptions C42_billy_put_laws.

(* Delete of a live id: the id is dead afterwards, every other live id stays live with the same Get *)
Theorem C42_billy_delete_laws : forall b id b',
  billy_wf b -> live_id b id -> billy_delete b id = Ok b' ->
  billy_wf b' /\ ~ live_id b' id /\
  (forall j, live_id b j -> j <> id -> live_id b' j /\ billy_get b' j = billy_get b j).
Proof. exact billy_delete_laws. Qed.
Print Assumptions C42_billy_delete_laws.

(* completeness of reorg()'s walk: every block of the old chain is a block of the new chain or
   all its transactions are reported as discarded (block ids unique, both heads known) *)
Theorem C42_reorg_walk_complete : forall bs oldh newh ro,
  ids_unique bs -> In oldh bs -> In newh bs ->
  reorg bs oldh newh = Some ro ->
  forall b, reach bs oldh b -> reach bs newh b \/ (forall t, In t (b_txs b) -> In t (ro_disc ro)).
Proof. exact reorg_walk_complete. Qed.
Print Assumptions C42_reorg_walk_complete.

(* the limbo frame of recheck (both versions of the gap test): called by Reset it only pushes
   stored transactions under the block numbers the inclusion map records for them; called by
   Init (no inclusions) it leaves the limbo alone *)
Theorem C42_recheck_limbo_frame : forall prioE prioB lg a incl p q,
  recheck prioE prioB lg a incl p = Ok q ->
  match incl with
  | Some inc => pushed inc (p_limbo p) (p_limbo q)
  | None => p_limbo q = p_limbo p
  end.
Proof. exact recheck_limbo. Qed.
Print Assumptions C42_recheck_limbo_frame.

(* what a Reset leaves in the limbo (code as found or repaired): every group entry is above the
   finalised block and was there before the Reset or is an inclusion in a block of the new
   chain.  Guard: no transaction included on the new branch currently sits in the limbo
   (limbo.update finds nothing to move) *)
Theorem C42_reset_limbo_entries : forall prioE prioB nearE nearB lg ll bs newh final p q oldh,
  get_block bs (p_head p) = Some oldh ->
  (forall ro, reorg bs oldh newh = Some ro ->
              forall x, In x (ro_incl ro) -> aget (l_index (p_limbo p)) (bt_id (fst x)) = None) ->
  pool_reset prioE prioB nearE nearB lg ll bs newh final p = Ok q ->
  forall b i h, gentry (p_limbo q) b i h ->
    final < b /\ (gentry (p_limbo p) b i h \/ incl_ok bs newh b h).
Proof. exact reset_limbo_entries. Qed.
Print Assumptions C42_reset_limbo_entries.

(* with walk completeness: a limbo sound for the old chain is, after the Reset, above the
   finalised block and sound for the new chain, except possibly for surviving entries of
   transactions in the reorg's discarded set (the ones reinject pulls by hash) *)
Theorem C42_reset_limbo_sound : forall prioE prioB nearE nearB lg ll bs newh final p q oldh ro,
  ids_unique bs -> In newh bs ->
  get_block bs (p_head p) = Some oldh -> reorg bs oldh newh = Some ro ->
  (forall x, In x (ro_incl ro) -> aget (l_index (p_limbo p)) (bt_id (fst x)) = None) ->
  csound bs oldh (p_limbo p) ->
  pool_reset prioE prioB nearE nearB lg ll bs newh final p = Ok q ->
  forall b i h, gentry (p_limbo q) b i h ->
    final < b /\
    (incl_ok bs newh b h \/ (gentry (p_limbo p) b i h /\ exists t, In t (ro_disc ro) /\ bt_id t = h)).
Proof. exact reset_limbo_sound. Qed.
Print Assumptions C42_reset_limbo_sound.

(* consistency of the limbo's three structures (lcons: hash index and per-block groups name the
   same (hash, id) pairs; every grouped id is live in the billy store and holds the item with
   that hash and block number) is kept by push — guard: the shelves of the limbo store hold
   fewer than 2^28 slots — ... *)
Theorem C42_limbo_push_keeps_consistent : forall l t blk,
  lcons l -> shelves_small (l_store l) -> lcons (limbo_push l t blk).
Proof. exact push_lcons. Qed.
Print Assumptions C42_limbo_push_keeps_consistent.

(* ... and by pull, after which no group lists the pulled hash any more ... *)
Theorem C42_limbo_pull_removes_hash : forall l h l' o,
  lcons l -> limbo_pull l h = Ok (l', o) -> lcons l' /\ forall b i, ~ gentry l' b i h.
Proof. exact pull_lcons. Qed.
Print Assumptions C42_limbo_pull_removes_hash.

(* ... so reinject (Reset putting a transaction of a dropped block back into the pool) leaves a
   consistent limbo that lists the transaction nowhere: pooled again, not in the limbo *)
Theorem C42_reinject_clears_limbo : forall a hh p q,
  lcons (p_limbo p) -> reinject a hh p = Ok q ->
  lcons (p_limbo q) /\ forall b i, ~ gentry (p_limbo q) b i hh.
Proof. exact reinject_clears. Qed.
Print Assumptions C42_reinject_clears_limbo.

(* crash cuts: every entry a clean Close leaves on disk is on disk, unchanged, after an abrupt
   stop (Delete never touches the disk: an abrupt stop can only resurrect entries) *)
Theorem C42_crash_image_contains_close_image : forall s i it,
  nth_error (shelf_close_image s) i = Some (Some it) -> nth_error (sh_slots s) i = Some (Some it).
Proof. exact close_in_crash. Qed.
Print Assumptions C42_crash_image_contains_close_image.

(* evict_order_matches_priority is FALSE of the faithful model: after three accepted Adds the
   heap's first account is not minimal for evictHeap.Less (the rolling tip of an account
   changed without heap.Fix).  Open finding C42-stale-evict-heap. *)
Theorem C42_evict_order_matches_priority_refuted :
  exists p, w1_before = Ok p /\ ~ top_minimal wprio wprio p.
Proof. exact evict_order_refuted. Qed.
Print Assumptions C42_evict_order_matches_priority_refuted.

(* limbo_until_final was FALSE of the code as found (legacy_limbo = true): a blob transaction
   mined in the head block above the finalised number is neither pooled nor in the limbo.
   Repaired finding C42-limbo-stale-block; the repaired model keeps it (next theorem). *)
Theorem C42_limbo_until_final_legacy_refuted :
  exists p, w2_mid true = Ok p /\
            In (mkBtx 0 0 true) (b_txs (blk2 3)) /\ p_head p = 3 /\ N0 + 1 < b_num (blk2 3) /\
            limbo_block p 0 = None /\ txs_of p 0 = [].
Proof. exact limbo_until_final_legacy_refuted. Qed.
Print Assumptions C42_limbo_until_final_legacy_refuted.

Theorem C42_limbo_until_final_repaired_witness :
  exists p, w2_mid false = Ok p /\ limbo_block p 0 = Some (b_num (blk2 3)).
Proof. exact limbo_repaired_witness. Qed.
Print Assumptions C42_limbo_until_final_repaired_witness.

(* blob_contiguous was FALSE of the code as found (legacy_gap = true): a reachable pool holds
   nonces 4,5 under state nonce 3.  Repaired finding C42-gap-after-stale-prefix. *)
Theorem C42_blob_contiguous_legacy_refuted :
  exists p, w3 true = Ok p /\ map m_nonce (txs_of p 0) = [4; 5] /\ nonce_of p 0 = 3.
Proof. exact contiguous_legacy_refuted. Qed.
Print Assumptions C42_blob_contiguous_legacy_refuted.

Theorem C42_blob_contiguous_repaired_witness :
  exists p, w3 false = Ok p /\ txs_of p 0 = [] /\ nonce_of p 0 = 3.
Proof. exact contiguous_repaired_witness. Qed.
Print Assumptions C42_blob_contiguous_repaired_witness.

(* blob_contiguous needs the guard "no Reset across more than 64 blocks since the last Init":
   reorg() is skipped there and the pool is never rechecked (documented behaviour) *)
Theorem C42_blob_contiguous_deep_reset_refuted :
  exists p, w4 = Ok p /\ map m_nonce (txs_of p 0) = [0; 4] /\ nonce_of p 0 = 3.
Proof. exact contiguous_deep_refuted. Qed.
Print Assumptions C42_blob_contiguous_deep_reset_refuted.

(* reopen_reproduces holds on this history for a clean shutdown and is FALSE for an abrupt stop
   of the same state: the replaced transaction is back on disk and wins the repeated nonce
   (billy does not journal deletes; documented) *)
Theorem C42_reopen_reproduces_crash_refuted :
  exists p q r, w5 = Ok p /\ w5_reopen close_image = Ok q /\ w5_reopen crash_image = Ok r /\
                ids_of p 0 = [1] /\ ids_of q 0 = [1] /\ ids_of r 0 = [0].
Proof. exact reopen_crash_refuted. Qed.
Print Assumptions C42_reopen_reproduces_crash_refuted.

(* the hypotheses of the invariant theorem are met by a non-trivial state (one account, two
   pooled transactions, over the data cap) on which the eviction loop really evicts *)
Example C42_nonvacuous :
  Inv p_ex /\
  exists q, drop_loop (fun _ _ => 0%Z) (fun _ _ => 0%Z) (fun a b => b <? a) (fun a b => b <? a)
                      (mkCfg 141376 100) 3 p_ex = Ok q /\ map m_id (txs_of q 0) = [0].
Proof. split; [exact p_ex_inv | exact p_ex_evicts]. Qed.

(* the guards of the all-histories theorem are met by a concrete history: Add, Reset that mines
   the transaction (it moves to the limbo), clean restart, Reset by a reorg to a sibling that
   does not contain it (reinjected from the limbo: it is pooled again) *)
Example C42_nonvacuous_history :
  exists p q, winit c2 false (blk2 0) = Ok p /\ Inv p /\
    hguard wprio wprio wgt wgt wnear wnear c2 false ops_nv p /\
    hrun2 wprio wprio wgt wgt wnear wnear c2 false ops_nv p = Ok q /\
    ids_of q 0 = [0].
Proof. exact history_nonvacuous. Qed.
