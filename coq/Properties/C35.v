(* Properties/C35.v — Header fee and gas arithmetic matches the specification.
   Property theorems only; each is closed by [exact] of a lemma of Gas/FeesProofs.v,
   relating the implementation model Gas/FeesImpl.v (transcribed from go-ethereum, with
   uint64/int64 wrap-around, big.Int and panics written out) to the specification
   Gas/Fees.v (the EIP formulas in unbounded Z).  Guards are explicit; where a guard is
   necessary a [_refuted]/example theorem exhibits the divergence beyond it. *)
From GV Require Import Lib.Tactics Gas.FeesImpl Gas.Fees Gas.FeesProofs.
Local Open Scope Z_scope.

(* --- gas limit (VerifyGaslimit).  Guard: |parent - header| < 2^63, implied by both
   being <= MaxGasLimit = 2^63-1, which header validation enforces for the header. *)
Theorem C35_gaslimit_eq_spec : forall p h,
  0 <= p < two64 -> 0 <= h < two64 -> Z.abs (p - h) < two63 ->
  verify_gaslimit p h = spec_gas_limit_class p h.
Proof. exact gaslimit_eq_spec. Qed.
Print Assumptions C35_gaslimit_eq_spec.

Theorem C35_gaslimit_eq_spec_capped : forall p h,
  0 <= p <= MaxGasLimit -> 0 <= h <= MaxGasLimit ->
  verify_gaslimit p h = spec_gas_limit_class p h.
Proof. exact gaslimit_eq_spec_capped. Qed.
Print Assumptions C35_gaslimit_eq_spec_capped.

Theorem C35_gaslimit_valid_iff : forall p h,
  0 <= p < two64 -> 0 <= h < two64 -> Z.abs (p - h) < two63 ->
  (verify_gaslimit p h = 0 <-> spec_gas_limit_valid p h = true).
Proof. exact gaslimit_valid_iff. Qed.
Print Assumptions C35_gaslimit_valid_iff.

(* beyond the guard the implementation accepts what the specification rejects … *)
Theorem C35_gaslimit_beyond_guard_refuted :
  exists p h, 0 <= p < two64 /\ 0 <= h <= MaxGasLimit /\
              verify_gaslimit p h = 0 /\ spec_gas_limit_class p h = 1.
Proof. exact gaslimit_beyond_guard_refuted. Qed.
Print Assumptions C35_gaslimit_beyond_guard_refuted.

(* … and that input is produced by VerifyEIP1559Header at the London transition block
   from limits that both respect the cap (the parent's limit is doubled) *)
Theorem C35_eip1559_transition_refuted :
  exists c parent hdr,
    is_london c (Some (h_number parent)) = false /\
    h_gas_limit parent <= MaxGasLimit /\ h_gas_limit hdr <= MaxGasLimit /\
    verify_eip1559_header c parent hdr = Ok 0 /\
    spec_gas_limit_valid (h_gas_limit parent * ELASTICITY_MULTIPLIER) (h_gas_limit hdr) = false.
Proof. exact eip1559_transition_refuted. Qed.
Print Assumptions C35_eip1559_transition_refuted.

(* --- base fee (CalcBaseFee, VerifyEIP1559Header) *)
Theorem C35_basefee_eq_spec : forall c p bf,
  is_london c (Some (h_number p)) = true ->
  h_base_fee p = Some bf -> 0 <= bf ->
  0 <= h_gas_limit p < two64 -> 0 <= h_gas_used p < two64 ->
  (2 <= h_gas_limit p \/ h_gas_used p = 0) ->
  calc_base_fee c p = Ok (spec_base_fee (h_gas_limit p) (h_gas_used p) bf).
Proof. exact basefee_eq_spec. Qed.
Print Assumptions C35_basefee_eq_spec.

Theorem C35_basefee_pre_london : forall c p,
  is_london c (Some (h_number p)) = false ->
  calc_base_fee c p = Ok (spec_expected_base_fee false (h_gas_limit p) (h_gas_used p) 0).
Proof. exact basefee_pre_london. Qed.
Print Assumptions C35_basefee_pre_london.

(* outside the guard of C35_basefee_eq_spec the function panics (big.Int division by zero) *)
Theorem C35_basefee_zero_target_panics : forall c p bf,
  is_london c (Some (h_number p)) = true -> h_base_fee p = Some bf ->
  0 <= h_gas_limit p < 2 -> 0 < h_gas_used p < two64 ->
  calc_base_fee c p = Panic PanicDivZero.
Proof. exact basefee_zero_target_panics. Qed.
Print Assumptions C35_basefee_zero_target_panics.

(* the step is at most max(parent/8, 1), at least +1 above target, within parent/8 below *)
Theorem C35_basefee_step_bound : forall c p bf r,
  is_london c (Some (h_number p)) = true ->
  h_base_fee p = Some bf -> 0 <= bf ->
  0 <= h_gas_limit p < two64 -> 0 <= h_gas_used p < two64 -> 2 <= h_gas_limit p ->
  h_gas_used p <= 2 * (h_gas_limit p / 2) ->
  calc_base_fee c p = Ok r ->
  Z.abs (r - bf) <= Z.max (bf / 8) 1 /\
  (h_gas_used p > h_gas_limit p / 2 -> bf + 1 <= r) /\
  (h_gas_used p < h_gas_limit p / 2 -> bf - bf / 8 <= r <= bf) /\
  (h_gas_used p = h_gas_limit p / 2 -> r = bf).
Proof. exact basefee_step_bound. Qed.
Print Assumptions C35_basefee_step_bound.

(* with only gasUsed <= gasLimit (odd limit, full block) the 1/8 bound is exceeded *)
Theorem C35_basefee_step_bound_odd_limit_refuted :
  exists c p bf r,
    is_london c (Some (h_number p)) = true /\ h_base_fee p = Some bf /\
    h_gas_used p <= h_gas_limit p /\ calc_base_fee c p = Ok r /\
    r - bf > Z.max (bf / 8) 1.
Proof. exact basefee_step_bound_odd_limit_refuted. Qed.
Print Assumptions C35_basefee_step_bound_odd_limit_refuted.

Theorem C35_verify_eip1559_eq_spec : forall c parent hdr bf hbf,
  is_london c (Some (h_number parent)) = true ->
  h_base_fee parent = Some bf -> 0 <= bf -> h_base_fee hdr = Some hbf ->
  0 <= h_gas_limit parent <= MaxGasLimit -> 0 <= h_gas_limit hdr <= MaxGasLimit ->
  0 <= h_gas_used parent < two64 -> (2 <= h_gas_limit parent \/ h_gas_used parent = 0) ->
  verify_eip1559_header c parent hdr =
    Ok (let e := spec_gas_limit_class (h_gas_limit parent) (h_gas_limit hdr) in
        if negb (e =? 0) then e
        else if hbf =? spec_base_fee (h_gas_limit parent) (h_gas_used parent) bf then 0 else 5).
Proof. exact verify_eip1559_eq_spec. Qed.
Print Assumptions C35_verify_eip1559_eq_spec.

(* --- fakeExponential.  Guards: positive denominator, non-negative numerator, and the
   Go loop counter (an int) stays below 2^63 for the explicit fuel bound. *)
Theorem C35_fake_exponential_eq_spec : forall f n d,
  0 < d -> 0 <= n -> Z.pos (fe_fuel f n d) < two63 - 1 ->
  exists r, fake_exponential f n d = Ok r /\ spec_fake_exponential f n d r.
Proof. exact fake_exponential_eq_spec. Qed.
Print Assumptions C35_fake_exponential_eq_spec.

Theorem C35_fake_exponential_spec_iff : forall f n d r,
  0 < d -> 0 <= n -> Z.pos (fe_fuel f n d) < two63 - 1 ->
  (fake_exponential f n d = Ok r <-> spec_fake_exponential f n d r).
Proof. exact fake_exponential_spec_iff. Qed.
Print Assumptions C35_fake_exponential_spec_iff.

(* fuel  2n/d+1 + (log2(f·d)+1) + (2n/d+1)·(log2(max n 1)+1) + 2  always suffices *)
Theorem C35_fake_exponential_terminates : forall f n d,
  0 < d -> 0 <= n -> Z.pos (fe_fuel f n d) < two63 - 1 ->
  fake_exponential f n d <> OutOfFuel /\ forall c, fake_exponential f n d <> Panic c.
Proof. exact fake_exponential_terminates. Qed.
Print Assumptions C35_fake_exponential_terminates.

Theorem C35_fake_exponential_zero_den : forall f n, fake_exponential f n 0 = Panic PanicDivZero.
Proof. exact fake_exponential_zero_den. Qed.
Print Assumptions C35_fake_exponential_zero_den.

(* --- blob base fee: for every uint64 excess and update fraction >= 512 *)
Theorem C35_blob_base_fee_eq_spec : forall bc e,
  0 <= e < two64 -> 512 <= bc_update_fraction bc < two64 ->
  exists fee, blob_base_fee bc e = Ok fee /\ spec_blob_base_fee (bc_update_fraction bc) e fee.
Proof. exact blob_base_fee_eq_spec. Qed.
Print Assumptions C35_blob_base_fee_eq_spec.

(* --- blob schedule selection (latestBlobConfig) *)
Theorem C35_latest_blob_config_eq_spec : forall c s lb time,
  cfg_blob_schedule c = Some s -> cfg_london_block c = Some lb ->
  option_map bp_of (latest_blob_config c time) = spec_active_blob_params time (schedule_list c s).
Proof. exact latest_blob_config_eq_spec. Qed.
Print Assumptions C35_latest_blob_config_eq_spec.

(* --- excess blob gas (calcExcessBlobGas).  Guards: no uint64 overflow. *)
Theorem C35_excess_blob_gas_eq_spec_4844 : forall bc p e u,
  parent_blob_fields p = Some (e, u) ->
  0 <= e -> 0 <= u -> e + u < two64 ->
  0 <= bc_target bc -> bc_target bc * 131072 < two64 ->
  calc_excess_blob_gas_inner false bc p = Ok (spec_excess_blob_gas_4844 (bp_of bc) e u).
Proof. exact excess_blob_gas_eq_spec_4844. Qed.
Print Assumptions C35_excess_blob_gas_eq_spec_4844.

Theorem C35_excess_blob_gas_eq_spec_7918 : forall bc p e u bf,
  parent_blob_fields p = Some (e, u) -> h_base_fee p = Some bf ->
  0 <= e -> 0 <= u -> e + u < two64 ->
  0 <= bc_target bc <= bc_max bc -> 0 < bc_max bc < two63 -> bc_target bc * 131072 < two64 ->
  u * (bc_max bc - bc_target bc) < two64 ->
  0 < bc_update_fraction bc -> Z.pos (fe_fuel 1 e (bc_update_fraction bc)) < two63 - 1 ->
  exists blobfee,
    spec_blob_base_fee (bc_update_fraction bc) e blobfee /\
    calc_excess_blob_gas_inner true bc p = Ok (spec_excess_blob_gas_7918 (bp_of bc) e u bf blobfee).
Proof. exact excess_blob_gas_eq_spec_7918. Qed.
Print Assumptions C35_excess_blob_gas_eq_spec_7918.

(* --- intrinsic gas: Ok with the unbounded value if it fits 64 bits, ErrGasUintOverflow
   otherwise.  Guard: the authorization-list product (added unchecked) does not wrap. *)
Theorem C35_intrinsic_gas_eq_spec : forall create self hasv auth dataLen z al r,
  0 <= z <= dataLen -> dataLen < two64 ->
  0 <= al_addresses al < two64 -> 0 <= al_keys al < two64 ->
  0 <= auth_count auth -> auth_count auth * 25000 < two64 - 53000 ->
  intrinsic_gas_n create self hasv auth dataLen z al r =
  res_of_unbounded
    (spec_intrinsic_gas (forks_of r) create self hasv (auth_count auth) z (dataLen - z)
                        (al_addresses al) (al_keys al)).
Proof. exact intrinsic_gas_eq_spec. Qed.
Print Assumptions C35_intrinsic_gas_eq_spec.

Theorem C35_intrinsic_gas_args_eq_spec : forall a r,
  zlen (ta_data a) < two64 ->
  0 <= auth_count (ta_auth_len a) -> auth_count (ta_auth_len a) * 25000 < two64 - 53000 ->
  intrinsic_gas a r =
  res_of_unbounded
    (spec_intrinsic_gas (forks_of r) (ta_is_create a) (ta_is_self a) (ta_has_value a)
       (auth_count (ta_auth_len a)) (count_zero (ta_data a)) (zlen (ta_data a) - count_zero (ta_data a))
       (al_addresses (ta_al_pair a)) (al_keys (ta_al_pair a))).
Proof. exact intrinsic_gas_args_eq_spec. Qed.
Print Assumptions C35_intrinsic_gas_args_eq_spec.

(* the guard is necessary: 737869762948383 authorizations wrap to a small Ok value *)
Theorem C35_intrinsic_gas_auth_wrap_example :
  let r := {| IsHomestead := true; IsIstanbul := true; IsShanghai := true; IsAmsterdam := false |} in
  intrinsic_gas_n false false false (Some 737869762948383) 0 0 None r = Ok 44384 /\
  spec_intrinsic_gas (forks_of r) false false false 737869762948383 0 0 0 0 = 18446744073709596000.
Proof. exact intrinsic_gas_auth_wrap_example. Qed.
Print Assumptions C35_intrinsic_gas_auth_wrap_example.

(* --- calldata floor *)
Theorem C35_floor_gas_eq_spec : forall create self hasv dataLen z addresses keys r,
  0 <= z <= dataLen -> dataLen < two64 ->
  0 <= addresses < two64 -> 0 <= keys < two64 ->
  floor_data_gas_n create self hasv dataLen z addresses keys r =
  res_of_unbounded
    (spec_floor_data_gas (forks_of r) create self hasv z (dataLen - z) addresses keys).
Proof. exact floor_gas_eq_spec. Qed.
Print Assumptions C35_floor_gas_eq_spec.

Theorem C35_floor_gas_args_eq_spec : forall a r,
  zlen (ta_data a) < two64 ->
  floor_data_gas a r =
  res_of_unbounded
    (spec_floor_data_gas (forks_of r) (ta_is_create a) (ta_is_self a) (ta_has_value a)
       (count_zero (ta_data a)) (zlen (ta_data a) - count_zero (ta_data a))
       (u64 (zlen (ta_al_list a))) (u64 (storage_keys (ta_al_list a)))).
Proof. exact floor_gas_args_eq_spec. Qed.
Print Assumptions C35_floor_gas_args_eq_spec.

(* AccessList.StorageKeys() is the true number of keys when it fits an int *)
Theorem C35_storage_keys_sum : forall al,
  Forall (fun n => 0 <= n) al -> fold_right Z.add 0 al < two63 ->
  storage_keys al = fold_right Z.add 0 al.
Proof. exact storage_keys_sum. Qed.
Print Assumptions C35_storage_keys_sum.

(* non-vacuity: the hypotheses are met by concrete non-trivial values *)
Example C35_nonvacuous :
  let c := {| cfg_london_block := Some 0; cfg_cancun_time := Some 0; cfg_prague_time := Some 10;
              cfg_osaka_time := Some 20; cfg_bpo1_time := Some 30; cfg_bpo2_time := None;
              cfg_bpo3_time := None; cfg_bpo4_time := None; cfg_bpo5_time := None;
              cfg_blob_schedule := Some {| bs_cancun := Some {| bc_target := 3; bc_max := 6; bc_update_fraction := 3338477 |};
                                           bs_prague := Some {| bc_target := 6; bc_max := 9; bc_update_fraction := 5007716 |};
                                           bs_bpo1 := Some {| bc_target := 10; bc_max := 15; bc_update_fraction := 8346193 |};
                                           bs_bpo2 := None; bs_bpo3 := None; bs_bpo4 := None; bs_bpo5 := None |} |} in
  let p := {| h_number := 7; h_gas_limit := 30000000; h_gas_used := 20000000; h_time := 24;
              h_base_fee := Some 1000000000; h_excess_blob_gas := Some 40000000;
              h_blob_gas_used := Some 917504 |} in
  verify_gaslimit 30000000 30029295 = 0 /\ verify_gaslimit 30000000 30029296 = 1 /\
  is_london c (Some (h_number p)) = true /\
  calc_base_fee c p = Ok 1041666666 /\
  Z.pos (fe_fuel 1 40000000 5007716) < two63 - 1 /\
  calc_blob_fee c p = Ok 2944 /\
  calc_excess_blob_gas c p 25 = Ok 40305834 /\
  calc_excess_blob_gas c p 15 = Ok 40131072 /\
  calc_excess_blob_gas c p 35 = Ok 40305834 /\
  intrinsic_gas {| ta_data := [0; 1; 2; 0]%N; ta_access_list := Some [2; 0]; ta_auth_len := Some 1;
                   ta_from := [1]%N; ta_to := None; ta_value := Some 5 |}
                {| IsHomestead := true; IsIstanbul := true; IsShanghai := true; IsAmsterdam := false |}
    = Ok 86642 /\
  floor_data_gas {| ta_data := [0; 1; 2; 0]%N; ta_access_list := None; ta_auth_len := None;
                    ta_from := [1]%N; ta_to := None; ta_value := None |}
                 {| IsHomestead := true; IsIstanbul := true; IsShanghai := true; IsAmsterdam := false |}
    = Ok 21100.
Proof. vm_compute. repeat split; congruence. Qed.
