(* Properties/C40.v — Log queries return exactly the matching canonical logs.
   Property theorems only, about the model Chain/LogIndex.v of /repo/core/filtermaps and
   /repo/eth/filters/filter.go; each closed by [exact] of a lemma of
   Chain/LogIndexProofs.v, LogIndexSeq.v, LogIndexQuery.v, LogIndexLayout.v, LogIndexExact.v,
   LogIndexHistory.v, LogIndexDyn.v.

   The row and column hash functions are arbitrary ([row_hash], [col_index]); the only
   hypothesis on them is [col_high]: the bits of a column index above hashBits are
   lvIndex mod valuesPerMap (math.go columnIndex).  [None] results (panic / error /
   fuel) are excluded by hypothesis, never assumed away.

   THE PROPERTY, proved as one equation (C40_query_exact, C40_query_exact_idle): for a
   chain, an index holding the chain's block pointers and - for the maps of its indexed
   range only - the rows rendered from the chain, and any block range first..last,
       range_logs first last = QOk ms  ->  scan chain first last = Some ms
   i.e. exactly the logs a direct scan of the canonical logs returns, in chain order, no
   duplicates, whether the range lies inside, outside or across the indexed blocks.
   The layers below it are kept as theorems of their own: getLogByLvIndex correctness
   (C40_get_log_correct: per-map narrowing, binary search on block pointers, walk through
   the block), C40_indexed_exact (range inside the indexed blocks: matcher over the maps
   + false positive removal = scan), completeness of the matcher (C40_potential_matches_
   complete, C40_sequence_complete), sortedness of its results, no panic, the fallback.
   Hypotheses: [col_high], baseRowLength < 2^32, every log has at most valuesPerMap values,
   [rg_ok] / [index_ok] (shown to hold for the index built from the chain at its idle
   range: C40_idle_range_ok).
   INDEXER PROGRESS: the invariant ([inv] = chain pointers + rendered rows on the indexed
   maps + well-formed range) is preserved by the three operations that change the index,
   modelled at map/epoch granularity: head rendering towards a new target chain that
   shares a prefix with the old one (extension or reorg; maps before the restart map are
   kept, later ones re-rendered, future entries removed), tail epoch unindexing
   (deleteTailEpoch incl. Range.SetFirst) and tail epoch indexing — C40_inv_step,
   C40_inv_init — hence THE PROPERTY at every state of every history of such operations:
   C40_history_exact.
   RUNNING QUERIES: the search session as a state machine over an environment (per
   environment call - SyncLogIndex / CurrentView - the canonical chain, the index and the
   ValidBlocks a sync reports; the chain and the index may change between any two calls):
   C40_trim_scan (searchSession.trimMatches of a scan = the scan of the trimmed range:
   keep the logs with first <= BlockNumber <= last) and C40_dyn_exact: for ANY environment
   whose syncs satisfy the SyncLogIndex contract, the accumulated matches are exactly the
   matching logs of the session's final chain view over the requested range, in order, no
   duplicates; C40_sync_contract derives the contract from the index invariant of the
   world the search ran on plus the meaning of ValidBlocks (blocks unchanged since the
   previous sync).
   NOT proved (correspondence only): that the real renderer's batching, snapshots,
   temp ranges and lastCanonicalMapBoundaryBefore realise the indexer operations with their
   guards (the first indexed block is shared with the target chain; the restart map lies
   inside the shared prefix - C40_restart_map_guard derives this guard from the Go
   criterion); that FilterMaps computes ValidBlocks as the contract requires; searches that
   overlap an index update in time (the environment changes only between a session's
   calls, as in the deterministic interleavings of the harness). *)
From GV Require Import Lib.Tactics Chain.LogIndex Chain.LogIndexProofs Chain.LogIndexSeq Chain.LogIndexQuery Chain.LogIndexLayout Chain.LogIndexExact Chain.LogIndexHistory Chain.LogIndexDyn.
Local Open Scope N_scope.

(* A value inserted at lv while rendering map m is among the potential matches the
   single matcher computes from that map's rows — for any hash functions with
   [col_high], any row lengths, incl. overflow to higher mapping layers. *)
Theorem C40_potential_matches_complete :
  forall (P : params) (row_hash : N -> nat -> N -> N) (col_index : N -> N -> N),
  (forall lv v, N.shiftr (col_index lv v) (p_hbits P) = lv mod vpm P) ->
  p_brl P < two32 ->
  forall fuel fuel' vals m rw lv v l,
  render_map P row_hash col_index fuel vals m = Some rw ->
  In (lv, v) vals -> lv / vpm P = m ->
  single_match P row_hash col_index fuel' rw m v = Some l -> In lv l.
Proof. exact potential_matches_complete. Qed.
Print Assumptions C40_potential_matches_complete.

(* the matcher's row collection always ends with a non-full row: potentialMatches'
   panic("insufficient list of row alternatives") is unreachable from the matcher *)
Theorem C40_matcher_no_panic :
  forall (P : params) (row_hash : N -> nat -> N -> N) (col_index : N -> N -> N) fuel rw m v rws,
  collect_rows P row_hash fuel rw m v 0 = Some rws -> potential_matches P col_index rws m v <> None.
Proof. exact single_match_no_panic. Qed.
Print Assumptions C40_matcher_no_panic.

(* results of a single matcher are strictly increasing and inside the map *)
Theorem C40_single_match_sorted :
  forall (P : params) (row_hash : N -> nat -> N -> N) (col_index : N -> N -> N),
  (forall lv v, N.shiftr (col_index lv v) (p_hbits P) = lv mod vpm P) ->
  p_brl P < two32 ->
  forall fuel rw m v l,
  single_match P row_hash col_index fuel rw m v = Some l -> ssorted l /\ in_map P m l.
Proof. exact single_match_ok. Qed.
Print Assumptions C40_single_match_sorted.

(* mergeResults (matchAny with alternatives): the strictly increasing union *)
Theorem C40_merge_results :
  forall rs out, merge_results rs = Some out -> (forall r, In r rs -> ssorted r) ->
  ssorted out /\ forall y, In y out <-> exists r, In r rs /\ In y r.
Proof. exact merge_results_spec. Qed.
Print Assumptions C40_merge_results.

(* A log lying inside map m, rendered on the map, whose address and topics pass the
   filter (addresses: empty = any; topic position i: empty = wild card, else one of the
   alternatives; fewer positions than topics allowed) has its FIRST log value index in
   the result of the sequence matcher address@0, topic i@i+1 — or the result is the
   wild card. *)
Theorem C40_sequence_complete :
  forall (P : params) (addr_value topic_value : N -> N)
         (row_hash : N -> nat -> N -> N) (col_index : N -> N -> N),
  (forall lv v, N.shiftr (col_index lv v) (p_hbits P) = lv mod vpm P) ->
  p_brl P < two32 ->
  forall fuel0 fuel vals rw m pos l addrs topics R,
  render_map P row_hash col_index fuel0 vals m = Some rw ->
  incl (values_of addr_value topic_value (pos, l)) vals ->
  pos / vpm P = m -> (pos + log_len l - 1) / vpm P = m ->
  check addrs topics l = true ->
  eval_map P addr_value topic_value row_hash col_index fuel rw m addrs topics = Some R ->
  covers R pos.
Proof. exact sequence_complete_rendered. Qed.
Print Assumptions C40_sequence_complete.

(* the sequence matcher's result is the wild card or strictly increasing inside the map
   (so concatenating the maps in order gives candidates in chain order, no duplicates) *)
Theorem C40_sequence_sorted :
  forall (P : params) (row_hash : N -> nat -> N -> N) (col_index : N -> N -> N),
  (forall lv v, N.shiftr (col_index lv v) (p_hbits P) = lv mod vpm P) ->
  p_brl P < two32 ->
  forall fuel rw m pos pats R, pats <> [] ->
  match_seq_rev P row_hash col_index fuel rw m (rev pats) = Some R ->
  res_ok P m R /\
  (seq_matches P row_hash col_index rw m pos pats -> m * vpm P <= pos ->
   (pos + N.of_nat (length pats) - 1) / vpm P = m -> covers R pos).
Proof. exact match_seq_rev_spec. Qed.
Print Assumptions C40_sequence_sorted.

(* matchSequence's dropIndices optimisation is sound: an empty child decides the result *)
Theorem C40_drop_sound :
  forall P m off x,
  match_results P m off (Some []) x = Some [] /\ match_results P m off x (Some []) = Some [].
Proof. intros. split; [apply match_results_drop_next | apply match_results_drop_base]. Qed.
Print Assumptions C40_drop_sound.

(* a block range that does not meet the indexed block range is answered by the direct
   scan of the canonical logs alone *)
Theorem C40_unindexed_falls_back :
  forall (P : params) (addr_value topic_value : N -> N)
         (row_hash : N -> nat -> N -> N) (col_index : N -> N -> N)
         fuel chain ix rg head addrs topics f l,
  f <= l -> l <= head ->
  rng_empty (rng_inter (f, l + 1) (indexed_blocks rg)) = true ->
  range_logs P addr_value topic_value row_hash col_index fuel chain ix rg head addrs topics (Some f) (Some l) =
  match scan chain addrs topics f l with Some ms => QOk ms | None => QFail end.
Proof. exact unindexed_falls_back. Qed.
Print Assumptions C40_unindexed_falls_back.

(* the pieces of a straddling search concatenate to the scan of the whole range, in order *)
Theorem C40_scan_split :
  forall chain addrs topics first k last, first < k -> k <= last ->
  scan chain addrs topics first last =
  match scan chain addrs topics first (k - 1), scan chain addrs topics k last with
  | Some a, Some b => Some (a ++ b) | _, _ => None end.
Proof. exact scan_split. Qed.
Print Assumptions C40_scan_split.

(* getLogByLvIndex on an index whose block pointers are the chain's layout: for every log
   value index lv at or after the first indexed block and inside the rendered maps it
   returns the log whose FIRST value is at lv, and none otherwise *)
Theorem C40_get_log_correct :
  forall (P : params) (chain : list (list log)) lay e',
  layout_blocks P 0 chain = (lay, e') -> chain <> [] ->
  forall ix, ix_ptrs ix = map fst lay ->
  forall rg lv bf pf,
  r_bfirst rg = N.of_nat bf -> nth_error (ix_ptrs ix) bf = Some pf -> pf <= lv ->
  r_mfirst rg <= lv / vpm P -> lv / vpm P < r_mafter rg ->
  get_log_by_lv_index P chain ix rg lv = Some (lookup (placed_of lay) lv).
Proof. exact get_log_spec. Qed.
Print Assumptions C40_get_log_correct.

(* a block range inside the indexed blocks: the matcher over the maps of the range, the
   log lookups and the final filterLogs together return exactly the direct scan *)
Theorem C40_indexed_exact :
  forall (P : params) (addr_value topic_value : N -> N)
         (row_hash : N -> nat -> N -> N) (col_index : N -> N -> N),
  (forall lv v, N.shiftr (col_index lv v) (p_hbits P) = lv mod vpm P) ->
  p_brl P < two32 ->
  forall fuel0 fuel chain lay e' ix rg first last addrs topics out,
  layout_blocks P 0 chain = (lay, e') ->
  index_ok P addr_value topic_value row_hash col_index fuel0 lay e' ix rg ->
  (forall b l, In b chain -> In l b -> log_len l <= vpm P) ->
  rg_ok P lay ix rg ->
  fst (indexed_blocks rg) <= first -> first <= last -> last < snd (indexed_blocks rg) ->
  indexed_logs P addr_value topic_value row_hash col_index fuel chain ix rg first last addrs topics
    = Some (IxLogs out) ->
  scan chain addrs topics first last = Some out.
Proof. exact indexed_exact. Qed.
Print Assumptions C40_indexed_exact.

(* THE PROPERTY: whatever part of first..last is indexed, rangeLogs returns the scan *)
Theorem C40_query_exact :
  forall (P : params) (addr_value topic_value : N -> N)
         (row_hash : N -> nat -> N -> N) (col_index : N -> N -> N),
  (forall lv v, N.shiftr (col_index lv v) (p_hbits P) = lv mod vpm P) ->
  p_brl P < two32 ->
  forall fuel0 fuel chain lay e' ix rg head addrs topics first last ms,
  layout_blocks P 0 chain = (lay, e') ->
  index_ok P addr_value topic_value row_hash col_index fuel0 lay e' ix rg ->
  (forall b l, In b chain -> In l b -> log_len l <= vpm P) ->
  rg_ok P lay ix rg ->
  range_logs P addr_value topic_value row_hash col_index fuel chain ix rg head addrs topics first last = QOk ms ->
  scan chain addrs topics (match first with Some f => f | None => head end)
                          (match last with Some l => l | None => head end) = Some ms.
Proof. exact query_exact. Qed.
Print Assumptions C40_query_exact.

(* the index built from the chain, with the range the idle indexer settles on, meets
   [rg_ok] and [index_ok] ... *)
Theorem C40_idle_range_ok :
  forall (P : params) (addr_value topic_value : N -> N)
         (row_hash : N -> nat -> N -> N) (col_index : N -> N -> N),
  (forall lv v, N.shiftr (col_index lv v) (p_hbits P) = lv mod vpm P) ->
  p_brl P < two32 ->
  forall fuel0 chain lay e' ix head history cutoff,
  layout_blocks P 0 chain = (lay, e') ->
  build_index P addr_value topic_value row_hash col_index fuel0 chain = Some ix ->
  N.of_nat (length chain) = head + 1 ->
  rg_ok P lay ix (idle_range P ix head history cutoff) /\
  index_ok P addr_value topic_value row_hash col_index fuel0 lay e' ix (idle_range P ix head history cutoff).
Proof. exact idle_range_ok. Qed.
Print Assumptions C40_idle_range_ok.

(* ... hence the property for it, with no side condition on the index *)
Theorem C40_query_exact_idle :
  forall (P : params) (addr_value topic_value : N -> N)
         (row_hash : N -> nat -> N -> N) (col_index : N -> N -> N),
  (forall lv v, N.shiftr (col_index lv v) (p_hbits P) = lv mod vpm P) ->
  p_brl P < two32 ->
  forall fuel0 fuel chain ix head history cutoff addrs topics first last ms,
  build_index P addr_value topic_value row_hash col_index fuel0 chain = Some ix ->
  (forall b l, In b chain -> In l b -> log_len l <= vpm P) ->
  N.of_nat (length chain) = head + 1 ->
  range_logs P addr_value topic_value row_hash col_index fuel chain ix
             (idle_range P ix head history cutoff) head addrs topics first last = QOk ms ->
  scan chain addrs topics (match first with Some f => f | None => head end)
                          (match last with Some l => l | None => head end) = Some ms.
Proof. exact query_exact_idle. Qed.
Print Assumptions C40_query_exact_idle.

(* the index invariant holds initially (index built from the chain, idle range) ... *)
Theorem C40_inv_init :
  forall (P : params) (addr_value topic_value : N -> N)
         (row_hash : N -> nat -> N -> N) (col_index : N -> N -> N)
         fuel0 chain ix head history cutoff,
  build_index P addr_value topic_value row_hash col_index fuel0 chain = Some ix ->
  (forall b l, In b chain -> In l b -> log_len l <= vpm P) ->
  N.of_nat (length chain) = head + 1 ->
  (forall lv v, N.shiftr (col_index lv v) (p_hbits P) = lv mod vpm P) -> p_brl P < two32 ->
  inv P addr_value topic_value row_hash col_index fuel0
      (mkIState chain ix (idle_range P ix head history cutoff)).
Proof. exact inv_init. Qed.
Print Assumptions C40_inv_init.

(* ... and is preserved by head rendering towards a new target chain (extension or
   reorg), tail epoch unindexing and tail epoch indexing *)
Theorem C40_inv_step :
  forall (P : params) (addr_value topic_value : N -> N)
         (row_hash : N -> nat -> N -> N) (col_index : N -> N -> N) fuel0 st st',
  inv P addr_value topic_value row_hash col_index fuel0 st ->
  istep P addr_value topic_value row_hash col_index fuel0 st st' ->
  inv P addr_value topic_value row_hash col_index fuel0 st'.
Proof. exact inv_step. Qed.
Print Assumptions C40_inv_step.

(* THE PROPERTY at every state reachable by a history of indexer operations: chains with
   reorgs, head and tail of the index moving *)
Theorem C40_history_exact :
  forall (P : params) (addr_value topic_value : N -> N)
         (row_hash : N -> nat -> N -> N) (col_index : N -> N -> N),
  (forall lv v, N.shiftr (col_index lv v) (p_hbits P) = lv mod vpm P) ->
  p_brl P < two32 ->
  forall fuel0 fuel st0 st head addrs topics first last ms,
  inv P addr_value topic_value row_hash col_index fuel0 st0 ->
  isteps P addr_value topic_value row_hash col_index fuel0 st0 st ->
  range_logs P addr_value topic_value row_hash col_index fuel (is_chain st) (is_ix st) (is_rg st)
             head addrs topics first last = QOk ms ->
  scan (is_chain st) addrs topics (match first with Some f => f | None => head end)
                                  (match last with Some l => l | None => head end) = Some ms.
Proof. exact history_exact. Qed.
Print Assumptions C40_history_exact.

(* the restart map of a head rendering chosen by the criterion of
   lastCanonicalMapBoundaryBefore (the stored last block B of map m0-1 lies in the prefix
   of c blocks shared with the target chain, and m0-1 is not the last rendered map) meets
   the guard of the head rendering step: all log values below m0*valuesPerMap come from
   the shared prefix *)
Theorem C40_restart_map_guard :
  forall (P : params) chain lay e' ix m0 B c,
  layout_blocks P 0 chain = (lay, e') -> chain <> [] -> ix_ptrs ix = map fst lay ->
  0 < m0 -> last_block_of_map P ix (m0 - 1) = N.of_nat B -> (B < c)%nat -> (c <= length chain)%nat ->
  m0 * vpm P + 2 <= e' ->
  m0 * vpm P <= snd (layout_blocks P 0 (firstn c chain)).
Proof. exact (fun P => restart_map_guard P idv idv (fun _ _ _ => 0) (fun _ _ => 0)). Qed.
Print Assumptions C40_restart_map_guard.

(* searchSession.trimMatches applied to the scan of blocks x..y-1 leaves the scan of the
   intersection with the trim range (or nothing): no log of a block outside the range
   survives, none inside is lost *)
Theorem C40_trim_scan :
  forall c addrs topics, wf_chain c ->
  forall x y a z ms, x < y -> scan c addrs topics x (y - 1) = Some ms ->
  trim_ok c addrs topics (x, y) (trim_matches (a, z) (x, y) ms) /\
  (forall x' y', fst (trim_matches (a, z) (x, y) ms) = (x', y') -> x' < y' -> a <= x' /\ y' <= z).
Proof. exact trim_scan. Qed.
Print Assumptions C40_trim_scan.

(* a query RUNNING while the chain and the index move: for any environment (chain, index
   and sync result per environment call) that satisfies the SyncLogIndex contract, the
   result is exactly the scan of the chain view of the session's last CurrentView call
   over the requested range *)
Theorem C40_dyn_exact :
  forall (P : params) (addr_value topic_value : N -> N)
         (row_hash : N -> nat -> N -> N) (col_index : N -> N -> N)
         fuel (env_world : nat -> dworld) (env_valid : nat -> rng) addrs topics firstB lastB,
  (forall t, wf_chain (dw_chain (env_world t))) ->
  (forall t view x y res, wf_chain view -> x < y ->
     (exists ts, (ts <= t - 1)%nat /\ fst (indexed_blocks (dw_rg (env_world ts))) <= x /\
                 y <= snd (indexed_blocks (dw_rg (env_world ts)))) ->
     indexed_logs P addr_value topic_value row_hash col_index fuel
                  (dw_chain (env_world (t - 1)%nat)) (dw_ix (env_world (t - 1)%nat)) (dw_rg (env_world (t - 1)%nat))
                  x (y - 1) addrs topics = Some (IxLogs res) ->
     trim_ok view addrs topics (x, y)
             (trim_matches (rng_inter (env_valid t) (0, shared_len view (dw_chain (env_world t)))) (x, y) res)) ->
  forall ms,
  d_range_logs P addr_value topic_value row_hash col_index fuel env_world env_valid addrs topics firstB lastB = DOk ms ->
  exists t, let view := dw_chain (env_world t) in
            scan view addrs topics (resolve firstB view) (resolve lastB view) = Some ms.
Proof. exact dyn_exact. Qed.
Print Assumptions C40_dyn_exact.

(* the SyncLogIndex contract follows from the index invariant of the world the search ran
   on (so the raw result is the scan of that world's chain), and the meaning of
   ValidBlocks: the blocks of V are the same at search time and at sync time *)
Theorem C40_sync_contract :
  forall (P : params) (addr_value topic_value : N -> N)
         (row_hash : N -> nat -> N -> N) (col_index : N -> N -> N),
  (forall lv v, N.shiftr (col_index lv v) (p_hbits P) = lv mod vpm P) ->
  p_brl P < two32 ->
  forall fuel0 fuel (ws wy : dworld) (V : rng) view addrs topics x y res,
  inv P addr_value topic_value row_hash col_index fuel0 (mkIState (dw_chain ws) (dw_ix ws) (dw_rg ws)) ->
  wf_chain (dw_chain ws) ->
  (forall b, fst V <= N.of_nat b -> N.of_nat b < snd V ->
             nth_error (dw_chain ws) b = nth_error (dw_chain wy) b) ->
  x < y -> fst (indexed_blocks (dw_rg ws)) <= x -> y <= snd (indexed_blocks (dw_rg ws)) ->
  indexed_logs P addr_value topic_value row_hash col_index fuel (dw_chain ws) (dw_ix ws) (dw_rg ws)
               x (y - 1) addrs topics = Some (IxLogs res) ->
  trim_ok view addrs topics (x, y)
          (trim_matches (rng_inter V (0, shared_len view (dw_chain wy))) (x, y) res).
Proof. exact sync_contract. Qed.
Print Assumptions C40_sync_contract.

(* composition with the index invariant (C40_inv_init / C40_inv_step): a query running
   over worlds that all satisfy the invariant, whose indexed block range only grows while
   the query runs and whose syncs report ValidBlocks with their intended meaning, returns
   exactly the scan of its final chain view *)
Theorem C40_dyn_exact_worlds :
  forall (P : params) (addr_value topic_value : N -> N)
         (row_hash : N -> nat -> N -> N) (col_index : N -> N -> N),
  (forall lv v, N.shiftr (col_index lv v) (p_hbits P) = lv mod vpm P) ->
  p_brl P < two32 ->
  forall fuel0 fuel (env_world : nat -> dworld) (env_valid : nat -> rng) addrs topics firstB lastB ms,
  (forall t, wf_chain (dw_chain (env_world t))) ->
  (forall t, inv P addr_value topic_value row_hash col_index fuel0
                 (mkIState (dw_chain (env_world t)) (dw_ix (env_world t)) (dw_rg (env_world t)))) ->
  (forall t t', (t <= t')%nat ->
     fst (indexed_blocks (dw_rg (env_world t'))) <= fst (indexed_blocks (dw_rg (env_world t))) /\
     snd (indexed_blocks (dw_rg (env_world t))) <= snd (indexed_blocks (dw_rg (env_world t')))) ->
  (forall t b, fst (env_valid t) <= N.of_nat b -> N.of_nat b < snd (env_valid t) ->
     nth_error (dw_chain (env_world (t - 1)%nat)) b = nth_error (dw_chain (env_world t)) b) ->
  d_range_logs P addr_value topic_value row_hash col_index fuel env_world env_valid addrs topics firstB lastB = DOk ms ->
  exists t, let view := dw_chain (env_world t) in
            scan view addrs topics (resolve firstB view) (resolve lastB view) = Some ms.
Proof. exact dyn_exact_worlds. Qed.
Print Assumptions C40_dyn_exact_worlds.

(* non-vacuity: a concrete parameter set and hash functions satisfying [col_high]
   (8 values per map, 2 hash bits, rows of length 2 so the third equal value overflows to
   layer 1), a rendered map, and a filter that finds the log at index 9 *)
Example C40_nonvacuous : c40_demo = true.
Proof. vm_compute. reflexivity. Qed.

(* non-vacuity of C40_query_exact_idle: the demo column hash satisfies [col_high] for all
   arguments, and on a 7-block chain (4 maps, idle range starting at block 4 / map 2) a
   query across the indexed range returns the 6 logs of the scan *)
Example C40_nonvacuous_col_high :
  forall lv v, N.shiftr (demo_col lv v) (p_hbits demoP) = lv mod vpm demoP.
Proof. exact demo_col_high. Qed.
Example C40_nonvacuous_query : c40_demo_query = true.
Proof. vm_compute. reflexivity. Qed.

(* non-vacuity of the history theorems: the guard of a head rendering step that reorgs the
   demo chain (fork at block 5, restart at map 2) holds, and along reorg -> unindex tail
   epoch 1 -> index it again the ranges move as expected and the query equals the scan *)
Example C40_nonvacuous_head_guard : head_guard demoP demo_st0 demo_new 2 5.
Proof. exact demo_head_guard. Qed.
Example C40_nonvacuous_history : c40_demo_history = true.
Proof. vm_compute. reflexivity. Qed.

(* non-vacuity of the running-query theorems: a query over blocks 0..latest during which
   the demo chain is reorged between the first indexed search and its sync (ValidBlocks
   shrinks to the shared prefix) returns the 8 logs of the scan of the new chain *)
Example C40_nonvacuous_running_query : c40_demo_dyn = true.
Proof. vm_compute. reflexivity. Qed.

