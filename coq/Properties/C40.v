(* Properties/C40.v — Log queries return exactly the matching canonical logs.
   Property theorems only, about the model Chain/LogIndex.v of /repo/core/filtermaps and
   /repo/eth/filters/filter.go; each closed by [exact] of a lemma of
   Chain/LogIndexProofs.v, Chain/LogIndexSeq.v, Chain/LogIndexQuery.v.

   The row and column hash functions are arbitrary ([row_hash], [col_index]); the only
   hypothesis on them is [col_high]: the bits of a column index above hashBits are
   lvIndex mod valuesPerMap (math.go columnIndex).  [None] results (panic / error /
   fuel) are excluded by hypothesis, never assumed away.

   FULL STATEMENT of the property (kept visible):
     query_exact : for a chain, an index built from it and any block range first..last,
       range_logs first last = QOk ms -> scan chain first last = Some ms
     (the logs a direct scan of the canonical receipts returns, in chain order, no
     duplicates), at any indexing progress.
   PROVED below: completeness of every layer of the indexed search (a matching log is
   never lost: C40_potential_matches_complete, C40_sequence_complete, incl. row overflow
   to higher layers, alternatives, wild cards, offset alignment), well-formedness of the
   matcher results (strictly increasing, inside the map: the order/no-duplicates half),
   that the matcher never reaches potentialMatches' panic, and the unindexed fallback
   (C40_unindexed_falls_back, C40_scan_split).
   MISSING (hence the name C40_query_exact_partial is not claimed at all): the layout /
   getLogByLvIndex correctness (block pointer binary search) and the assembly of the
   per-map results into the exact list; the indexer's progress and reorg handling.
   These are tied by the correspondence run only. *)
From GV Require Import Lib.Tactics Chain.LogIndex Chain.LogIndexProofs Chain.LogIndexSeq Chain.LogIndexQuery.
Local Open Scope N_scope.

(* A value inserted at lv while rendering map m is among the potential matches the
   single matcher computes from that map's rows — for any hash functions with
   [col_high], any row lengths, incl. overflow to higher mapping layers. *)
Theorem C40_potential_matches_complete :
  forall (P : params) (row_hash : N -> nat -> N -> N) (col_index : N -> N -> N),
  (forall lv v, N.shiftr (col_index lv v) (p_hbits P) = lv mod vpm P) ->
  p_brl P < two32 ->
  forall fuel fuel' vals m rw lv v l,
  render_map P row_hash col_index fuel vals m = Some rw ->
  In (lv, v) vals -> lv / vpm P = m ->
  single_match P row_hash col_index fuel' rw m v = Some l -> In lv l.
Proof. exact potential_matches_complete. Qed.
Print Assumptions C40_potential_matches_complete.

(* the matcher's row collection always ends with a non-full row: potentialMatches'
   panic("insufficient list of row alternatives") is unreachable from the matcher *)
Theorem C40_matcher_no_panic :
  forall (P : params) (row_hash : N -> nat -> N -> N) (col_index : N -> N -> N) fuel rw m v rws,
  collect_rows P row_hash fuel rw m v 0 = Some rws -> potential_matches P col_index rws m v <> None.
Proof. exact single_match_no_panic. Qed.
Print Assumptions C40_matcher_no_panic.

(* results of a single matcher are strictly increasing and inside the map *)
Theorem C40_single_match_sorted :
  forall (P : params) (row_hash : N -> nat -> N -> N) (col_index : N -> N -> N),
  (forall lv v, N.shiftr (col_index lv v) (p_hbits P) = lv mod vpm P) ->
  p_brl P < two32 ->
  forall fuel rw m v l,
  single_match P row_hash col_index fuel rw m v = Some l -> ssorted l /\ in_map P m l.
Proof. exact single_match_ok. Qed.
Print Assumptions C40_single_match_sorted.

(* mergeResults (matchAny with alternatives): the strictly increasing union *)
Theorem C40_merge_results :
  forall rs out, merge_results rs = Some out -> (forall r, In r rs -> ssorted r) ->
  ssorted out /\ forall y, In y out <-> exists r, In r rs /\ In y r.
Proof. exact merge_results_spec. Qed.
Print Assumptions C40_merge_results.

(* A log lying inside map m, rendered on the map, whose address and topics pass the
   filter (addresses: empty = any; topic position i: empty = wild card, else one of the
   alternatives; fewer positions than topics allowed) has its FIRST log value index in
   the result of the sequence matcher address@0, topic i@i+1 — or the result is the
   wild card. *)
Theorem C40_sequence_complete :
  forall (P : params) (addr_value topic_value : N -> N)
         (row_hash : N -> nat -> N -> N) (col_index : N -> N -> N),
  (forall lv v, N.shiftr (col_index lv v) (p_hbits P) = lv mod vpm P) ->
  p_brl P < two32 ->
  forall fuel0 fuel vals rw m pos l addrs topics R,
  render_map P row_hash col_index fuel0 vals m = Some rw ->
  incl (values_of addr_value topic_value (pos, l)) vals ->
  pos / vpm P = m -> (pos + log_len l - 1) / vpm P = m ->
  check addrs topics l = true ->
  eval_map P addr_value topic_value row_hash col_index fuel rw m addrs topics = Some R ->
  covers R pos.
Proof. exact sequence_complete_rendered. Qed.
Print Assumptions C40_sequence_complete.

(* the sequence matcher's result is the wild card or strictly increasing inside the map
   (so concatenating the maps in order gives candidates in chain order, no duplicates) *)
Theorem C40_sequence_sorted :
  forall (P : params) (row_hash : N -> nat -> N -> N) (col_index : N -> N -> N),
  (forall lv v, N.shiftr (col_index lv v) (p_hbits P) = lv mod vpm P) ->
  p_brl P < two32 ->
  forall fuel rw m pos pats R, pats <> [] ->
  match_seq_rev P row_hash col_index fuel rw m (rev pats) = Some R ->
  res_ok P m R /\
  (seq_matches P row_hash col_index rw m pos pats -> m * vpm P <= pos ->
   (pos + N.of_nat (length pats) - 1) / vpm P = m -> covers R pos).
Proof. exact match_seq_rev_spec. Qed.
Print Assumptions C40_sequence_sorted.

(* matchSequence's dropIndices optimisation is sound: an empty child decides the result *)
Theorem C40_drop_sound :
  forall P m off x,
  match_results P m off (Some []) x = Some [] /\ match_results P m off x (Some []) = Some [].
Proof. intros. split; [apply match_results_drop_next | apply match_results_drop_base]. Qed.
Print Assumptions C40_drop_sound.

(* a block range that does not meet the indexed block range is answered by the direct
   scan of the canonical logs alone *)
Theorem C40_unindexed_falls_back :
  forall (P : params) (addr_value topic_value : N -> N)
         (row_hash : N -> nat -> N -> N) (col_index : N -> N -> N)
         fuel chain ix rg head addrs topics f l,
  f <= l -> l <= head ->
  rng_empty (rng_inter (f, l + 1) (indexed_blocks rg)) = true ->
  range_logs P addr_value topic_value row_hash col_index fuel chain ix rg head addrs topics (Some f) (Some l) =
  match scan chain addrs topics f l with Some ms => QOk ms | None => QFail end.
Proof. exact unindexed_falls_back. Qed.
Print Assumptions C40_unindexed_falls_back.

(* the pieces of a straddling search concatenate to the scan of the whole range, in order *)
Theorem C40_scan_split :
  forall chain addrs topics first k last, first < k -> k <= last ->
  scan chain addrs topics first last =
  match scan chain addrs topics first (k - 1), scan chain addrs topics k last with
  | Some a, Some b => Some (a ++ b) | _, _ => None end.
Proof. exact scan_split. Qed.
Print Assumptions C40_scan_split.

(* non-vacuity: a concrete parameter set and hash functions satisfying [col_high]
   (8 values per map, 2 hash bits, rows of length 2 so the third equal value overflows to
   layer 1), a rendered map, and a filter that finds the log at index 9 *)
Example C40_nonvacuous : c40_demo = true.
Proof. vm_compute. reflexivity. Qed.
