(* Properties/C46.v — The node table maintains Kademlia and IP-diversity invariants.
   Property theorems only; each is closed by [exact] of a lemma proved in Net/TableProofs.v
   about the model Net/Table.v of /repo/p2p/discover/table.go, table_reval.go, node.go and
   /repo/p2p/netutil DistinctNetSet.  [reachable t]: t is the table after some history of
   handleAddNode / deleteNode / revalidation responses / handleTrackRequest / initDone
   operations (any length, any arguments, node ids 256-bit: [wf_op]) applied to newTable.
   Subnets are real networks: [net_key] is the /24 of the IPv4 address for 4-byte AND for
   IPv4-mapped 16-byte addresses (C46_mapped_same_subnet), the top 24 bits for other IPv6
   addresses; LAN addresses are exempt.  The keying of the code before the repair
   "p2p/netutil: count IPv4-mapped IPv6 addresses in their IPv4 subnet" is kept as
   [net_key_stored] for C46_stored_form_keying_refuted only. *)
From GV Require Import Lib.Tactics Net.Table Net.TableProofs.
From Coq Require Import Sorted.
Local Open Scope N_scope.

(* no history makes the table panic (bucket index out of range, nodeRemoved on a node that
   is on no revalidation list, replacement index out of range) *)
Theorem C46_history_never_panics : forall s ops,
  s < 2 ^ 256 -> Forall wf_op ops -> exists t, run (new_table s) ops = Some t.
Proof. exact history_never_panics. Qed.
Print Assumptions C46_history_never_panics.

Theorem C46_reachable_step : forall t o,
  reachable t -> wf_op o -> exists t', step t o = Some t' /\ reachable t'.
Proof. exact reachable_step. Qed.
Print Assumptions C46_reachable_step.

(* 17 buckets, at most 16 entries and 10 replacements each *)
Theorem C46_bucket_bounds : forall t, reachable t ->
  length (buckets t) = 17%nat /\
  forall b, In b (buckets t) -> (length (entries b) <= 16)%nat /\ (length (repl b) <= 10)%nat.
Proof. intros t H. exact (inv_bucket_bounds t (reachable_inv t H)). Qed.
Print Assumptions C46_bucket_bounds.

(* every entry and replacement sits in the bucket of its log-distance to the local node *)
Theorem C46_bucket_distance_right : forall t, reachable t ->
  forall i b n, nth_error (buckets t) i = Some b -> In n (entries b ++ repl b) ->
    bucket_index (logdist (self t) (n_id n)) = i.
Proof. intros t H. exact (inv_distance_right t (reachable_inv t H)). Qed.
Print Assumptions C46_bucket_distance_right.

(* the local node never appears *)
Theorem C46_no_self : forall t, reachable t ->
  forall n, In n (flat_map (fun b => entries b ++ repl b) (buckets t)) -> n_id n <> self t.
Proof. intros t H. exact (inv_no_self t (reachable_inv t H)). Qed.
Print Assumptions C46_no_self.

(* no node id twice among the entries and replacements of a bucket *)
Theorem C46_distinct_ids : forall t, reachable t ->
  forall b, In b (buckets t) -> NoDup (map n_id (entries b ++ repl b)).
Proof. intros t H. exact (inv_distinct_ids t (reachable_inv t H)). Qed.
Print Assumptions C46_distinct_ids.

(* plain and IPv4-mapped forms of the same /24 have the same subnet key, so the limits below
   count them together *)
Theorem C46_mapped_same_subnet : forall a,
  a < 2 ^ 32 -> net_key (IP6 (65535 * 2 ^ 32 + a)) = net_key (IP4 a).
Proof. exact net_key_mapped. Qed.
Print Assumptions C46_mapped_same_subnet.

(* at most 2 tracked nodes (entries and replacements) per real /24 per bucket, 10 table-wide *)
Theorem C46_subnet_limits_hold : forall t, reachable t ->
  (forall b k, In b (buckets t) -> subnet_count k (entries b ++ repl b) <= 2) /\
  (forall k, subnet_count k (flat_map (fun b => entries b ++ repl b) (buckets t)) <= 10).
Proof. intros t H. exact (inv_subnet_limits t (reachable_inv t H)). Qed.
Print Assumptions C46_subnet_limits_hold.

(* counter exactness: the DistinctNetSet counters equal the true multiset of tracked subnets *)
Theorem C46_counters_exact : forall t, reachable t ->
  (forall b k, In b (buckets t) -> ns_get k (bips b) = subnet_count k (entries b ++ repl b)) /\
  (forall k, ns_get k (tips t) = subnet_count k (flat_map (fun b => entries b ++ repl b) (buckets t))).
Proof. intros t H. exact (inv_counters_exact t (reachable_inv t H)). Qed.
Print Assumptions C46_counters_exact.

(* DESIGN section 10 item 2: a bucket that is not full has no replacements, so handleAddNode's
   removal from the replacement list without releasing the address never loses a count *)
Theorem C46_nonfull_no_replacements : forall t, reachable t ->
  forall b, In b (buckets t) -> (length (entries b) < 16)%nat -> repl b = [].
Proof. intros t H. exact (inv_nonfull t (reachable_inv t H)). Qed.
Print Assumptions C46_nonfull_no_replacements.

(* every tracked node has a usable address *)
Theorem C46_usable_addresses : forall t, reachable t ->
  forall n, In n (flat_map (fun b => entries b ++ repl b) (buckets t)) ->
    ip_valid (n_ip n) = true /\ is_unspecified (n_ip n) = false.
Proof. intros t H. exact (inv_usable t (reachable_inv t H)). Qed.
Print Assumptions C46_usable_addresses.

(* entries are on a revalidation list, replacements on none *)
Theorem C46_reval_lists_consistent : forall t, reachable t ->
  forall b, In b (buckets t) ->
    (forall n, In n (entries b) -> n_rl n <> 0) /\ (forall n, In n (repl b) -> n_rl n = 0).
Proof. intros t H. exact (inv_reval t (reachable_inv t H)). Qed.
Print Assumptions C46_reval_lists_consistent.

(* findnodeByID returns the n nearest candidates in XOR order.  Candidates: the validated-live
   entries if preferLive is set, n > 0 and there is one; otherwise all entries.  The result is
   strictly sorted by XOR distance to the target, consists of candidates, has min(n, #candidates)
   elements, and every candidate left out is farther than every node returned. *)
Theorem C46_closest_sorted_complete : forall t target n prefer_live, reachable t ->
  let cands := map n_rec (find_cands t n prefer_live) in
  let R := findnode t target n prefer_live in
  StronglySorted (fun a b => N.lxor target (r_id a) < N.lxor target (r_id b)) R /\
  incl R cands /\
  length R = Nat.min n (length cands) /\
  forall x y, In x cands -> ~ In x R -> In y R -> N.lxor target (r_id y) < N.lxor target (r_id x).
Proof.
  intros t target n pl H. destruct (findnode_spec t target n pl (reachable_inv t H)) as [H1 H2 H3 H4].
  exact (conj H1 (conj H2 (conj H3 H4))).
Qed.
Print Assumptions C46_closest_sorted_complete.

(* documentation of the repaired defect: under the stored-form keying the same model admits a
   history after which one bucket tracks 4 nodes of the real network 8.8.1.0/24 (two plain, two
   IPv4-mapped); full statement that is FALSE for that keying: C46_subnet_limits_hold *)
Theorem C46_stored_form_keying_refuted :
  let id i := 2 ^ 255 + i in
  let ops := [ OAdd (mkRec (id 1) (IP4 134742273) 30303 0) 1 false false;
               OAdd (mkRec (id 2) (IP4 134742274) 30303 0) 2 false false;
               OAdd (mkRec (id 4) (IP6 281470816485636) 30303 0) 3 false false;
               OAdd (mkRec (id 5) (IP6 281470816485637) 30303 0) 4 false false ] in
  Forall wf_op ops /\
  exists t, @run net_key_stored (new_table 0) ops = Some t /\
  exists b, In b (buckets t) /\
    subnet_count (net_key (IP4 134742273)) (entries b ++ repl b) = 4.
Proof.
  split.
  - repeat (constructor; [apply N.ltb_lt; vm_compute; reflexivity|]). constructor.
  - eexists. split; [vm_compute; reflexivity|]. eexists. split; [do 16 right; left; reflexivity|].
    vm_compute. reflexivity.
Qed.
Print Assumptions C46_stored_form_keying_refuted.

(* non-vacuity: a concrete history (three nodes of 8.8.1.0/24 and an IPv4-mapped 8.8.2.5 in the
   farthest bucket: the third is refused by the bucket limit; a revalidation; a removal)
   runs without panic, and findnode returns the two nearest entries in order *)
Example C46_nonvacuous :
  let id i := 2 ^ 255 + i in
  let ops := [ OInitDone;
               OAdd (mkRec (id 1) (IP4 134742273) 30303 0) 1 false false;
               OAdd (mkRec (id 2) (IP4 134742274) 30303 0) 2 true false;
               OAdd (mkRec (id 3) (IP4 134742275) 30303 0) 3 false false;
               OAdd (mkRec (id 7) (IP6 281470816485893) 30303 0) 4 false true;
               OReval 2 true None 0;
               ODelete (id 1) 0 ] in
  Forall wf_op ops /\
  match run (new_table 0) ops with
  | Some t => map n_id (all_entries t) = [id 2; id 7] /\
              ns_get (net_key (IP4 134742273)) (tips t) = 1 /\
              map r_id (findnode t (id 6) 2 false) = [id 7; id 2] /\
              map r_id (findnode t (id 6) 2 true) = [id 7; id 2]
  | None => False
  end.
Proof.
  split.
  - repeat (constructor; [first [exact I | apply N.ltb_lt; vm_compute; reflexivity]|]). constructor.
  - vm_compute. repeat split.
Qed.
