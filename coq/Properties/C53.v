(* Properties/C53.v — The beacon light client follows only properly signed committees.
   Property theorems only; each is closed by [exact] of a lemma of
   Light/CommitteeProofs.v about the model Light/Committee.v + Light/Merkle.v of
   /repo/beacon/light/committee_chain.go, beacon/types/light_sync.go,
   beacon/merkle/merkle.go and light/head_tracker.go.

   The Section variables are the cryptographic primitives and the world; the single
   hypothesis [W : world_ok ...] (a record of named assumptions, Light/CommitteeProofs.v:
   w_H2_inj_on = SHA-256 collision-freedom on the pairs in play, w_sig_unforgeable,
   w_honest_canonical, w_canonical_state, w_no_version_confusion, w_trusted_canonical, ...)
   becomes an explicit hypothesis of every closed theorem.  A history is ANY list of
   deliveries (bootstrap through the checkpoint-hash check + CheckpointInit, update
   through Validate + InsertUpdate) — genuine and forged ones are not distinguished. *)
From GV Require Import Lib.Tactics Light.Merkle Light.Committee Light.CommitteeProofs Light.Symbolic Light.SymbolicWorld.
Local Open Scope N_scope.

Section C53.
Variable hash : Type.
Variable hash_eqb : hash -> hash -> bool.
Variable H2 : hash -> hash -> hash.
Variable zero : hash.
Variable lit64 : N -> hash.
Variable committee : Type.
Variable croot : committee -> hash.
Variable sigT : Type.
Variable sig_verify : committee -> hash -> list N -> sigT -> bool.
Variable InPlay : hash -> hash -> Prop.
Variable cfg : config hash.
Variable trusted : hash -> bool.
Variable gen : N -> committee.
Variable canonical : header hash -> Prop.
Variable hv : header hash -> bool.
Variable honest_signed : N -> hash -> Prop.
Hypothesis W : world_ok hash hash_eqb H2 zero lit64 committee croot sigT sig_verify
                        InPlay cfg trusted gen canonical hv honest_signed.

Notation run := (run_deliveries hash hash_eqb H2 zero lit64 committee croot sigT sig_verify cfg trusted
                                (chain_empty hash committee sigT)).
Notation in_play := (delivery_in_play hash H2 zero lit64 committee sigT InPlay cfg).
Notation upd_ok := (upd_in_play hash H2 zero lit64 sigT InPlay cfg).
Notation hdr_ok := (hdr_in_play hash H2 zero lit64 InPlay cfg).
Notation deliver_update := (deliver_update hash hash_eqb H2 zero lit64 committee croot sigT sig_verify).
Notation okroot := (okroot hash committee croot gen).

(* every committee stored after ANY history from the empty chain is the genuine
   committee of its period *)
Theorem C53_chain_only_genuine : forall ds p c,
  Forall in_play ds -> st_get (comms _ _ _ (run ds)) p = Some c -> c = gen p.
Proof. exact (chain_only_genuine _ _ _ _ _ _ _ _ _ _ _ _ _ _ _ _ W). Qed.

(* ... and every fixed root / proven next root the chain relies on can only be the
   root of the genuine committee *)
Theorem C53_chain_roots_genuine : forall ds p,
  Forall in_play ds ->
  (forall r, st_get (fixed _ _ _ (run ds)) p = Some r -> r = zero \/ okroot p r) /\
  (forall u, st_get (upds _ _ _ (run ds)) p = Some u -> okroot (p + 1) (u_next_root _ _ u)).
Proof. exact (chain_roots_genuine _ _ _ _ _ _ _ _ _ _ _ _ _ _ _ _ W). Qed.

(* a signed head is accepted (HeadTracker.validate) iff: enough signers, newer/better
   than the previous head, not in the future when time is enforced, the committee of
   its signature period is known, and the aggregate verifies under the GENUINE
   committee of that period *)
Theorem C53_header_accepted_iff : forall ds now old_slot old_count (sh : signed_header hash sigT),
  Forall in_play ds ->
  let s := run ds in
  let p := sync_period (sh_sigslot _ _ sh) in
  let n := signer_count (sh_signers _ _ sh) in
  let slot := h_slot _ (sh_header _ _ sh) in
  head_validate hash H2 zero lit64 committee sigT sig_verify cfg now s old_slot old_count sh = 0 <->
  ( c_threshold _ cfg <= n /\
    (old_slot < slot \/ (slot = old_slot /\ old_count < n)) /\
    (c_enforce _ cfg = false \/ (0 <= header_age hash cfg now slot)%Z) /\
    st_get (comms _ _ _ s) p <> None /\
    exists sr, signing_root hash H2 zero lit64 cfg (sh_header _ _ sh) = Some sr /\
               sig_verify (gen p) sr (sh_signers _ _ sh) (sh_sig _ _ sh) = true ).
Proof. exact (header_accepted_iff _ _ _ _ _ _ _ _ _ _ _ _ _ _ _ _ W). Qed.

(* an accepted head is a canonical header signed by at least the threshold of the
   genuine committee of the period of its signature slot *)
Theorem C53_header_accepted_genuine : forall ds now old_slot old_count (sh : signed_header hash sigT),
  Forall in_play ds -> hdr_ok (sh_header _ _ sh) ->
  head_validate hash H2 zero lit64 committee sigT sig_verify cfg now (run ds) old_slot old_count sh = 0 ->
  canonical (sh_header _ _ sh) /\
  c_threshold _ cfg <= signer_count (sh_signers _ _ sh) /\
  exists sr, signing_root hash H2 zero lit64 cfg (sh_header _ _ sh) = Some sr /\
             honest_signed (sync_period (sh_sigslot _ _ sh)) sr.
Proof. exact (header_accepted_genuine _ _ _ _ _ _ _ _ _ _ _ _ _ _ _ _ W). Qed.

(* forgery classes.  (1) an update whose attested header is not a canonical header
   never changes the chain, whatever its branches, signature and delivery time *)
Theorem C53_forged_header_rejected : forall ds now u next,
  Forall in_play ds -> upd_ok u -> ~ canonical (sh_header _ _ (u_att _ _ u)) ->
  fst (deliver_update cfg now (run ds) u next) = run ds.
Proof. exact (forged_header_rejected _ _ _ _ _ _ _ _ _ _ _ _ _ _ _ _ W). Qed.

(* (2) wrong Merkle branch for the next sync committee: rejected in every state *)
Theorem C53_forged_wrong_branch : forall cfg' now s u next,
  verify_proof hash hash_eqb H2 (h_state _ (sh_header _ _ (u_att _ _ u))) (idx_next (u_old _ _ u))
               (u_next_branch _ _ u) (u_next_root _ _ u) <> MOk ->
  rejected hash committee sigT s (deliver_update cfg' now s u next).
Proof. exact (forged_wrong_branch _ _ _ _ _ _ _ _ _). Qed.

(* (3) too few signers (and not a finalized update with a supermajority) *)
Theorem C53_forged_too_few_signers : forall cfg' now s u next,
  let n := signer_count (sh_signers _ _ (u_att _ _ u)) in
  n < c_threshold _ cfg' -> (u_fin _ _ u = None \/ n < supermajority) ->
  rejected hash committee sigT s (deliver_update cfg' now s u next).
Proof. exact (forged_too_few_signers _ _ _ _ _ _ _ _ _). Qed.

(* (4) wrong period: the signature slot lies in another period than the header *)
Theorem C53_forged_wrong_sig_period : forall cfg' now s u next,
  sync_period (sh_sigslot _ _ (u_att _ _ u)) <> sync_period (h_slot _ (sh_header _ _ (u_att _ _ u))) ->
  rejected hash committee sigT s (deliver_update cfg' now s u next).
Proof. exact (forged_wrong_sig_period _ _ _ _ _ _ _ _ _). Qed.

(* (5) out-of-order delivery: the period is not adjacent to the stored updates, or
   its committee is not known yet *)
Theorem C53_forged_out_of_order : forall cfg' now s u next,
  let period := sync_period (h_slot _ (sh_header _ _ (u_att _ _ u))) in
  r_can_expand (st_rng (upds _ _ _ s)) period = false \/
  r_contains (st_rng (comms _ _ _ s)) period = false ->
  rejected hash committee sigT s (deliver_update cfg' now s u next).
Proof. exact (forged_out_of_order _ _ _ _ _ _ _ _ _). Qed.

(* (6) the aggregate does not verify under the stored committee of the period *)
Theorem C53_forged_bad_signature : forall cfg' now s u next c sr,
  st_get (comms _ _ _ s) (sync_period (sh_sigslot _ _ (u_att _ _ u))) = Some c ->
  signing_root hash H2 zero lit64 cfg' (sh_header _ _ (u_att _ _ u)) = Some sr ->
  sig_verify c sr (sh_signers _ _ (u_att _ _ u)) (sh_sig _ _ (u_att _ _ u)) = false ->
  fst (deliver_update cfg' now s u next) = s.
Proof. exact (forged_bad_signature _ _ _ _ _ _ _ _ _). Qed.

(* scores: an update that is not better than the stored one changes nothing ... *)
Theorem C53_worse_update_ignored : forall cfg' now s u next ou,
  st_get (upds _ _ _ s) (sync_period (h_slot _ (sh_header _ _ (u_att _ _ u)))) = Some ou ->
  better_than (score_of _ _ u) (score_of _ _ ou) = false ->
  fst (deliver_update cfg' now s u next) = s.
Proof. exact (worse_update_ignored _ _ _ _ _ _ _ _ _). Qed.

(* ... and when a delivery does replace the stored update of a period whose next
   committee is known and agrees, it was strictly better, and no committee or fixed
   root changed (a replacement never installs a different committee) *)
Theorem C53_better_update_replaces : forall cfg' now s u next ou s' e,
  let period := sync_period (h_slot _ (sh_header _ _ (u_att _ _ u))) in
  st_get (upds _ _ _ s) period = Some ou ->
  r_contains (st_rng (comms _ _ _ s)) (period + 1) = true ->
  get_committee_root hash zero committee sigT s (period + 1) = u_next_root _ _ u ->
  deliver_update cfg' now s u next = (s', e) -> s' <> s ->
  e = E_ok /\ better_than (score_of _ _ u) (score_of _ _ ou) = true /\
  fixed _ _ _ s' = fixed _ _ _ s /\ comms _ _ _ s' = comms _ _ _ s /\
  st_get (upds _ _ _ s') period = Some u.
Proof. exact (better_update_replaces _ _ _ _ _ _ _ _ _ _ _ _ _ _ _ _ W). Qed.

End C53.

Print Assumptions C53_chain_only_genuine.
Print Assumptions C53_chain_roots_genuine.
Print Assumptions C53_header_accepted_iff.
Print Assumptions C53_header_accepted_genuine.
Print Assumptions C53_forged_header_rejected.
Print Assumptions C53_forged_wrong_branch.
Print Assumptions C53_forged_too_few_signers.
Print Assumptions C53_forged_wrong_sig_period.
Print Assumptions C53_forged_out_of_order.
Print Assumptions C53_forged_bad_signature.
Print Assumptions C53_worse_update_ignored.
Print Assumptions C53_better_update_replaces.

(* non-vacuity: a concrete world (Light/SymbolicWorld.v: free-term hash, one canonical
   header per period, ideal signature check) satisfies ALL hypotheses of [world_ok];
   in it the trusted bootstrap at period 3 and the genuine updates of periods 3 and 4
   are accepted (committees 3, 4, 5 stored, updates at 3 and 4) and a forged update
   for period 5 with a consistent Merkle proof of a forged committee is rejected *)
Example C53_nonvacuous :
  world_ok sh sh_eqb Nd sh_zero sh_lit64 N CR unit t_sig_verify
           (fun _ _ => True) t_cfg t_trusted (fun p => p) t_canonical (fun _ => false) t_honest /\
  map (st_get (comms _ _ _ t_final)) [2; 3; 4; 5; 6] = [None; Some 3; Some 4; Some 5; None] /\
  st_rng (upds _ _ _ t_final) = mkRange 3 5 /\
  validate_update sh sh_eqb Nd sh_zero sh_lit64 unit t_forged = E_ok /\
  snd (Committee.deliver_update sh sh_eqb Nd sh_zero sh_lit64 N CR unit t_sig_verify t_cfg 0%Z
         t_final t_forged (Some 99)) = E_invalid_update.
Proof. split; [exact toy_world_ok|vm_compute; repeat split]. Qed.
