(* Properties/C23.v — Key-value backends are observationally equivalent.
   Property theorems only; each is closed by [exact] of a lemma proved in
   Storage/KVProofs.v or Storage/WorldProofs.v, about the store specification
   Storage/KV.v, the rawdb.table model Storage/Table.v, the memorydb batch record
   Storage/MemDB.v and the handle-level state machine Storage/World.v.
   What is PROVED: the specification's own laws, table-wrapper refinement, batch
   atomicity, replay = write, iterator snapshot/order/completeness, memorydb = spec.
   What is only EXPLORED (differential runs, harness/c23): Pebble and LevelDB. *)
From GV Require Import Lib.Tactics Storage.KV Storage.Table Storage.MemDB Storage.World Storage.KVProofs Storage.WorldProofs.
Local Open Scope N_scope.

(* byte-lexicographic order on keys is a strict total order (and beq is equality) *)
Theorem C23_blt_strict_total_order :
  (forall a, blt a a = false) /\
  (forall a b c, blt a b = true -> blt b c = true -> blt a c = true) /\
  (forall a b, blt a b = false -> blt b a = false -> a = b) /\
  (forall a b, beq a b = true <-> a = b).
Proof. exact blt_strict_total_order. Qed.
Print Assumptions C23_blt_strict_total_order.

(* the store is a finite map kept in ascending key order *)
Theorem C23_store_is_map : forall k k' v m, sorted m ->
  sorted (put k' v m) /\ sorted (delete k' m) /\
  get k (put k' v m) = (if beq k k' then Some v else get k m) /\
  get k (delete k' m) = (if beq k k' then None else get k m) /\
  (forall x, In (k, x) m <-> get k m = Some x).
Proof. exact store_is_map. Qed.
Print Assumptions C23_store_is_map.

Theorem C23_store_extensional : forall m1 m2,
  sorted m1 -> sorted m2 -> (forall k, get k m1 = get k m2) -> m1 = m2.
Proof. exact kv_ext. Qed.
Print Assumptions C23_store_extensional.

(* DeleteRange: exactly the keys of the half-open range go; nil start = empty start =
   before all keys; nil end = after all keys; an EMPTY NON-NIL end deletes nothing (as
   memorydb.DeleteRange has it); an inverted range deletes nothing *)
Theorem C23_delete_range_spec : forall s e m, sorted m ->
  sorted (delete_range s e m) /\
  (forall k, get k (delete_range s e m) = if in_range s e k then None else get k m) /\
  (forall k, in_range s e k = true <->
     (s = None \/ exists s', s = Some s' /\ ble s' k = true) /\
     (e = None \/ exists e', e = Some e' /\ blt k e' = true)) /\
  delete_range s (Some []) m = m /\
  delete_range None None m = [] /\
  delete_range (Some []) e m = delete_range None e m /\
  (forall s' e', s = Some s' -> e = Some e' -> ble e' s' = true -> delete_range s e m = m).
Proof. exact delete_range_spec. Qed.
Print Assumptions C23_delete_range_spec.

(* an iterator (through any view) lists, in ascending byte order, exactly the stored
   pairs whose key has the prefix and is >= prefix+start *)
Theorem C23_iterator_sorted_complete : forall v pre st m, sorted m ->
  sorted (viter_items v pre st m) /\
  forall k x, In (k, x) (viter_items v pre st m) <->
    get k m = Some x /\ is_prefix (vkey v pre) k = true /\ ble (vkey v pre ++ st) k = true.
Proof. exact iterator_sorted_complete. Qed.
Print Assumptions C23_iterator_sorted_complete.

(* ... of the store AS IT WAS AT CREATION: no later op of any history (other than
   advancing this iterator) changes what it holds; draining yields those items in order *)
Theorem C23_iterator_snapshot : forall norm w v pre st h,
  let i := length (w_iters w) in
  (forall o, In o h -> o <> OIterNext i) ->
  nth_error (w_iters (snd (run norm (ONewIter v pre st :: h) w))) i =
    Some {| i_view := v; i_rest := viter_items v pre st (w_db w) |}.
Proof. exact iterator_snapshot. Qed.
Print Assumptions C23_iterator_snapshot.

Theorem C23_iterator_drain : forall norm i v rest w,
  nth_error (w_iters w) i = Some {| i_view := v; i_rest := rest |} ->
  fst (run norm (repeat (OIterNext i) (S (length rest))) w) =
    map (fun kx => UItem (Some (vstrip v (fst kx), snd kx))) rest ++ [UItem None].
Proof. exact iterator_drain. Qed.
Print Assumptions C23_iterator_drain.

(* a batch is applied entirely or not at all: queueing (through any view) leaves the
   store untouched, Write applies exactly the queued ops in order; and no op other
   than Put/Delete/DeleteRange/Write/Replay ever changes the store *)
Theorem C23_batch_all_or_nothing : forall norm w v os,
  let b := length (w_batches w) in
  let h := ONewBatch v :: map (to_op b) os in
  w_db (snd (run norm h w)) = w_db w /\
  w_db (snd (run norm (h ++ [OBWrite b]) w)) = write (map (fun o => norm (vbop v o)) os) (w_db w).
Proof. exact batch_all_or_nothing. Qed.
Print Assumptions C23_batch_all_or_nothing.

Theorem C23_nothing_before_write : forall norm h w,
  (forall o, In o h -> is_write o = false) -> w_db (snd (run norm h w)) = w_db w.
Proof. exact run_db_unchanged. Qed.
Print Assumptions C23_nothing_before_write.

(* Replay onto the batch's own view succeeds and is exactly Write *)
Theorem C23_batch_replay_eq_write : forall norm w v os,
  let b := length (w_batches w) in
  let h := ONewBatch v :: map (to_op b) os in
  (forall o, norm o = o) ->
  let w' := snd (run norm h w) in
  step norm w' (OBReplay b v) = (fst (step norm w' (OBWrite b)), UOk).
Proof. exact batch_replay_eq_write. Qed.
Print Assumptions C23_batch_replay_eq_write.

(* rawdb.NewTable(store, p) refines a store on {k | p is a prefix of k} with the prefix
   stripped: for EVERY history of KeyValueStore/Batch/Iterator methods (reads, writes,
   range deletions, batches incl. Reset/Replay, iterators with prefix+start) issued
   through the table, the outputs equal those of the same history on the stripped
   store, the abstraction is preserved, and no key outside the prefix is touched.
   Guard (exactly the one the code relies on, ethdb.MaximumKey): keys stay < 0xff*32. *)
Theorem C23_table_refines : forall p h m,
  sorted m -> small_kv (view_kv p m) -> Forall tbl_ok h ->
  fst (run idn (map (set_view (Some p)) h) (init m)) =
    fst (run idn (map (set_view None) h) (init (view_kv p m))) /\
  view_kv p (w_db (snd (run idn (map (set_view (Some p)) h) (init m)))) =
    w_db (snd (run idn (map (set_view None) h) (init (view_kv p m)))) /\
  outside p (w_db (snd (run idn (map (set_view (Some p)) h) (init m)))) = outside p m.
Proof. exact table_refines. Qed.
Print Assumptions C23_table_refines.

(* without the guard the refinement is FALSE of the faithful model (and of the code:
   open finding C23-F4): table.DeleteRange(nil, nil) keeps a key >= 0xff*32 *)
Theorem C23_table_nil_end_unbounded_refuted :
  exists p m, sorted m /\
    view_kv p (apply (vbop (Some p) (BDelRange None None)) m) <>
    apply (BDelRange None None) (view_kv p m).
Proof. exact table_nil_end_unbounded_refuted. Qed.
Print Assumptions C23_table_nil_end_unbounded_refuted.

(* memorydb (its batch record included) behaves exactly like the specification, for
   every history through every view *)
Theorem C23_memdb_refines_spec : forall h w, run mem_norm h w = run idn h w.
Proof. exact memdb_refines_spec. Qed.
Print Assumptions C23_memdb_refines_spec.

(* documentation of the repaired defect C23-F1 (/repo 10bb448039): with the old
   `entry.key != ""` dispatch a batched Delete of the empty key wiped the store *)
Theorem C23_memdb_old_batch_encoding_refuted :
  exists m, sorted m /\ write [dec_old (enc (BDel []))] m <> write [BDel []] m.
Proof. exact memdb_old_batch_encoding_refuted. Qed.
Print Assumptions C23_memdb_old_batch_encoding_refuted.

(* non-vacuity: a sorted store with keys inside and outside the prefix "a", a history
   with a batch (interleaved put/delete of one key, a range deletion, replay), an
   iterator opened before the write and drained after it *)
Example C23_nonvacuous :
  let m := [([], [9]); ([97], [1]); ([97; 98], [2]); ([98], [3])] in
  let h := [ONewIter None [] [98]; ONewBatch None; OBPut 0 [99] [4]; OBDelete 0 [99];
            OBDeleteRange 0 (Some [98]) None; OBPut 0 [] []; OBWrite 0; OBReplay 0 None;
            OGet None [98]; OHas None []; OIterNext 0; OIterNext 0] in
  sorted m /\ small_kv (view_kv [97] m) /\ Forall tbl_ok h /\
  view_kv [97] m = [([], [1]); ([98], [2])] /\
  fst (run idn (map (set_view (Some [97])) h) (init m)) =
    [UOk; UOk; UOk; UOk; UOk; UOk; UOk; UOk; UVal None; UBool true;
     UItem (Some ([98], [2])); UItem None] /\
  w_db (snd (run idn (map (set_view (Some [97])) h) (init m))) =
    [([], [9]); ([97], []); ([98], [3])].
Proof.
  cbv zeta. split; [cbn; repeat split; repeat constructor|].
  split; [repeat constructor|]. split; [repeat constructor|]. vm_compute. repeat split.
Qed.
