(* Properties/C18.v -- Historical state reads return the value at that state.
   Property theorems only, about the model PathDB/History.v of /repo/triedb/pathdb
   (reader.go HistoricReader / HistoricalStateReader, history_reader.go,
   history_indexer.go indexSingle / unindexSingle / extend / shorten / prune);
   proofs in PathDB/HistoryReadProofs.v and PathDB/HistoryIxProofs.v (on top of
   PathDB/HistoryProofs.v).

   [l0] is the chain of committed transitions (newest first), [Inv] / [CInv] say the
   database represents it (C17), [IxInv l0 (fr st) x] that the indexer [x] is in its
   synchronous mode, indexed up to the disk layer, and that for every retained history
   id the id list of a key contains it exactly when that transition changed the key.
   [sem_rev l] is the state of the chain suffix [l].  [reach18 c r0 st]: st is reachable
   from the empty database (indexing on) by ANY history of Update (well-formed caller
   input) / Commit / cap / Recover / index-pruner steps.  The configuration flags
   cfg_legacy_meta / cfg_legacy_reader / cfg_legacy_initer = true select the code before the three repairs
   this property led to; the theorems are about the repaired code (false), the
   refutations about the legacy code.  Accounts and slots only; the trie-node reader is
   not modelled; the background phase of the indexer is explored only. *)
From Coq Require Import Sorted.
From GV Require Import Lib.Tactics PathDB.History PathDB.HistoryProofs PathDB.HistoryReadProofs PathDB.HistoryIxProofs.
Local Open Scope N_scope.

(* in every reachable state of any history: whenever a reader is granted for a root,
   the root is the canonical root of the chain suffix [l] with the remembered id, and
   EVERY key reads exactly its value in that state *)
Theorem C18_hist_read_correct_reach : forall c r0 st root rd,
  cfg_legacy_meta c = false -> reach18 c r0 st ->
  historic_reader st root = Ok rd ->
  exists l0 pre l, Inv r0 l0 st /\ l0 = pre ++ l /\ len l = rd_id rd /\ root_rev r0 l = root /\
                   forall k, hist_read st root k = Ok (sem_rev l k).
Proof. exact hist_read_correct_reach. Qed.
Print Assumptions C18_hist_read_correct_reach.

(* a reader kept from ANY earlier state of the history (across commits, tail pruning,
   rollbacks, other forks) either refuses or answers with the value of its own root's
   state, which is then still canonical at the remembered id *)
Theorem C18_kept_reader_sound_reach : forall c r0 st rd k v,
  cfg_legacy_meta c = false -> cfg_legacy_reader c = false -> reach18 c r0 st ->
  reader_read st rd k = Ok v ->
  exists l0 pre l, Inv r0 l0 st /\ l0 = pre ++ l /\ len l = rd_id rd /\
                   root_rev r0 l = rd_root rd /\ v = sem_rev l k.
Proof. exact kept_reader_sound_reach. Qed.
Print Assumptions C18_kept_reader_sound_reach.

(* the invariants behind it: every reachable state represents a chain and its index *)
Theorem C18_reach_inv : forall c r0 st,
  cfg_legacy_meta c = false -> reach18 c r0 st ->
  exists l x, Inv r0 l st /\ ix st = Some x /\ IxInv l (fr st) x /\ cfg st = c.
Proof. exact reach18_inv. Qed.
Print Assumptions C18_reach_inv.

(* one operation (database operation or pruner step), successful or refused *)
Theorem C18_op_preserves : forall r0 l st o,
  Inv r0 l st -> IxOK l st ->
  (forall t, o = ODb (OUpdate t) -> wf_tr (head_state st) t) ->
  (exists l' st', do_op18 st o = Done st' /\ Inv r0 l' st' /\ IxOK l' st' /\
                  cfg st' = cfg st /\ (ix st' = None <-> ix st = None)) \/
  (exists e, do_op18 st o = Fail e st).
Proof. exact op18_preserves. Qed.
Print Assumptions C18_op_preserves.

(* state-level statements *)
Theorem C18_hist_read_correct : forall r0 l0 st x root,
  CInv r0 l0 st -> ix st = Some x -> IxInv l0 (fr st) x ->
  forall rd, historic_reader st root = Ok rd ->
  exists pre l, l0 = pre ++ l /\ len l = rd_id rd /\ root_rev r0 l = root /\
                forall k, hist_read st root k = Ok (sem_rev l k).
Proof. exact hist_read_correct. Qed.
Print Assumptions C18_hist_read_correct.

Theorem C18_reader_read_correct : forall r0 l0 st x rd pre l,
  CInv r0 l0 st -> ix st = Some x -> IxInv l0 (fr st) x ->
  l0 = pre ++ l -> pre <> [] -> len l = rd_id rd -> root_rev r0 l = rd_root rd ->
  fr_tail (fr st) <= rd_id rd ->
  forall k, reader_read st rd k = Ok (sem_rev l k).
Proof. exact reader_read_correct. Qed.
Print Assumptions C18_reader_read_correct.

(* roots that are unknown, pruned below the tail, not below the disk layer, or not
   canonical at their recorded id are refused for every key -- never answered *)
Theorem C18_refuses_unretained : forall r0 l0 st x root,
  CInv r0 l0 st -> ix st = Some x ->
  (ids st root = None \/
   (exists i, ids st root = Some i /\ (i < fr_tail (fr st) \/ len l0 <= i)) \/
   (exists i l pre, ids st root = Some i /\ l0 = pre ++ l /\ len l = i /\ root_rev r0 l <> root)) ->
  forall k, exists e, hist_read st root k = Err e.
Proof. exact refuses_unretained. Qed.
Print Assumptions C18_refuses_unretained.

(* tail pruning: the pruner may drop, per key, all ids below any cut up to the first
   retained history, and the freezer tail may advance *)
Theorem C18_prune_tail_preserves : forall l f x k cut,
  IxInv l f x -> IxInv l f (ix_prune_key f x k cut).
Proof. exact prune_tail_preserves. Qed.
Print Assumptions C18_prune_tail_preserves.

Theorem C18_tail_advance_preserves : forall l f x tail',
  fr_tail f <= tail' -> IxInv l f x -> IxInv l (mkFrz tail' (fr_head f) (fr_data f)) x.
Proof. exact ixinv_tail. Qed.
Print Assumptions C18_tail_advance_preserves.

(* rollback of the newest transition followed by a different transition with the same
   id -- down to state id 0 included: the index describes the new fork *)
Theorem C18_shorten_then_extend : forall r0 l t t' f f' x,
  IxInv (t :: l) f x -> wf_tr (sem_rev l) t -> wf_tr (sem_rev l) t' ->
  fr_tail f < len (t :: l) -> fr_tail f' = fr_tail f ->
  fr_read f (len (t :: l)) = Some (mkHist (root_rev r0 l) (t_root t) (origs t)) ->
  fr_read f' (len (t' :: l)) = Some (mkHist (root_rev r0 l) (t_root t') (origs t')) ->
  exists x1 x2, unindex_single f x (len (t :: l)) = Ok x1 /\ IxInv l f x1 /\
                index_single false f' x1 (len (t' :: l)) = Ok x2 /\ IxInv (t' :: l) f' x2.
Proof. exact shorten_then_extend. Qed.
Print Assumptions C18_shorten_then_extend.

(* LEGACY code, refuted, replayed on /repo before the repair (corpus/C18): after a
   rollback to state id 0 the index metadata is deleted and the next commit appends its
   history and then fails in indexSingle *)
Theorem C18_rollback_to_genesis_refuted :
  exists st root st' d e st'',
    cfg_legacy_meta (cfg st) = true /\
    recoverable st root = true /\ recover st root = Done st' /\
    wf_tr (eff (dk st')) (d_tr d) /\ d_root d = t_root (d_tr d) /\
    d_id d = disk_id (dk st') + 1 /\
    disk_commit st' d true = Fail e st'' /\
    fr_head (fr st'') = disk_id (dk st'') + 1.
Proof. exact rollback_to_genesis_refuted. Qed.
Print Assumptions C18_rollback_to_genesis_refuted.

(* LEGACY code, refuted, replayed on /repo before the repair (corpus/C18): a reader kept
   across a Recover answers, without error, with a value that is not its state's *)
Theorem C18_kept_reader_refuted :
  exists st root rd st' k v v',
    cfg_legacy_reader (cfg st) = true /\
    historic_reader st root = Ok rd /\ reader_read st rd k = Ok v /\
    recover st 2 = Done st' /\ reader_read st' rd k = Ok v' /\ v' <> v.
Proof. exact kept_reader_refuted. Qed.
Print Assumptions C18_kept_reader_refuted.

(* LEGACY code, refuted, reproduced on /repo before the repair (harness/c18/initrace): a
   rollback arriving while the initial indexing has indexed all but the newest history
   makes Recover of a recoverable root fail and kills the initer *)
Theorem C18_initer_shorten_refuted :
  exists st root e st' x',
    cfg_legacy_initer (cfg st) = true /\
    recoverable st root = true /\ recover st root = Fail e st' /\
    ix st' = Some x' /\ ix_dead x' = true /\ disk_id (dk st') = disk_id (dk st).
Proof. exact initer_shorten_refuted. Qed.
Print Assumptions C18_initer_shorten_refuted.

(* four transitions with limit 3 (history 1 pruned): reads at roots 1..3 give the values
   of those states, pruned / disk / unknown roots are refused; after a rollback to root
   2 and a different fork reaching id 3 again, root 2 reads the same and the abandoned
   root 3 is refused, also through the reader kept from before; after a rollback to
   state id 0 the next commit is indexed; a rollback during the initial indexing (all but
   the newest history indexed) succeeds and the initer keeps running *)
Example C18_nonvacuous : ex18_check = true /\ ex18_genesis_check = true /\ ex18_initer_check = true.
Proof. repeat split; vm_compute; reflexivity. Qed.
