(* Properties/C18.v -- Historical state reads return the value at that state.
   Property theorems only, about the model PathDB/History.v of /repo/triedb/pathdb
   (reader.go HistoricReader / HistoricalStateReader, history_reader.go,
   history_indexer.go indexSingle / unindexSingle / extend / shorten / prune);
   proofs in PathDB/HistoryReadProofs.v (on top of PathDB/HistoryProofs.v).

   [l0] is the chain of committed transitions (newest first), [CInv r0 l0 st] says the
   database represents it (C17), [IxInv l0 (fr st) x] that the indexer [x] is in its
   synchronous mode, indexed up to the disk layer, and that for every retained history
   id the id list of a key contains it exactly when that transition changed the key.
   [sem_rev l] is the state of the chain suffix [l].  Accounts and slots only; the
   trie-node reader is not modelled; the background phase of the indexer is explored
   by the correspondence only. *)
From Coq Require Import Sorted.
From GV Require Import Lib.Tactics PathDB.History PathDB.HistoryProofs PathDB.HistoryReadProofs.
Local Open Scope N_scope.

(* whenever a reader is granted for a root, the root is the canonical root of the
   chain suffix [l] with the remembered id, and EVERY key reads exactly its value in
   that state -- found through the index (least indexed history above the id, original
   value stored there) or, when the key was not modified since, in the disk layer *)
Theorem C18_hist_read_correct : forall r0 l0 st x root,
  CInv r0 l0 st -> ix st = Some x -> IxInv l0 (fr st) x ->
  forall id, historic_reader st root = Ok id ->
  exists pre l, l0 = pre ++ l /\ len l = id /\ root_rev r0 l = root /\
                forall k, hist_read st root k = Ok (sem_rev l k).
Proof. exact hist_read_correct. Qed.
Print Assumptions C18_hist_read_correct.

(* the same for a reader that only carries a state id: any retained id of the chain *)
Theorem C18_reader_read_correct : forall r0 l0 st x id pre l,
  CInv r0 l0 st -> ix st = Some x -> IxInv l0 (fr st) x ->
  l0 = pre ++ l -> len l = id -> fr_tail (fr st) <= id ->
  forall k, reader_read st id k = Ok (sem_rev l k).
Proof. exact reader_read_correct. Qed.
Print Assumptions C18_reader_read_correct.

(* roots that are unknown, pruned below the tail, not below the disk layer, or not
   canonical at their recorded id are refused for every key -- never answered *)
Theorem C18_refuses_unretained : forall r0 l0 st x root,
  CInv r0 l0 st -> ix st = Some x ->
  (ids st root = None \/
   (exists i, ids st root = Some i /\ (i < fr_tail (fr st) \/ len l0 <= i)) \/
   (exists i l pre, ids st root = Some i /\ l0 = pre ++ l /\ len l = i /\ root_rev r0 l <> root)) ->
  forall k, exists e, hist_read st root k = Err e.
Proof. exact refuses_unretained. Qed.
Print Assumptions C18_refuses_unretained.

(* tail pruning: the freezer tail may advance and the pruner may drop, per key, all ids
   below any cut up to the first retained history; the invariant (hence every read at
   an id >= the new tail, by C18_reader_read_correct) is preserved *)
Theorem C18_prune_tail_preserves : forall l f x k cut,
  IxInv l f x -> IxInv l f (ix_prune_key f x k cut).
Proof. exact prune_tail_preserves. Qed.
Print Assumptions C18_prune_tail_preserves.

Theorem C18_tail_advance_preserves : forall l f x tail',
  fr_tail f <= tail' -> IxInv l f x -> IxInv l (mkFrz tail' (fr_head f) (fr_data f)) x.
Proof. exact ixinv_tail. Qed.
Print Assumptions C18_tail_advance_preserves.

(* indexing a newly committed transition (extend in synchronous mode) *)
Theorem C18_extend_preserves : forall r0 l t f x,
  IxInv l f x -> wf_tr (sem_rev l) t ->
  fr_read f (len (t :: l)) = Some (mkHist (root_rev r0 l) (t_root t) (origs t)) ->
  exists x', index_single f x (len (t :: l)) = Ok x' /\ IxInv (t :: l) f x'.
Proof. exact extend_preserves. Qed.
Print Assumptions C18_extend_preserves.

(* rollback of the newest transition followed by a different transition with the same
   id: the index describes the new fork, so all reads do.  Guard [l <> []]: the
   rollback must not reach state id 0 (see the refutation below) *)
Theorem C18_shorten_then_extend : forall r0 l t t' f f' x,
  IxInv (t :: l) f x -> wf_tr (sem_rev l) t -> wf_tr (sem_rev l) t' -> l <> [] ->
  fr_tail f < len (t :: l) -> fr_tail f' = fr_tail f ->
  fr_read f (len (t :: l)) = Some (mkHist (root_rev r0 l) (t_root t) (origs t)) ->
  fr_read f' (len (t' :: l)) = Some (mkHist (root_rev r0 l) (t_root t') (origs t')) ->
  exists x1 x2, unindex_single f x (len (t :: l)) = Ok x1 /\ IxInv l f x1 /\
                index_single f' x1 (len (t' :: l)) = Ok x2 /\ IxInv (t' :: l) f' x2.
Proof. exact shorten_then_extend. Qed.
Print Assumptions C18_shorten_then_extend.

(* FULL statement "after Recover to ANY recoverable root a well-formed transition can be
   committed and is indexed" is FALSE of the faithful model: after a rollback to state
   id 0 the index metadata is deleted (batchIndexer.finish, lastID = 1) and the next
   commit appends its history and then fails in indexSingle.  Replayed on /repo. *)
Theorem C18_rollback_to_genesis_refuted :
  exists st root st' d e st'',
    recoverable st root = true /\ recover st root = Done st' /\
    wf_tr (eff (dk st')) (d_tr d) /\ d_root d = t_root (d_tr d) /\
    d_id d = disk_id (dk st') + 1 /\
    disk_commit st' d true = Fail e st'' /\
    fr_head (fr st'') = disk_id (dk st'') + 1.
Proof. exact rollback_to_genesis_refuted. Qed.
Print Assumptions C18_rollback_to_genesis_refuted.

(* four transitions with limit 3 (history 1 pruned): reads at roots 1..3 give the values
   of those states (creation, destruct with storage, re-creation), the pruned genesis
   root, the disk root and an unknown root are refused; after a rollback to root 2 and
   a different fork root 2 reads the same and the abandoned root 3 is refused *)
Example C18_nonvacuous : ex18_check = true /\ ex18_genesis_check = true.
Proof. split; vm_compute; reflexivity. Qed.
