(* Properties/C10.v — Hex-prefix path encoding is a bijection.
   Property theorems only; each is closed by [exact] of a lemma proved in
   Trie/HexProofs.v or Trie/HexInPlace.v, about the model Trie/Hex.v of
   /repo/trie/encoding.go.  [None] = the Go function panics. *)
From GV Require Import Lib.Tactics Trie.Hex Trie.HexProofs Trie.HexInPlace.
Local Open Scope N_scope.

(* every nibble path, with or without terminator, encodes (the encoder never
   panics) and decodes back to the same path *)
Theorem C10_hex_to_compact_total : forall h, exists c, hex_to_compact h = Some c.
Proof. exact hex_to_compact_total. Qed.
Print Assumptions C10_hex_to_compact_total.

Theorem C10_compact_hex : forall h c,
  wf_hex h = true -> hex_to_compact h = Some c -> compact_to_hex c = h.
Proof. exact compact_hex. Qed.
Print Assumptions C10_compact_hex.

(* every well-formed compact key decodes and re-encodes to itself, and the
   encoder produces only well-formed compact keys: a bijection *)
Theorem C10_hex_compact : forall c,
  wf_compact c = true -> hex_to_compact (compact_to_hex c) = Some c.
Proof. exact hex_compact. Qed.
Print Assumptions C10_hex_compact.

Theorem C10_hex_to_compact_wf : forall h c,
  wf_hex h = true -> hex_to_compact h = Some c -> wf_compact c = true.
Proof. exact hex_to_compact_wf. Qed.
Print Assumptions C10_hex_to_compact_wf.

Theorem C10_hex_to_compact_inj : forall h1 h2 c,
  wf_hex h1 = true -> wf_hex h2 = true ->
  hex_to_compact h1 = Some c -> hex_to_compact h2 = Some c -> h1 = h2.
Proof. exact hex_to_compact_inj. Qed.
Print Assumptions C10_hex_to_compact_inj.

(* the in-place variant gives the same bytes — for every non-empty slice, with
   no well-formedness assumption; on the empty slice Go's in-place variant
   panics ([None]) while hexToCompact returns [0]: stated as its own theorem *)
Theorem C10_in_place_eq : forall h,
  h <> [] -> hex_to_compact_in_place h = hex_to_compact h.
Proof. exact in_place_eq. Qed.
Print Assumptions C10_in_place_eq.

Theorem C10_in_place_empty_panics :
  hex_to_compact_in_place [] = None /\ hex_to_compact [] = Some [0].
Proof. split; reflexivity. Qed.
Print Assumptions C10_in_place_empty_panics.

(* the compact form of a leaf and of an extension never coincide *)
Theorem C10_leaf_ext_disjoint : forall p q c1 c2,
  forallb nibbleb p = true -> forallb nibbleb q = true ->
  hex_to_compact (p ++ [16]) = Some c1 -> hex_to_compact q = Some c2 -> c1 <> c2.
Proof. exact leaf_ext_disjoint. Qed.
Print Assumptions C10_leaf_ext_disjoint.

Theorem C10_compact_flag_bit : forall h c0 r,
  wf_hex h = true -> hex_to_compact h = Some (c0 :: r) -> N.testbit c0 5 = has_term h.
Proof. exact compact_flag_bit. Qed.
Print Assumptions C10_compact_flag_bit.

(* byte keys <-> nibble paths *)
Theorem C10_keybytes_hex : forall k,
  forallb byteb k = true -> hex_to_keybytes (keybytes_to_hex k) = Some k.
Proof. exact keybytes_hex. Qed.
Print Assumptions C10_keybytes_hex.

Theorem C10_hex_keybytes : forall h k,
  wf_hex h = true -> hex_to_keybytes h = Some k ->
  keybytes_to_hex k = (if has_term h then h else h ++ [16]) /\ forallb byteb k = true.
Proof. exact hex_keybytes. Qed.
Print Assumptions C10_hex_keybytes.

Theorem C10_hex_to_keybytes_panics_iff : forall h,
  hex_to_keybytes h = None <->
  Nat.odd (length (if has_term h then removelast h else h)) = true.
Proof. exact hex_to_keybytes_panics_iff. Qed.
Print Assumptions C10_hex_to_keybytes_panics_iff.

Theorem C10_keybytes_to_hex_wf : forall k,
  forallb byteb k = true -> wf_hex (keybytes_to_hex k) = true.
Proof. exact keybytes_to_hex_wf. Qed.
Print Assumptions C10_keybytes_to_hex_wf.

(* non-vacuity: the hypotheses are met by concrete non-trivial values *)
Example C10_nonvacuous :
  wf_hex [1; 2; 3; 16] = true /\ hex_to_compact [1; 2; 3; 16] = Some [49; 35] /\
  wf_hex [0; 15; 1; 12; 11; 8] = true /\
  hex_to_compact [0; 15; 1; 12; 11; 8] = Some [0; 15; 28; 184] /\
  wf_compact [49; 35] = true /\ forallb byteb [18; 52; 86] = true /\
  hex_to_compact_in_place [1; 2; 3; 16] = Some [49; 35].
Proof. vm_compute. repeat split. Qed.
