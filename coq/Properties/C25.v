(* Properties/C25.v — Chain data is unchanged by migration into the freezer.
   Property theorems only; each is closed by [exact] of a lemma proved in
   Storage/ChainFreezerProofs.v about the model Storage/ChainFreezer.v of
   /repo/core/rawdb/chain_freezer.go, accessors_chain.go, accessors_indexes.go, database.go.

   [s0] is the state before migration, a history [evs] is any list of marker moves,
   complete freezer iterations and iterations interrupted after 0..5 persistence actions
   followed by a crash (the freezer keeps any head between its durable count and its
   current count: the C24 repair, assumed) and reopen.  [visible_all] lists every stop
   point.  [Inv s0] is the precondition on the chain: the freezer content of s0 (if any)
   is the complete canonical prefix, unsynced items are still in the key-value store,
   canonical headers are stored under their Keccak hash, decode, point to the canonical
   parent, and a canonical hash does not key a header at another height. *)
From GV Require Import Lib.Tactics Storage.ChainFreezer Storage.ChainFreezerProofs.
Local Open Scope N_scope.

(* every accessor (canonical hash, header RLP, HasHeader, decoded parent, body RLP,
   canonical body RLP with and without hash, HasBody, receipts likewise, access list RLP,
   header number) of every canonical block, the canonical hash of every height, and every
   transaction lookup answer at every stop point exactly as before the migration *)
Theorem C25_freeze_preserves_accessors :
  forall (keccak : blob -> hash) (parent_of : blob -> option hash) s0 bl evs t,
  Inv keccak parent_of s0 ->
  In t (s0 :: visible_all parent_of bl s0 evs ++ [run parent_of bl s0 evs]) ->
  (forall n, read_canonical_hash s0 n <> 0 ->
     view_of keccak parent_of t (read_canonical_hash s0 n) n =
     view_of keccak parent_of s0 (read_canonical_hash s0 n) n) /\
  (forall n, read_canonical_hash t n = read_canonical_hash s0 n) /\
  (forall find_tx th, read_canonical_tx find_tx t th = read_canonical_tx find_tx s0 th).
Proof. exact freeze_preserves_accessors. Qed.
Print Assumptions C25_freeze_preserves_accessors.

(* at no stop point is a canonical block readable from neither store *)
Theorem C25_no_canonical_unreadable :
  forall (keccak : blob -> hash) (parent_of : blob -> option hash) s0 bl evs t n,
  Inv keccak parent_of s0 ->
  In t (s0 :: visible_all parent_of bl s0 evs ++ [run parent_of bl s0 evs]) ->
  read_canonical_hash s0 n <> 0 ->
  let h := read_canonical_hash s0 n in
  (nonempty (read_header_rlp keccak s0 h n) = true -> nonempty (read_header_rlp keccak t h n) = true) /\
  (nonempty (read_body_rlp s0 h n) = true -> nonempty (read_body_rlp t h n) = true) /\
  (nonempty (read_receipts_rlp s0 h n) = true -> nonempty (read_receipts_rlp t h n) = true) /\
  (nonempty (read_header_rlp keccak s0 h n) = true ->
   (exists it, ancient (s_fz t) n = Some it /\ fi_hash it = h /\ fi_hdr it = read_header_rlp keccak s0 h n) \/
   oblob (get2 (n, h) (k_hdr (s_kv t))) = read_header_rlp keccak s0 h n).
Proof. exact no_canonical_unreadable. Qed.
Print Assumptions C25_no_canonical_unreadable.

(* the freezer is always a gap-free prefix of the canonical chain, and everything from
   its durable count upwards is still complete in the key-value store *)
Theorem C25_frozen_prefix_contiguous :
  forall (keccak : blob -> hash) (parent_of : blob -> option hash) s0 bl evs t,
  Inv keccak parent_of s0 ->
  In t (s0 :: visible_all parent_of bl s0 evs ++ [run parent_of bl s0 evs]) ->
  f_durable (s_fz t) <= frozen (s_fz t) /\
  (forall n, n < frozen (s_fz t) ->
     exists it, ancient (s_fz t) n = Some it /\ fi_hash it = read_canonical_hash s0 n /\
                read_canonical_hash s0 n <> 0 /\
                fi_hdr it = read_header_rlp keccak s0 (read_canonical_hash s0 n) n /\
                fi_body it = read_body_rlp s0 (read_canonical_hash s0 n) n /\
                fi_rcpt it = read_receipts_rlp s0 (read_canonical_hash s0 n) n) /\
  (forall n, f_durable (s_fz t) <= n -> read_canonical_hash s0 n <> 0 ->
     view_of keccak parent_of (nofreeze t) (read_canonical_hash s0 n) n =
     view_of keccak parent_of s0 (read_canonical_hash s0 n) n).
Proof. exact frozen_prefix_contiguous. Qed.
Print Assumptions C25_frozen_prefix_contiguous.

(* a freeze cycle never deletes a canonical block that is not in the freezer — for every
   batch limit, hence also for cycles capped by the limit (more blocks eligible than frozen):
   whatever is at or above the freezer head is answered by the key-value store alone as before *)
Theorem C25_never_deletes_unfrozen_canonical :
  forall (keccak : blob -> hash) (parent_of : blob -> option hash) s0 bl evs t n,
  Inv keccak parent_of s0 ->
  In t (s0 :: visible_all parent_of bl s0 evs ++ [run parent_of bl s0 evs]) ->
  frozen (s_fz t) <= n -> read_canonical_hash s0 n <> 0 ->
  view_of keccak parent_of (nofreeze t) (read_canonical_hash s0 n) n =
  view_of keccak parent_of s0 (read_canonical_hash s0 n) n.
Proof. exact never_deletes_unfrozen_canonical. Qed.
Print Assumptions C25_never_deletes_unfrozen_canonical.

(* after a completed iteration no header is left in the key-value store at any height
   of the migrated range (genesis excepted), and every block that had a header there,
   canonical or not, is gone with its body, receipts and access list (no precondition) *)
Theorem C25_side_chains_removed_below :
  forall (keccak : blob -> hash) (parent_of : blob -> option hash) bl s b l,
  cycle parent_of bl s = (Froze b, l) ->
  let s' := last l s in
  forall m, frozen (s_fz s) <= m < frozen (s_fz s') -> m <> 0 ->
    (forall h, get2 (m, h) (k_hdr (s_kv s')) = None) /\
    (forall h, get2 (m, h) (k_hdr (s_kv s)) <> None -> block_absent (s_kv s') m h).
Proof. exact side_chains_removed_below. Qed.
Print Assumptions C25_side_chains_removed_below.

(* hence complete iterations keep "no header below the frozen boundary" invariant *)
Theorem C25_clean_below_cycle :
  forall (keccak : blob -> hash) (parent_of : blob -> option hash) bl s,
  clean_below s -> clean_below (step parent_of bl s EvCycle).
Proof. exact clean_below_cycle. Qed.
Print Assumptions C25_clean_below_cycle.

(* ... but NOT across a crash: an iteration interrupted after SyncAncient leaves the
   side chains (and the canonical duplicates) of its range in the key-value store for
   ever, because the next iteration starts at the new freezer head *)
Theorem C25_side_chains_survive_crash_refuted :
  exists s0 evs, Inv ex_keccak ex_parent s0 /\
    let t := run ex_parent freezer_batch_limit s0 evs in
    exists m h, 1 <= m < frozen (s_fz t) /\ get2 (m, h) (k_hdr (s_kv t)) <> None.
Proof. exact side_chains_survive_crash_refuted. Qed.
Print Assumptions C25_side_chains_survive_crash_refuted.

(* HasAccessList is the one accessor that is not preserved (key-value store only) *)
Theorem C25_has_access_list_refuted :
  exists s0 evs, Inv ex_keccak ex_parent s0 /\ read_canonical_hash s0 1 = 11 /\
    has_access_list s0 11 1 = true /\
    has_access_list (run ex_parent freezer_batch_limit s0 evs) 11 1 = false /\
    read_bal_rlp s0 11 1 = read_bal_rlp (run ex_parent freezer_batch_limit s0 evs) 11 1.
Proof. exact has_access_list_refuted. Qed.
Print Assumptions C25_has_access_list_refuted.

(* a decidable sufficient condition for the precondition (states with an empty freezer) *)
Theorem C25_wf_b_Inv :
  forall (keccak : blob -> hash) (parent_of : blob -> option hash) s0,
  wf_b keccak parent_of s0 = true -> Inv keccak parent_of s0.
Proof. exact wf_b_Inv. Qed.
Print Assumptions C25_wf_b_Inv.

(* non-vacuity: a 5-block canonical chain with a 4-block side branch satisfies the
   precondition; two iterations, one of them interrupted after the append and crashed,
   migrate 4 blocks, delete the side branch and its dangling tip, keep the head *)
(* ... and a cycle capped by a batch limit of 3 with 5 eligible blocks freezes exactly 3,
   keeps the unfrozen canonical blocks 3 and 4 in the key-value store, and the next cycle
   freezes the rest *)
Example C25_nonvacuous : ex_check = true /\ ex_leftover = true /\ ex_capped = true.
Proof. split; [|split]; vm_compute; reflexivity. Qed.
