From GV Require Import Lib.Tactics Gas.GoArith Gas.Budget_gen Gas.Pool_gen Gas.BudgetMachine Gas.Budget Gas.Pool.
