(* Properties/C31.v — Two-dimensional gas accounting conserves gas.
   Property theorems only; each is closed by [exact] of a lemma of Gas/Budget.v,
   Gas/Pool.v or Gas/Settle.v.  The statements are about the definitions that
   tools/go2coq GENERATES from /repo/core/vm/gascosts.go (Gas/Budget_gen.v) and
   /repo/core/gaspool.go (Gas/Pool_gen.v) on every run, with uint64/int64
   wrap-around written out (u64 / i64 of Gas/GoArith.v); Ex/St/UE/US/Sp abbreviate
   the generated field projections.  Guards are explicit: [frame_ok E0 R n g] is the
   frame invariant (I1) Ex+UE+Sp = E0, (I2) St+US-Sp = R, 0 <= n+US, all uint64
   fields >= 0 and E0+R+n < 2^63; [guard] is the callers' precondition of each op. *)
From GV Require Import Lib.Tactics Gas.GoArith Gas.Budget_gen Gas.Pool_gen Gas.BudgetMachine Gas.Budget Gas.Pool Gas.SettleModel Gas.Settle.
Local Open Scope Z_scope.

(* a charge succeeds exactly when affordability is reported — for every bit
   pattern of the budget and the cost, no invariant needed *)
Theorem C31_charge_ok_iff_canafford : forall g c,
  snd (GasBudget_charge g c) = GasBudget_CanAfford g c /\
  snd (GasBudget_Charge g c) = GasBudget_CanAfford g c.
Proof. intros; split; [apply charge_ok_iff_canafford | apply Charge_ok_iff_canafford]. Qed.
Print Assumptions C31_charge_ok_iff_canafford.

Theorem C31_charge_fail_unchanged : forall g c,
  snd (GasBudget_charge g c) = false -> fst (GasBudget_charge g c) = g.
Proof. exact charge_fail_unchanged. Qed.
Print Assumptions C31_charge_fail_unchanged.

(* execution+state charges with spill-over keep (I1), (I2) *)
Theorem C31_charge_conserves : forall E0 R n g ce cs,
  frame_ok E0 R n g -> u64_range ce -> u64_range cs ->
  frame_ok E0 R n (fst (GasBudget_charge g (mkGasCosts ce cs))).
Proof. exact charge_conserves. Qed.
Print Assumptions C31_charge_conserves.

Theorem C31_charge_exec_only_conserves : forall E0 R n g r,
  frame_ok E0 R n g -> u64_range r ->
  frame_ok E0 R n (fst (GasBudget_ChargeExecutionOnly g r)).
Proof. exact charge_exec_only_conserves. Qed.
Print Assumptions C31_charge_exec_only_conserves.

(* a state refund no larger than the transaction's outstanding net state usage *)
Theorem C31_refund_conserves : forall E0 R n g s,
  frame_ok E0 R n g -> 0 <= s <= n + US g ->
  frame_ok E0 R n (GasBudget_RefundState g s).
Proof. exact refund_conserves. Qed.
Print Assumptions C31_refund_conserves.

Theorem C31_drain_conserves : forall E0 R n g,
  frame_ok E0 R n g -> frame_ok E0 R n (GasBudget_DrainExecution g).
Proof. exact drain_conserves. Qed.
Print Assumptions C31_drain_conserves.

(* parent + child totals across Forward ... Exit ... Absorb *)
Theorem C31_forward_absorb_conserves : forall E0 R n g e,
  frame_ok E0 R n g -> 0 <= e <= Ex g ->
  let p := fst (GasBudget_Forward g e) in
  let c0 := snd (GasBudget_Forward g e) in
  tot p + tot c0 - e = tot g /\
  forall c x, frame_ok e (St g) (n + US p) c ->
    frame_ok E0 R n (GasBudget_Absorb p (exit_of x c)) /\
    tot p + tot (exit_of x c) - e = tot g /\
    tot (GasBudget_Absorb p (exit_of x c)) = tot g.
Proof. exact forward_absorb_conserves. Qed.
Print Assumptions C31_forward_absorb_conserves.

(* a reverted / halted frame hands back the reservoir it started with
   (so the [reservoir < 0] branch of the Go code is dead under the invariant) *)
Theorem C31_exit_revert_reservoir : forall E0 R n g,
  frame_ok E0 R n g ->
  St (GasBudget_ExitRevert g) = R /\ US (GasBudget_ExitRevert g) = 0 /\
  Sp (GasBudget_ExitRevert g) = 0 /\ Ex (GasBudget_ExitRevert g) = Ex g + Sp g /\
  UE (GasBudget_ExitRevert g) = UE g.
Proof. exact exit_revert_reservoir. Qed.
Print Assumptions C31_exit_revert_reservoir.

Theorem C31_exit_halt : forall E0 R n g,
  frame_ok E0 R n g ->
  St (GasBudget_ExitHalt g) = R /\ US (GasBudget_ExitHalt g) = 0 /\
  Sp (GasBudget_ExitHalt g) = 0 /\ Ex (GasBudget_ExitHalt g) = 0 /\
  UE (GasBudget_ExitHalt g) = E0.
Proof. exact exit_halt_reservoir. Qed.
Print Assumptions C31_exit_halt.

(* never underflows: under the invariant and the guards every generated operation
   equals its reading over unbounded integers (plain + and -, no mod) *)
Theorem C31_no_underflow :
  (forall E0 R n g ce cs, frame_ok E0 R n g -> u64_range ce -> u64_range cs ->
     GasBudget_charge g (mkGasCosts ce cs) = charge_spec g ce cs) /\
  (forall E0 R n g r, frame_ok E0 R n g -> u64_range r ->
     GasBudget_ChargeExecutionOnly g r = charge_exec_only_spec g r) /\
  (forall E0 R n g s, frame_ok E0 R n g -> 0 <= s <= n + US g ->
     GasBudget_RefundState g s = refund_spec g s) /\
  (forall E0 R n g, frame_ok E0 R n g -> GasBudget_DrainExecution g = drain_spec g) /\
  (forall E0 R n g e, frame_ok E0 R n g -> 0 <= e <= Ex g ->
     GasBudget_Forward g e = forward_spec g e) /\
  (forall E0 R n g, frame_ok E0 R n g -> GasBudget_ExitRevert g = exit_revert_spec g) /\
  (forall E0 R n g, frame_ok E0 R n g -> GasBudget_ExitHalt g = exit_halt_spec g) /\
  (forall E0 R n p f Rc c, susp_ok E0 R n p f Rc -> frame_ok f Rc (n + US p) c ->
     GasBudget_Absorb p c = absorb_spec p c).
Proof. exact no_underflow_ops. Qed.
Print Assumptions C31_no_underflow.

Theorem C31_history_no_underflow : forall E S ops st,
  0 <= E -> 0 <= S -> E + S < T63 ->
  grun (minit E S) ops = Some st ->
  mrun (minit E S) ops = mrun_spec (minit E S) ops.
Proof. exact history_no_underflow. Qed.
Print Assumptions C31_history_no_underflow.

(* all histories, including arbitrarily nested Forward/Exit/Absorb trees *)
Theorem C31_history_conserves : forall E S ops st,
  0 <= E -> 0 <= S -> E + S < T63 ->
  grun (minit E S) ops = Some st ->
  mrun (minit E S) ops = st /\
  exec_total st = E /\ state_total st = S /\
  remaining st + used st = E + S /\
  fields_bounded (E + S) st /\
  (stack st = [] -> I (cur st) E S /\ 0 <= US (cur st)).
Proof. exact history_conserves. Qed.
Print Assumptions C31_history_conserves.

(* Used(initial) of the outermost frame is the scalar gas consumed, within the budget *)
Theorem C31_used_is_consumed : forall E0 R g,
  frame_ok E0 R 0 g ->
  GasBudget_Used g (NewGasBudget E0 R) = UE g + US g /\ 0 <= UE g + US g <= E0 + R.
Proof. exact used_no_wrap. Qed.
Print Assumptions C31_used_is_consumed.

(* ---- block gas pool (guard: header gas limit < 2^63) ---- *)

Theorem C31_pool_check_amsterdam : forall gp er sr,
  pool_ams gp -> 0 <= er < P64 -> 0 <= sr < P64 ->
  GasPool_CheckGasAmsterdam gp er sr =
    (gp, if (er <=? Ini gp - CE gp) && (sr <=? Ini gp - CS gp) then 0 else ErrGasLimitReached).
Proof. exact check_amsterdam_spec. Qed.
Print Assumptions C31_pool_check_amsterdam.

Theorem C31_pool_charge_amsterdam : forall gp te ts ru,
  pool_ams gp -> 0 <= te < P63 -> 0 <= ts < P63 -> 0 <= ru <= te + ts ->
  let r := GasPool_ChargeGasAmsterdam gp te ts ru in
  (snd r = 0 /\ CE gp + te <= Ini gp /\ CS gp + ts <= Ini gp /\
   fst r = mkGasPool (Ini gp - (CE gp + te)) (Ini gp) (CU gp + ru) (CE gp + te) (CS gp + ts) /\
   pool_ams (fst r))
  \/
  (snd r = ErrGasLimitReached /\ fst r = gp /\ (Ini gp < CE gp + te \/ Ini gp < CS gp + ts)).
Proof. exact charge_amsterdam_spec. Qed.
Print Assumptions C31_pool_charge_amsterdam.

Theorem C31_pool_within_limits_amsterdam : forall limit txs,
  0 <= limit < P63 -> Forall ams_tx_ok txs ->
  let gp := ams_block (NewGasPool limit) txs in
  pool_ams gp /\ Ini gp = limit /\
  GasPool_Used gp = Some (gp, Z.max (CE gp) (CS gp)) /\
  Z.max (CE gp) (CS gp) <= limit /\ 0 <= Rem gp <= limit /\ CU gp <= 2 * limit.
Proof. exact pool_within_limits_amsterdam. Qed.
Print Assumptions C31_pool_within_limits_amsterdam.

Theorem C31_pool_legacy_tx : forall gp limit returned used,
  pool_legacy gp -> 0 <= limit < P64 -> limit <= Rem gp ->
  0 <= returned -> 0 <= used -> returned + used = limit ->
  let gp1 := fst (GasPool_CheckGasLegacy gp limit) in
  snd (GasPool_CheckGasLegacy gp limit) = 0 /\
  GasPool_ChargeGasLegacy gp1 returned used =
    (mkGasPool (Rem gp - used) (Ini gp) (CU gp + used) (CE gp) (CS gp), 0) /\
  pool_legacy (fst (GasPool_ChargeGasLegacy gp1 returned used)).
Proof. exact legacy_tx_ok. Qed.
Print Assumptions C31_pool_legacy_tx.

Theorem C31_pool_within_limits_legacy : forall limit txs,
  0 <= limit < P64 -> Forall legacy_tx_wf txs ->
  let gp := legacy_block (NewGasPool limit) txs in
  pool_legacy gp /\ Ini gp = limit /\
  GasPool_Used gp = Some (gp, CU gp) /\ 0 <= CU gp <= limit /\ 0 <= Rem gp <= limit.
Proof. exact pool_within_limits_legacy. Qed.
Print Assumptions C31_pool_within_limits_legacy.

(* ---- transaction settlement (hand model Gas/SettleModel.v of settleGas / calcRefund) ---- *)

Theorem C31_used_le_limit : forall E S intrinsic g gasLimit floor counter london prague r,
  frame_ok E S 0 g -> 0 <= intrinsic -> gasLimit = intrinsic + E + S -> gasLimit < T63 ->
  0 <= floor <= gasLimit -> 0 <= counter < T64 ->
  settle_calc g gasLimit floor counter london prague = Some r ->
  0 <= s_gasUsed r <= gasLimit /\ s_gasUsed r + s_gasLeft r = gasLimit /\
  s_gasUsed r <= s_peakUsed r <= gasLimit.
Proof. exact used_le_limit. Qed.
Print Assumptions C31_used_le_limit.

Theorem C31_refund_le_fifth : forall E S intrinsic g gasLimit floor counter prague r,
  frame_ok E S 0 g -> 0 <= intrinsic -> gasLimit = intrinsic + E + S -> gasLimit < T63 ->
  0 <= floor <= gasLimit -> 0 <= counter < T64 ->
  settle_calc g gasLimit floor counter true prague = Some r ->
  5 * s_refund r <= intrinsic + UE g + US g /\ s_refund r <= counter.
Proof. exact refund_le_fifth. Qed.
Print Assumptions C31_refund_le_fifth.

(* settlement never fails and nothing in it wraps; the figures charged to the block
   pool satisfy the hypotheses of C31_pool_charge_amsterdam *)
Theorem C31_settle_ok : forall E S intrinsic g gasLimit floor counter london prague,
  frame_ok E S 0 g -> 0 <= intrinsic -> gasLimit = intrinsic + E + S -> gasLimit < T63 ->
  0 <= floor <= gasLimit -> 0 <= counter < T64 ->
  exists r, settle_calc g gasLimit floor counter london prague = Some r /\
    let before := intrinsic + UE g + US g in
    s_txState r = US g /\
    s_txExec r = Z.max (intrinsic + UE g) floor /\
    s_refund r = calc_refund london before counter /\
    s_refund r <= before / (if london then 5 else 2) /\
    0 <= s_gasUsed r <= gasLimit /\ s_gasUsed r + s_gasLeft r = gasLimit /\ 0 <= s_gasLeft r /\
    s_gasUsed r = (if prague then Z.max (before - s_refund r) floor else before - s_refund r) /\
    s_gasUsed r <= s_peakUsed r <= gasLimit /\
    0 <= s_txState r <= gasLimit /\ 0 <= s_txExec r <= gasLimit /\
    s_gasUsed r <= s_txExec r + s_txState r.
Proof. exact settle_ok. Qed.
Print Assumptions C31_settle_ok.

(* non-vacuity: a guarded history with a spill into execution gas, a nested call that
   charges state gas and reverts, a second call that succeeds, a refund that repays the
   spill, from E = 100, S = 10; and a two-transaction Amsterdam block *)
Example C31_nonvacuous :
  let ops := [OCharge 5 25; OForward 40; OChargeState 30; OReturn XRevert;
              OForward 20; OCharge 3 7; OForwardAll; OChargeExecOnly 4; OReturn XHalt;
              OReturn XSuccess; ORefund 12; ODrain] in
  grun (minit 100 10) ops
    = Some (mkM (mkGasBudget 0 0 90 20 10) []) /\
  frame_ok 100 10 0 (mkGasBudget 80 0 5 25 15) /\
  fst (GasBudget_charge (NewGasBudget 100 10) (mkGasCosts 5 25)) = mkGasBudget 80 0 5 25 15 /\
  Forall ams_tx_ok [mkAmsTx 60 60 50 10 55; mkAmsTx 40 40 40 30 60] /\
  ams_block (NewGasPool 100) [mkAmsTx 60 60 50 10 55; mkAmsTx 40 40 40 30 60]
    = mkGasPool 10 100 115 90 40 /\
  settle_calc (mkGasBudget 0 0 90 20 10) 131 0 50 true true
    = Some (mkSettled 20 111 105 131 26 26).
Proof.
  cbn zeta. split; [vm_compute; reflexivity|]. split; [unfold frame_ok, I, T63; cbn; lia|].
  split; [vm_compute; reflexivity|]. split.
  - repeat constructor; unfold P64; cbn; lia.
  - split; vm_compute; reflexivity.
Qed.
