(* Properties/C14.v — State commit and reopen preserve the state (C14).
   Model: State/Commit.v over State/Journal.v; proofs: State/CommitProofs.v,
   State/CommitReopen.v.  All theorems are parametric in the hash function H; collision
   freedom is a hypothesis on the set [play] of tries involved, never on all inputs. *)
From stdpp Require Import gmap.
From GV Require Import Lib.Bytes Trie.Node Trie.Hash Trie.OpsProofs Trie.Canon State.Ref State.Journal State.Commit State.CommitProofs State.CommitReopen State.CommitSync State.CommitFin State.CommitBlock State.CommitChain State.CommitCode.

(* Commit after IntermediateRoot returns the root IntermediateRoot returned (any rules
   at either call: the second Finalise finds an empty journal). *)
Theorem C14_commit_root_eq_intermediate :
  forall (H : list N -> list N) (r r' : rules) (p : pdb) (cs : cstate) root cs1 root' p',
    intermediate_root H r p cs = COk (root, cs1) ->
    commit H r' p cs1 = COk (root', p') ->
    root' = root.
Proof. exact commit_root_eq_intermediate. Qed.
Print Assumptions C14_commit_root_eq_intermediate.

(* Commit on any state returns what IntermediateRoot returns on that state. *)
Theorem C14_commit_is_intermediate :
  forall (H : list N -> list N) (r : rules) (p : pdb) (cs : cstate) root' p',
    commit H r p cs = COk (root', p') -> exists cs1, intermediate_root H r p cs = COk (root', cs1).
Proof. exact commit_is_intermediate. Qed.
Print Assumptions C14_commit_is_intermediate.

(* Copy independence, both directions, for every interleaving of StateDB calls and
   IntermediateRoot on the original and on the copy over the shared trie database:
   each side ends in the state, and makes the observations, of running alone.
   (Value model: Go-level aliasing of maps is outside it - see checks/C14.json.) *)
Theorem C14_copy_independent :
  forall (H : list N -> list N) (p : pdb) (cs : cstate) (sched : list (bool * sop)),
    let '(fo, fc, tr) := run_sys H p cs (copy cs) sched in
    (fo, proj false tr) = run_side H p cs (proj false sched) /\
    (fc, proj true tr) = run_side H p cs (proj true sched).
Proof. exact copy_independent. Qed.
Print Assumptions C14_copy_independent.

(* FULL statement wanted: for every block history from a committed root, open (commit s)
   answers every persistent getter like the finalised s.
   PROVED here: from the representation invariant [hashed] of the state IntermediateRoot
   leaves behind (account trie = exactly the live objects' RLP, every live object's storage
   trie = exactly its committed slots, tries not stored by Commit already in the database),
   Commit with a changed root stores every trie under its hash, and the trie reader at the
   new root returns for EVERY address the finalised object's account blob (absent for a
   dead one) and for EVERY slot of every live account the blob of its committed value.
   [hashed] itself is established over block histories by C14_hashed_after_block below.
   MISSING: the RLP decode round trip from blobs to getter values; the code store; the
   empty update (root unchanged: nothing is written). *)
Theorem C14_reopen_reads_partial :
  forall (H : list N -> list N), (forall x, forallb byteb (H x) = true) ->
  forall (addr_ok : addr -> Prop) (slot_ok : slot -> Prop) (play : node -> Prop), play NEmpty ->
    (forall t1 t2, play t1 -> play t2 -> hash_root H t1 = hash_root H t2 -> t1 = t2) ->
  forall r r' p cs root cs1 T root' p',
    intermediate_root H r p cs = COk (root, cs1) ->
    hashed H addr_ok slot_ok play p cs1 T -> pdb_ok H play p -> root <> c_root cs1 ->
    commit H r' p cs1 = COk (root', p') ->
    root' = root /\ pdb_ok H play p' /\ extends p p' /\
    open_trie H p' root' = Some T /\
    (forall a, addr_ok a -> t_get T (addr_key H a) = COk (obj_entry H cs1 a)) /\
    (forall a o, j_objs (c_j cs1) !! a = Some o ->
       exists S, open_trie H p' (x_root (ext_of H cs1 a)) = Some S /\
            forall k, slot_ok k -> t_get S (slot_key H k) = COk (vopt (slot_val (committed (c_j cs1) a o k)))).
Proof. exact reopen_reads. Qed.
Print Assumptions C14_reopen_reads_partial.

(* destruct + re-create + commit + reopen: a slot the new incarnation did not write is
   absent from the storage trie served at the new root and reads 0, whatever the old
   incarnation held there.  Partial for the same reason ([hashed] is a hypothesis). *)
Theorem C14_destruct_recreate_clean_partial :
  forall (H : list N -> list N), (forall x, forallb byteb (H x) = true) ->
  forall (addr_ok : addr -> Prop) (slot_ok : slot -> Prop) (play : node -> Prop), play NEmpty ->
    (forall t1 t2, play t1 -> play t2 -> hash_root H t1 = hash_root H t2 -> t1 = t2) ->
  forall r r' p cs root cs1 T root' p' a o k,
    intermediate_root H r p cs = COk (root, cs1) ->
    hashed H addr_ok slot_ok play p cs1 T -> pdb_ok H play p -> root <> c_root cs1 ->
    commit H r' p cs1 = COk (root', p') ->
    a ∈ j_destruct (c_j cs1) -> j_objs (c_j cs1) !! a = Some o -> o_pending o !! k = None -> slot_ok k ->
    exists S, open_trie H p' (x_root (ext_of H cs1 a)) = Some S /\ t_get S (slot_key H k) = COk None /\
         read_slot H S k = COk 0%N.
Proof. exact destruct_recreate_clean. Qed.
Print Assumptions C14_destruct_recreate_clean_partial.

(* Two up-to-date states, reached by ANY histories over ANY trie databases, with the same
   observable accounts (same live addresses, same nonce/balance/code, same committed value
   in every slot) have the same account trie and the same root - by uniqueness of
   canonical tries (Trie/Canon.v), with no hash assumption.  Partial: [hashed] again. *)
Theorem C14_root_depends_only_on_state_partial :
  forall (H : list N -> list N) (addr_ok : addr -> Prop) (slot_ok : slot -> Prop) (play : node -> Prop) p1 cs1 T1 p2 cs2 T2,
    hashed H addr_ok slot_ok play p1 cs1 T1 -> hashed H addr_ok slot_ok play p2 cs2 T2 ->
    (forall a, match j_objs (c_j cs1) !! a, j_objs (c_j cs2) !! a with
          | Some o1, Some o2 => o_data o1 = o_data o2 /\
                                forall k, slot_ok k -> committed (c_j cs1) a o1 k = committed (c_j cs2) a o2 k
          | None, None => True
          | _, _ => False
          end) ->
    T1 = T2 /\ hash_root H T1 = hash_root H T2.
Proof. exact root_depends_only_on_state. Qed.
Print Assumptions C14_root_depends_only_on_state_partial.

(* the hypotheses of the three conditional theorems are jointly satisfiable (the up-to-date
   empty state over the empty database); the concrete chain below exercises non-trivial states *)
Theorem C14_hashed_satisfiable :
  forall (H : list N -> list N) (addr_ok : addr -> Prop) (slot_ok : slot -> Prop) (play : node -> Prop), play NEmpty ->
    hashed H addr_ok slot_ok play pdb0 (cs_empty H) NEmpty /\ pdb_ok H play pdb0.
Proof. exact hashed_empty. Qed.
Print Assumptions C14_hashed_satisfiable.

(* ------------------------------------------------------------------------------------
   The representation invariant over histories.  [Sync] is the invariant of a StateDB
   between transactions; it holds of the empty chain start (C14_sync_genesis) and is
   preserved by every transaction - any sequence of journalled calls inside the C13 guards
   with arbitrarily nested Snapshot/RevertToSnapshot, then Finalise under any rules - and
   by IntermediateRoot between transactions; after IntermediateRoot the state is [hashed].
   [addr_ok]/[slot_ok] = the universe of addresses/slots on which the secure keys are
   assumed collision free; [txs_ok] = the calls are inside the C13 guards (Journal.op_ok, no
   RIPEMD sticky touch) and the objects/slots dirty at each Finalise lie in that universe.
   SetTxContext/Prepare (access list, transient storage, tx context) may occur anywhere in a body. *)
Theorem C14_sync_genesis :
  forall (H : list N -> list N), (forall x, forallb byteb (H x) = true) ->
  forall (addr_ok : addr -> Prop) (slot_ok : slot -> Prop) (al : list addr) (ks : list slot),
    open H al ks pdb0 (empty_root H) = COk (cs_genesis H) /\ Sync H addr_ok slot_ok pdb0 (cs_genesis H).
Proof. exact genesis_ok. Qed.
Print Assumptions C14_sync_genesis.

Theorem C14_hashed_after_block :
  forall (H : list N -> list N), (forall x, forallb byteb (H x) = true) ->
  forall (addr_ok : addr -> Prop) (slot_ok : slot -> Prop),
    (forall a b, addr_ok a -> addr_ok b -> addr_key H a = addr_key H b -> a = b) ->
    (forall a b, slot_ok a -> slot_ok b -> slot_key H a = slot_key H b -> a = b) ->
  forall (play : node -> Prop) p cs0 ts cs r root cs1 T,
    Sync H addr_ok slot_ok p cs0 -> txs_ok H addr_ok slot_ok p cs0 ts -> run_txs H p cs0 ts = Some cs ->
    intermediate_root H r p cs = COk (root, cs1) -> c_trie cs1 = Some T ->
    play T -> (forall a o S, j_objs (c_j cs1) !! a = Some o -> obj_trie H p cs1 a = Some S -> play S) ->
    hashed H addr_ok slot_ok play p cs1 T /\ hash_root H T = Some root.
Proof. exact block_hashed. Qed.
Print Assumptions C14_hashed_after_block.

(* reopen_reads over block histories: no invariant is assumed of the final state any more.
   Still partial: the start state must satisfy [Sync] - proved for the empty chain start
   only; that state.New on a committed root re-establishes it (which needs the RLP decode
   round trip and the code store) is not proved, so chains of several blocks are covered
   block by block, not end to end; blob level; root changed. *)
Theorem C14_reopen_reads_block_partial :
  forall (H : list N -> list N), (forall x, forallb byteb (H x) = true) ->
  forall (addr_ok : addr -> Prop) (slot_ok : slot -> Prop),
    (forall a b, addr_ok a -> addr_ok b -> addr_key H a = addr_key H b -> a = b) ->
    (forall a b, slot_ok a -> slot_ok b -> slot_key H a = slot_key H b -> a = b) ->
  forall (play : node -> Prop), play NEmpty ->
    (forall t1 t2, play t1 -> play t2 -> hash_root H t1 = hash_root H t2 -> t1 = t2) ->
  forall p cs0 ts cs r r' root cs1 root' p',
    Sync H addr_ok slot_ok p cs0 -> pdb_ok H play p -> txs_ok H addr_ok slot_ok p cs0 ts ->
    run_txs H p cs0 ts = Some cs ->
    intermediate_root H r p cs = COk (root, cs1) -> tries_play H play p cs1 -> root <> c_root cs1 ->
    commit H r' p cs1 = COk (root', p') ->
    exists T, root' = root /\ pdb_ok H play p' /\ extends p p' /\ open_trie H p' root' = Some T /\
      (forall a, addr_ok a -> t_get T (addr_key H a) = COk (obj_entry H cs1 a)) /\
      (forall a o, j_objs (c_j cs1) !! a = Some o ->
         exists S, open_trie H p' (x_root (ext_of H cs1 a)) = Some S /\
              forall k, slot_ok k -> t_get S (slot_key H k) = COk (vopt (slot_val (committed (c_j cs1) a o k)))).
Proof. exact block_reopen_reads. Qed.
Print Assumptions C14_reopen_reads_block_partial.

Theorem C14_destruct_recreate_clean_block_partial :
  forall (H : list N -> list N), (forall x, forallb byteb (H x) = true) ->
  forall (addr_ok : addr -> Prop) (slot_ok : slot -> Prop),
    (forall a b, addr_ok a -> addr_ok b -> addr_key H a = addr_key H b -> a = b) ->
    (forall a b, slot_ok a -> slot_ok b -> slot_key H a = slot_key H b -> a = b) ->
  forall (play : node -> Prop), play NEmpty ->
    (forall t1 t2, play t1 -> play t2 -> hash_root H t1 = hash_root H t2 -> t1 = t2) ->
  forall p cs0 ts cs r r' root cs1 root' p' a o k,
    Sync H addr_ok slot_ok p cs0 -> pdb_ok H play p -> txs_ok H addr_ok slot_ok p cs0 ts ->
    run_txs H p cs0 ts = Some cs ->
    intermediate_root H r p cs = COk (root, cs1) -> tries_play H play p cs1 -> root <> c_root cs1 ->
    commit H r' p cs1 = COk (root', p') ->
    a ∈ j_destruct (c_j cs1) -> j_objs (c_j cs1) !! a = Some o -> o_pending o !! k = None -> slot_ok k ->
    exists S, open_trie H p' (x_root (ext_of H cs1 a)) = Some S /\ t_get S (slot_key H k) = COk None /\
         read_slot H S k = COk 0%N.
Proof. exact block_destruct_recreate_clean. Qed.
Print Assumptions C14_destruct_recreate_clean_block_partial.

(* two block histories - from any [Sync] states (e.g. the empty chain start), over any
   databases, with any nesting of snapshots/reverts and any rules - that end in the same
   observable accounts compute the same root; no hash assumption beyond the key universe *)
Theorem C14_root_depends_only_on_state_block_partial :
  forall (H : list N -> list N), (forall x, forallb byteb (H x) = true) ->
  forall (addr_ok : addr -> Prop) (slot_ok : slot -> Prop),
    (forall a b, addr_ok a -> addr_ok b -> addr_key H a = addr_key H b -> a = b) ->
    (forall a b, slot_ok a -> slot_ok b -> slot_key H a = slot_key H b -> a = b) ->
  forall (play : node -> Prop) pa csa0 tsa csa ra roota csa1 pb csb0 tsb csb rb rootb csb1,
    Sync H addr_ok slot_ok pa csa0 -> txs_ok H addr_ok slot_ok pa csa0 tsa -> run_txs H pa csa0 tsa = Some csa ->
    intermediate_root H ra pa csa = COk (roota, csa1) -> tries_play H play pa csa1 ->
    Sync H addr_ok slot_ok pb csb0 -> txs_ok H addr_ok slot_ok pb csb0 tsb -> run_txs H pb csb0 tsb = Some csb ->
    intermediate_root H rb pb csb = COk (rootb, csb1) -> tries_play H play pb csb1 ->
    (forall a, match j_objs (c_j csa1) !! a, j_objs (c_j csb1) !! a with
          | Some o1, Some o2 => o_data o1 = o_data o2 /\
                                forall k, slot_ok k -> committed (c_j csa1) a o1 k = committed (c_j csb1) a o2 k
          | None, None => True
          | _, _ => False
          end) ->
    roota = rootb.
Proof. exact block_root_depends_only_on_state. Qed.
Print Assumptions C14_root_depends_only_on_state_block_partial.

(* ------------------------------------------------------------------------------------
   Chains of blocks, end to end.  [universe] bundles the hypotheses on H (32-byte byte
   strings; collision freedom of the secure keys on the addresses/slots in play, of the root
   hash on the tries in play, of the code hash on the codes in play) and says that state.New
   loads exactly the universe in play (Journal.v's eager loading).  [chain p cs0]: (p, cs0) is
   reached from the empty chain start by any number of blocks, each = any list of transactions
   (journalled calls inside the C13 guards with arbitrarily nested Snapshot/RevertToSnapshot,
   Finalise under any rules, optionally IntermediateRoot), IntermediateRoot, Commit with a
   changed root, state.New(root).  [blk_ok] = the block's guards: txs_ok as above, the tries of
   the final state in play, its values in Go's ranges (uint64 nonce, uint256 balance, 32-byte
   slots), and - NOT derived, hence the _partial of the getter theorems - [code_guard]: the
   code of every live object is in the code store or its object is marked dirtyCode and is
   an update of StateDB.mutations. *)

(* state.New on every committed root of every chain returns a state satisfying the
   between-transactions invariant over a well-formed database *)
Theorem C14_chain_inv :
  forall H addr_ok slot_ok play code_ok al ks, universe H addr_ok slot_ok play code_ok al ks ->
  forall p cs0, chain H addr_ok slot_ok play code_ok al ks p cs0 ->
    Sync H addr_ok slot_ok p cs0 /\ pdb_ok H play p /\ codes_ok H code_ok p /\
    open H al ks p (c_root cs0) = COk cs0.
Proof. exact @u_chain_inv. Qed.
Print Assumptions C14_chain_inv.

(* FULL statement: for every chain of blocks, Commit returns the IntermediateRoot root and
   state.New on it answers every persistent getter (Exist, Empty, GetBalance, GetNonce,
   GetCode/Hash/Size, GetState, GetCommittedState on the universe) like the finalised state.
   PROVED: exactly that, at getter level (RLP decode round trip of account and slot blobs, code
   store), for every block whose root changed, after any chain.  MISSING: code_guard is a
   hypothesis of the block (see above); for a block whose root did not change see
   C14_empty_update_chain. *)
Theorem C14_reopen_reads_chain_partial :
  forall H addr_ok slot_ok play code_ok al ks, universe H addr_ok slot_ok play code_ok al ks ->
  forall p cs0 b cs cs1 root root' p',
    chain H addr_ok slot_ok play code_ok al ks p cs0 ->
    blk_ok H addr_ok slot_ok play code_ok p cs0 b cs cs1 root -> root <> c_root cs1 ->
    commit H (b_crules b) p cs1 = COk (root', p') ->
    root' = root /\ open H al ks p' root' = COk (reopened H al ks cs1 root') /\
    (forall q, persistent_in slot_ok q -> query_c (reopened H al ks cs1 root') q = query_c cs1 q) /\
    exists T, hashed H addr_ok slot_ok play p cs1 T /\ hash_root H T = Some root.
Proof. exact @u_chain_reopen_reads. Qed.
Print Assumptions C14_reopen_reads_chain_partial.

(* a block whose root did not change: Commit writes nothing and state.New(root) is the state the
   block started from ... *)
Theorem C14_empty_update_chain :
  forall H addr_ok slot_ok play code_ok al ks, universe H addr_ok slot_ok play code_ok al ks ->
  forall p cs0 b cs cs1 root root' p',
    chain H addr_ok slot_ok play code_ok al ks p cs0 ->
    blk_ok H addr_ok slot_ok play code_ok p cs0 b cs cs1 root -> root = c_root cs1 ->
    commit H (b_crules b) p cs1 = COk (root', p') ->
    root' = root /\ p' = p /\ open H al ks p' root' = COk cs0.
Proof. exact @u_chain_empty_update. Qed.
Print Assumptions C14_empty_update_chain.

(* ... and every persistent getter of that state equals the finalised state's: an unchanged root
   means an unchanged state (collision freedom of the root hash on the tries in play, then the
   RLP round trip of the account blobs) *)
Theorem C14_empty_update_getters_chain :
  forall H addr_ok slot_ok play code_ok al ks, universe H addr_ok slot_ok play code_ok al ks ->
  forall p cs0 b cs cs1 root,
    chain H addr_ok slot_ok play code_ok al ks p cs0 ->
    blk_ok H addr_ok slot_ok play code_ok p cs0 b cs cs1 root -> root = c_root cs1 ->
    forall q, persistent_in slot_ok q -> query_c cs0 q = query_c cs1 q.
Proof. exact @u_chain_empty_update_getters. Qed.
Print Assumptions C14_empty_update_getters_chain.

(* destruct + re-create + commit + reopen after any chain: GetState and GetCommittedState of a
   slot the new incarnation did not write are 0 in the reopened state *)
Theorem C14_destruct_recreate_clean_chain_partial :
  forall H addr_ok slot_ok play code_ok al ks, universe H addr_ok slot_ok play code_ok al ks ->
  forall p cs0 b cs cs1 root root' p' a o k,
    chain H addr_ok slot_ok play code_ok al ks p cs0 ->
    blk_ok H addr_ok slot_ok play code_ok p cs0 b cs cs1 root -> root <> c_root cs1 ->
    commit H (b_crules b) p cs1 = COk (root', p') ->
    a ∈ j_destruct (c_j cs1) -> j_objs (c_j cs1) !! a = Some o -> o_pending o !! k = None -> slot_ok k ->
    query_c (reopened H al ks cs1 root') (QState a k) = AN 0%N /\
    query_c (reopened H al ks cs1 root') (QCommitted a k) = AN 0%N.
Proof. exact @u_chain_destruct_recreate_clean. Qed.
Print Assumptions C14_destruct_recreate_clean_chain_partial.

(* two chains of any length, each followed by one more block, that end in the same observable
   accounts return the same root (code_guard is part of blk_ok but not used by this proof) *)
Theorem C14_root_depends_only_on_state_chain :
  forall H addr_ok slot_ok play code_ok al ks, universe H addr_ok slot_ok play code_ok al ks ->
  forall pa csa0 ba csa csa1 roota pb csb0 bb csb csb1 rootb,
    chain H addr_ok slot_ok play code_ok al ks pa csa0 ->
    blk_ok H addr_ok slot_ok play code_ok pa csa0 ba csa csa1 roota ->
    chain H addr_ok slot_ok play code_ok al ks pb csb0 ->
    blk_ok H addr_ok slot_ok play code_ok pb csb0 bb csb csb1 rootb ->
    (forall a, match j_objs (c_j csa1) !! a, j_objs (c_j csb1) !! a with
          | Some o1, Some o2 => o_data o1 = o_data o2 /\
                                forall k, slot_ok k -> committed (c_j csa1) a o1 k = committed (c_j csb1) a o2 k
          | None, None => True
          | _, _ => False
          end) ->
    roota = rootb.
Proof. exact @u_chain_root_depends_only_on_state. Qed.
Print Assumptions C14_root_depends_only_on_state_chain.

(* ------------------------------------------------------------------------------------
   The same, with NO code-store guard: [chain'] / [blk_ok'] are [chain] / [blk_ok] without
   code_guard (only "the codes of the final state's live objects are in the code universe").
   That every non-empty code of a live object is in the code store or its object is marked
   dirtyCode and is an update of StateDB.mutations is DERIVED: SetCode and the revert of a
   codeChange both set dirtyCode, no other call changes a code (per call, per journal entry),
   Finalise / finaliseAmsterdam / IntermediateRoot keep the marks, Commit writes the marked
   codes, state.New finds them.  These are the headline theorems of C14. *)
Theorem C14_state_new_sync :
  forall H addr_ok slot_ok play code_ok al ks, universe H addr_ok slot_ok play code_ok al ks ->
  forall p cs0, chain' H addr_ok slot_ok play code_ok al ks p cs0 ->
    Sync H addr_ok slot_ok p cs0 /\ pdb_ok H play p /\ codes_ok H code_ok p /\
    open H al ks p (c_root cs0) = COk cs0.
Proof. exact @v_chain_inv. Qed.
Print Assumptions C14_state_new_sync.

(* reopen_reads: after ANY chain of blocks and one more block with a changed root, Commit returns
   the IntermediateRoot root, state.New(root) succeeds and EVERY persistent getter of the reopened
   state equals the finalised state's *)
Theorem C14_reopen_reads :
  forall H addr_ok slot_ok play code_ok al ks, universe H addr_ok slot_ok play code_ok al ks ->
  forall p cs0 b cs cs1 root root' p',
    chain' H addr_ok slot_ok play code_ok al ks p cs0 ->
    blk_ok' H addr_ok slot_ok play code_ok p cs0 b cs cs1 root -> root <> c_root cs1 ->
    commit H (b_crules b) p cs1 = COk (root', p') ->
    root' = root /\ open H al ks p' root' = COk (reopened H al ks cs1 root') /\
    (forall q, persistent_in slot_ok q -> query_c (reopened H al ks cs1 root') q = query_c cs1 q) /\
    exists T, hashed H addr_ok slot_ok play p cs1 T /\ hash_root H T = Some root.
Proof. exact @v_chain_reopen_reads. Qed.
Print Assumptions C14_reopen_reads.

(* ... and when the root did not change: nothing is written, state.New(root) is the state the block
   started from, and its persistent getters equal the finalised state's *)
Theorem C14_reopen_reads_empty_update :
  forall H addr_ok slot_ok play code_ok al ks, universe H addr_ok slot_ok play code_ok al ks ->
  forall p cs0 b cs cs1 root root' p',
    chain' H addr_ok slot_ok play code_ok al ks p cs0 ->
    blk_ok' H addr_ok slot_ok play code_ok p cs0 b cs cs1 root -> root = c_root cs1 ->
    commit H (b_crules b) p cs1 = COk (root', p') ->
    root' = root /\ p' = p /\ open H al ks p' root' = COk cs0 /\
    (forall q, persistent_in slot_ok q -> query_c cs0 q = query_c cs1 q).
Proof. exact @v_chain_empty_update. Qed.
Print Assumptions C14_reopen_reads_empty_update.

Theorem C14_destruct_recreate_clean :
  forall H addr_ok slot_ok play code_ok al ks, universe H addr_ok slot_ok play code_ok al ks ->
  forall p cs0 b cs cs1 root root' p' a o k,
    chain' H addr_ok slot_ok play code_ok al ks p cs0 ->
    blk_ok' H addr_ok slot_ok play code_ok p cs0 b cs cs1 root -> root <> c_root cs1 ->
    commit H (b_crules b) p cs1 = COk (root', p') ->
    a ∈ j_destruct (c_j cs1) -> j_objs (c_j cs1) !! a = Some o -> o_pending o !! k = None -> slot_ok k ->
    query_c (reopened H al ks cs1 root') (QState a k) = AN 0%N /\
    query_c (reopened H al ks cs1 root') (QCommitted a k) = AN 0%N.
Proof. exact @v_chain_destruct_recreate_clean. Qed.
Print Assumptions C14_destruct_recreate_clean.

Theorem C14_root_depends_only_on_state :
  forall H addr_ok slot_ok play code_ok al ks, universe H addr_ok slot_ok play code_ok al ks ->
  forall pa csa0 ba csa csa1 roota pb csb0 bb csb csb1 rootb,
    chain' H addr_ok slot_ok play code_ok al ks pa csa0 ->
    blk_ok' H addr_ok slot_ok play code_ok pa csa0 ba csa csa1 roota ->
    chain' H addr_ok slot_ok play code_ok al ks pb csb0 ->
    blk_ok' H addr_ok slot_ok play code_ok pb csb0 bb csb csb1 rootb ->
    (forall a, match j_objs (c_j csa1) !! a, j_objs (c_j csb1) !! a with
          | Some o1, Some o2 => o_data o1 = o_data o2 /\
                                forall k, slot_ok k -> committed (c_j csa1) a o1 k = committed (c_j csb1) a o2 k
          | None, None => True
          | _, _ => False
          end) ->
    roota = rootb.
Proof. exact @v_chain_root_depends_only_on_state. Qed.
Print Assumptions C14_root_depends_only_on_state.

(* the bundled hypotheses are jointly satisfiable (a 32-byte toy hash, a one-address one-slot
   universe); every chain starts with chain0', so the headline theorems are not vacuous *)
Theorem C14_universe_satisfiable :
  universe toyH32 (fun a => a = 1%N) (fun k => k = 0%N) (fun t => t = NEmpty) (fun c => c = 0%N) [1%N] [0%N].
Proof. exact universe_example. Qed.
Print Assumptions C14_universe_satisfiable.

Example C14_nonvacuous : sample_check = true.
Proof. vm_compute. reflexivity. Qed.
