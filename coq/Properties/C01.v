(* Properties/C01.v — RLP decoding accepts exactly the canonical encodings.
   Property theorems only; each is closed by [exact] of a lemma proved in
   Rlp/{RawProofs,CodecProofs,StreamProofs}.v about the models
     Rlp/Stream.v  (decode.go Stream, generic decoding)    stream_decode decode_bytes stream_split
     Rlp/Raw.v     (raw.go)                                split split_uint64 count_values
     Rlp/Codec.v   (encoder denotation enc, reference decoder dec).
   Guard, explicit everywhere: all lengths < 2^64 ([fits x] = the encoding of x
   is shorter than 2^64 bytes; [lenN b < 2^64] for inputs).  [bytesb b]: b is a
   byte string (every element < 256).

   NOT covered by theorems (correspondence + Go-side oracle only): the typed
   layer (Stream.v uint_/bool_/bigint_/byte_array_/byteslice_ and the
   reflection-driven struct/slice decoders), unreachability of OutOfFuel in
   stream_decode on REJECTED inputs (accepted inputs never hit it by the
   theorems below; Codec.dec and count_values have it proved), equality of
   error classes between raw.go and the stream on rejected inputs (they do
   differ: io.ErrUnexpectedEOF vs io.EOF / ErrValueTooLarge; only
   reject <-> reject is a theorem). *)
From GV Require Import Lib.Tactics Lib.Bytes Lib.BytesProofs Rlp.Item Rlp.Raw Rlp.Codec Rlp.Stream.
From GV Require Import Rlp.RawProofs Rlp.CodecProofs Rlp.StreamProofs.
Local Open Scope N_scope.

(* ---- the stream decoder (Go: NewStream(bytes.NewReader(b),0).Decode(&v), v interface{}) ---- *)

(* decoding the encoding of any item, followed by any rest, yields the item and the rest *)
Theorem C01_dec_enc : forall x r,
  fits x -> lenN (enc x ++ r) < 2 ^ 64 -> stream_decode (enc x ++ r) = Ok (x, r).
Proof. exact stream_dec_enc. Qed.
Print Assumptions C01_dec_enc.

(* every accepted byte string is the canonical encoding of the decoded item
   followed by the unread rest: non-minimal sizes, leading zeros in sizes,
   single bytes wrapped as strings, elements overrunning their list, wrapped
   list limits — none is accepted *)
Theorem C01_enc_dec : forall b x r,
  bytesb b = true -> lenN b < 2 ^ 64 -> stream_decode b = Ok (x, r) -> b = enc x ++ r.
Proof. exact stream_enc_dec. Qed.
Print Assumptions C01_enc_dec.

(* rlp.DecodeBytes(b, &v): exactly one value *)
Theorem C01_decode_bytes_enc : forall x, fits x -> decode_bytes (enc x) = Ok x.
Proof. exact decode_bytes_enc. Qed.
Print Assumptions C01_decode_bytes_enc.

Theorem C01_decode_bytes_canonical : forall b x,
  bytesb b = true -> lenN b < 2 ^ 64 -> decode_bytes b = Ok x -> b = enc x.
Proof. exact decode_bytes_sound. Qed.
Print Assumptions C01_decode_bytes_canonical.

(* hence decoding is injective on accepted strings, and encoding is injective *)
Theorem C01_decode_bytes_inj : forall b1 b2 x,
  bytesb b1 = true -> bytesb b2 = true -> lenN b1 < 2 ^ 64 -> lenN b2 < 2 ^ 64 ->
  decode_bytes b1 = Ok x -> decode_bytes b2 = Ok x -> b1 = b2.
Proof. exact decode_bytes_inj. Qed.
Print Assumptions C01_decode_bytes_inj.

Theorem C01_enc_inj : forall x y, fits x -> enc x = enc y -> x = y.
Proof. exact enc_inj. Qed.
Print Assumptions C01_enc_inj.

(* ---- the reference decoder of the library (Codec.dec) and its agreement with the stream ---- *)

Theorem C01_ref_dec_enc : forall x r, fits x -> dec (enc x ++ r) = Ok (x, r).
Proof. exact dec_enc. Qed.
Print Assumptions C01_ref_dec_enc.

Theorem C01_ref_enc_dec : forall b x r,
  bytesb b = true -> dec b = Ok (x, r) -> b = enc x ++ r.
Proof. exact enc_dec. Qed.
Print Assumptions C01_ref_enc_dec.

Theorem C01_ref_dec_total : forall b, bytesb b = true -> dec b <> Err OutOfFuel.
Proof. exact dec_no_out_of_fuel. Qed.
Print Assumptions C01_ref_dec_total.

Theorem C01_stream_ref_agree : forall b x r,
  bytesb b = true -> lenN b < 2 ^ 64 ->
  (stream_decode b = Ok (x, r) <-> dec b = Ok (x, r)).
Proof. exact stream_dec_agree. Qed.
Print Assumptions C01_stream_ref_agree.

(* ---- raw.go splitters ---- *)

(* Split accepts exactly canonical header ++ content ++ rest and returns
   kind / content / rest ([chunk k c] = canonical header of kind k for content
   c, followed by c; [chunk_ok] = content shorter than 2^64, a Byte is one byte
   < 0x80, a String is never such a byte) *)
Theorem C01_split_complete : forall k c r,
  chunk_ok k c -> split (chunk k c ++ r) = Ok (k, c, r).
Proof. exact split_complete. Qed.
Print Assumptions C01_split_complete.

Theorem C01_split_sound : forall b k c r,
  bytesb b = true -> split b = Ok (k, c, r) -> b = chunk k c ++ r /\ chunk_ok k c.
Proof. exact split_sound. Qed.
Print Assumptions C01_split_sound.

(* the raw splitter and the stream (Kind, then Bytes / the content read of Raw)
   agree on kind, content, rest, and on which inputs are rejected *)
Theorem C01_raw_agrees : forall b k c r,
  bytesb b = true -> lenN b < 2 ^ 64 ->
  (split b = Ok (k, c, r) <-> stream_split b = Ok (k, c, r)).
Proof. exact raw_agrees. Qed.
Print Assumptions C01_raw_agrees.

Theorem C01_raw_agrees_reject : forall b,
  bytesb b = true -> lenN b < 2 ^ 64 ->
  ((exists e, split b = Err e) <-> (exists e, stream_split b = Err e)).
Proof. exact raw_agrees_reject. Qed.
Print Assumptions C01_raw_agrees_reject.

Theorem C01_split_string_spec : forall b c r,
  bytesb b = true ->
  (split_string b = Ok (c, r) <-> exists k, k <> KList /\ split b = Ok (k, c, r)).
Proof. exact split_string_spec. Qed.
Print Assumptions C01_split_string_spec.

Theorem C01_split_list_spec : forall b c r,
  split_list b = Ok (c, r) <-> split b = Ok (KList, c, r).
Proof. exact split_list_spec. Qed.
Print Assumptions C01_split_list_spec.

(* SplitUint64: value = big-endian content; accepts exactly the minimal
   encodings of integers < 2^64 (leading zeros, 0x81-wrapped small bytes and
   more than 8 bytes are rejected) *)
Theorem C01_split_uint64_complete : forall x r,
  x < 2 ^ 64 -> split_uint64 (enc_uint x ++ r) = Ok (x, r).
Proof. exact split_uint64_complete. Qed.
Print Assumptions C01_split_uint64_complete.

Theorem C01_split_uint64_sound : forall b x r,
  bytesb b = true -> split_uint64 b = Ok (x, r) -> x < 2 ^ 64 /\ b = enc_uint x ++ r.
Proof. exact split_uint64_sound. Qed.
Print Assumptions C01_split_uint64_sound.

(* CountValues = n exactly on concatenations of n canonical values *)
Theorem C01_count_values_complete : forall vs : list (kind * list N),
  Forall (fun v => chunk_ok (fst v) (snd v)) vs ->
  count_values (flat_map (fun v => chunk (fst v) (snd v)) vs) = (lenN vs, None).
Proof. exact count_values_complete. Qed.
Print Assumptions C01_count_values_complete.

Theorem C01_count_values_sound : forall b n,
  bytesb b = true -> count_values b = (n, None) ->
  exists vs, b = flat_map (fun v => chunk (fst v) (snd v)) vs /\
             Forall (fun v => chunk_ok (fst v) (snd v)) vs /\ n = lenN vs.
Proof. exact count_values_sound. Qed.
Print Assumptions C01_count_values_sound.

Theorem C01_count_values_total : forall b,
  bytesb b = true -> snd (count_values b) <> Some OutOfFuel.
Proof. exact count_values_fuel. Qed.
Print Assumptions C01_count_values_total.

(* ---- big-endian integers (Lib/Bytes.v) ---- *)

Theorem C01_be_round_trip : forall n,
  be_decode (be_bytes n) = n /\ bytesb (be_bytes n) = true /\ no_lead0 (be_bytes n) = true.
Proof.
  intros n. split; [exact (be_bytes_decode n)|].
  split; [exact (be_bytes_bytes n)|exact (be_bytes_no_lead0 n)].
Qed.
Print Assumptions C01_be_round_trip.

Theorem C01_be_canonical_unique : forall l,
  bytesb l = true -> no_lead0 l = true -> be_bytes (be_decode l) = l.
Proof. exact be_decode_bytes. Qed.
Print Assumptions C01_be_canonical_unique.

(* non-vacuity: a nested item with long and short forms fits, encodes, decodes;
   and the non-canonical forms named by the property are rejected with the
   classes the Go code returns *)
Example C01_nonvacuous :
  let x := Lst [Str [1]; Str [200]; Str []; Lst [Str (repeat 7 60)]; Str [4; 0]] in
  lenN (enc x ++ [5]) <? 2 ^ 64 = true /\
  stream_decode (enc x ++ [5]) = Ok (x, [5]) /\ dec (enc x ++ [5]) = Ok (x, [5]) /\
  bytesb (enc x) = true /\ lenN (enc x) = 73 /\
  stream_decode [129; 5] = Err ErrCanonSize /\           (* single byte wrapped as string *)
  stream_decode [184; 55] = Err ErrCanonSize /\          (* long form for a size < 56 *)
  stream_decode [185; 0; 60] = Err ErrCanonSize /\       (* leading zero in a size *)
  stream_decode [194; 131; 1] = Err ErrElemTooLarge /\   (* element overruns its list *)
  stream_decode [194; 193; 193; 0] = Err ErrValueTooLarge /\ (* wrapped list limit *)
  decode_bytes [193; 128; 5] = Err ErrMoreThanOneValue /\
  split_uint64 [130; 0; 1] = Err ErrCanonInt /\ split_uint64 [130; 1; 0; 9] = Ok (256, [9]) /\
  split [129; 5] = Err ErrCanonSize /\ stream_split [129; 5] = Err ErrCanonSize /\
  chunk_ok KString [200] /\ split (chunk KString [200] ++ [7]) = Ok (KString, [200], [7]).
Proof.
  cbv zeta. repeat match goal with |- _ /\ _ => split end; try (vm_compute; reflexivity).
  split; [vm_compute; reflexivity|]. intros y E. inversion E; subst. lia.
Qed.
