(* Properties/C48.v — Snap protocol responses are valid for any request.
   Property theorems only; each is closed by [exact] of a lemma of
   Net/SnapServeProofs.v about the model Net/SnapServe.v of
   /repo/eth/protocols/snap/handlers.go (ServiceGet*Query).

   The state is the flat view the iterators enumerate (accounts sorted by hash,
   slots sorted by hash); a proof is the list of keys handed to trie.Prove
   ([] / None = no proof attached).  That the node lists verify
   (trie.VerifyRangeProof = Ok more, more exact) is NOT a Coq theorem here (C09
   is not available): it is checked on every response of the real code by the
   correspondence harness.  Every serving function is a total, structurally
   recursive Gallina function into the response type: there is no panic or
   fuel-exhaustion value to reach; the theorems of the last group say what the
   adversarial requests get. *)
From GV Require Import Lib.Tactics Lib.Bytes Net.SnapServe Net.SnapServeProofs.
Local Open Scope N_scope.

(* ---- served_is_contiguous_prefix (account ranges): the response is a
   contiguous segment of the state starting at the first key >= origin —
   exactly the state's accounts with key in [origin, last returned], in order;
   empty only if the state has no key >= origin; and it ends because the state
   has no more keys, or the last key reached the limit, or the byte budget was
   exceeded — and no earlier item reached the limit *)
Theorem C48_served_is_contiguous_prefix : forall st origin limit bytes items pk,
  keys_sorted (account_items st) ->
  serve_account_range st (s_root st) origin limit bytes = (items, pk) ->
  exists before after,
    account_items st = before ++ items ++ after /\
    Forall (fun it => fst it < origin) before /\
    Forall (fun it => origin <= fst it) items /\
    (items <> [] ->
     items = filter (in_range origin (last_key items)) (account_items st)) /\
    (items = [] -> forall it, In it (account_items st) -> fst it < origin) /\
    (after = [] \/ limit <= last_key items \/ cap_bytes bytes < total_size items) /\
    Forall (fun it => fst it < limit) (removelast items).
Proof. exact served_is_contiguous_prefix. Qed.
Print Assumptions C48_served_is_contiguous_prefix.

(* ---- budget_respected_beyond_first: all items but the last fit the (capped)
   byte budget; for storage every slot was appended while the running size was
   below hardLimit and every account opened while below req.Bytes; byte codes
   and trie nodes: everything before the last blob fits *)
Theorem C48_budget_respected_beyond_first_accounts : forall st root origin limit bytes items pk,
  serve_account_range st root origin limit bytes = (items, pk) ->
  total_size (removelast items) <= cap_bytes bytes.
Proof. exact account_budget_respected_beyond_first. Qed.
Print Assumptions C48_budget_respected_beyond_first_accounts.

Theorem C48_budget_respected_storage : forall legacy st root accounts ob lb bytes slots pr,
  serve_storage_ranges_gen legacy st root accounts ob lb bytes = (slots, pr) ->
  (forall pre x post, concat slots = pre ++ x :: post ->
     0 + total_size pre < hard_limit (cap_bytes bytes)) /\
  (forall l1 l l2, slots = l1 ++ l :: l2 ->
     0 + total_size (concat l1) < cap_bytes bytes).
Proof. exact storage_budget. Qed.
Print Assumptions C48_budget_respected_storage.

Theorem C48_hard_limit_ge_soft : forall b, b <= soft_response_limit -> b <= hard_limit b.
Proof. exact hard_limit_ge. Qed.
Print Assumptions C48_hard_limit_ge_soft.

Theorem C48_budget_respected_codes : forall st hashes bytes pre x post,
  serve_byte_codes st hashes bytes = pre ++ x :: post ->
  sum_len pre <= cap_bytes bytes.
Proof. exact codes_budget. Qed.
Print Assumptions C48_budget_respected_codes.

(* byte codes: exactly the available codes (missing ones skipped) of a prefix
   of the first 1024 requested hashes, in order; the whole request unless the
   budget was exceeded *)
Theorem C48_codes_exact : forall st hashes bytes,
  exists n : nat,
    map fst (serve_byte_codes st hashes bytes) =
      filter (availb (s_codes st)) (firstn n (firstn max_code_lookups hashes)) /\
    (n = length (firstn max_code_lookups hashes) \/
     cap_bytes bytes < sum_len (serve_byte_codes st hashes bytes)).
Proof. exact codes_exact. Qed.
Print Assumptions C48_codes_exact.

(* trie nodes, for ANY trie lookup functions [env] *)
Theorem C48_budget_respected_trie_nodes : forall C (env : tn_env C) rk sets bytes nodes err,
  serve_trie_nodes env rk sets bytes = (nodes, err) ->
  forall pre x, nodes = pre ++ [x] -> 0 + sum_blob pre <= cap_bytes bytes.
Proof. exact trie_nodes_budget. Qed.
Print Assumptions C48_budget_respected_trie_nodes.

(* ---- more_flag_exact.  Account ranges: the edge proofs are ALWAYS attached,
   for the origin and the last returned key *)
Theorem C48_more_flag_accounts : forall st origin limit bytes items pk,
  serve_account_range st (s_root st) origin limit bytes = (items, pk) ->
  pk = proof_keys origin items /\ pk <> [] /\
  (items <> [] -> last_key items <> 0 -> pk = [origin; last_key items]).
Proof. exact account_proof_always. Qed.
Print Assumptions C48_more_flag_accounts.

(* Storage ranges (more_flag_exact + storage_ranges_shape), current code, every
   state and request.  [shape_of]: the requested accounts split into
   done ++ tail; without proof the response is the non-empty complete storages
   of [done]; with a proof for account a, done = pre ++ [a], the response is the
   complete storages of [pre] followed by a contiguous prefix [part] of a's
   slots from the origin (zero unless a is the first account), the proof covers
   the origin and the last key of [part], and it is attached only if the range
   does not start at zero or does not reach the end of the storage.  So: all
   lists but the last are complete storages; only the last may be partial, and
   it is partial only with a proof. *)
Theorem C48_storage_ranges_shape : forall st accounts ob lb bytes slots pr,
  serve_storage_ranges st (s_root st) accounts ob lb bytes = (slots, pr) ->
  (slots = [] /\ pr = None) \/ shape_of st accounts (req_origin ob) slots pr.
Proof. exact storage_ranges_shape. Qed.
Print Assumptions C48_storage_ranges_shape.

Theorem C48_more_flag_exact : forall st accounts ob lb bytes slots pr,
  serve_storage_ranges st (s_root st) accounts ob lb bytes = (slots, pr) ->
  match pr with
  | None => forall l, In l slots -> exists a, In a accounts /\ l = storage_items st a
  | Some (a, ks) =>
      In a accounts /\
      exists o' part rest,
        seek o' (storage_items st a) = part ++ rest /\ ks = proof_keys o' part /\
        (o' <> 0 \/ rest <> []) /\
        (forall l, In l (removelast slots) -> exists b, In b accounts /\ l = storage_items st b) /\
        (part <> [] -> last slots [] = part)
  end.
Proof. exact storage_more_flag_exact. Qed.
Print Assumptions C48_more_flag_exact.

(* The code before /repo commit 1d1b984ea0 ([serve_storage_ranges_gen true]:
   abort stays false when the iteration stops at req.Limit) violated both
   statements — found with this model, reproduced on the real code, repaired:
   with origin zero or absent and the iteration stopped by req.Limit before the
   end of the storage, no proof was attached and the loop went on to the next
   account. *)
Theorem C48_more_flag_exact_legacy_refuted :
  exists st accounts ob lb bytes slots,
    state_wf st /\
    serve_storage_ranges_gen true st (s_root st) accounts ob lb bytes = (slots, None) /\
    exists l, In l slots /\ forall a, In a accounts -> l <> storage_items st a.
Proof. exact storage_more_flag_legacy_refuted. Qed.
Print Assumptions C48_more_flag_exact_legacy_refuted.

Theorem C48_storage_ranges_shape_legacy_refuted :
  exists st accounts ob lb bytes slots pr,
    state_wf st /\
    serve_storage_ranges_gen true st (s_root st) accounts ob lb bytes = (slots, pr) /\
    exists l, In l (removelast slots) /\ forall a, In a accounts -> l <> storage_items st a.
Proof. exact storage_shape_legacy_refuted. Qed.
Print Assumptions C48_storage_ranges_shape_legacy_refuted.

(* ---- serve_total: adversarial requests get an empty response or an error,
   never anything else *)
Theorem C48_unknown_root_accounts : forall st root origin limit bytes,
  root <> s_root st -> serve_account_range st root origin limit bytes = ([], []).
Proof. exact account_unknown_root. Qed.
Print Assumptions C48_unknown_root_accounts.

Theorem C48_unknown_root_storage : forall st root accounts ob lb bytes,
  root <> s_root st -> serve_storage_ranges st root accounts ob lb bytes = ([], None).
Proof. exact storage_unknown_root. Qed.
Print Assumptions C48_unknown_root_storage.

Theorem C48_unknown_root_trie_nodes : forall C (env : tn_env C) sets bytes,
  serve_trie_nodes env RootUnknown sets bytes = ([], false).
Proof. reflexivity. Qed.
Print Assumptions C48_unknown_root_trie_nodes.

(* inverted ranges (limit <= origin): at most one item *)
Theorem C48_inverted_range_accounts : forall st root origin limit bytes items pk,
  limit <= origin ->
  serve_account_range st root origin limit bytes = (items, pk) ->
  (length items <= 1)%nat.
Proof. exact account_inverted_range. Qed.
Print Assumptions C48_inverted_range_accounts.

Theorem C48_inverted_range_storage : forall st root a ob lb bytes slots pr,
  req_limit lb <= req_origin ob ->
  serve_storage_ranges st root [a] ob lb bytes = (slots, pr) ->
  Forall (fun l => length l <= 1)%nat slots.
Proof. exact storage_inverted_range. Qed.
Print Assumptions C48_inverted_range_storage.

(* empty storage / unknown account: no slot list; a proof (of the empty range)
   only for a non-zero origin and an account present in the state *)
Theorem C48_empty_storage : forall st a ob lb bytes slots pr,
  storage_items st a = [] ->
  serve_storage_ranges st (s_root st) [a] ob lb bytes = (slots, pr) ->
  slots = [] /\
  (pr <> None -> req_origin ob <> 0 /\ find_account (s_accounts st) a <> None /\
                 pr = Some (a, [req_origin ob])).
Proof. exact storage_empty_account. Qed.
Print Assumptions C48_empty_storage.

(* malformed path sets are the only source of the error return *)
Theorem C48_error_only_if_malformed : forall C (env : tn_env C) rk sets bytes,
  forallb wf_pathset sets = true ->
  snd (serve_trie_nodes env rk sets bytes) = false.
Proof. exact trie_nodes_wf_no_error. Qed.
Print Assumptions C48_error_only_if_malformed.

(* non-vacuity: a concrete state with three accounts on which the account
   range is cut by the budget after two items with both edge keys proven, a
   multi-account storage request is served complete without proof, a request
   from a non-zero origin gets a partial range with proof, a request from
   origin zero stopped at req.Limit gets a proof (and did not before the
   repair), and a byte code request skips an unknown hash and stops on the
   budget *)
Example C48_nonvacuous : nv_check = true /\ state_wf refute_state.
Proof. split; [vm_compute; reflexivity|exact refute_state_wf]. Qed.
