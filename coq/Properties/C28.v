(* Properties/C28.v — EVM results are independent of pooling, caching and concurrency.
   Property theorems only; each is closed by [exact] of a lemma proved in
   EVM/PoolingProofs.v about the models EVM/StackArena.v (core/vm/stack.go + the
   interpreter's stack check) and EVM/MemoryPool.v (core/vm/memory.go, memoryGasCost,
   contract.go isCode, contracts.go RunPrecompiledContract).
   [grow] / [mgrow] are the runtime-chosen reallocation policies of slices.Grow / append,
   [pick] inside scripts is sync.Pool's choice: every theorem holds for all of them. *)
From GV Require Import Lib.Tactics EVM.StackArena EVM.MemoryPool EVM.PoolingProofs.
From GV Require EVM.Jumpdest EVM.JumpdestCalls EVM.JumpdestCallsProofs.

(* the shared arena is observationally one private stack per frame: for ALL scripts of frame
   enter/exit and interpreter-checked stack operations, whatever earlier executions left in
   the arena (data0), wherever its top stood — so call depth and history cannot matter *)
Theorem C28_arena_refines_private_stacks :
  forall (grow : nat -> nat), (forall n, (frame_room <= Z.of_nat (grow n))%Z) ->
  forall (data0 : list word) (top0 : Z) (ops : list sop),
    (0 <= top0 <= len data0)%Z ->
    arun grow (mkArena data0 top0, []) ops = prun [] ops.
Proof. exact arena_refines_private_stacks. Qed.
Print Assumptions C28_arena_refines_private_stacks.

(* an operation of the active (child) frame that passes the interpreter's stack-bound check
   never panics and leaves every parent frame's window (position, size, contents) untouched *)
Theorem C28_arena_frames_disjoint :
  forall (grow : nat -> nat), (forall n, (frame_room <= Z.of_nat (grow n))%Z) ->
  forall a child parents o a' fs' ob,
    reachable grow (a, child :: parents) -> is_frame_op o = true ->
    astep grow (a, child :: parents) o = ((a', fs'), ob) ->
    tl fs' = parents /\ ob <> BErr 4 /\
    forall s, In s parents -> window a' s = window a s /\ window a s <> None.
Proof. exact arena_frames_disjoint. Qed.
Print Assumptions C28_arena_frames_disjoint.

(* release() gives the arena back exactly as the parent left it: top = end of the parent's window *)
Theorem C28_release_restores_top :
  forall (grow : nat -> nat), (forall n, (frame_room <= Z.of_nat (grow n))%Z) ->
  forall a child parent rest a' fs' ob,
    reachable grow (a, child :: parent :: rest) ->
    astep grow (a, child :: parent :: rest) OExit = ((a', fs'), ob) ->
    fs' = parent :: rest /\ a_top a' = (s_bottom parent + s_size parent)%Z /\
    a_top a' = s_bottom child /\ a_data a' = a_data a.
Proof. exact release_restores_top. Qed.
Print Assumptions C28_release_restores_top.

(* pooled memory: the bytes of the backing array in [len, cap) are zero, for the object in use
   and for every object in the pool, after ANY script of Resize/Set/Set32/Copy/gas/Free/reuse *)
Theorem C28_memory_zero_beyond_len :
  forall (mgrow : nat -> nat -> nat) (ops : list mop),
    let st := mfinal mgrow (mem_new, []) ops in
    Forall (fun b => b = 0%N) (m_tail (fst st)) /\
    Forall (fun m => m_store m = [] /\ Forall (fun b => b = 0%N) (m_tail m) /\ m_last_gas m = 0%N) (snd st).
Proof. exact memory_zero_beyond_len. Qed.
Print Assumptions C28_memory_zero_beyond_len.

(* hence: for ANY prior usage history of the pooled objects, the next frame's memory reads zero
   wherever it has been expanded, has the requested length and no stale gas memo *)
Theorem C28_fresh_memory_reads_zero :
  forall (mgrow : nat -> nat -> nat) ops pick n offset size,
    (0 < size)%N -> (offset + size <= n)%N ->
    let m := fst (mfinal mgrow (mem_new, []) (ops ++ [MFreeNew pick; MResize n])) in
    mem_get m offset size = Some (repeat 0%N (N.to_nat size)) /\ mlen m = n /\ m_last_gas m = 0%N.
Proof. exact fresh_memory_reads_zero. Qed.
Print Assumptions C28_fresh_memory_reads_zero.

(* and the pooled implementation is observationally a brand-new memory per frame (reads, lengths,
   panics, memory gas), for all scripts whose reads are covered by a Resize as the interpreter does *)
Theorem C28_memory_pool_refines_fresh :
  forall (mgrow : nat -> nat -> nat) (ops : list mop),
    mrun mgrow (mem_new, []) ops = rrun ([], 0%N) ops.
Proof. exact memory_pool_refines_fresh. Qed.
Print Assumptions C28_memory_pool_refines_fresh.

(* even a read NOT covered by a Resize (beyond len, within cap: Go does not panic) sees only zeros there *)
Theorem C28_unchecked_read_sees_zero :
  forall (mgrow : nat -> nat -> nat) ops offset size b,
    let m := fst (mfinal mgrow (mem_new, []) ops) in
    mem_get m offset size = Some b ->
    b = firstn (N.to_nat size) (skipn (N.to_nat offset) (m_store m ++ repeat 0%N (length (m_tail m)))).
Proof. exact unchecked_read_sees_zero. Qed.
Print Assumptions C28_unchecked_read_sees_zero.

(* cached jumpdest analysis = fresh analysis, for every cache reachable by any interleaving of
   atomic Store/evict steps of any number of EVMs, given a code hash injective on the codes in play *)
Theorem C28_cache_transparent :
  forall (code hash bitvec : Type) (hash_eqb : hash -> hash -> bool),
    (forall a b, hash_eqb a b = true <-> a = b) ->
  forall (code_hash : code -> hash) (analyse : code -> bitvec) (in_play : code -> Prop),
    (forall c1 c2, in_play c1 -> in_play c2 -> code_hash c1 = code_hash c2 -> c1 = c2) ->
  forall jd c,
    jreach code hash bitvec hash_eqb code_hash analyse in_play jd ->
    contract_ok code hash bitvec code_hash analyse in_play c ->
    let '(a, c', jd') := is_code_analysis code hash bitvec hash_eqb analyse c jd in
    a = analyse (c_code _ _ _ c) /\
    jreach code hash bitvec hash_eqb code_hash analyse in_play jd' /\
    contract_ok code hash bitvec code_hash analyse in_play c' /\
    c_code _ _ _ c' = c_code _ _ _ c.
Proof. exact cache_transparent. Qed.
Print Assumptions C28_cache_transparent.

(* cached precompile result = computed result (deterministic precompile, sound NormalizeInput) *)
Theorem C28_precompile_cache_transparent :
  forall (input key output err : Type) (key_eqb : key -> key -> bool),
    (forall a b, key_eqb a b = true <-> a = b) ->
  forall (prun : input -> output * option err) (pkey : input -> option key) (small : output -> bool),
    (forall i j k, pkey i = Some k -> pkey j = Some k -> prun i = prun j) ->
  forall c i,
    pcache_ok input key output err key_eqb prun pkey c ->
    let '(res, c') := run_precompile input key output err key_eqb prun pkey small (Some c) i in
    res = prun i /\
    (exists c2, c' = Some c2 /\ pcache_ok input key output err key_eqb prun pkey c2) /\
    fst (run_precompile input key output err key_eqb prun pkey small None i) = prun i.
Proof. exact precompile_cache_transparent. Qed.
Print Assumptions C28_precompile_cache_transparent.

(* the hypothesis [contract_ok] above is the pairing obligation of C30; the call paths of evm.go
   as modelled in EVM/JumpdestCalls.v (resolveCode / resolveCodeHash, also through an EIP-7702
   designator; zero hash for initcode) discharge it whenever the state stores with every code the
   hash of that code — imported from C30 (call_frame_paired), not re-proved *)
Theorem C28_call_paths_discharge_pairing :
  forall (bitvec : Type) (H : list N -> Jumpdest.hash) (S : list N -> Prop) (analyse : list N -> bitvec)
         kind st prague addr fr,
    JumpdestCallsProofs.state_ok H S st -> JumpdestCalls.call_frame kind st prague addr = Some fr ->
    contract_ok (list N) Jumpdest.hash bitvec H analyse S (contract_of_frame bitvec fr) /\
    c_code _ _ _ (contract_of_frame bitvec fr) = JumpdestCalls.executed_code st prague addr.
Proof. exact call_paths_contract_ok. Qed.
Print Assumptions C28_call_paths_discharge_pairing.

(* the depth needs of EIP-8024 are exactly what isolation requires (they are part of [astep]:
   DUPN n needs n, SWAPN n needs n+1, EXCHANGE n m needs max(n,m)+1, and the theorems above hold
   for them): with SWAPN checked against n instead of n+1, a child frame holding exactly 17 items
   reads its caller's top item through back(17) and overwrites it *)
Theorem C28_weak_swapn_check_breaks_isolation :
  let g := fun _ : nat => 1024%nat in
  let script := [OEnter; OPush 7%N; OPush 8%N; OEnter] ++ repeat (OPush 1%N) 17 in
  let '(a, fs) := afinal g (mkArena (repeat 0%N 1025) 0%Z, []) script in
  match fs with
  | child :: parent :: _ =>
      s_size child = 17%Z /\ decode_single 128 = 17%Z /\
      snd (astep g (a, fs) (OSwapN 128)) = BErr 1%Z /\            (* the real check: underflow *)
      stk_back a child 17 = Some 8%N /\                            (* unchecked: the caller's top *)
      option_map (fun a' => stk_data a' parent) (stk_set_back a child 17 1%N) = Some (Some [7%N; 1%N])
  | _ => False
  end.
Proof. vm_compute. repeat split. Qed.
Print Assumptions C28_weak_swapn_check_breaks_isolation.

(* non-vacuity: a dirty arena and a two-frame script in which the child overwrites, pops and
   dups while the parent's operands survive; the interpreter's guard matters (an UNCHECKED pop
   in an empty child frame reads the parent's operand); a pooled memory reused after Free *)
Example C28_nonvacuous :
  let g := fun _ : nat => 1024%nat in
  let dirty := repeat 77%N 1025%nat in
  let script := [OEnter; OPush 5%N; OPush 6%N; OEnter; OPush 9%N; ODup 1%Z; OPop; OSetBack 0%Z 8%N; OPop; OPop;
                 OData 1%nat; OExit; OPop1Peek1] in
  arun g (mkArena dirty 0%Z, []) script = prun [] script /\
  nth 9%nat (prun [] script) BUnit = BErr 1%Z /\
  nth 10%nat (prun [] script) BUnit = BWords [5%N; 6%N] /\
  nth 12%nat (prun [] script) BUnit = BWord2 6%N 5%N /\
  (let script2 := [OEnter; OPush 99%N; OEnter] ++ repeat (OPush 1%N) 17 ++
                  [OSwapN 128; ODupN 128; OSwapN 128; OExchange 142; OLen; OData 1%nat] in
   arun g (mkArena dirty 0%Z, []) script2 = prun [] script2 /\
   skipn 20 (prun [] script2) = [BErr 1%Z; BUnit; BUnit; BUnit; BInt 18%Z; BWords [99%N]]) /\
  (let '(a, s) := arena_stack g (mkArena [5%N; 6%N] 2%Z) in
   option_map (fun r => snd r) (stk_pop a s) = Some 6%N) /\
  mrun (fun _ n => n) (mem_new, [])
       [MGas 64%N; MResize 64%N; MSet32 0%N (2 ^ 256 - 1)%N; MFreeNew 0%nat; MGas 32%N; MResize 32%N; MGet 0%N 32%N; MLen]
  = [MNum 6%N; MUnit; MUnit; MUnit; MNum 3%N; MUnit; MBytes (repeat 0%N 32%nat); MNum 32%N] /\
  m_tail (fst (mfinal (fun _ n => n) (mem_new, []) [MResize 64%N; MSet32 0%N (2 ^ 256 - 1)%N; MFreeNew 0%nat]))
  = repeat 0%N 128%nat.
Proof. vm_compute. repeat split. Qed.
