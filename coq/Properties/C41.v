(* Properties/C41.v — Transaction pool keeps only consistent, executable pending sets.
   Property theorems only, about the model Pool/Legacy.v of
   /repo/core/txpool/legacypool/{legacypool.go,list.go,queue.go,noncer.go}.

   FULL (all lists / all transactions): the per-account list mechanisms — exact cost
   tracking and nonce order through every list operation, the price-bump replacement
   rule, strict-mode gap invalidation (contiguous runs stay contiguous under Remove,
   Filter, Cap, Forward; Ready hands out a contiguous run; promotion appends).
   REFUTED (witness histories, replayed on the real code by harness/c41, corpus/C41):
   three clauses of the DESIGN.md statement are false of the faithful model.
   HISTORY LEVEL.  The structural pool invariant [SInv] (Pool/LegacyInv.v) =
     pending_queue_disjoint (by nonce, hence by tx), all_is_union (lookup = pending ∪ queue as
     sets, lookup duplicate-free) with the slot counter exact, per-list well-formedness
     (nonce-sorted, totalcost = sum of costs, cap bounds, strict flag, the sorted cache nil or
     equal to the items, every tx under its sender, senders in the account universe), and
     "no Go panic so far".
   FULL, one preservation theorem per pool-level operation, for every state satisfying SInv:
     removeTx, add (incl. underpriced eviction and both replacement paths), addTxsLocked,
     promoteExecutables, truncatePending, truncateQueue, the promote maintenance cycle,
     Add(txs, sync), SetGasTip, the listing calls Content / ContentFrom / Pending,
     demoteUnexecutables, reset (chain walk + reinjection) and the whole Reset cycle; and by
     induction C41_structural_inv_histories_partial: SInv after EVERY history of Add / Reset /
     SetGasTip / Content / ContentFrom / Pending operations from the empty pool, under the guards
     stated in the theorem (senders in the universe, cost < 2^191, nonce < 2^64, for submitted
     txs and for the txs contained in the blocks of the chain).
   PARTIAL - what is missing from the full statement
       forall h, hist_ok h -> pool_inv_b (run_history (pool_init c tip g) h) = true :
     (0) pending_affordable (per tx: cost <= balance, gas <= block gas limit, nonce >= state nonce,
         filed under the sender) IS carried through all histories: C41_pending_affordable_histories;
     (0') pending_front_gapless holds after every Reset cycle for every pair of heads
         (C41_Reset_cycle_front_gapless), and no pending list is empty after demoteUnexecutables;
     (0'') pending_gapless and pendingNonces consistency ARE carried through all guarded histories
         (C41_pending_gapless_histories; guard at every Reset: no account's state nonce moves below
         its non-empty pending list - without it the statement is false, C41_pending_gapless_refuted);
     (1) "the queue has no executable head" is a pool-level invariant of all histories without head
         changes (C41_no_executable_head_histories_partial); after a Reset cycle it needs a chain-consistency
         guard on the reinjected txs that the model's fake chain does not enforce
         (C41_no_executable_head_after_reset_refuted); the bump rule is FALSE for a full pool
         (C41_replacement_requires_bump_refuted);
     (2) fuel of the truncation/Discard loops never running out, priced-heap accounting, the
         per-account/global caps after maintenance.
   [pool_inv_b] is the executable full invariant, evaluated on every dump of the real pool by
   the harness oracle and on the model in C41_nonvacuous below. *)
From GV Require Import Lib.Tactics Pool.Legacy Pool.LegacyProofs Pool.LegacyInv Pool.LegacyInv2 Pool.LegacyInv3 Pool.LegacyInv4 Pool.LegacyInv5 Pool.LegacyInv6 Pool.LegacyInv7 Pool.LegacyInv8 Pool.LegacyInv9 Pool.LegacyInv10 Pool.LegacyInv11 Pool.LegacyThm.
Local Open Scope N_scope.

(* replacement_requires_bump: whenever list.Add replaces a transaction, the new one has the
   same nonce, strictly higher fee cap and tip, and both reach old * (100 + bump) / 100 *)
Theorem C41_replacement_requires_bump : forall t bump l o l',
  list_add t bump l = (AddOk (Some o), l') ->
  t_nonce o = t_nonce t /\
  t_feecap o < t_feecap t /\ t_tip o < t_tip t /\
  (100 + bump) * t_feecap o / 100 <= t_feecap t /\
  (100 + bump) * t_tip o / 100 <= t_tip t.
Proof. exact list_add_bump. Qed.
Print Assumptions C41_replacement_requires_bump.

(* cost tracking: every list operation keeps the list nonce-sorted (no duplicate nonces),
   totalcost exactly the sum of the costs (so subTotalCost never underflows/panics),
   and costcap/gascap upper bounds *)
Theorem C41_list_add_wf : forall t bump l r l', lwf l -> list_add t bump l = (r, l') -> lwf l'.
Proof. exact list_add_wf. Qed.
Print Assumptions C41_list_add_wf.
Theorem C41_list_forward_wf : forall th l rem l', lwf l -> list_forward th l = (rem, l') -> lwf l'.
Proof. exact list_forward_wf. Qed.
Print Assumptions C41_list_forward_wf.
Theorem C41_list_filter_wf : forall cl gl l rem inv l', lwf l -> list_filter cl gl l = (rem, inv, l') -> lwf l'.
Proof. exact list_filter_wf. Qed.
Print Assumptions C41_list_filter_wf.
Theorem C41_list_cap_wf : forall th l d l', lwf l -> list_cap th l = (d, l') -> lwf l'.
Proof. exact list_cap_wf. Qed.
Print Assumptions C41_list_cap_wf.
Theorem C41_list_remove_wf : forall t l l' inv,
  lwf l -> In t (l_txs l) -> list_remove t l = (true, inv, l') -> lwf l'.
Proof. exact list_remove_wf. Qed.
Print Assumptions C41_list_remove_wf.
Theorem C41_list_ready_wf : forall s l rdy l', lwf l -> list_ready s l = (rdy, l') -> lwf l'.
Proof. exact list_ready_wf. Qed.
Print Assumptions C41_list_ready_wf.
Theorem C41_total_never_negative : forall l, lwf l -> (0 <= l_total l)%Z.
Proof. exact lwf_total_nonneg. Qed.
Print Assumptions C41_total_never_negative.

(* pending_affordable, per transaction: what Filter(balance, gasLimit) keeps is payable and
   fits the block (the costcap/gascap short cut included) *)
Theorem C41_filter_keeps_affordable : forall cl gl l rem inv l' x,
  lwf l -> list_filter cl gl l = (rem, inv, l') -> In x (l_txs l') -> cost x <= cl /\ t_gas x <= gl.
Proof. exact list_filter_affordable. Qed.
Print Assumptions C41_filter_keeps_affordable.

(* pending_gapless, mechanism: in strict mode a contiguous nonce run stays a contiguous run
   from the same start under Remove (everything above the removed nonce is invalidated),
   Filter and Cap; Forward leaves a run starting at the new state nonce; Ready hands out a
   run starting exactly at the requested nonce; promotion appends at the end *)
Theorem C41_strict_remove_contiguous : forall t l s inv l',
  l_strict l = true -> contig s (l_txs l) -> list_remove t l = (true, inv, l') ->
  contig s (l_txs l') /\ (forall x, In x (l_txs l') -> t_nonce x < t_nonce t) /\
  (forall x, In x inv -> t_nonce t < t_nonce x).
Proof. exact list_remove_strict_contig. Qed.
Print Assumptions C41_strict_remove_contiguous.
Theorem C41_strict_filter_contiguous : forall cl gl l s rem inv l',
  l_strict l = true -> contig s (l_txs l) -> list_filter cl gl l = (rem, inv, l') -> contig s (l_txs l').
Proof. exact list_filter_strict_contig. Qed.
Print Assumptions C41_strict_filter_contiguous.
Theorem C41_cap_contiguous : forall th l s d l',
  contig s (l_txs l) -> list_cap th l = (d, l') -> contig s (l_txs l').
Proof. exact list_cap_contig. Qed.
Print Assumptions C41_cap_contiguous.
Theorem C41_forward_contiguous : forall th l s rem l',
  contig s (l_txs l) -> s <= th -> list_forward th l = (rem, l') -> contig th (l_txs l').
Proof. exact list_forward_contig. Qed.
Print Assumptions C41_forward_contiguous.
Theorem C41_ready_contiguous : forall start l rdy l' x r,
  l_txs l = x :: r -> start <= t_nonce x ->
  list_ready start l = (rdy, l') -> rdy = [] \/ (t_nonce x = start /\ contig start rdy).
Proof. exact list_ready_contig. Qed.
Print Assumptions C41_ready_contiguous.
(* "the queue has no executable head" after Ready: given that no queued nonce lies below the requested
   start (Forward(state nonce) + pending/queue disjointness), the first tx left behind has a nonce
   strictly above the end of the promoted run, i.e. above the new pending nonce *)
Theorem C41_ready_leaves_no_executable_head : forall start l rdy l', sorted (l_txs l) ->
  (forall x, In x (l_txs l) -> start <= t_nonce x) -> list_ready start l = (rdy, l') ->
  match l_txs l' with [] => True | y :: _ => start + N.of_nat (length rdy) < t_nonce y end.
Proof. exact list_ready_no_executable_head. Qed.
Print Assumptions C41_ready_leaves_no_executable_head.
Theorem C41_promote_appends : forall l t s,
  contig s l -> t_nonce t = s + N.of_nat (length l) -> sm_put t l = l ++ [t] /\ contig s (l ++ [t]).
Proof. exact C41_promote_appends_stmt. Qed.
Print Assumptions C41_promote_appends.
Theorem C41_gapless_checker_sound : forall l s, seq_from s l = true <-> contig s l.
Proof. exact seq_from_contig. Qed.
Print Assumptions C41_gapless_checker_sound.

(* ---------- the sorted cache of SortedMap (what Content / ContentFrom / Pending hand out) ---------- *)
(* for EVERY history of list operations with arbitrary arguments (Add = Put, Forward, Filter, Cap,
   Remove, Ready, Flatten), starting from a new list: the cache is nil or equals the nonce-sorted
   items - a mutator that forgets to invalidate it breaks this proof - and Flatten returns the items *)
Theorem C41_cache_valid_all_list_histories : forall h s,
  let l := fold_left lstep h (new_list s) in
  sorted (l_txs l) /\ (l_cache l = None \/ l_cache l = Some (l_txs l)).
Proof. exact lhistory_sc_ok. Qed.
Print Assumptions C41_cache_valid_all_list_histories.
Theorem C41_flatten_is_items_all_list_histories : forall h s,
  fst (list_flatten (fold_left lstep h (new_list s))) = l_txs (fold_left lstep h (new_list s)).
Proof. exact lhistory_flatten. Qed.
Print Assumptions C41_flatten_is_items_all_list_histories.
Theorem C41_list_flatten_wf : forall l c l', lwf l -> list_flatten l = (c, l') ->
  c = l_txs l /\ lwf l' /\ l_txs l' = l_txs l /\ l_total l' = l_total l /\ l_strict l' = l_strict l /\
  l_cache l' = Some (l_txs l).
Proof. exact list_flatten_spec. Qed.
Print Assumptions C41_list_flatten_wf.
(* at pool level (lwf, hence cache validity, is part of SInv): the public listings are the index *)
Theorem C41_listing_is_index : forall a st, SInv st ->
  fst (flatten_pending a st) = match p_pending st a with Some l => l_txs l | None => [] end /\
  fst (flatten_queue a st) = match p_queue st a with Some l => l_txs l | None => [] end /\
  SInv (snd (pool_ContentFrom a st)) /\ SInv (snd (pool_Content st)) /\ SInv (snd (pool_Pending st)).
Proof. exact C41_listing_is_index_stmt. Qed.
Print Assumptions C41_listing_is_index.

(* ---------- structural invariant: one preservation theorem per operation ---------- *)
Theorem C41_removeTx_preserves : forall k t oob st, SInv st ->
  SInv (fst (remove_tx (S (S k)) t oob st)) /\
  (forall x, In x (p_all (fst (remove_tx (S (S k)) t oob st))) <-> In x (p_all st) /\ x <> t).
Proof. exact C41_removeTx_preserves_stmt. Qed.
Print Assumptions C41_removeTx_preserves.
Theorem C41_add_preserves : forall t st, SInv st -> okt (p_cfg st) t -> SInv (fst (fst (pool_add t st))).
Proof. exact C41_add_preserves_stmt. Qed.
Print Assumptions C41_add_preserves.
Theorem C41_addTxsLocked_preserves : forall txs errs st dirty, SInv st -> (forall t, In t txs -> okt (p_cfg st) t) ->
  SInv (fst (fst (add_txs_locked txs errs st dirty))).
Proof. exact C41_addTxsLocked_preserves_stmt. Qed.
Print Assumptions C41_addTxsLocked_preserves.
Theorem C41_promoteExecutables_preserves : forall accts st, SInv st -> SInv (promote_executables accts st).
Proof. exact C41_promoteExecutables_preserves_stmt. Qed.
Print Assumptions C41_promoteExecutables_preserves.
Theorem C41_truncatePending_preserves : forall st, SInv st -> SInv (truncate_pending st).
Proof. exact C41_truncatePending_preserves_stmt. Qed.
Print Assumptions C41_truncatePending_preserves.
Theorem C41_truncateQueue_preserves : forall st, SInv st -> SInv (truncate_queue st).
Proof. exact C41_truncateQueue_preserves_stmt. Qed.
Print Assumptions C41_truncateQueue_preserves.
Theorem C41_Add_preserves : forall txs st, SInv st -> (forall t, In t txs -> okt (p_cfg st) t) -> SInv (fst (pool_Add txs st)).
Proof. exact C41_Add_preserves_stmt. Qed.
Print Assumptions C41_Add_preserves.
Theorem C41_SetGasTip_preserves : forall tip st, SInv st -> SInv (pool_SetGasTip tip st).
Proof. exact C41_SetGasTip_preserves_stmt. Qed.
Print Assumptions C41_SetGasTip_preserves.

(* the Reset cycle (runReorg with a reset request): reset(oldHead, newHead) with the chain walk and the
   reinjection of the dropped txs, promoteExecutables, demoteUnexecutables against the new state,
   SetBaseFee, setAll of the pending nonces, truncatePending, truncateQueue - for EVERY pair of heads
   and every block store whose transactions satisfy the magnitude guards *)
Theorem C41_demoteUnexecutables_preserves : forall st, SInv st ->
  SInv (demote_unexecutables st) /\ (forall a l, p_pending (demote_unexecutables st) a = Some l -> l_txs l <> []).
Proof. exact C41_demoteUnexecutables_preserves_stmt. Qed.
Print Assumptions C41_demoteUnexecutables_preserves.
Theorem C41_reset_preserves : forall blocks old new st, SInv st -> blocks_ok (p_cfg st) blocks old new ->
  SInv (pool_reset blocks old new st).
Proof. exact C41_reset_preserves_stmt. Qed.
Print Assumptions C41_reset_preserves.
Theorem C41_Reset_cycle_preserves : forall blocks old new st, SInv st -> blocks_ok (p_cfg st) blocks old new ->
  SInv (run_reorg_reset blocks old new st).
Proof. exact C41_Reset_cycle_preserves_stmt. Qed.
Print Assumptions C41_Reset_cycle_preserves.

(* by induction over ALL histories of Add / Reset / SetGasTip / Content / ContentFrom / Pending from the
   empty pool.  The guards [op_okR]: every submitted tx and every tx contained in a block of the fake
   chain has its sender in the account universe, cost < 2^191 and nonce < 2^64.
   PARTIAL only in the sense that SInv is the structural part of the property (see the header). *)
Theorem C41_structural_inv_histories_partial : forall c tip g h,
  Forall (op_okR c) h -> SInv (run_history (pool_init c tip g) h).
Proof. exact C41_structural_inv_histories_partial_stmt. Qed.
Print Assumptions C41_structural_inv_histories_partial.

(* pending_affordable over ALL histories (Add / Reset / SetGasTip / listings), same guards: every
   pending transaction is filed under its sender, its cost is covered by the sender's balance at the
   current head, its gas fits the current block gas limit, and its nonce is not below the sender's
   state nonce (no stale pending tx: the lower half of pending_front_gapless).  (The cumulative form
   "balance >= total cost of the pending list" is false by design: C41_pending_total_affordable_refuted.) *)
Theorem C41_pending_affordable_histories : forall c tip g h, Forall (op_okR c) h ->
  let st := run_history (pool_init c tip g) h in
  forall b x, in_opt x (p_pending st b) ->
    t_from x = b /\ cost x <= ch_bal (p_chain st) (t_from x) /\ t_gas x <= ch_gaslimit (p_chain st) /\
    ch_nonce (p_chain st) (t_from x) <= t_nonce x.
Proof. exact C41_pending_affordable_histories_stmt. Qed.
Print Assumptions C41_pending_affordable_histories.
(* the Reset cycle re-establishes it from ANY structurally consistent state, for every pair of heads *)
Theorem C41_Reset_cycle_establishes_affordable : forall blocks old new st, SInv st -> blocks_ok (p_cfg st) blocks old new ->
  PAff (run_reorg_reset blocks old new st).
Proof. exact run_reorg_reset_PAff. Qed.
Print Assumptions C41_Reset_cycle_establishes_affordable.

(* pending_front_gapless after the Reset cycle, for EVERY pair of heads (reorgs that lower nonces
   included) and every structurally consistent pool: no pending nonce is below the new state nonce
   and every non-empty pending list contains it.  (Interior gaps are NOT excluded:
   C41_pending_gapless_refuted.  Carrying this clause and contiguity through Add cycles needs the
   pendingNonces bookkeeping and is not proved.) *)
Theorem C41_Reset_cycle_front_gapless : forall blocks old new st, SInv st -> blocks_ok (p_cfg st) blocks old new ->
  let st' := run_reorg_reset blocks old new st in
  forall a, (forall x, in_opt x (p_pending st' a) -> ch_nonce (p_chain st') a <= t_nonce x) /\
            ((exists x, in_opt x (p_pending st' a)) ->
             exists x, in_opt x (p_pending st' a) /\ t_nonce x = ch_nonce (p_chain st') a).
Proof. exact C41_Reset_cycle_front_gapless_stmt. Qed.
Print Assumptions C41_Reset_cycle_front_gapless.

(* pending_gapless and pendingNonces consistency, carried through removeTx, add (incl. eviction and both
   replacement paths), promoteExecutables, truncatePending, truncateQueue, SetGasTip and the listings:
   one preservation theorem per operation, for every state satisfying SInv and GInv, where
   GInv st = for every account, the pending list is gapless from the state nonce and
             pendingNonces[a] = state nonce + number of pending txs (= last pending nonce + 1) *)
Theorem C41_removeTx_keeps_gapless : forall k t oob st, SInv st -> GInv st -> GInv (fst (remove_tx (S (S k)) t oob st)).
Proof. exact remove_tx_G. Qed.
Print Assumptions C41_removeTx_keeps_gapless.
Theorem C41_promoteExecutables_keeps_gapless : forall accts st, SInv st -> GInv st -> NoDup accts -> GInv (promote_executables accts st).
Proof. exact promote_executables_G. Qed.
Print Assumptions C41_promoteExecutables_keeps_gapless.
Theorem C41_truncatePending_keeps_gapless : forall st, SInv st -> GInv st -> GInv (truncate_pending st).
Proof. exact truncate_pending_G. Qed.
Print Assumptions C41_truncatePending_keeps_gapless.
Theorem C41_Add_cycle_keeps_gapless : forall txs st, SG st -> (forall t, In t txs -> okt (p_cfg st) t) -> SG (fst (pool_Add txs st)).
Proof. exact pool_Add_SG. Qed.
Print Assumptions C41_Add_cycle_keeps_gapless.
(* the Reset cycle under the guard [reset_guard st new]: no account's state nonce moves below its
   (non-empty) pending list.  Without the guard the statement is false: C41_pending_gapless_refuted *)
Theorem C41_Reset_cycle_keeps_gapless : forall blocks old new st, SG st -> reset_guard st new ->
  blocks_ok (p_cfg st) blocks old new -> NoDup (c_accts (p_cfg st)) -> SG (run_reorg_reset blocks old new st).
Proof. exact run_reorg_reset_SG. Qed.
Print Assumptions C41_Reset_cycle_keeps_gapless.

(* pending_gapless and pendingNonces consistency after EVERY guarded history of Add / Reset / SetGasTip /
   listings from the empty pool.  Guards [hist_okG]: op_okR for every op (senders in the universe,
   cost < 2^191, nonce < 2^64, also for the txs contained in chain blocks) and reset_guard at every Reset;
   the account universe has no repetitions.  Conclusion, for every account: the pending list is gapless
   from the state nonce, pendingNonces[a] = state nonce + number of pending txs, and (non-empty list)
   pendingNonces[a] = last pending nonce + 1. *)
Theorem C41_pending_gapless_histories : forall c tip g h, NoDup (c_accts c) -> hist_okG c (pool_init c tip g) h ->
  let st := run_history (pool_init c tip g) h in
  forall a, (forall l, p_pending st a = Some l -> contig (ch_nonce (p_chain st) a) (l_txs l)) /\
            pn_get a st = ch_nonce (p_chain st) a + N.of_nat (pending_len a st) /\
            (forall l t, p_pending st a = Some l -> last (map Some (l_txs l)) None = Some t -> pn_get a st = t_nonce t + 1).
Proof. exact C41_pending_gapless_histories_stmt. Qed.
Print Assumptions C41_pending_gapless_histories.

(* "the queue has no executable head" at pool level: after every Add cycle (and SetGasTip, listings) no
   queued tx has a nonce at or below the pending nonce of its sender.  One preservation theorem for the
   Add cycle and, by induction, all histories without head changes.  PARTIAL: after a Reset cycle the
   clause additionally needs the reinjected txs to be consistent with the chain state (a dropped block
   must not contain a tx above its own state nonce), which the fake chain of the model does not enforce:
   C41_no_executable_head_after_reset_refuted is a witness with such a block (its history satisfies
   reset_guard: no state nonce ever changes). *)
Theorem C41_Add_cycle_no_executable_head : forall txs st, SGX st -> (forall t, In t txs -> okt (p_cfg st) t) -> SGX (fst (pool_Add txs st)).
Proof. exact pool_Add_SGX. Qed.
Print Assumptions C41_Add_cycle_no_executable_head.
Theorem C41_no_executable_head_histories_partial : forall c tip g h, Forall (op_ok c) h ->
  let st := run_history (pool_init c tip g) h in
  forall a x, in_opt x (p_queue st a) -> pn_get a st < t_nonce x.
Proof. exact C41_no_executable_head_histories_partial_stmt. Qed.
Print Assumptions C41_no_executable_head_histories_partial.
Theorem C41_no_executable_head_after_reset_refuted :
  exists h, let st := run_history (pool_init cfg_roomy 1 g0) h in
    option_map (fun l => map t_nonce (l_txs l)) (p_pending st 0) = Some [0; 1; 2] /\
    pn_get 0 st = 3 /\
    option_map (fun l => map t_nonce (l_txs l)) (p_queue st 0) = Some [3] /\
    ch_nonce (p_chain st) 0 = 0.
Proof. exact C41_no_executable_head_after_reset_refuted_stmt. Qed.
Print Assumptions C41_no_executable_head_after_reset_refuted.

(* ---------- witnesses ---------- *)
(* branch 1 mines tA, tB; branch 2 (sibling) does not, and account 0 can no longer pay tB there *)

(* pending_gapless is FALSE for histories with a reorg that lowers an account's nonce below its
   pending transactions when only part of the dropped transactions can be reinjected:
   pending becomes [nonce 0, nonce 2], demoteUnexecutables only looks for a gap at the front.
   OPEN KNOWN FINDING C41-interior-gap-after-reinjection.  Guard of the positive statement: no Reset
   moves an account's state nonce below its lowest pending nonce.  What IS proved without any guard:
   C41_Reset_cycle_front_gapless (the front of every pending list is the state nonce after every Reset
   cycle), C41_pending_affordable_histories (no pending nonce below the state nonce, ever) and the
   list-level contiguity theorems; the history-level contiguity theorem under the guard is NOT proved. *)
Theorem C41_pending_gapless_refuted :
  exists h, let st := run_history (pool_init cfg_roomy 1 g0) h in
    gapless_b st = false /\
    option_map (fun l => map t_nonce (l_txs l)) (p_pending st 0) = Some [0; 2] /\
    ch_nonce (p_chain st) 0 = 0.
Proof. exact C41_pending_gapless_refuted_stmt. Qed.
Print Assumptions C41_pending_gapless_refuted.

(* pending_affordable in the cumulative form "balance >= total cost of the pending list" is FALSE
   without any reorg: validation counts only the pending list, gapped txs wait in the queue *)
Theorem C41_pending_total_affordable_refuted :
  exists h, let st := run_history (pool_init cfg_roomy 1 g1) h in
    total_affordable_b st = false /\ pool_inv_b st = true.
Proof. exact C41_pending_total_affordable_refuted_stmt. Qed.
Print Assumptions C41_pending_total_affordable_refuted.

(* replacement_requires_bump is FALSE at pool level when the pool is full: the pooled tx of the
   same sender and nonce is the cheapest one, is evicted by pricedList.Discard, and the new tx
   (2% dearer, bump 10%) is queued afresh — pool.add never reaches list.Add's bump check.
   OPEN KNOWN FINDING C41-bump-bypass-via-eviction.  Guard of the positive statement: the same-nonce
   tx is replaced through list.Add (always the case when the pool is not full), where
   C41_replacement_requires_bump holds for all lists and transactions. *)
Theorem C41_replacement_requires_bump_refuted :
  exists st, st = run_history (pool_init cfg_tiny 1 g0) [OpAdd [tP]; OpAdd [tOld]] /\
    all_has tOld st = true /\
    t_from tNew = t_from tOld /\ t_nonce tNew = t_nonce tOld /\
    t_feecap tNew < (100 + c_bump (p_cfg st)) * t_feecap tOld / 100 /\
    let '(st', errs) := pool_Add [tNew] st in
    errs = [E_OK] /\ all_has tNew st' = true /\ all_has tOld st' = false /\ pool_inv_b st' = true.
Proof. exact C41_replacement_requires_bump_refuted_stmt. Qed.
Print Assumptions C41_replacement_requires_bump_refuted.

(* the invariant is met by a non-trivial state: two accounts pending, one queued behind a gap,
   after additions, a replacement and a head change *)
Example C41_nonvacuous :
  let st := run_history (pool_init cfg_roomy 1 g0)
              [OpAdd [tA; tB; tC]; OpAdd [tQ]; OpAdd [tR]; OpAdd [mkTx 12 2 0 30000 9 9 5 1 21000];
               OpReset chain1 g0 b1; OpSetGasTip 2] in
  pool_inv_b st = true /\ limits_b st = true /\ lwf (new_list true) /\
  length (p_all st) = 3%nat /\ queue_count st = 1%nat.
Proof. exact C41_nonvacuous_stmt. Qed.
