(* Properties/C47.v — Snap sync reconstructs exactly the target state (snap/1 syncer,
   /repo/eth/protocols/snap/sync.go).  Property theorems only; each is closed by [exact] of a
   lemma of Net/SnapSyncProofs.v about the model Net/SnapSync.v.

   Level: PARTIAL.  Proved here over ALL event histories (any order, duplication, loss of
   responses, honest or dishonest peers, timeouts, restarts from persisted progress):
   only_verified_stored.  Proved per operation (for every state): a rejected / empty / stale /
   timed-out response changes nothing; forwardAccountTask is the only operation that moves Next
   and moves it forward under the range verifier's contract.
   NOT proved in Coq (checked on every run by the Go oracle and by the model/implementation
   correspondence instead):
     ranges_partition      : forall evs, the [Next,Last] ranges of the live account tasks (and of the
                             chunks of each large contract) are pairwise disjoint, sorted, and
                             together with the persisted ranges cover the hash space;
     complete_implies_equal: under verify_sound (an accepted response is exactly the target's items
                             in [origin, last key] and more <-> the target has keys beyond),
                             forall evs, s_tasks (run c root evs) = [] -> flat accounts / storage /
                             codes = target;
     progress_monotone over histories and restart_resumes as invariant statements (the all-histories
                             theorem below does cover ERestart events: the provenance invariant
                             holds again after every reload from persisted progress);
     bal_catchup_exact     : the access-list catch-up lives in the separate snap/2 syncer
                             (syncv2.go, bal_apply.go), which is not modelled. *)
From GV Require Import Lib.Tactics Net.SnapSync Net.SnapSyncProofs.
Local Open Scope N_scope.

(* ---- only_verified_stored: whatever the local flat state holds after ANY event list was an item
   of an ACCEPTED (verdict ok = true, well-formed) account-range response, a slot of an accepted
   storage response, or a blob of a bytecode response of that history (stored under the hash it was
   matched against).  ERestart/EStop events (cancel, reload from persisted progress) are part of the
   quantified histories. *)
Theorem C47_only_verified_stored : forall c root evs,
  let s := run c root evs in
  (forall k v, get k (d_acc (s_db s)) = Some v -> hist_acc evs k v) /\
  (forall a k v, slot_get a k (s_db s) = Some v -> hist_slot evs a k v) /\
  (forall h x, get h (d_code (s_db s)) = Some x -> hist_code evs h x).
Proof. exact only_verified_stored. Qed.
Print Assumptions C47_only_verified_stored.

(* ---- progress_monotone (second half, every state): a response that fails verification, is entirely
   empty, malformed, times out, or answers a request that is not tracked (stale / duplicate) leaves
   the flat state, every Next/Last/done marker, every response being filled and the panic flag
   unchanged *)
Theorem C47_rejected_changes_nothing : forall c s e,
  rejected s e \/ (forall id, (match e with EAcc i _ _ _ _ | ESto i _ _ _ _ _ | ECode i _ | ETimeout i => i = id | _ => False end) ->
                   take_req id (s_reqs s) = None) ->
  s_db (handle c s e) = s_db s /\ map core (s_tasks (handle c s e)) = map core (s_tasks s)
  /\ s_panic (handle c s e) = s_panic s.
Proof. exact rejected_changes_nothing. Qed.
Print Assumptions C47_rejected_changes_nothing.

(* ---- progress_monotone (first half, per operation; PARTIAL: not lifted to histories):
   forwardAccountTask keeps Last and sets Next to its old value or to the successor of a delivered
   key ... *)
Theorem C47_forward_next_partial : forall t db t' db' p,
  forward t db = (t', db', p) ->
  t_last t' = t_last t /\
  (t_next t' = t_next t \/
   exists res k a, t_res t = Some res /\ In (k, a) (r_items res) /\ t_next t' = inc_hash k).
Proof. exact forward_next. Qed.
Print Assumptions C47_forward_next_partial.

(* ... hence never backwards when the delivered keys are not below Next (range verifier's contract:
   keys >= origin) and below 2^256-1 *)
Theorem C47_forward_monotone_partial : forall t db t' db' p,
  (forall res k a, t_res t = Some res -> In (k, a) (r_items res) -> t_next t <= k /\ k < MAXH) ->
  forward t db = (t', db', p) -> t_next t <= t_next t'.
Proof. exact forward_monotone. Qed.
Print Assumptions C47_forward_monotone_partial.

(* a concrete history: rejected + stale + honest responses over two account chunks, one contract
   with code and storage; ends with no task left, no panic, and exactly the target in the store *)
Example C47_nonvacuous : c47_example_check = true.
Proof. vm_compute. reflexivity. Qed.

(* ---- complete_implies_equal, soundness half (PARTIAL: the inclusion target <= store at completion
   is not proved): if the accepted responses of a history carry only target items (verify_sound,
   soundness direction), then after ANY history - complete or not - every flat account, slot and code
   of the local store is a target item *)
Theorem C47_stored_subset_target_partial : forall c root evs
    (TA : N -> bytes -> Prop) (TS : N -> bytes -> Prop) (TC : N -> bytes -> Prop),
  (forall e k v, In e evs -> ev_acc e k v -> TA k v) ->
  (forall e k v, In e evs -> ev_slot e k v -> TS k v) ->
  (forall e h x, In e evs -> ev_code e h x -> TC h x) ->
  let s := run c root evs in
  (forall k v, get k (d_acc (s_db s)) = Some v -> TA k v) /\
  (forall a k v, slot_get a k (s_db s) = Some v -> TS k v) /\
  (forall h x, get h (d_code (s_db s)) = Some x -> TC h x).
Proof. exact stored_subset_target. Qed.
Print Assumptions C47_stored_subset_target_partial.
