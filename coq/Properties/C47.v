(* Properties/C47.v — Snap sync reconstructs exactly the target state (snap/1 syncer,
   /repo/eth/protocols/snap/sync.go).  Property theorems only; each is closed by [exact] of a
   lemma of Net/SnapSyncProofs.v about the model Net/SnapSync.v.

   Level: PARTIAL (what is partial: the snap/2 syncer with BAL catch-up is not modelled; the verifier is
   abstract; peers/timers/goroutines are runtime behaviour).  Over ALL event histories (any order,
   duplication, loss of responses, honest or dishonest peers, timeouts, cancel + restart from persisted
   progress): only_verified_stored; origin_is_next (an outstanding account request pins its task: Next =
   the request's origin, no response held, one request per task - no hypothesis on responses); and, for
   histories whose ACCEPTED responses satisfy the range verifier's contract (explicit hypotheses on the
   recorded verdicts: [trace_sound] / [trace_sound_o] for account ranges, [sto_trace] /
   [storage_trace_sound] for storage ranges): ranges_partition for account tasks AND storage chunks,
   progress_monotone, restart_resumes, complete_implies_equal for accounts, storage and code (both
   inclusions).  NOT proved / not covered: bal_catchup_exact (snap/2, syncv2.go / bal_apply.go, not
   modelled); pivot moves; healing. *)
From GV Require Import Lib.Tactics Net.SnapSync Net.SnapSyncProofs Net.SnapSyncRanges Net.SnapSyncChunks Net.SnapSyncComplete Net.SnapSyncOrigin.
Local Open Scope N_scope.

(* ---- only_verified_stored: whatever the local flat state holds after ANY event list was an item
   of an ACCEPTED (verdict ok = true, well-formed) account-range response, a slot of an accepted
   storage response, or a blob of a bytecode response of that history (stored under the hash it was
   matched against).  ERestart/EStop events (cancel, reload from persisted progress) are part of the
   quantified histories. *)
Theorem C47_only_verified_stored : forall c root evs,
  let s := run c root evs in
  (forall k v, get k (d_acc (s_db s)) = Some v -> hist_acc evs k v) /\
  (forall a k v, slot_get a k (s_db s) = Some v -> hist_slot evs a k v) /\
  (forall h x, get h (d_code (s_db s)) = Some x -> hist_code evs h x).
Proof. exact only_verified_stored. Qed.
Print Assumptions C47_only_verified_stored.

(* ---- progress_monotone (second half, every state): a response that fails verification, is entirely
   empty, malformed, times out, or answers a request that is not tracked (stale / duplicate) leaves
   the flat state, every Next/Last/done marker, every response being filled and the panic flag
   unchanged *)
Theorem C47_rejected_changes_nothing : forall c s e,
  rejected s e \/ (forall id, (match e with EAcc i _ _ _ _ | ESto i _ _ _ _ _ | ECode i _ | ETimeout i => i = id | _ => False end) ->
                   take_req id (s_reqs s) = None) ->
  s_db (handle c s e) = s_db s /\ map core (s_tasks (handle c s e)) = map core (s_tasks s)
  /\ s_panic (handle c s e) = s_panic s.
Proof. exact rejected_changes_nothing. Qed.
Print Assumptions C47_rejected_changes_nothing.

(* ---- progress_monotone (first half, per operation; PARTIAL: not lifted to histories):
   forwardAccountTask keeps Last and sets Next to its old value or to the successor of a delivered
   key ... *)
Theorem C47_forward_next_partial : forall t db t' db' p,
  forward t db = (t', db', p) ->
  t_last t' = t_last t /\
  (t_next t' = t_next t \/
   exists res k a, t_res t = Some res /\ In (k, a) (r_items res) /\ t_next t' = inc_hash k).
Proof. exact forward_next. Qed.
Print Assumptions C47_forward_next_partial.

(* ... hence never backwards when the delivered keys are not below Next (range verifier's contract:
   keys >= origin) and below 2^256-1 *)
Theorem C47_forward_monotone_partial : forall t db t' db' p,
  (forall res k a, t_res t = Some res -> In (k, a) (r_items res) -> t_next t <= k /\ k < MAXH) ->
  forward t db = (t', db', p) -> t_next t <= t_next t'.
Proof. exact forward_monotone. Qed.
Print Assumptions C47_forward_monotone_partial.

(* a concrete history: rejected + stale + honest responses over two account chunks, one contract
   with code and storage; ends with no task left, no panic, and exactly the target in the store *)
Example C47_nonvacuous : c47_example_check = true.
Proof. vm_compute. reflexivity. Qed.

(* ---- complete_implies_equal, soundness half with abstract target predicates (the full statement is
   C47_complete_implies_equal_full below): if the accepted responses of a history carry only target items (verify_sound,
   soundness direction), then after ANY history - complete or not - every flat account, slot and code
   of the local store is a target item *)
Theorem C47_stored_subset_target_partial : forall c root evs
    (TA : N -> bytes -> Prop) (TS : N -> bytes -> Prop) (TC : N -> bytes -> Prop),
  (forall e k v, In e evs -> ev_acc e k v -> TA k v) ->
  (forall e k v, In e evs -> ev_slot e k v -> TS k v) ->
  (forall e h x, In e evs -> ev_code e h x -> TC h x) ->
  let s := run c root evs in
  (forall k v, get k (d_acc (s_db s)) = Some v -> TA k v) /\
  (forall a k v, slot_get a k (s_db s) = Some v -> TS k v) /\
  (forall h x, get h (d_code (s_db s)) = Some x -> TC h x).
Proof. exact stored_subset_target. Qed.
Print Assumptions C47_stored_subset_target_partial.


(* ================= range bookkeeping over all histories (Net/SnapSyncRanges.v) ================= *)

(* ---- ranges_partition (account tasks): after ANY sound history the live account tasks are well-formed
   ranges inside the hash space, pairwise disjoint and increasing; each is the not-yet-fetched suffix
   [Next, Last] of one of the initial chunks (same Last, Next not below the chunk's start), and the initial
   chunks are increasing, disjoint and cover the whole hash space [0, 2^256-1] - so live ranges together
   with the completed prefixes (and the chunks of finished tasks) cover the hash space *)
Theorem C47_ranges_partition : forall (tg : list (N * acct)),
  (forall k a a', In (k, a) tg -> In (k, a') tg -> a = a') ->
  forall c : config,
  (forall k a, In (k, a) tg -> k <= MAXH) ->
  1 <= c_acc c <= HSPACE ->
  forall root evs,
  trace_sound tg c (start c fresh root) evs ->
  let ts := s_tasks (run c root evs) in
  (forall t, In t ts -> t_done t = false /\ t_next t <= t_last t <= MAXH) /\
  (forall l1 t1 l2 t2, ts = l1 ++ t1 :: l2 -> In t2 l2 -> t_last t1 < t_next t2) /\
  (forall t, In t ts -> exists t0, In t0 (init_tasks c) /\ t_last t0 = t_last t /\ t_next t0 <= t_next t) /\
  ranges_from 0 (init_tasks c) /\
  (forall k, k <= MAXH -> exists t0, In t0 (init_tasks c) /\ t_next t0 <= k <= t_last t0).
Proof. exact ranges_partition_acc. Qed.
Print Assumptions C47_ranges_partition.

(* ---- progress_monotone over histories: after any further events (restarts included) every live task
   is a task that was live before, with the same Last and a Next that is not smaller *)
Theorem C47_progress_monotone : forall (tg : list (N * acct)),
  (forall k a a', In (k, a) tg -> In (k, a') tg -> a = a') ->
  forall c : config,
  (forall k a, In (k, a) tg -> k <= MAXH) ->
  1 <= c_acc c <= HSPACE ->
  forall root evs1 evs2,
  trace_sound tg c (start c fresh root) (evs1 ++ evs2) ->
  forall t', In t' (s_tasks (run c root (evs1 ++ evs2))) ->
  exists t, In t (s_tasks (run c root evs1)) /\ t_last t = t_last t' /\ t_next t <= t_next t'.
Proof. exact progress_monotone. Qed.
Print Assumptions C47_progress_monotone.

(* ---- complete_implies_equal, flat accounts only (storage and code: C47_complete_implies_equal_full below): under the
   verifier's contract, when no account task is left the flat account state IS the target: a key has a
   body in the store iff it is a target account with that body *)
Theorem C47_complete_implies_equal_accounts : forall (tg : list (N * acct)),
  (forall k a a', In (k, a) tg -> In (k, a') tg -> a = a') ->
  forall c : config,
  (forall k a, In (k, a) tg -> k <= MAXH) ->
  1 <= c_acc c <= HSPACE ->
  forall root evs,
  trace_sound tg c (start c fresh root) evs ->
  (forall e k v, In e evs -> ev_acc e k v -> exists a, In (k, a) tg /\ a_blob a = v) ->
  s_tasks (run c root evs) = [] ->
  forall k v, get k (d_acc (s_db (run c root evs))) = Some v <-> exists a, In (k, a) tg /\ a_blob a = v.
Proof. exact complete_accounts_equal. Qed.
Print Assumptions C47_complete_implies_equal_accounts.

(* ---- the invariant behind the three theorems holds after every sound history ... *)
Theorem C47_invariant_all_histories : forall (tg : list (N * acct)),
  (forall k a a', In (k, a) tg -> In (k, a') tg -> a = a') ->
  forall c : config,
  (forall k a, In (k, a) tg -> k <= MAXH) ->
  1 <= c_acc c <= HSPACE ->
  forall root evs, trace_sound tg c (start c fresh root) evs -> Inv tg c (run c root evs).
Proof. exact run_inv. Qed.
Print Assumptions C47_invariant_all_histories.

(* ---- ... and restart_resumes: cancelling (forward every task, drop finished ones, persist) and starting
   again from the persisted progress - with any root - yields a state that satisfies the same invariant,
   whose progress record is exactly the saved markers, and in which no task's Next went backwards *)
Theorem C47_restart_resumes : forall (tg : list (N * acct)),
  (forall k a a', In (k, a) tg -> In (k, a') tg -> a = a') ->
  forall (c : config) (s : syncer) (root' : N),
  Inv tg c s ->
  s_saved (shutdown s) = Some (map save_task (s_tasks (shutdown s))) /\
  Inv tg c (start c (shutdown s) root') /\
  mono_rel (s_tasks s) (s_tasks (start c (shutdown s) root')).
Proof. exact restart_resumes. Qed.
Print Assumptions C47_restart_resumes.


(* ---- ranges_partition, storage chunks, per operation (the all-histories invariant is C47_chunk_ranges below).  Chunk splitting
   (processStorageResponse + range.go newHashRange/Next/End): whenever the sub-tasks of a large contract are
   created they are consecutive non-empty ranges starting at 0 and ending at 2^256-1 - pairwise disjoint and
   covering the account's whole slot space *)
Theorem C47_chunks_partition_partial : forall c keys root l,
  (forall k, In k keys -> k <= MAXH) ->
  make_chunks c keys root = Some l -> exact_from 0 l.
Proof. exact make_chunks_partition. Qed.
Print Assumptions C47_chunks_partition_partial.

(* a chunk delivery keeps every chunk's Last; the addressed chunk is marked done with Next unchanged or gets
   Next = successor of a delivered key strictly below its Last; under the verifier's contract (delivered keys
   not below the chunk's Next) Next does not move backwards and stays inside the chunk *)
Theorem C47_chunk_advance_partial : forall t2 sa sl account slots s p2 st' l',
  sl <= MAXH ->
  get sa (t_subs (sp_t (storage_D t2 (Some (sa, sl)) account slots s p2))) = Some l' ->
  In st' l' ->
  exists l st, get sa (t_subs t2) = Some l /\ In st l /\ st_last st' = st_last st /\
    ((forall k v, In (k, v) slots -> st_next st <= k) -> st_next st <= st_next st' /\
     (st_next st <= st_last st -> st_next st' <= st_last st')).
Proof. exact chunk_advance_monotone. Qed.
Print Assumptions C47_chunk_advance_partial.

(* ---- the hypotheses of the range theorems are satisfiable: a concrete target (functional, inside the hash
   space), a valid configuration and an honest history with the exact `more` flags for which [trace_sound]
   holds, and which completes (no task left, no panic) *)
Example C47_nonvacuous_sound :
  (forall k a a', In (k, a) ex_tg -> In (k, a') ex_tg -> a = a') /\
  (forall k a, In (k, a) ex_tg -> k <= MAXH) /\
  1 <= c_acc ex_cfg <= HSPACE /\
  trace_sound ex_tg ex_cfg (start ex_cfg fresh 1) ex_sound_events /\
  c47_sound_example_check = true.
Proof.
  split; [exact ex_tg_fun|]. split; [exact ex_tg_bound|]. split; [exact ex_cfg_ok|].
  split; [exact ex_trace_sound|]. vm_compute. reflexivity.
Qed.


(* ================= storage and code at completion (Net/SnapSyncComplete.v) ================= *)

(* ---- complete_implies_equal, inclusion target <= store for ACCOUNTS, CODE and STORAGE, over all histories
   (restarts included).  [ST h] is the target storage of the account with hash h (functional, inside the
   hash space, empty when the account's storage root is the empty root).  Hypotheses on the recorded
   verdicts: [trace_sound] (accepted account ranges, as above) and [sto_trace]: every ACCEPTED storage
   response satisfies [sto_sound] against the request it answers - each set carries only target slots of
   its account; from the origin (0, or the Next of the addressed chunk) no target slot up to the last
   delivered key is missing; every set but the last, and the last one when more = false, is complete from
   the origin; a chunk request names one account.  (Keys below the origin are allowed: the real code
   accepts the whole trie without proof for a chunk request.)  Then, when no account task is left, every
   target account is in the flat state with its body, its code (if any) is stored, and every target slot
   of it is stored with its target value.  Invariant behind it ([ADB], all histories): an account body is
   written to the flat state only after its code and its whole storage are stored. *)
Theorem C47_complete_implies_equal : forall (tg : list (N * acct)),
  (forall k a a', In (k, a) tg -> In (k, a') tg -> a = a') ->
  forall ST : N -> list (N * bytes),
  (forall h k v v', In (k, v) (ST h) -> In (k, v') (ST h) -> v = v') ->
  (forall h a, In (h, a) tg -> a_root a = EMPTY_ROOT -> ST h = []) ->
  (forall h k v, In (k, v) (ST h) -> k <= MAXH) ->
  forall (c : config) (root : N) (evs : list event),
  (forall k a, In (k, a) tg -> k <= MAXH) ->
  1 <= c_acc c <= HSPACE ->
  trace_sound tg c (start c fresh root) evs ->
  sto_trace ST c (start c fresh root) evs ->
  s_tasks (run c root evs) = [] ->
  forall k a, In (k, a) tg ->
    get k (d_acc (s_db (run c root evs))) = Some (a_blob a) /\
    (a_code a = EMPTY_CODE \/ has (a_code a) (d_code (s_db (run c root evs))) = true) /\
    (forall sk v, In (sk, v) (ST k) -> slot_get k sk (s_db (run c root evs)) = Some v).
Proof. exact complete_all. Qed.
Print Assumptions C47_complete_implies_equal.


(* ---- complete_implies_equal, BOTH inclusions for accounts, storage and code.  [TC h x]: x is the target
   code with hash h; hypothesis on the history: every blob of a bytecode response is the target code of
   its Keccak hash (collision freedom of Keccak-256 on the codes in play).  At completion: a key has a body
   in the flat account state iff it is a target account with that body; for every target account a slot is
   stored under it iff it is one of its target slots (and no slot is stored under any account that is not
   a target slot of that account); every target account's code is stored under its hash and is the target
   code. *)
Theorem C47_complete_implies_equal_full : forall (tg : list (N * acct)),
  (forall k a a', In (k, a) tg -> In (k, a') tg -> a = a') ->
  forall ST : N -> list (N * bytes),
  (forall h k v v', In (k, v) (ST h) -> In (k, v') (ST h) -> v = v') ->
  (forall h a, In (h, a) tg -> a_root a = EMPTY_ROOT -> ST h = []) ->
  (forall h k v, In (k, v) (ST h) -> k <= MAXH) ->
  forall (TC : N -> bytes -> Prop) (c : config) (root : N) (evs : list event),
  (forall k a, In (k, a) tg -> k <= MAXH) ->
  1 <= c_acc c <= HSPACE ->
  (forall e h x, In e evs -> ev_code e h x -> TC h x) ->
  trace_sound tg c (start c fresh root) evs ->
  sto_trace ST c (start c fresh root) evs ->
  s_tasks (run c root evs) = [] ->
  let db := s_db (run c root evs) in
  (forall k v, get k (d_acc db) = Some v <-> exists a, In (k, a) tg /\ a_blob a = v) /\
  (forall k a, In (k, a) tg -> forall sk v, slot_get k sk db = Some v <-> In (sk, v) (ST k)) /\
  (forall a sk v, slot_get a sk db = Some v -> In (sk, v) (ST a)) /\
  (forall k a, In (k, a) tg -> a_code a <> EMPTY_CODE ->
     exists x, get (a_code a) (d_code db) = Some x /\ TC (a_code a) x).
Proof. exact complete_equal. Qed.
Print Assumptions C47_complete_implies_equal_full.

(* the storage hypotheses are satisfiable too: for the same concrete target, with the contract's storage
   [ex_ST] (two slots under account 7), the same honest history satisfies [sto_trace] *)
Example C47_nonvacuous_storage :
  (forall h k v v', In (k, v) (ex_ST h) -> In (k, v') (ex_ST h) -> v = v') /\
  (forall h a, In (h, a) ex_tg -> a_root a = EMPTY_ROOT -> ex_ST h = []) /\
  (forall h k v, In (k, v) (ex_ST h) -> k <= MAXH) /\
  sto_trace ex_ST ex_cfg (start ex_cfg fresh 1) ex_sound_events.
Proof.
  split; [exact ex_ST_fun|]. split; [exact ex_ST_empty|]. split; [exact ex_ST_bound|exact ex_sto_trace].
Qed.

(* ---- ranges_partition, storage chunks, over ALL histories (restarts included).  Hypothesis
   [storage_trace_sound]: every ACCEPTED storage response satisfies [sto_ev] (above) and [ge_ev]: when it
   answers a chunk request, every delivered key is >= the Next of the addressed chunk - the storage-side
   "keys >= origin" clause of the range verifier's contract.  NOTE: the real OnStorage does NOT enforce that
   clause for a proof-less answer to a chunk request (it verifies the whole trie with a nil origin), see
   checks/C47.json; the theorem is about histories in which peers do not exploit this.  Then for every live
   account task and every large contract being fetched the chunk ranges [Next, Last] are well formed, inside
   the slot space, increasing and pairwise disjoint.  (Creation is an exact partition of the slot space:
   C47_chunks_partition_partial; the sections tg/ST hypotheses and the unused TC argument are artefacts of
   the Coq section the proof lives in.) *)
Theorem C47_chunk_ranges : forall (tg : list (N * acct)),
  (forall k a a', In (k, a) tg -> In (k, a') tg -> a = a') ->
  forall ST : N -> list (N * bytes),
  (forall h k v v', In (k, v) (ST h) -> In (k, v') (ST h) -> v = v') ->
  (forall h a, In (h, a) tg -> a_root a = EMPTY_ROOT -> ST h = []) ->
  (forall h k v, In (k, v) (ST h) -> k <= MAXH) ->
  (N -> bytes -> Prop) ->
  forall (c : config) (root : N) (evs : list event),
  storage_trace_sound ST c (start c fresh root) evs ->
  forall t, In t (s_tasks (run c root evs)) ->
  forall a l, In (a, l) (t_subs t) ->
  (forall st, In st l -> st_next st <= st_last st <= MAXH) /\
  (forall l1 st1 l2 st2, l = l1 ++ st1 :: l2 -> In st2 l2 -> st_last st1 < st_next st2).
Proof. exact chunk_ranges_all. Qed.
Print Assumptions C47_chunk_ranges.

Example C47_nonvacuous_storage_ge : storage_trace_sound ex_ST ex_cfg (start ex_cfg fresh 1) ex_sound_events.
Proof. exact ex_storage_trace_sound. Qed.


(* ================= the request's origin is the task's Next (Net/SnapSyncOrigin.v) ================= *)

(* ---- q_origin = t_next at delivery, over ALL histories and with NO hypothesis on the responses: every
   outstanding account-range request pins the task it fills (marked requested, no response held, Next =
   the request's origin) and no task has two outstanding account requests *)
Theorem C47_origin_is_next : forall c root evs,
  1 <= c_acc c <= HSPACE ->
  let s := run c root evs in
  (forall q, In q (s_reqs s) -> q_kind q = KAcc -> forall t, In t (s_tasks s) -> t_last t = q_task q ->
     t_req t = true /\ t_res t = None /\ t_next t = q_origin q) /\
  NoDup (map q_task (filter kacc (s_reqs s))).
Proof. exact origin_is_next. Qed.
Print Assumptions C47_origin_is_next.

(* ---- hence the account-range contract may be stated against the ORIGIN RECORDED IN THE REQUEST
   ([trace_sound_o]: what trie.VerifyRangeProof is actually called with); it implies [trace_sound], the
   hypothesis of C47_ranges_partition / C47_progress_monotone / C47_complete_implies_equal* *)
Theorem C47_trace_sound_from_origin : forall tg c root evs,
  1 <= c_acc c <= HSPACE ->
  trace_sound_o tg c (start c fresh root) evs -> trace_sound tg c (start c fresh root) evs.
Proof. exact trace_sound_from_origin. Qed.
Print Assumptions C47_trace_sound_from_origin.
