(* Properties/C26.v — State transitions conform to the execution specification.

   The reference named by the property (EELS) is not available offline; the reference
   here is the Gallina specification EVM/{Word256,Memory,Gas,State,Instr,Step,Interp}.v
   (core, property C27) + EVM/Tx.v + EVM/Block.v, written from the Yellow Paper and the
   EIPs.  CONFORMANCE of go-ethereum to that specification is decided by the
   correspondence check (differential runs on generated blocks), not by a theorem.
   The theorems below are about the specification itself: it is a function, it is
   total, its gas accounting is consistent, a rejected transaction has no effect, and
   its state root is well defined.  Property theorems only; each is closed by [exact]
   of a lemma of EVM/TxProofs.v.  They hold for every rule-set record [tf] (any
   precompile function, any Keccak function), every block and every pre-state. *)
From GV Require Import Lib.Tactics Lib.Bytes Trie.Node Trie.Canon EVM.Word256 EVM.Memory EVM.Gas EVM.State.
From GV Require Import EVM.Instr EVM.Step EVM.Interp EVM.Tx EVM.Block EVM.TxProofs EVM.BlockForks.
Local Open Scope N_scope.

(* spec_deterministic: the specification is a function of (rule set, block, pre-state). *)
Theorem C26_spec_deterministic : forall tf bk pre r1 r2,
  apply_block tf bk pre = r1 -> apply_block tf bk pre = r2 -> r1 = r2.
Proof. exact spec_deterministic. Qed.
Print Assumptions C26_spec_deterministic.

(* spec_total, transaction level: an included transaction never ends in a model fault
   (fuel exhaustion, out-of-range memory access, stack-shape fault, refund counter below
   zero): its status is an outcome of the EVM.  (From C27's run_total and its
   refund-counter invariant, which the prepared state of a transaction satisfies.) *)
Theorem C26_spec_total_tx : forall tf b accts gas_available t accts' rc k,
  apply_tx tf b accts gas_available t = inr (accts', rc) -> rc_status rc <> S_Fault k.
Proof. exact spec_total_tx. Qed.
Print Assumptions C26_spec_total_tx.

(* spec_total, block level: no receipt and no system call ends in a model fault, and
   the state root exists (no trie operation fails) for any hash function with byte
   outputs (named hypothesis; Keccak-256 in the executable instance). *)
Theorem C26_spec_total : forall tf bk pre,
  let r := apply_block tf bk pre in
  (forall rc cum k, In (rc, cum) (br_receipts r) -> rc_status rc <> S_Fault k) /\
  (forall k, br_error r <> Some (BE_Fault k)) /\
  ((forall x, bytes_key (fk_keccak (tf_evm tf) x)) -> exists h, br_state_root r = Some h).
Proof. exact spec_total_block. Qed.
Print Assumptions C26_spec_total.

(* receipt_gas_monotone: along the receipts (oldest first) the cumulative gas starts at
   0, each receipt adds the gas used by its transaction, which is positive
   ([cum_chain], EVM/TxProofs.v); the total is the block's gas used and is at most the
   block gas limit. *)
Theorem C26_receipt_gas_monotone : forall tf bk pre,
  let r := apply_block tf bk pre in
  cum_chain 0 (br_receipts r) (br_gas_used r) /\
  br_gas_used r <= b_gaslimit (bk_env bk) /\
  (forall rc c, In (rc, c) (br_receipts r) -> 0 < c /\ c <= br_gas_used r).
Proof. exact receipt_gas_monotone. Qed.
Print Assumptions C26_receipt_gas_monotone.

(* tx_gas_bounds: an included transaction uses at most its gas limit, which fits in the
   gas still available in the block; it uses a positive amount; the refund applied is at
   most one fifth of the gas used before the refund (EIP-3529). *)
Theorem C26_tx_gas_bounds : forall tf b accts gas_available t accts' rc,
  apply_tx tf b accts gas_available t = inr (accts', rc) ->
  rc_gas_used rc <= tx_gas t /\ tx_gas t <= gas_available /\ 0 < rc_gas_used rc /\
  rc_refund rc <= (rc_gas_used rc + rc_refund rc) / 5 /\ okrc rc.
Proof. exact apply_tx_included. Qed.
Print Assumptions C26_tx_gas_bounds.

(* invalid_tx_no_effect: a step of the transaction loop that rejects its transaction
   leaves accounts, gas counters and receipts exactly as they were ... *)
Theorem C26_invalid_tx_no_effect : forall tf b ls t,
  length (ls_rejected (step_tx tf b ls t)) <> length (ls_rejected ls) ->
  ls_accounts (step_tx tf b ls t) = ls_accounts ls /\
  ls_gas_used (step_tx tf b ls t) = ls_gas_used ls /\
  ls_blob_gas (step_tx tf b ls t) = ls_blob_gas ls /\
  ls_receipts (step_tx tf b ls t) = ls_receipts ls.
Proof. exact invalid_tx_no_effect_step. Qed.
Print Assumptions C26_invalid_tx_no_effect.

(* ... hence the block without its rejected transactions ([included_txs]) reaches the
   same accounts, counters and receipts, and rejects nothing. *)
Theorem C26_invalid_tx_no_effect_block : forall tf b accts txs,
  let init := mk_loop_state accts 0 0 0 [] [] in
  let ls := tx_loop tf b accts txs in
  let ls' := tx_loop tf b accts (included_txs tf b init txs) in
  ls_accounts ls' = ls_accounts ls /\ ls_gas_used ls' = ls_gas_used ls /\
  ls_blob_gas ls' = ls_blob_gas ls /\ ls_receipts ls' = ls_receipts ls /\ ls_rejected ls' = [].
Proof. exact invalid_tx_no_effect_loop. Qed.
Print Assumptions C26_invalid_tx_no_effect_block.

(* state_root_canonical: the state root exists and depends only on the key -> value map
   of the account trie (from Trie/Canon.v: not on the order or history of insertions),
   for any hash function with byte outputs. *)
Theorem C26_state_root_canonical : forall (H : list N -> list N),
  (forall x, bytes_key (H x)) ->
  forall accts1 accts2 ops1 ops2,
  account_ops H accts1 = Some ops1 -> account_ops H accts2 = Some ops2 ->
  (forall k, final_map ops1 k = final_map ops2 k) ->
  state_root H accts1 = state_root H accts2.
Proof. exact state_root_canonical. Qed.
Print Assumptions C26_state_root_canonical.

Theorem C26_state_root_total : forall (H : list N -> list N),
  (forall x, bytes_key (H x)) -> forall accts, exists r, state_root H accts = Some r.
Proof. exact state_root_total. Qed.
Print Assumptions C26_state_root_total.

(* the hypotheses are met by a concrete block (Cancun): a sender with 1 ether, a contract
   PUSH1 1 PUSH1 0 SSTORE at 0x1000, a valid EIP-1559 call (43106 gas) and a transaction with
   a future nonce (rejected), one withdrawal.  The expected root and gas are what
   go-ethereum computes for this block (harness/c26). *)
Example C26_nonvacuous :
  let sender := 0x7e5f4552091a69125d5dfcb7b8c2659029395bdf in
  let pre := [(4096, mk_account 0 1 [96; 1; 96; 0; 85] []); (sender, mk_account (10 ^ 18) 0 [] [])] in
  let b := mk_benv 0xcb01 1000 1 0 30000000 1 10 1 in
  let t n := mk_tx 2 sender n 100000 20 2 (Some 4096) 0 [] [] 0 [] [] in
  let r := apply_block cancun_tf (mk_block b None [t 0; t 5] [(0x2222, 3)]) pre in
  example_check r
    [0xfe; 0x72; 0x92; 0x9a; 0x9a; 0xbe; 0xd6; 0x1d; 0x0c; 0xcc; 0xc2; 0xae; 0x2a; 0xce; 0xba; 0x30;
     0x8e; 0x17; 0x2c; 0x7c; 0xc1; 0x59; 0xf0; 0xe2; 0x8f; 0x74; 0xae; 0x92; 0x62; 0x36; 0x80; 0x25]
    43106 = true.
Proof. vm_compute. reflexivity. Qed.
