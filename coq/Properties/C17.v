(* Properties/C17.v -- State rollback restores exactly the historical state.
   Property theorems only, about the model PathDB/History.v of /repo/triedb/pathdb
   (database.go Recoverable / Recover, disklayer.go commit / revert, buffer.go,
   history.go, history_state.go); proofs in PathDB/HistoryProofs.v.

   [l] is the chain of committed transitions, newest first; [sem_rev l] is the state
   obtained by applying their new values to the empty state (the specification);
   [Inv r0 l st] / [CInv] / [RInv] say that the database [st] represents that chain
   (disk layer = buffer over store, freezer = the original values of every retained
   transition, root->id table, diff layers).  Flat state only: the trie-node side
   (execute.apply) is not modelled.  Indexing is off ([ix st = None]); C18 covers the
   indexer. *)
From GV Require Import Lib.Tactics PathDB.History PathDB.HistoryProofs.
Local Open Scope N_scope.

(* committing a well-formed transition on top of any represented chain and then
   reverting with the history just written gives back the previous disk layer:
   same values for every key, same root and state id -- whether the revert happens
   in the write buffer or in the persistent store *)
Theorem C17_revert_inverse : forall r0 l st d force,
  CInv r0 l st -> ix st = None ->
  d_id d = len l + 1 -> d_root d = t_root (d_tr d) -> wf_tr (sem_rev l) (d_tr d) ->
  exists st1 h st2,
    disk_commit st d force = Done st1 /\
    (fr_tail (fr st1) < disk_id (dk st1) ->
       read_history (fr st1) (disk_id (dk st1)) = Ok h /\
       revert st1 h = Done st2 /\
       (forall k, eff (dk st2) k = eff (dk st) k) /\
       disk_root (dk st2) = disk_root (dk st) /\ disk_id (dk st2) = disk_id (dk st) /\
       RInv r0 l st2).
Proof. exact revert_inverse. Qed.
Print Assumptions C17_revert_inverse.

(* a root the database reports as recoverable is rolled back to successfully: the
   flat state is exactly the state of that root's chain prefix [l], the disk layer
   carries that root and the id recorded for it, the freezer is cut to exactly that
   id with tail and contents untouched, the diff layers are dropped, and the result
   again represents a chain *)
Theorem C17_recover_exact : forall r0 l0 st root,
  Inv r0 l0 st -> ix st = None -> recoverable st root = true ->
  exists pre l st',
    l0 = pre ++ l /\ pre <> [] /\ root_rev r0 l = root /\ ids st root = Some (len l) /\
    recover st root = Done st' /\ Inv r0 l st' /\
    (forall k, eff (dk st') k = sem_rev l k) /\
    disk_root (dk st') = root /\ disk_id (dk st') = len l /\
    fr_head (fr st') = len l /\ fr_tail (fr st') = fr_tail (fr st) /\
    fr_data (fr st') = fr_data (fr st) /\
    ids st' = ids st /\ diffs st' = [].
Proof. exact recover_exact. Qed.
Print Assumptions C17_recover_exact.

(* a root that is not recoverable (unknown, not below the disk layer, its history
   pruned, not canonical, or the database is waiting for sync) is refused and the
   database is left exactly as it was -- in every state, no invariant needed *)
Theorem C17_not_recoverable_noop : forall st root,
  recoverable st root = false ->
  exists e, recover st root = Fail e st /\ (e = EWaitSync \/ e = EUnrecoverable).
Proof. exact not_recoverable_noop. Qed.
Print Assumptions C17_not_recoverable_noop.

(* merging a diff layer into the disk layer keeps the representation invariant
   (history written, tail pruned by the limit, root->id recorded, buffer flushed or not) *)
Theorem C17_commit_preserves : forall r0 l st d force,
  CInv r0 l st -> ix st = None ->
  d_id d = len l + 1 -> d_root d = t_root (d_tr d) -> wf_tr (sem_rev l) (d_tr d) ->
  exists st', disk_commit st d force = Done st' /\ CInv r0 (d_tr d :: l) st' /\
              cfg st' = cfg st /\ wait_sync st' = wait_sync st /\ diffs st' = diffs st /\
              ix st' = None.
Proof. exact disk_commit_ok. Qed.
Print Assumptions C17_commit_preserves.

(* every operation (Update of a transition that is well-formed on the caller's head
   state, Commit, cap, Recover), successful or refused, leads from a represented state
   to a represented state; a refused operation leaves the database untouched *)
Theorem C17_op_preserves : forall r0 l st o,
  Inv r0 l st -> ix st = None ->
  (forall t, o = OUpdate t -> wf_tr (head_state st) t) ->
  (exists l' st', do_op st o = Done st' /\ Inv r0 l' st' /\ ix st' = None) \/
  (exists e, do_op st o = Fail e st).
Proof. exact op_preserves. Qed.
Print Assumptions C17_op_preserves.

(* hence for ALL histories of operations from the empty database *)
Theorem C17_reach_inv : forall c r0 st,
  reach c r0 st -> exists l, Inv r0 l st /\ ix st = None.
Proof. exact reach_inv. Qed.
Print Assumptions C17_reach_inv.

(* the rollback theorem without any invariant hypothesis: in every state reachable by
   any history of operations, a root reported recoverable is rolled back to exactly *)
Theorem C17_recover_exact_reach : forall c r0 st root,
  reach c r0 st -> recoverable st root = true ->
  exists l0 pre l st',
    Inv r0 l0 st /\ l0 = pre ++ l /\ pre <> [] /\ root_rev r0 l = root /\
    ids st root = Some (len l) /\ recover st root = Done st' /\ Inv r0 l st' /\
    (forall k, eff (dk st') k = sem_rev l k) /\
    disk_root (dk st') = root /\ disk_id (dk st') = len l /\
    fr_head (fr st') = len l /\ fr_tail (fr st') = fr_tail (fr st) /\
    fr_data (fr st') = fr_data (fr st) /\ diffs st' = [].
Proof. exact recover_exact_reach. Qed.
Print Assumptions C17_recover_exact_reach.

(* creation with storage, destruct with storage, re-creation; two histories in the
   buffer; Recover across both succeeds and restores the state after the first *)
Example C17_nonvacuous : ex_check = true.
Proof. vm_compute. reflexivity. Qed.
