(* Properties/C39.v — Blockchain restarts consistently after a crash.
   Property theorems only, about the model Chain/Restart.v of core.NewBlockChain
   (loadLastState, setHeadBeyondRoot in repair mode with rewindHashHead / rewindPathHead,
   the forced header-chain rewind below the freezer boundary) on top of the C38 model
   Chain/Canonical.v; each is closed by [exact] of a lemma of Chain/RestartProofs.v or
   Chain/RestartCuts.v.  Which states are durable ([dur]) is an arbitrary input: the
   theorems hold for every commit policy and every behaviour of the storage engines
   (C20 / C24) that keeps the key-value batches atomic. *)
From GV Require Import Lib.Tactics Chain.Tree Chain.Canonical Chain.CanonicalProofs Chain.CanonicalInv Chain.CanonicalTop Chain.Restart Chain.RestartProofs Chain.RestartCuts Chain.RestartReorgCut Chain.RestartReimport Chain.RestartPath Chain.RestartPathProofs.
Local Open Scope N_scope.

(* After ANY database image and ANY set of durable states: if NewBlockChain comes up, the
   head block's state is durable, or the head block is genesis.  (No invariant of the image
   is needed: it holds for every crash point of every history.) *)
Theorem C39_restart_head_has_state :
  forall (T : tree), wf_tree T -> forall (c : cfg) (fuel : nat) (p : pst) (dur : N -> bool) (p' : pst),
    new_blockchain T c fuel (crash p dur) = ROk p' ->
    dur (hd_block (kv p')) = true \/ hd_block (kv p') = 0.
Proof. exact head_has_state_crash. Qed.
Print Assumptions C39_restart_head_has_state.

(* restart_canon_invariant + header_head_ge_block_head, for the start-up function: from
   any image on which C38's invariant holds and whose canonical blocks are stored, with
   any freezer boundary and any durable-state set, the reopened chain has its index
   parent-linked up to the head header, which it names at its height, and the head block
   is on it at or below the head header — including the repair that rewinds the head
   block, and the forced rewind of the header chain + ancient-store truncation when the
   new head lies below the freezer boundary. *)
Theorem C39_restart_canon_invariant :
  forall (T : tree), wf_tree T -> forall (c : cfg) (fuel : nat) (p p' : pst),
    new_blockchain T c fuel p = ROk p' -> Inv T (kv p) -> Kc (kv p) ->
    let st := kv p' in
    exists hb, T (hd_header st) = Some hb /\
      canon st (b_number hb) = Some (hd_header st) /\
      (forall n, n < b_number hb ->
         exists h b, canon st (n + 1) = Some h /\ T h = Some b /\ b_number b = n + 1 /\
                     canon st n = Some (b_parent b)) /\
      (exists bb, T (hd_block st) = Some bb /\ b_number bb <= b_number hb /\
                  canon st (b_number bb) = Some (hd_block st)).
Proof. exact restart_linked. Qed.
Print Assumptions C39_restart_canon_invariant.

(* The same over ALL histories of InsertChain / trie commits / freezes from the fresh chain
   and ALL crash cuts — after the last operation, right after a block-data batch inside an
   import (CutBlock), right before a head-marker batch (CutHead), with or without a reorg
   having run before it — with any durable-state set, for the repaired reorg
   (c_legacy_reorg = false: the head markers are pulled down in the batch that deletes the
   canonical markers): head has state, heads ordered, index linked.  The unrepaired code
   REFUTES it (C39_reorg_crash_window_refuted). *)
Theorem C39_crash_states_consistent :
  forall (T : tree), wf_tree T -> (forall g, T 0 = Some g -> T (b_parent g) = None) ->
  forall (cf : cfg) (fuel : nat) (ops : list sop) (c : cut) (p : pst) es (dur : N -> bool) (p' : pst),
    c_legacy_reorg cf = false ->
    run_to_cut T cf fuel (mkp genesis_db 0) ops c = (ROk p, es) ->
    new_blockchain T cf fuel (crash p dur) = ROk p' ->
    let st := kv p' in
    (dur (hd_block st) = true \/ hd_block st = 0) /\
    exists hb, T (hd_header st) = Some hb /\
      canon st (b_number hb) = Some (hd_header st) /\
      (forall n, n < b_number hb ->
         exists h b, canon st (n + 1) = Some h /\ T h = Some b /\ b_number b = n + 1 /\
                     canon st n = Some (b_parent b)) /\
      (exists bb, T (hd_block st) = Some bb /\ b_number bb <= b_number hb /\
                  canon st (b_number bb) = Some (hd_block st)).
Proof. exact crash_states_linked_all. Qed.
Print Assumptions C39_crash_states_consistent.

(* no_loss_below_persisted: at and below the restart head nothing is lost — the canonical
   index is what it was before the crash and its blocks are still stored (all histories,
   all cuts) ... *)
Theorem C39_no_loss_below_head :
  forall (T : tree), wf_tree T -> (forall g, T 0 = Some g -> T (b_parent g) = None) ->
  forall (cf : cfg) (fuel : nat) (ops : list sop) (c : cut) (p : pst) es (dur : N -> bool) (p' : pst),
    c_legacy_reorg cf = false ->
    run_to_cut T cf fuel (mkp genesis_db 0) ops c = (ROk p, es) ->
    new_blockchain T cf fuel (crash p dur) = ROk p' ->
    forall n, n <= num_of T (hd_block (kv p')) ->
      canon (kv p') n = canon (kv p) n /\
      (forall h, canon (kv p) n = Some h -> is_known (kv p') h = true).
Proof. exact no_loss_crash_all. Qed.
Print Assumptions C39_no_loss_below_head.

(* ... and, without a snapshot root to pass, the restart head is the NEWEST block with
   durable state on the old head's (stored) ancestor path: every ancestor z of the old
   head whose state is durable lies at or below the block the rewind returns. *)
Theorem C39_rewind_lands_on_newest_state :
  forall (T : tree), wf_tree T -> (forall g, T 0 = Some g -> T (b_parent g) = None) ->
  forall fuel st g x y, rewind T fuel st g x = Some y -> hdr_ok T x ->
    (forall w, IsAnc T x w -> is_known st (fst w) = true) ->
    forall z, IsAnc T x z -> avail st (fst z) = true -> hnum z <= hnum y.
Proof. exact rewind_newest. Qed.
Print Assumptions C39_rewind_lands_on_newest_state.

(* reimport_converges.  After ANY restart that came up ([new_blockchain] = ROk p') with a
   head whose state is available (C39_restart_head_has_state; the only other case is a
   stateless genesis, which waits for a state sync), importing ANY contiguous segment of
   the tree that starts on the restart head — in particular the blocks the crash lost —
   returns no error and ends with head block = head header = the tip of the segment,
   stored and with state: the head of the node that never crashed.  Whatever the image
   holds of the segment (stored blocks with or without state, the old chain's or another
   chain's canonical markers above the head, a head header above the head block) — the
   known-block path (writeKnownBlock) and the execution path (writeBlockAndSetHead) are
   both covered, no reorg and no pruned-ancestor path can arise.  Guards, all explicit: the
   tree is well formed and the genesis parent names no block; the segment resolves, is
   contiguous, starts on the head; the fuel (a model artefact) exceeds every block number of
   the segment and every canonical height.  This is the model's import, which keeps the
   state of every imported block available during the run (hash scheme: TriesInMemory;
   path scheme: the diff layers) — for the path scheme the one further way an import can
   fail, the out-of-order state-history append of diskLayer.commit, needs history head =
   disk layer id, which C39_history_head_is_disk_layer gives at every point of every
   history of runs, shutdowns and crashes. *)
Theorem C39_reimport_converges :
  forall (T : tree), wf_tree T -> (forall g, T 0 = Some g -> T (b_parent g) = None) ->
  forall (c : cfg) (fuel : nat) (p p' : pst) (ids : list N) (hs : list hdr) (x0 : hdr) (r : list hdr)
         (p'' : pst) (e : option err),
    new_blockchain T c fuel p = ROk p' ->
    avail (kv p') (hd_block (kv p')) = true ->
    (0 < fuel)%nat ->
    resolve_all T ids = Some hs -> contiguous hs = true -> hs = x0 :: r ->
    b_parent (snd x0) = hd_block (kv p') ->
    (forall z, In z hs -> hnum z < N.of_nat fuel) ->
    (forall n, N.of_nat fuel <= n -> canon (kv p') n = None) ->
    reimport T fuel p' ids = (p'', e) ->
    let tip := fst (last hs x0) in
    e = None /\ hd_block (kv p'') = tip /\ hd_header (kv p'') = tip /\ avail (kv p'') tip = true /\
    is_known (kv p'') tip = true.
Proof. exact reimport_after_restart. Qed.
Print Assumptions C39_reimport_converges.

(* ... and any re-import, converging or not, keeps the C38 invariant *)
Theorem C39_reimport_keeps_invariant :
  forall (T : tree), wf_tree T -> forall fuel p l p' e,
    reimport T fuel p l = (p', e) -> Inv T (kv p) -> Inv T (kv p').
Proof. exact reimport_inv. Qed.
Print Assumptions C39_reimport_keeps_invariant.

(* The consistency statement is FALSE of the code before the repair of reorg() (legacy
   flag): a crash between reorg's index-deletion batch and writeHeadBlock leaves the head
   markers on the old head without canonical entries — (1) rawdb.Open refuses the database
   when the hole reaches block 1 (or the freezer boundary), (2) otherwise the chain comes up
   with a head header that the index does not name.  Witnesses replayed on the real code:
   corpus/C39/edge.txt. *)
Theorem C39_reorg_crash_window_refuted :
  (exists T ops c dur, wf_tree T /\ crash_restart T cfg_legacy ops c dur = RErr ROpenGap) /\
  (exists T ops c dur p, wf_tree T /\ crash_restart T cfg_legacy ops c dur = ROk p /\
     hd_header (kv p) = 3 /\ num_of T 3 = 3 /\ canon (kv p) 3 = None).
Proof. exact legacy_window_refuted. Qed.
Print Assumptions C39_reorg_crash_window_refuted.

(* Multi-session histories of the path database (clean shutdowns and hard crashes
   alternating, chains beyond the 128 diff layers): for EVERY history of executed blocks,
   explicit commits, clean shutdowns (journal written) and crash+reopen — including a
   reopen that accepts the journal of an EARLIER clean shutdown because the persistent
   state has not moved since — the number of state histories equals the disk layer id and
   the persistent state id is at or below it.  (This is what lets the node go on importing
   after the restart: diskLayer.commit appends history id disk+1.)  The counters are tied
   to triedb/pathdb through a real BlockChain by the multi-session correspondence. *)
Theorem C39_history_head_is_disk_layer :
  forall (ops : list pop),
    let d := fold_left pstep ops pd0 in pd_fh d = pd_did d /\ pd_pid d <= pd_did d.
Proof. exact history_aligned. Qed.
Print Assumptions C39_history_head_is_disk_layer.

(* ... and it rests on repairHistory's truncation also when the layers come from a journal:
   140 blocks, clean Stop, restart, 5 more blocks, crash, restart — without the truncation
   the disk layer is back at id 12 under 17 histories (re-import impossible); with it, 12/12. *)
Theorem C39_stale_journal_needs_truncation :
  let d := pd_reopen_gen true (pd_grow 145 (pd_reopen (pd_stop (pd_grow 140 pd0)))) in
  pd_did d = 12 /\ pd_fh d = 17 /\
  let d' := pd_reopen (pd_grow 145 (pd_reopen (pd_stop (pd_grow 140 pd0)))) in
  pd_did d' = 12 /\ pd_fh d' = 12.
Proof. exact reopen_without_truncation_breaks. Qed.
Print Assumptions C39_stale_journal_needs_truncation.

(* non-vacuity: freeze, crash losing the head state, repair below the freezer boundary
   (ancient store truncated), re-import back to the original head; and the repaired reorg
   window on the two refutation histories *)
Example C39_nonvacuous : nonvacuous_check = true /\ fixed_check = true.
Proof. split; vm_compute; reflexivity. Qed.
