(* Properties/C39.v — Blockchain restarts consistently after a crash.
   Property theorems only, about the model Chain/Restart.v of core.NewBlockChain
   (loadLastState, setHeadBeyondRoot in repair mode with rewindHashHead / rewindPathHead,
   the forced header-chain rewind below the freezer boundary) on top of the C38 model
   Chain/Canonical.v; each is closed by [exact] of a lemma of Chain/RestartProofs.v or
   Chain/RestartCuts.v.  Which states are durable ([dur]) is an arbitrary input: the
   theorems hold for every commit policy and every behaviour of the storage engines
   (C20 / C24) that keeps the key-value batches atomic. *)
From GV Require Import Lib.Tactics Chain.Tree Chain.Canonical Chain.CanonicalProofs Chain.CanonicalInv Chain.CanonicalTop Chain.CanonicalWitness Chain.Restart Chain.RestartProofs Chain.RestartCuts Chain.RestartPath Chain.RestartPathProofs.
Local Open Scope N_scope.

(* After ANY database image and ANY set of durable states: if NewBlockChain comes up, the
   head block's state is durable, or the head block is genesis.  (No invariant of the image
   is needed: it holds for every crash point of every history.) *)
Theorem C39_restart_head_has_state :
  forall (T : tree), wf_tree T -> forall (c : cfg) (fuel : nat) (p : pst) (dur : N -> bool) (p' : pst),
    new_blockchain T c fuel (crash p dur) = ROk p' ->
    dur (hd_block (kv p')) = true \/ hd_block (kv p') = 0.
Proof. exact head_has_state_crash. Qed.
Print Assumptions C39_restart_head_has_state.

(* restart_canon_invariant + header_head_ge_block_head, for the start-up function: from
   any image on which C38's invariant holds and whose canonical blocks are stored, with
   any freezer boundary and any durable-state set, the reopened chain has its index
   parent-linked up to the head header, which it names at its height, and the head block
   is on it at or below the head header — including the repair that rewinds the head
   block, and the forced rewind of the header chain + ancient-store truncation when the
   new head lies below the freezer boundary. *)
Theorem C39_restart_canon_invariant :
  forall (T : tree), wf_tree T -> forall (c : cfg) (fuel : nat) (p p' : pst),
    new_blockchain T c fuel p = ROk p' -> Inv T (kv p) -> Kc (kv p) ->
    let st := kv p' in
    exists hb, T (hd_header st) = Some hb /\
      canon st (b_number hb) = Some (hd_header st) /\
      (forall n, n < b_number hb ->
         exists h b, canon st (n + 1) = Some h /\ T h = Some b /\ b_number b = n + 1 /\
                     canon st n = Some (b_parent b)) /\
      (exists bb, T (hd_block st) = Some bb /\ b_number bb <= b_number hb /\
                  canon st (b_number bb) = Some (hd_block st)).
Proof. exact restart_linked. Qed.
Print Assumptions C39_restart_canon_invariant.

(* The same over ALL histories of InsertChain / trie commits / freezes from the fresh chain
   and all crash cuts after the last operation or right after a block-data batch inside it
   (CutBlock), with any durable-state set: head has state, heads ordered, index linked.
   FULL STATEMENT (not proved in general): also for the cut right before a head-marker
   batch (CutHead).  Proved for CutHead when the block extends the head (no reorg:
   crash_state_head_cut_noreorg); when reorg ran before the cut, the repaired code is
   covered by the correspondence and by fixed_ok, and the unrepaired code REFUTES it
   (C39_reorg_crash_window_refuted). *)
Theorem C39_crash_states_consistent_partial :
  forall (T : tree), wf_tree T -> (forall g, T 0 = Some g -> T (b_parent g) = None) ->
  forall (cf : cfg) (fuel : nat) (ops : list sop) (c : cut) (p : pst) es (dur : N -> bool) (p' : pst),
    run_to_cut T cf fuel (mkp genesis_db 0) ops c = (ROk p, es) -> (forall x, c <> CutHead x) ->
    new_blockchain T cf fuel (crash p dur) = ROk p' ->
    let st := kv p' in
    (dur (hd_block st) = true \/ hd_block st = 0) /\
    exists hb, T (hd_header st) = Some hb /\
      canon st (b_number hb) = Some (hd_header st) /\
      (forall n, n < b_number hb ->
         exists h b, canon st (n + 1) = Some h /\ T h = Some b /\ b_number b = n + 1 /\
                     canon st n = Some (b_parent b)) /\
      (exists bb, T (hd_block st) = Some bb /\ b_number bb <= b_number hb /\
                  canon st (b_number bb) = Some (hd_block st)).
Proof. exact crash_states_linked. Qed.
Print Assumptions C39_crash_states_consistent_partial.

(* no_loss_below_persisted: at and below the restart head nothing is lost — the canonical
   index is what it was before the crash and its blocks are still stored (same histories
   and cuts as above) ... *)
Theorem C39_no_loss_below_head_partial :
  forall (T : tree), wf_tree T -> (forall g, T 0 = Some g -> T (b_parent g) = None) ->
  forall (cf : cfg) (fuel : nat) (ops : list sop) (c : cut) (p : pst) es (dur : N -> bool) (p' : pst),
    run_to_cut T cf fuel (mkp genesis_db 0) ops c = (ROk p, es) -> (forall x, c <> CutHead x) ->
    new_blockchain T cf fuel (crash p dur) = ROk p' ->
    forall n, n <= num_of T (hd_block (kv p')) ->
      canon (kv p') n = canon (kv p) n /\
      (forall h, canon (kv p) n = Some h -> is_known (kv p') h = true).
Proof. exact no_loss_crash. Qed.
Print Assumptions C39_no_loss_below_head_partial.

(* ... and, without a snapshot root to pass, the restart head is the NEWEST block with
   durable state on the old head's (stored) ancestor path: every ancestor z of the old
   head whose state is durable lies at or below the block the rewind returns. *)
Theorem C39_rewind_lands_on_newest_state :
  forall (T : tree), wf_tree T -> (forall g, T 0 = Some g -> T (b_parent g) = None) ->
  forall fuel st g x y, rewind T fuel st g x = Some y -> hdr_ok T x ->
    (forall w, IsAnc T x w -> is_known st (fst w) = true) ->
    forall z, IsAnc T x z -> avail st (fst z) = true -> hnum z <= hnum y.
Proof. exact rewind_newest. Qed.
Print Assumptions C39_rewind_lands_on_newest_state.

(* reimport_converges, the proved part: re-importing after the restart keeps the
   invariant.  FULL STATEMENT (checked by the Go oracle and the correspondence on every
   case, not proved): the re-import of the remaining canonical blocks returns no error and
   ends with head block = head header = the tip of the never-crashed run. *)
Theorem C39_reimport_keeps_invariant_partial :
  forall (T : tree), wf_tree T -> forall fuel p l p' e,
    reimport T fuel p l = (p', e) -> Inv T (kv p) -> Inv T (kv p').
Proof. exact reimport_inv. Qed.
Print Assumptions C39_reimport_keeps_invariant_partial.

(* The consistency statement is FALSE of the code before the repair of reorg() (legacy
   flag): a crash between reorg's index-deletion batch and writeHeadBlock leaves the head
   markers on the old head without canonical entries — (1) rawdb.Open refuses the database
   when the hole reaches block 1 (or the freezer boundary), (2) otherwise the chain comes up
   with a head header that the index does not name.  Witnesses replayed on the real code:
   corpus/C39/edge.txt. *)
Theorem C39_reorg_crash_window_refuted :
  (exists T ops c dur, wf_tree T /\ crash_restart T cfg_legacy ops c dur = RErr ROpenGap) /\
  (exists T ops c dur p, wf_tree T /\ crash_restart T cfg_legacy ops c dur = ROk p /\
     hd_header (kv p) = 3 /\ num_of T 3 = 3 /\ canon (kv p) 3 = None).
Proof. exact legacy_window_refuted. Qed.
Print Assumptions C39_reorg_crash_window_refuted.

(* Multi-session histories of the path database (clean shutdowns and hard crashes
   alternating, chains beyond the 128 diff layers): for EVERY history of executed blocks,
   explicit commits, clean shutdowns (journal written) and crash+reopen — including a
   reopen that accepts the journal of an EARLIER clean shutdown because the persistent
   state has not moved since — the number of state histories equals the disk layer id and
   the persistent state id is at or below it.  (This is what lets the node go on importing
   after the restart: diskLayer.commit appends history id disk+1.)  The counters are tied
   to triedb/pathdb through a real BlockChain by the multi-session correspondence. *)
Theorem C39_history_head_is_disk_layer :
  forall (ops : list pop),
    let d := fold_left pstep ops pd0 in pd_fh d = pd_did d /\ pd_pid d <= pd_did d.
Proof. exact history_aligned. Qed.
Print Assumptions C39_history_head_is_disk_layer.

(* ... and it rests on repairHistory's truncation also when the layers come from a journal:
   140 blocks, clean Stop, restart, 5 more blocks, crash, restart — without the truncation
   the disk layer is back at id 12 under 17 histories (re-import impossible); with it, 12/12. *)
Theorem C39_stale_journal_needs_truncation :
  let d := pd_reopen_gen true (pd_grow 145 (pd_reopen (pd_stop (pd_grow 140 pd0)))) in
  pd_did d = 12 /\ pd_fh d = 17 /\
  let d' := pd_reopen (pd_grow 145 (pd_reopen (pd_stop (pd_grow 140 pd0)))) in
  pd_did d' = 12 /\ pd_fh d' = 12.
Proof. exact reopen_without_truncation_breaks. Qed.
Print Assumptions C39_stale_journal_needs_truncation.

(* non-vacuity: freeze, crash losing the head state, repair below the freezer boundary
   (ancient store truncated), re-import back to the original head; and the repaired reorg
   window on the two refutation histories *)
Example C39_nonvacuous : nonvacuous_check = true /\ fixed_check = true.
Proof. split; vm_compute; reflexivity. Qed.
