(* Properties/C07.v — Committed trie changes reproduce the new trie exactly.
   Property theorems only, each closed by [exact] of a lemma of
   Trie/CommitProofs.v, about the model Trie/Commit.v of trie.Commit /
   committer / tracers / node sets / node stores (on Trie/Ops.v, Trie/Hash.v).
   [H] is any hash function with 32-byte output; [reach H sc S ss]: the session
   state [ss] is reached by trie.New on store [S] (scheme [sc]) followed by ANY
   history of Update / Delete / Get. *)
From GV Require Import Lib.Tactics Trie.Node Trie.Ops Trie.Hash Trie.Commit Trie.CommitProofs Trie.CommitTracer.
Local Open Scope N_scope.

(* the returned root is Trie.Hash() of the in-memory trie; for a short/full root
   with a returned node set the committer collapsed the root to that very hash
   node and the entry at the empty path is the encoding of the in-memory root *)
Theorem C07_commit_root_eq_hash : forall H, (forall x, length (H x) = 32%nat) ->
  forall ss r ons, commit H ss = Some (r, ons) ->
    hash_root H (s_root ss) = Some r /\
    forall ns, ons = Some ns -> is_sf (s_root ss) = true ->
      exists e, node_enc H (s_root ss) = Some e /\ H e = r /\
                am_get [] ns = Some (Upd r e (pv_get [] (s_tr ss))) /\
                exists ns0, commit_node H commit_fuel (dirty_at ss) (s_tr ss) true []
                                        (s_root ss) ns0 = Some (NHash r, ns).
Proof. exact commit_root_eq_hash. Qed.
Print Assumptions C07_commit_root_eq_hash.

(* committer.commit replaces a node by its hash node exactly when it is hashed
   (forced root or encoding >= 32 bytes), else keeps an embedded node with the
   SAME encoding: collapsing never changes what any parent encodes or hashes *)
Theorem C07_collapse_preserves_encoding : forall H, (forall x, length (H x) = 32%nat) ->
  forall f dirty tr force path n ns n' ns',
    commit_node H f dirty tr force path n ns = Some (n', ns') -> collapse_spec H force n n'.
Proof. exact commit_node_collapse. Qed.
Print Assumptions C07_collapse_preserves_encoding.

(* every deletion entry carries a non-empty previous value, which is the blob the
   node database returned at that path during the session (both schemes) *)
Theorem C07_deletions_carry_prev : forall H sc S ss r ns p prev,
  reach H sc S ss -> commit H ss = Some (r, Some ns) -> am_get p ns = Some (Del prev) ->
  prev <> [] /\ exists h n, resolve_of H sc S h p = Some (n, prev).
Proof. exact deletions_carry_prev. Qed.
Print Assumptions C07_deletions_carry_prev.

(* path scheme: it is the blob stored at that path *)
Theorem C07_deletions_carry_prev_path : forall H S ss r ns p prev,
  reach H PathScheme S ss -> commit H ss = Some (r, Some ns) -> am_get p ns = Some (Del prev) ->
  prev <> [] /\ am_get p S = Some prev.
Proof. exact deletions_carry_prev_path. Qed.
Print Assumptions C07_deletions_carry_prev_path.

(* written nodes carry the hash of their blob and, as previous value, nothing or
   the blob stored at that path *)
Theorem C07_updates_carry_prev_path : forall H S ss r ns p h blob prev,
  reach H PathScheme S ss -> commit H ss = Some (r, Some ns) -> am_get p ns = Some (Upd h blob prev) ->
  h = H blob /\ (prev = [] \/ am_get p S = Some prev).
Proof. exact updates_carry_prev_path. Qed.
Print Assumptions C07_updates_carry_prev_path.

(* opTracer (cancel-out rule) over ALL event lists that insert only where no node
   is and delete only where one is: deletes = present at the start and absent now,
   inserts = absent at the start and present now — whatever the interleaving of
   deletions and re-insertions *)
Theorem C07_tracer_spec : forall pres ev p,
  consistent pres ev ->
  am_has p (tr_del (trace_evs tr_empty ev)) = pres p && negb (pres_after pres ev p) /\
  am_has p (tr_ins (trace_evs tr_empty ev)) = negb (pres p) && pres_after pres ev p.
Proof. exact tracer_spec. Qed.
Print Assumptions C07_tracer_spec.

(* Trie.deletedNodes = exactly the paths that held a node at the start, hold none
   now, and whose node was read from the store *)
Theorem C07_deleted_nodes_spec : forall pres ev p,
  consistent pres ev ->
  let tr := trace_evs tr_empty ev in
  (In p (deleted_nodes tr) <->
   pres p = true /\ pres_after pres ev p = false /\ am_has p (tr_pv tr) = true).
Proof. exact deleted_nodes_spec. Qed.
Print Assumptions C07_deleted_nodes_spec.

(* TARGET (DESIGN.md) commit_exact_path :
     apply nodeset (nodes_of told) = nodes_of tnew      (path scheme; no stale node, none missing)
   PROVED PART, for every session history: the store after applying the set holds
   the written blob (carrying its hash) at every written path, nothing at every
   deleted path, each previous value is what the store held there, and every
   other path is untouched.
   MISSING (shown by the correspondence check and the Go oracle only: the
   keyspace after applying equals a from-scratch build, and the tracer sets are
   compared on every case): that the written/deleted paths are EXACTLY the
   positions whose hashed node changed — i.e. that trie.go's insert/delete emit
   events [consistent] with node presence (hypothesis of C07_tracer_spec), that
   clean (skipped) nodes are unchanged, and that paths below unresolved hash
   nodes are untouched. *)
Theorem C07_commit_exact_path_partial : forall H S ss r ns,
  reach H PathScheme S ss -> commit H ss = Some (r, Some ns) ->
  forall p,
    match am_get p ns with
    | Some (Upd h b prev) =>
        am_get p (apply_nodeset PathScheme ns S) = Some b /\ h = H b /\
        (prev = [] \/ am_get p S = Some prev)
    | Some (Del prev) =>
        am_get p (apply_nodeset PathScheme ns S) = None /\ prev <> [] /\ am_get p S = Some prev
    | None => am_get p (apply_nodeset PathScheme ns S) = am_get p S
    end.
Proof. exact commit_applied_path. Qed.
Print Assumptions C07_commit_exact_path_partial.

(* TARGET commit_reads_back :
     forall k, get (open root' (apply nodeset store)) k = get tnew k
   PROVED PART: the store after applying holds, at the empty path, the encoding of
   the in-memory new root and its hash is the returned root (trie.New(root') finds
   the node it asks for); together with C07_collapse_preserves_encoding every
   child reference inside a written blob is the hash of the child's own blob.
   MISSING (correspondence + Go oracle: the reopened trie reads and iterates
   exactly the reference map): the induction down the reopened trie, which needs
   decode_node (node_enc n) = n for the written nodes and the same session
   invariant as above. *)
Theorem C07_commit_reads_back_partial : forall H, (forall x, length (H x) = 32%nat) ->
  forall S ss r ns, commit H ss = Some (r, Some ns) -> is_sf (s_root ss) = true ->
  exists e, am_get [] (apply_nodeset PathScheme ns S) = Some e /\ H e = r /\
            node_enc H (s_root ss) = Some e /\ hash_root H (s_root ss) = Some r.
Proof. exact commit_root_readable. Qed.
Print Assumptions C07_commit_reads_back_partial.

(* the hypotheses are met: a two-generation history over a path-scheme store whose
   second commit returns deletions with previous values, and whose events are
   [consistent] with the stored node positions *)
Example C07_nonvacuous : c07_example_ok && ex_tracer_ok = true.
Proof. vm_compute. reflexivity. Qed.
