(* Properties/C07.v — Committed trie changes reproduce the new trie exactly.
   Property theorems only, each closed by [exact] of a lemma of
   Trie/CommitProofs.v, about the model Trie/Commit.v of trie.Commit /
   committer / tracers / node sets / node stores (on Trie/Ops.v, Trie/Hash.v).
   [H] is any hash function with 32-byte output; [reach H sc S ss]: the session
   state [ss] is reached by trie.New on store [S] (scheme [sc]) followed by ANY
   history of Update / Delete / Get. *)
From Coq Require Import Permutation.
From GV Require Import Lib.Tactics Trie.Hex Trie.Node Trie.Ops Trie.Hash Trie.OpsProofs Trie.Commit Trie.CommitProofs Trie.CommitTracer Trie.CommitReads Trie.CommitSim Trie.CommitSimDel Trie.CommitHist Trie.CommitExact Trie.Stack Trie.Generate Trie.GenerateProofs Trie.GenerateNodes Trie.CommitStack Trie.CommitEvents Trie.CommitTrace.
Local Open Scope N_scope.

(* the returned root is Trie.Hash() of the in-memory trie; for a short/full root
   with a returned node set the committer collapsed the root to that very hash
   node and the entry at the empty path is the encoding of the in-memory root *)
Theorem C07_commit_root_eq_hash : forall H, (forall x, length (H x) = 32%nat) ->
  forall ss r ons, commit H ss = Some (r, ons) ->
    hash_root H (s_root ss) = Some r /\
    forall ns, ons = Some ns -> is_sf (s_root ss) = true ->
      exists e, node_enc H (s_root ss) = Some e /\ H e = r /\
                am_get [] ns = Some (Upd r e (pv_get [] (s_tr ss))) /\
                exists ns0, commit_node H commit_fuel (dirty_at ss) (s_tr ss) true []
                                        (s_root ss) ns0 = Some (NHash r, ns).
Proof. exact commit_root_eq_hash. Qed.
Print Assumptions C07_commit_root_eq_hash.

(* committer.commit replaces a node by its hash node exactly when it is hashed
   (forced root or encoding >= 32 bytes), else keeps an embedded node with the
   SAME encoding: collapsing never changes what any parent encodes or hashes *)
Theorem C07_collapse_preserves_encoding : forall H, (forall x, length (H x) = 32%nat) ->
  forall f dirty tr force path n ns n' ns',
    commit_node H f dirty tr force path n ns = Some (n', ns') -> collapse_spec H force n n'.
Proof. exact commit_node_collapse. Qed.
Print Assumptions C07_collapse_preserves_encoding.

(* every deletion entry carries a non-empty previous value, which is the blob the
   node database returned at that path during the session (both schemes) *)
Theorem C07_deletions_carry_prev : forall H sc S ss r ns p prev,
  reach H sc S ss -> commit H ss = Some (r, Some ns) -> am_get p ns = Some (Del prev) ->
  prev <> [] /\ exists h n, resolve_of H sc S h p = Some (n, prev).
Proof. exact deletions_carry_prev. Qed.
Print Assumptions C07_deletions_carry_prev.

(* path scheme: it is the blob stored at that path *)
Theorem C07_deletions_carry_prev_path : forall H S ss r ns p prev,
  reach H PathScheme S ss -> commit H ss = Some (r, Some ns) -> am_get p ns = Some (Del prev) ->
  prev <> [] /\ am_get p S = Some prev.
Proof. exact deletions_carry_prev_path. Qed.
Print Assumptions C07_deletions_carry_prev_path.

(* written nodes carry the hash of their blob and, as previous value, nothing or
   the blob stored at that path *)
Theorem C07_updates_carry_prev_path : forall H S ss r ns p h blob prev,
  reach H PathScheme S ss -> commit H ss = Some (r, Some ns) -> am_get p ns = Some (Upd h blob prev) ->
  h = H blob /\ (prev = [] \/ am_get p S = Some prev).
Proof. exact updates_carry_prev_path. Qed.
Print Assumptions C07_updates_carry_prev_path.

(* opTracer (cancel-out rule) over ALL event lists that insert only where no node
   is and delete only where one is: deletes = present at the start and absent now,
   inserts = absent at the start and present now — whatever the interleaving of
   deletions and re-insertions *)
Theorem C07_tracer_spec : forall pres ev p,
  consistent pres ev ->
  am_has p (tr_del (trace_evs tr_empty ev)) = pres p && negb (pres_after pres ev p) /\
  am_has p (tr_ins (trace_evs tr_empty ev)) = negb (pres p) && pres_after pres ev p.
Proof. exact tracer_spec. Qed.
Print Assumptions C07_tracer_spec.

(* Trie.deletedNodes = exactly the paths that held a node at the start, hold none
   now, and whose node was read from the store *)
Theorem C07_deleted_nodes_spec : forall pres ev p,
  consistent pres ev ->
  let tr := trace_evs tr_empty ev in
  (In p (deleted_nodes tr) <->
   pres p = true /\ pres_after pres ev p = false /\ am_has p (tr_pv tr) = true).
Proof. exact deleted_nodes_spec. Qed.
Print Assumptions C07_deleted_nodes_spec.

(* applying a committed set is a pointwise override of the path store, and the
   previous values are what the store held (every session history) *)
Theorem C07_apply_pointwise : forall H S ss r ns,
  reach H PathScheme S ss -> commit H ss = Some (r, Some ns) ->
  forall p,
    match am_get p ns with
    | Some (Upd h b prev) =>
        am_get p (apply_nodeset PathScheme ns S) = Some b /\ h = H b /\
        (prev = [] \/ am_get p S = Some prev)
    | Some (Del prev) =>
        am_get p (apply_nodeset PathScheme ns S) = None /\ prev <> [] /\ am_get p S = Some prev
    | None => am_get p (apply_nodeset PathScheme ns S) = am_get p S
    end.
Proof. exact commit_applied_path. Qed.
Print Assumptions C07_apply_pointwise.

(* commit_reads_back (path scheme) — FULL.
   [reachable H S ss]: the database/session state is reached from the EMPTY
   database by any number of generations (trie.New, any Update / Delete / Get / GetNode
   with byte keys and keys/values shorter than 2^32 bytes, Commit, apply, reopen).
   Committing any reachable session and reopening at the returned root from the
   updated store succeeds, and every byte key reads there exactly the value it
   read in the in-memory trie before the commit.  Uses c06 (insert_spec,
   delete_spec, canonical form), c08 (decode_enc) and collision freedom only
   against the empty-root preimage. *)
Theorem C07_commit_reads_back : forall H,
  (forall x, length (H x) = 32%nat) ->
  (forall e, H e = H empty_root_preimage -> e = empty_root_preimage) ->
  forall S ss r ons key,
    reachable H S ss -> commit H ss = Some (r, ons) -> forallb byteb key = true ->
    exists ss2,
      open_trie H PathScheme (applied S ons) r = TOk ss2 /\
      exists v t1 d1 ev1 t2 d2 ev2,
        trie_get (resolve_of H PathScheme S) (s_root ss) key = TOk (v, t1, d1, ev1) /\
        trie_get (resolve_of H PathScheme (applied S ons)) (s_root ss2) key = TOk (v, t2, d2, ev2).
Proof. exact commit_reads_back. Qed.
Print Assumptions C07_commit_reads_back.

(* the invariant behind it: every reachable session represents a canonical,
   size-bounded ground trie F over its store *)
Theorem C07_reachable_sinv : forall H,
  (forall x, length (H x) = 32%nat) ->
  (forall e, H e = H empty_root_preimage -> e = empty_root_preimage) ->
  forall S ss, reachable H S ss -> exists F, sinv H S ss F /\ gsizes F.
Proof. exact reachable_sinv. Qed.
Print Assumptions C07_reachable_sinv.

(* Update and Delete keep the invariant, for the ground trie updated at that key *)
Theorem C07_update_preserves_sinv : forall H,
  (forall x, length (H x) = 32%nat) ->
  forall S ss F key v ss',
    sinv H S ss F -> gsizes F -> op_ok key v ->
    sess_update H PathScheme S ss key v = TOk ss' ->
    exists F', sinv H S ss' F' /\ gsizes F' /\
               lk F' (keybytes_to_hex key) = Canon.vopt v /\
               (forall hk, hk <> keybytes_to_hex key -> lk F' hk = lk F hk).
Proof. exact sess_update_sinv. Qed.
Print Assumptions C07_update_preserves_sinv.

(* "none missing" half of commit_exact_path, FULL: after the commit of any
   reachable session the updated store holds every hashed node of the ground
   trie at its path, under the returned root *)
Theorem C07_commit_none_missing : forall H,
  (forall x, length (H x) = 32%nat) ->
  (forall e, H e = H empty_root_preimage -> e = empty_root_preimage) ->
  forall S ss r ons,
    reachable H S ss -> commit H ss = Some (r, ons) ->
    exists F, store_ok H (applied S ons) r F.
Proof. exact commit_none_missing. Qed.
Print Assumptions C07_commit_none_missing.

(* TARGET (DESIGN.md) commit_exact_path :
     apply nodeset (nodes_of told) = nodes_of tnew      (path scheme)
   PROVED for every reachable session, with F the ground trie it represents
   ([gsub H true [] F q Gq]: Gq is the hashed node of F at path q):
     - none missing: every hashed node of F is in the updated store at its path,
       and the store resolves it (store_ok);
     - none wrong: every node the commit wrote is the encoding of the hashed node of
       F at that path;
     - every other entry of the updated store is an entry of the OLD store that the
       node set does not mention.
   MISSING for equality ("no stale node"): that such an unmentioned old entry is
   still a hashed node of F, i.e. deletion completeness — every old node that was
   loaded and is no longer a node of F is in deletedNodes or is deleted as an
   embedded node.  That needs the event-consistency of trie.go's insert/delete
   (hypothesis of C07_tracer_spec) and "every loaded old node has a pre-value";
   it is shown by the correspondence check and the Go oracle only (disk keyspace =
   from-scratch build on every case). *)
Theorem C07_commit_exact_path_partial : forall H,
  (forall x, length (H x) = 32%nat) ->
  (forall e, H e = H empty_root_preimage -> e = empty_root_preimage) ->
  forall S ss r ns,
    reachable H S ss -> commit H ss = Some (r, Some ns) ->
    exists F, sinv H S ss F /\ store_ok H (apply_nodeset PathScheme ns S) r F /\
      forall q b, am_get q (apply_nodeset PathScheme ns S) = Some b ->
        (exists Gq, gsub H true [] F q Gq /\ node_enc H Gq = Some b) \/
        (am_get q ns = None /\ am_get q S = Some b).
Proof. exact commit_exact_path_partial. Qed.
Print Assumptions C07_commit_exact_path_partial.

(* commit_exact_path — FULL for a commit into the EMPTY path store (a trie built
   from scratch by any history of guarded Update/Delete/Get/GetNode): the store
   after applying the node set holds exactly the canonical node set of the ground
   trie ([nodes_of H [] F], c11's definition: every node >= 32 bytes and the root,
   each under its path) — no stale node, none missing, none wrong *)
Theorem C07_commit_exact_path_fresh : forall H,
  (forall x, length (H x) = 32%nat) ->
  (forall e, H e = H empty_root_preimage -> e = empty_root_preimage) ->
  forall ss r ns,
    reachable H [] ss -> commit H ss = Some (r, Some ns) ->
    exists F, sinv H [] ss F /\
      forall q b, am_get q (apply_nodeset PathScheme ns []) = Some b <-> In (q, b) (nodes_of H [] F).
Proof. exact commit_exact_path_fresh. Qed.
Print Assumptions C07_commit_exact_path_fresh.

(* stack-trie clause — FULL in the model: for an ascending equal-length key set the
   nodes the streaming builder's callback receives (c11's stack-trie model and its
   builder_emits theorem, reused by import) are, as a set, exactly the nodes a
   regular trie holding the same content commits into an empty path store *)
Theorem C07_stack_nodes_eq_commit : forall H,
  (forall x, length (H x) = 32%nat) ->
  forall ss r ns F kvs L,
    sinv H [] ss F -> commit H ss = Some (r, Some ns) ->
    (1 <= L)%nat ->
    Forall (fun kv => nibbles (fst kv) /\ length (fst kv) = L /\ snd kv <> []) kvs -> hasc [] kvs ->
    (forall hk, valid_key hk -> lk F hk = Canon.apply_ops (fun _ => None) (hops kvs) hk) ->
    exists s em h emf,
      hfeed H stack_new kvs = Some (s, em) /\ st_root_e H s = TOk (h, emf) /\
      forall q b, In (q, b) (em ++ emf) <-> am_get q (apply_nodeset PathScheme ns []) = Some b.
Proof. exact stack_nodes_eq_commit. Qed.
Print Assumptions C07_stack_nodes_eq_commit.

(* Trie.GetNode (reads through unresolved nodes, recording their pre-values) keeps
   the session invariant *)
Theorem C07_getnode_preserves_sinv : forall H,
  (forall x, length (H x) = 32%nat) ->
  forall S ss F path g ss',
    sinv H S ss F -> sess_getnode H PathScheme S ss path = (g, ss') -> sinv H S ss' F.
Proof. exact sess_getnode_sinv. Qed.
Print Assumptions C07_getnode_preserves_sinv.

(* the same from the session invariant alone *)
Theorem C07_commit_reads_back_sinv : forall H,
  (forall x, length (H x) = 32%nat) ->
  (forall e, H e = H empty_root_preimage -> e = empty_root_preimage) ->
  forall S ss F r ons key,
    sinv H S ss F -> commit H ss = Some (r, ons) -> forallb byteb key = true ->
    exists ss2,
      open_trie H PathScheme (applied S ons) r = TOk ss2 /\
      exists v t1 d1 ev1 t2 d2 ev2,
        trie_get (resolve_of H PathScheme S) (s_root ss) key = TOk (v, t1, d1, ev1) /\
        trie_get (resolve_of H PathScheme (applied S ons)) (s_root ss2) key = TOk (v, t2, d2, ev2) /\
        v = lk F (keybytes_to_hex key).
Proof. exact commit_reads_back_sinv. Qed.
Print Assumptions C07_commit_reads_back_sinv.

(* after the commit the updated store holds the ground trie under the returned
   root: every hashed node of F is stored at its path with the encoding that
   decodes to it — the premise of the next generation *)
Theorem C07_commit_store_ok : forall H,
  (forall x, length (H x) = 32%nat) ->
  forall S ss F r ons,
    sinv H S ss F -> commit H ss = Some (r, ons) -> store_ok H (applied S ons) r F.
Proof. exact commit_store_ok. Qed.
Print Assumptions C07_commit_store_ok.

Theorem C07_open_sinv : forall H,
  (forall x, length (H x) = 32%nat) ->
  (forall e, H e = H empty_root_preimage -> e = empty_root_preimage) ->
  forall S root F, store_ok H S root F ->
    exists ss, open_trie H PathScheme S root = TOk ss /\ sinv H S ss F.
Proof. exact open_sinv. Qed.
Print Assumptions C07_open_sinv.

Theorem C07_store_ok_empty : forall H, store_ok H [] (H empty_root_preimage) NEmpty.
Proof. exact store_ok_empty. Qed.
Print Assumptions C07_store_ok_empty.

Theorem C07_get_preserves_sinv : forall H,
  (forall x, length (H x) = 32%nat) ->
  (forall e, H e = H empty_root_preimage -> e = empty_root_preimage) ->
  forall S ss F key v ss',
    sinv H S ss F -> forallb byteb key = true ->
    sess_get H PathScheme S ss key = TOk (v, ss') ->
    sinv H S ss' F /\ v = lk F (keybytes_to_hex key).
Proof. exact sess_get_sinv. Qed.
Print Assumptions C07_get_preserves_sinv.

(* trie.go insert on a representation of G yields a representation of the result
   of insert on G itself (hash-node resolution is transparent), for any reader R,
   once the rebuilt paths (prefixes of the key, onInsert paths) count as dirty *)
Theorem C07_insert_preserves_rep : forall H,
  (forall x, length (H x) = 32%nat) ->
  forall R dirty dirty' (delp delp' : list N -> Prop),
    (forall q, dirty' q = false -> dirty q = false) ->
    (forall q, delp' q -> delp q) ->
    forall fu n p key v d n' ev f G,
      insert R fu n p key (NValue v) = TOk (d, n', ev) ->
      rep H R dirty delp f p n G -> wfpos G key ->
      (d = true -> forall q, ple q (p ++ key) -> dirty' q = true) ->
      (forall q, In (TIns q) ev -> dirty' q = true) ->
      exists G', rep H R dirty' delp' f p n' G' /\ (d = false -> G' = G) /\
                 (forall fu', (length key < fu')%nat ->
                    exists ev', insert R fu' G p key (NValue v) = TOk (d, G', ev') /\ nores ev' = nores ev).
Proof. exact insert_rep. Qed.
Print Assumptions C07_insert_preserves_rep.

(* Trie.Update with a non-empty value at session level: with the model's own dirty
   reconstruction and tracer fold, the new session state represents F', the result
   of running the same insert on the old ground trie F (c06's insert_spec then
   gives canonicity and the lookup of F') *)
Theorem C07_update_value_preserves_rep : forall H,
  (forall x, length (H x) = 32%nat) ->
  forall S ss F key x v ss',
    sinv H S ss F -> forallb byteb key = true ->
    sess_update H PathScheme S ss key (x :: v) = TOk ss' ->
    exists F' d ev,
      s_tr ss' = trace_evs (s_tr ss) ev /\
      rep H (resolve_of H PathScheme S) (dirty_at ss') (delp_of (s_tr ss')) true [] (s_root ss') F' /\
      forall fu', (length (keybytes_to_hex key) < fu')%nat ->
        exists ev', insert (resolve_of H PathScheme S) fu' F [] (keybytes_to_hex key) (NValue (x :: v)) =
                    TOk (d, F', ev') /\ nores ev' = nores ev.
Proof. exact sess_insert_rep. Qed.
Print Assumptions C07_update_value_preserves_rep.

(* opTracer, UNCONDITIONAL for every reachable session (event consistency of
   trie.go's insert/delete is proved: C07_insert_events / C07_delete_events):
   with F0 the ground trie the store holds (the trie at trie.New) and F the ground
   trie the session represents, [gpos [] G q] = G has a short/full node at path q:
     deletes      = node paths of F0 that are no node paths of F,
     inserts      = node paths of F that are no node paths of F0,
     deletedNodes = the deletes whose node was read from the store *)
Theorem C07_tracer_reachable : forall H,
  (forall x, length (H x) = 32%nat) ->
  (forall e, H e = H empty_root_preimage -> e = empty_root_preimage) ->
  forall S ss, reachable H S ss ->
    exists F0 F root0, store_ok H S root0 F0 /\ sinv H S ss F /\
      forall q,
        (am_has q (tr_del (s_tr ss)) = true <-> gpos [] F0 q /\ ~ gpos [] F q) /\
        (am_has q (tr_ins (s_tr ss)) = true <-> ~ gpos [] F0 q /\ gpos [] F q) /\
        (In q (deleted_nodes (s_tr ss)) <->
         gpos [] F0 q /\ ~ gpos [] F q /\ am_has q (tr_pv (s_tr ss)) = true).
Proof. exact tracer_reachable. Qed.
Print Assumptions C07_tracer_reachable.

(* event consistency of trie.go's insert / delete on ground tries: the events are
   at paths below the call path, every onInsert is at a path holding no node, every
   onDelete at a path holding one, and afterwards the node paths are exactly those
   of the result ([econs]); the runs on partially loaded tries emit the same
   opTracer events (C07_insert_preserves_rep, nores) *)
Theorem C07_insert_events : forall R fu G p key v d G' ev,
  insert R fu G p key (NValue v) = TOk (d, G', ev) -> wfpos G key ->
  econs p G G' ev /\ (d = false -> ev = []).
Proof. exact insert_econs. Qed.
Print Assumptions C07_insert_events.

Theorem C07_delete_events : forall R fu G p key d G' ev,
  delete R fu G p key = TOk (d, G', ev) -> wfpos G key -> (length key < fu)%nat ->
  econs p G G' ev /\ (d = false -> ev = []).
Proof. exact delete_econs. Qed.
Print Assumptions C07_delete_events.

(* the hypotheses are met: a two-generation history over a path-scheme store whose
   second commit returns deletions with previous values, and whose events are
   [consistent] with the stored node positions; a hash function with 32-byte output
   that is collision free against the empty-root preimage; and a reachable session
   holding three keys whose commit returns a node set *)
Example C07_nonvacuous :
  c07_example_ok && ex_tracer_ok = true /\
  (forall x, length (toyH2 x) = 32%nat) /\
  (forall e, toyH2 e = toyH2 empty_root_preimage -> e = empty_root_preimage) /\
  reachable toyH2 [] ex_e3 /\
  exists r ns, commit toyH2 ex_e3 = Some (r, Some ns) /\ (3 <= length ns)%nat.
Proof.
  split; [vm_compute; reflexivity|]. split; [exact toyH2_len|]. split; [exact toyH2_inj_empty|].
  exact ex_reachable.
Qed.
