(* Properties/C07.v — Committed trie changes reproduce the new trie exactly.
   Property theorems only, each closed by [exact] of a lemma of
   Trie/CommitProofs.v, about the model Trie/Commit.v of trie.Commit /
   committer / tracers / node sets / node stores (on Trie/Ops.v, Trie/Hash.v).
   [H] is any hash function with 32-byte output; [reach H sc S ss]: the session
   state [ss] is reached by trie.New on store [S] (scheme [sc]) followed by ANY
   history of Update / Delete / Get / GetNode.  [reachable H S ss] (path scheme):
   reached from the EMPTY database by any number of generations (trie.New, any
   Update / Delete / Get / GetNode with byte keys and keys/values shorter than
   2^32 bytes, Commit, apply, reopen).  The representation chain is Trie/Commit*.v
   (hash nodes resolve to the decoded encoding of their subtree, untouched
   regions of the store are exact); c06 (canonical form, insert/delete specs),
   c08 (decode_enc) and c11 (stack-trie model) are reused by import. *)
From Coq Require Import Permutation.
From GV Require Import Lib.Tactics Trie.Hex Trie.Node Trie.Ops Trie.Hash Trie.OpsProofs Trie.Canon Trie.Commit Trie.CommitProofs Trie.CommitTracer.
From GV Require Import Trie.CommitReads Trie.CommitSim Trie.CommitSimDel Trie.CommitHist Trie.CommitExact Trie.CommitEvents Trie.CommitTrace Trie.CommitPv Trie.CommitInv3 Trie.CommitNoStale Trie.CommitFinal.
From GV Require Import Trie.Stack Trie.Generate Trie.GenerateProofs Trie.GenerateNodes Trie.CommitStack Trie.CommitHash.
Local Open Scope N_scope.

(* the returned root is Trie.Hash() of the in-memory trie; for a short/full root
   with a returned node set the committer collapsed the root to that very hash
   node and the entry at the empty path is the encoding of the in-memory root *)
Theorem C07_commit_root_eq_hash : forall H, (forall x, length (H x) = 32%nat) ->
  forall ss r ons, commit H ss = Some (r, ons) ->
    hash_root H (s_root ss) = Some r /\
    forall ns, ons = Some ns -> is_sf (s_root ss) = true ->
      exists e, node_enc H (s_root ss) = Some e /\ H e = r /\
                am_get [] ns = Some (Upd r e (pv_get [] (s_tr ss))) /\
                exists ns0, commit_node H commit_fuel (dirty_at ss) (s_tr ss) true []
                                        (s_root ss) ns0 = Some (NHash r, ns).
Proof. exact commit_root_eq_hash. Qed.
Print Assumptions C07_commit_root_eq_hash.

(* committer.commit replaces a node by its hash node exactly when it is hashed
   (forced root or encoding >= 32 bytes), else keeps an embedded node with the
   SAME encoding: collapsing never changes what any parent encodes or hashes *)
Theorem C07_collapse_preserves_encoding : forall H, (forall x, length (H x) = 32%nat) ->
  forall f dirty tr force path n ns n' ns',
    commit_node H f dirty tr force path n ns = Some (n', ns') -> collapse_spec H force n n'.
Proof. exact commit_node_collapse. Qed.
Print Assumptions C07_collapse_preserves_encoding.

(* every deletion entry carries a non-empty previous value, which is the blob the
   node database returned at that path during the session (both schemes) *)
Theorem C07_deletions_carry_prev : forall H sc S ss r ns p prev,
  reach H sc S ss -> commit H ss = Some (r, Some ns) -> am_get p ns = Some (Del prev) ->
  prev <> [] /\ exists h n, resolve_of H sc S h p = Some (n, prev).
Proof. exact deletions_carry_prev. Qed.
Print Assumptions C07_deletions_carry_prev.

(* path scheme: it is the blob stored at that path *)
Theorem C07_deletions_carry_prev_path : forall H S ss r ns p prev,
  reach H PathScheme S ss -> commit H ss = Some (r, Some ns) -> am_get p ns = Some (Del prev) ->
  prev <> [] /\ am_get p S = Some prev.
Proof. exact deletions_carry_prev_path. Qed.
Print Assumptions C07_deletions_carry_prev_path.

(* written nodes carry the hash of their blob and, as previous value, nothing or
   the blob stored at that path *)
Theorem C07_updates_carry_prev_path : forall H S ss r ns p h blob prev,
  reach H PathScheme S ss -> commit H ss = Some (r, Some ns) -> am_get p ns = Some (Upd h blob prev) ->
  h = H blob /\ (prev = [] \/ am_get p S = Some prev).
Proof. exact updates_carry_prev_path. Qed.
Print Assumptions C07_updates_carry_prev_path.

(* opTracer (cancel-out rule) over ALL event lists that insert only where no node
   is and delete only where one is: deletes = present at the start and absent now,
   inserts = absent at the start and present now — whatever the interleaving of
   deletions and re-insertions *)
Theorem C07_tracer_spec : forall pres ev p,
  consistent pres ev ->
  am_has p (tr_del (trace_evs tr_empty ev)) = pres p && negb (pres_after pres ev p) /\
  am_has p (tr_ins (trace_evs tr_empty ev)) = negb (pres p) && pres_after pres ev p.
Proof. exact tracer_spec. Qed.
Print Assumptions C07_tracer_spec.

(* Trie.deletedNodes = exactly the paths that held a node at the start, hold none
   now, and whose node was read from the store *)
Theorem C07_deleted_nodes_spec : forall pres ev p,
  consistent pres ev ->
  let tr := trace_evs tr_empty ev in
  (In p (deleted_nodes tr) <->
   pres p = true /\ pres_after pres ev p = false /\ am_has p (tr_pv tr) = true).
Proof. exact deleted_nodes_spec. Qed.
Print Assumptions C07_deleted_nodes_spec.

(* applying a committed set is a pointwise override of the path store, and the
   previous values are what the store held (every session history) *)
Theorem C07_apply_pointwise : forall H S ss r ns,
  reach H PathScheme S ss -> commit H ss = Some (r, Some ns) ->
  forall p,
    match am_get p ns with
    | Some (Upd h b prev) =>
        am_get p (apply_nodeset PathScheme ns S) = Some b /\ h = H b /\
        (prev = [] \/ am_get p S = Some prev)
    | Some (Del prev) =>
        am_get p (apply_nodeset PathScheme ns S) = None /\ prev <> [] /\ am_get p S = Some prev
    | None => am_get p (apply_nodeset PathScheme ns S) = am_get p S
    end.
Proof. exact commit_applied_path. Qed.
Print Assumptions C07_apply_pointwise.

(* ======================= path scheme, every reachable session ======================= *)

(* commit_exact_path — FULL: after applying the node set of ANY reachable session
   the path store holds EXACTLY the hashed nodes of the ground trie F the session
   represents ([gsub H true [] F q Gq]: Gq is the hashed node of F at path q), each
   under its path with its encoding: no stale node, none missing, none wrong; and
   the store resolves every one of them ([store_ok]) *)
Theorem C07_commit_exact_path : forall H,
  (forall x, length (H x) = 32%nat) ->
  (forall e, H e = H empty_root_preimage -> e = empty_root_preimage) ->
  forall S ss r ons,
    reachable H S ss -> commit H ss = Some (r, ons) ->
    exists F, sinv H S ss F /\ store_ok H (applied S ons) r F /\
      forall q b, am_get q (applied S ons) = Some b <->
                  exists Gq, gsub H true [] F q Gq /\ node_enc H Gq = Some b.
Proof. exact commit_exact_path. Qed.
Print Assumptions C07_commit_exact_path.

(* commit_reads_back — FULL: reopening at the returned root from the updated store
   succeeds and every byte key reads exactly what it read in the in-memory trie
   before the commit *)
Theorem C07_commit_reads_back : forall H,
  (forall x, length (H x) = 32%nat) ->
  (forall e, H e = H empty_root_preimage -> e = empty_root_preimage) ->
  forall S ss r ons key,
    reachable H S ss -> commit H ss = Some (r, ons) -> forallb byteb key = true ->
    exists ss2,
      open_trie H PathScheme (applied S ons) r = TOk ss2 /\
      exists v t1 d1 ev1 t2 d2 ev2,
        trie_get (resolve_of H PathScheme S) (s_root ss) key = TOk (v, t1, d1, ev1) /\
        trie_get (resolve_of H PathScheme (applied S ons)) (s_root ss2) key = TOk (v, t2, d2, ev2).
Proof. exact commit_reads_back. Qed.
Print Assumptions C07_commit_reads_back.

(* the opTracer of every reachable session, UNCONDITIONALLY (event consistency of
   trie.go's insert/delete is proved: C07_insert_events / C07_delete_events): with
   F0 the ground trie the store holds (the trie at trie.New) and F the ground trie
   the session represents, [gpos [] G q] = G has a short/full node at path q:
     deletes      = node paths of F0 that are no node paths of F,
     inserts      = node paths of F that are no node paths of F0,
     deletedNodes = the deletes whose node was read from the store *)
Theorem C07_tracer_reachable : forall H,
  (forall x, length (H x) = 32%nat) ->
  (forall e, H e = H empty_root_preimage -> e = empty_root_preimage) ->
  forall S ss, reachable H S ss ->
    exists F0 F root0, store_ok H S root0 F0 /\ sinv H S ss F /\
      forall q,
        (am_has q (tr_del (s_tr ss)) = true <-> gpos [] F0 q /\ ~ gpos [] F q) /\
        (am_has q (tr_ins (s_tr ss)) = true <-> ~ gpos [] F0 q /\ gpos [] F q) /\
        (In q (deleted_nodes (s_tr ss)) <->
         gpos [] F0 q /\ ~ gpos [] F q /\ am_has q (tr_pv (s_tr ss)) = true).
Proof. exact tracer_reachable. Qed.
Print Assumptions C07_tracer_reachable.

(* pre-value coverage: every in-memory node path holding a stored node, and every
   stored node path the ground trie no longer has, carries a recorded pre-value *)
Theorem C07_prevalue_coverage : forall H,
  (forall x, length (H x) = 32%nat) ->
  (forall e, H e = H empty_root_preimage -> e = empty_root_preimage) ->
  forall S ss, reachable H S ss ->
    exists F, sinv H S ss F /\
      (forall a, stored (resolve_of H PathScheme S) a -> gpos [] (s_root ss) a -> pvd (s_tr ss) a) /\
      (forall a, stored (resolve_of H PathScheme S) a -> ~ gpos [] F a -> pvd (s_tr ss) a).
Proof. exact prevalue_coverage. Qed.
Print Assumptions C07_prevalue_coverage.

(* the complete invariant behind these: the store holds exactly F0 (store_ok with
   region exactness, raw entries), the session represents F with the tracer,
   pre-value and size invariants *)
Theorem C07_reachable_ginv : forall H,
  (forall x, length (H x) = 32%nat) ->
  (forall e, H e = H empty_root_preimage -> e = empty_root_preimage) ->
  forall S ss, reachable H S ss -> exists F0 F root0, ginv H S ss F0 F root0.
Proof. exact reachable_ginv. Qed.
Print Assumptions C07_reachable_ginv.

(* static no-stale lemma: from the invariant, whatever the updated store resolves is
   a hashed node of the ground trie *)
Theorem C07_commit_no_stale : forall H,
  (forall x, length (H x) = 32%nat) ->
  forall S ss F0 F root0 r ns,
    sinv3 H S ss F0 F -> store_ok H S root0 F0 -> pv_ne (s_tr ss) ->
    commit H ss = Some (r, Some ns) ->
    exactb H (resolve_of H PathScheme (apply_nodeset PathScheme ns S)) true [] F.
Proof. exact commit_no_stale. Qed.
Print Assumptions C07_commit_no_stale.

(* Update / Delete keep the invariant, for the ground trie updated at that key *)
Theorem C07_update_preserves_sinv3 : forall H,
  (forall x, length (H x) = 32%nat) ->
  forall S ss F0 F key v ss',
    sinv3 H S ss F0 F -> op_ok key v ->
    sess_update H PathScheme S ss key v = TOk ss' ->
    exists F', sinv3 H S ss' F0 F' /\
               lk F' (keybytes_to_hex key) = vopt v /\
               (forall hk, hk <> keybytes_to_hex key -> lk F' hk = lk F hk).
Proof. exact sess_update_sinv3. Qed.
Print Assumptions C07_update_preserves_sinv3.

Theorem C07_get_preserves_sinv3 : forall H,
  (forall x, length (H x) = 32%nat) ->
  (forall e, H e = H empty_root_preimage -> e = empty_root_preimage) ->
  forall S ss F0 F key v ss',
    sinv3 H S ss F0 F -> forallb byteb key = true ->
    sess_get H PathScheme S ss key = TOk (v, ss') ->
    sinv3 H S ss' F0 F /\ v = lk F (keybytes_to_hex key).
Proof. exact sess_get_sinv3. Qed.
Print Assumptions C07_get_preserves_sinv3.

Theorem C07_getnode_preserves_sinv3 : forall H,
  (forall x, length (H x) = 32%nat) ->
  forall S ss F0 F path g ss',
    sinv3 H S ss F0 F -> sess_getnode H PathScheme S ss path = (g, ss') -> sinv3 H S ss' F0 F.
Proof. exact sess_getnode_sinv3. Qed.
Print Assumptions C07_getnode_preserves_sinv3.

Theorem C07_open_sinv3 : forall H,
  (forall x, length (H x) = 32%nat) ->
  (forall e, H e = H empty_root_preimage -> e = empty_root_preimage) ->
  forall S root F, store_ok H S root F -> gsizes F ->
    exists ss, open_trie H PathScheme S root = TOk ss /\ sinv3 H S ss F F.
Proof. exact open_sinv3. Qed.
Print Assumptions C07_open_sinv3.

Theorem C07_store_ok_empty : forall H, store_ok H [] (H empty_root_preimage) NEmpty.
Proof. exact store_ok_empty. Qed.
Print Assumptions C07_store_ok_empty.

(* trie.go insert on a representation of G yields a representation of insert on G
   itself (hash-node resolution is transparent) and both runs emit the same opTracer
   events *)
Theorem C07_insert_preserves_rep : forall H,
  (forall x, length (H x) = 32%nat) ->
  forall R dirty dirty' (delp delp' : list N -> Prop),
    (forall q, dirty' q = false -> dirty q = false) ->
    (forall q, delp' q -> delp q) ->
    forall fu n p key v d n' ev f G,
      insert R fu n p key (NValue v) = TOk (d, n', ev) ->
      rep H R dirty delp f p n G -> wfpos G key ->
      (d = true -> forall q, ple q (p ++ key) -> dirty' q = true) ->
      (forall q, In (TIns q) ev -> dirty' q = true) ->
      exists G', rep H R dirty' delp' f p n' G' /\ (d = false -> G' = G) /\
                 (forall fu', (length key < fu')%nat ->
                    exists ev', insert R fu' G p key (NValue v) = TOk (d, G', ev') /\ nores ev' = nores ev).
Proof. exact insert_rep. Qed.
Print Assumptions C07_insert_preserves_rep.

(* the same for delete: branch collapse with resolution of the remaining child,
   short-node merging, growing deletion set ([dp_ok], [del_concl]) *)
Theorem C07_delete_preserves_rep : forall H,
  (forall x, length (H x) = 32%nat) ->
  forall R dirty dirty' (delp delp' : list N -> Prop),
    (forall q, dirty' q = false -> dirty q = false) ->
    forall fu n p key d n' ev f G,
      delete R fu n p key = TOk (d, n', ev) ->
      rep H R dirty delp f p n G -> wfpos G key ->
      dp_ok delp delp' p ev d ->
      (d = true -> forall q, ple q (p ++ key) -> dirty' q = true) ->
      del_concl H R dirty' delp' f p key G d n' ev.
Proof. exact delete_rep. Qed.
Print Assumptions C07_delete_preserves_rep.

(* event consistency of trie.go's insert / delete on ground tries: the events are
   at paths below the call path, every onInsert is at a path holding no node, every
   onDelete at a path holding one, and afterwards the node paths are exactly those
   of the result ([econs]) *)
Theorem C07_insert_events : forall R fu G p key v d G' ev,
  insert R fu G p key (NValue v) = TOk (d, G', ev) -> wfpos G key ->
  econs p G G' ev /\ (d = false -> ev = []).
Proof. exact insert_econs. Qed.
Print Assumptions C07_insert_events.

Theorem C07_delete_events : forall R fu G p key d G' ev,
  delete R fu G p key = TOk (d, G', ev) -> wfpos G key -> (length key < fu)%nat ->
  econs p G G' ev /\ (d = false -> ev = []).
Proof. exact delete_econs. Qed.
Print Assumptions C07_delete_events.

(* ======================= hash scheme ======================= *)

(* commit_reads_back for the HASH scheme, over every multi-generation hash-scheme
   history ([hreachable]: trie.New, guarded Update / Delete / Get / GetNode, Commit, apply
   (additions by hash, deletions ignored), reopen), under collision freedom on node
   encodings ([PB a]: a is the encoding of a well-formed node): reopening at the
   returned root from the updated hash store succeeds and every byte key reads what
   it read in the in-memory trie before the commit.  Proved by coupling with the
   path-scheme history of the same operations (C07_hash_coupling). *)
Theorem C07_commit_reads_back_hash : forall H,
  (forall x, length (H x) = 32%nat) ->
  (forall e, H e = H empty_root_preimage -> e = empty_root_preimage) ->
  (forall a b, PB H a -> PB H b -> H a = H b -> a = b) ->
  forall Sh ss r ons key,
    hreachable H Sh ss -> commit H ss = Some (r, ons) -> forallb byteb key = true ->
    exists ss2,
      open_trie H HashScheme (applied_h Sh ons) r = TOk ss2 /\
      exists v t1 d1 ev1 t2 d2 ev2,
        trie_get (resolve_of H HashScheme Sh) (s_root ss) key = TOk (v, t1, d1, ev1) /\
        trie_get (resolve_of H HashScheme (applied_h Sh ons)) (s_root ss2) key = TOk (v, t2, d2, ev2).
Proof. exact commit_reads_back_hash. Qed.
Print Assumptions C07_commit_reads_back_hash.

(* every hash-scheme history is a path-scheme history with the same session states,
   whose path store is contained (blob by hash) in the hash store *)
Theorem C07_hash_coupling : forall H,
  (forall x, length (H x) = 32%nat) ->
  (forall e, H e = H empty_root_preimage -> e = empty_root_preimage) ->
  (forall a b, PB H a -> PB H b -> H a = H b -> a = b) ->
  forall Sh ss, hreachable H Sh ss -> exists Sp, reachable H Sp ss /\ ext_st H Sp Sh.
Proof. exact hash_coupling. Qed.
Print Assumptions C07_hash_coupling.

(* ======================= stack-trie clause ======================= *)

(* the store after any reachable commit is exactly c11's canonical node set
   [nodes_of H [] F] (every node >= 32 bytes and the root, each under its path) *)
Theorem C07_store_is_nodes_of : forall H,
  (forall x, length (H x) = 32%nat) ->
  (forall e, H e = H empty_root_preimage -> e = empty_root_preimage) ->
  forall S ss r ons,
    reachable H S ss -> commit H ss = Some (r, ons) ->
    exists F, sinv H S ss F /\
      forall q b, am_get q (applied S ons) = Some b <-> In (q, b) (nodes_of H [] F).
Proof. exact store_is_nodes_of. Qed.
Print Assumptions C07_store_is_nodes_of.

(* for an ascending equal-length key set with the same content as the committed
   trie F, the nodes the streaming builder's callback receives (c11's stack-trie
   model and builder_emits theorem, reused by import) are exactly the nodes the
   path store holds after the commit — for a trie built from scratch: the node set
   the regular trie commits *)
Theorem C07_stack_nodes_eq_commit : forall H,
  (forall x, length (H x) = 32%nat) ->
  (forall e, H e = H empty_root_preimage -> e = empty_root_preimage) ->
  forall S ss r ons,
    reachable H S ss -> commit H ss = Some (r, ons) ->
    exists F, sinv H S ss F /\
      forall kvs L, (1 <= L)%nat ->
        Forall (fun kv => nibbles (fst kv) /\ length (fst kv) = L /\ snd kv <> []) kvs -> hasc [] kvs ->
        (forall hk, valid_key hk -> lk F hk = apply_ops (fun _ => None) (hops kvs) hk) ->
        exists s em h emf,
          hfeed H stack_new kvs = Some (s, em) /\ st_root_e H s = TOk (h, emf) /\
          forall q b, In (q, b) (em ++ emf) <-> am_get q (applied S ons) = Some b.
Proof. exact stack_nodes_eq_commit. Qed.
Print Assumptions C07_stack_nodes_eq_commit.

(* the hypotheses are met: a two-generation history over a path-scheme store whose
   second commit returns deletions with previous values, and whose events are
   [consistent] with the stored node positions; a hash function with 32-byte output
   that is collision free against the empty-root preimage; and a reachable session
   holding three keys whose commit returns a node set *)
Example C07_nonvacuous :
  c07_example_ok && ex_tracer_ok = true /\
  (forall x, length (toyH2 x) = 32%nat) /\
  (forall e, toyH2 e = toyH2 empty_root_preimage -> e = empty_root_preimage) /\
  reachable toyH2 [] ex_e3 /\
  exists r ns, commit toyH2 ex_e3 = Some (r, Some ns) /\ (3 <= length ns)%nat.
Proof.
  split; [vm_compute; reflexivity|]. split; [exact toyH2_len|]. split; [exact toyH2_inj_empty|].
  exact ex_reachable.
Qed.
