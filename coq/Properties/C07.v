(* Properties/C07.v — Committed trie changes reproduce the new trie exactly.
   Property theorems only, each closed by [exact] of a lemma of
   Trie/CommitProofs.v, about the model Trie/Commit.v of trie.Commit /
   committer / tracers / node sets / node stores (on Trie/Ops.v, Trie/Hash.v).
   [H] is any hash function with 32-byte output; [reach H sc S ss]: the session
   state [ss] is reached by trie.New on store [S] (scheme [sc]) followed by ANY
   history of Update / Delete / Get. *)
From GV Require Import Lib.Tactics Trie.Node Trie.Ops Trie.Hash Trie.Commit Trie.CommitProofs.
Local Open Scope N_scope.

(* the returned root is Trie.Hash() of the in-memory trie; for a short/full root
   with a returned node set the committer collapsed the root to that very hash
   node and the entry at the empty path is the encoding of the in-memory root *)
Theorem C07_commit_root_eq_hash : forall H, (forall x, length (H x) = 32%nat) ->
  forall ss r ons, commit H ss = Some (r, ons) ->
    hash_root H (s_root ss) = Some r /\
    forall ns, ons = Some ns -> is_sf (s_root ss) = true ->
      exists e, node_enc H (s_root ss) = Some e /\ H e = r /\
                am_get [] ns = Some (Upd r e (pv_get [] (s_tr ss))) /\
                exists ns0, commit_node H commit_fuel (dirty_at ss) (s_tr ss) true []
                                        (s_root ss) ns0 = Some (NHash r, ns).
Proof. exact commit_root_eq_hash. Qed.
Print Assumptions C07_commit_root_eq_hash.

(* committer.commit replaces a node by its hash node exactly when it is hashed
   (forced root or encoding >= 32 bytes), else keeps an embedded node with the
   SAME encoding: collapsing never changes what any parent encodes or hashes *)
Theorem C07_collapse_preserves_encoding : forall H, (forall x, length (H x) = 32%nat) ->
  forall f dirty tr force path n ns n' ns',
    commit_node H f dirty tr force path n ns = Some (n', ns') -> collapse_spec H force n n'.
Proof. exact commit_node_collapse. Qed.
Print Assumptions C07_collapse_preserves_encoding.

(* every deletion entry carries a non-empty previous value, which is the blob the
   node database returned at that path during the session (both schemes) *)
Theorem C07_deletions_carry_prev : forall H sc S ss r ns p prev,
  reach H sc S ss -> commit H ss = Some (r, Some ns) -> am_get p ns = Some (Del prev) ->
  prev <> [] /\ exists h n, resolve_of H sc S h p = Some (n, prev).
Proof. exact deletions_carry_prev. Qed.
Print Assumptions C07_deletions_carry_prev.

(* path scheme: it is the blob stored at that path *)
Theorem C07_deletions_carry_prev_path : forall H S ss r ns p prev,
  reach H PathScheme S ss -> commit H ss = Some (r, Some ns) -> am_get p ns = Some (Del prev) ->
  prev <> [] /\ am_get p S = Some prev.
Proof. exact deletions_carry_prev_path. Qed.
Print Assumptions C07_deletions_carry_prev_path.

(* written nodes carry the hash of their blob and, as previous value, nothing or
   the blob stored at that path *)
Theorem C07_updates_carry_prev_path : forall H S ss r ns p h blob prev,
  reach H PathScheme S ss -> commit H ss = Some (r, Some ns) -> am_get p ns = Some (Upd h blob prev) ->
  h = H blob /\ (prev = [] \/ am_get p S = Some prev).
Proof. exact updates_carry_prev_path. Qed.
Print Assumptions C07_updates_carry_prev_path.

(* the hypotheses are met: a two-generation history over a path-scheme store whose
   second commit returns deletions with previous values *)
Example C07_nonvacuous : c07_example_ok = true.
Proof. vm_compute. reflexivity. Qed.
