(* Properties/C09.v — Range proofs accept exactly the true ranges.
   Property theorems only; each is closed by [exact] of a lemma proved in
   Trie/RangeProofs.v, about the model Trie/Range.v of /repo/trie/proof.go
   (VerifyRangeProof, proofToPath, unsetInternal, unset, hasRightElement).

   H is any hash function with 32-byte outputs; NS is the finite set of node
   encodings in play and [H_inj_on H NS] says H has no collision on it.
   [canon t]: the in-memory trie Update builds (C06); [lk t hk]: the value under
   hex key hk; [content_ok t]: stored values non-empty, keys and values < 2^32 bytes.
   Guard of every positive statement: NON-EMPTY KEYS OF ONE FIXED LENGTH (as snap's
   32-byte hashes); the three *_refuted witnesses show what happens outside it. *)
From GV Require Import Lib.Tactics Lib.Bytes Trie.Hex Trie.Node Trie.Ops Trie.Hash Trie.OpsProofs Trie.Canon Trie.Stack Trie.Proof Trie.ProofProofs Trie.Range Trie.RangeProofs Trie.RangeComplete.
Local Open Scope N_scope.

(* no edge proofs: accepted <-> the run is strictly increasing, free of deletions and is
   the WHOLE content of the trie; "more" is never reported *)
Theorem C09_range_noproof_exact : forall (H : list N -> list N),
  (forall x, length (H x) = 32%nat) ->
  forall NS : list N -> Prop, H_inj_on H NS ->
  forall t r first keys values Lb,
    canon t -> content_ok t -> hash_root H t = Some r ->
    (0 < Lb)%nat -> N.of_nat Lb < 2 ^ 30 ->
    Forall (fun k => length k = Lb /\ forallb byteb k = true) keys -> Forall small values ->
    NS empty_root_preimage -> (forall e, genuine H t e -> NS e) ->
    (forall t' ev, update_seq no_resolve NEmpty (combine keys values) = TOk (t', ev) ->
                   forall e, genuine H t' e -> NS e) ->
    (verify_range_proof H r first keys values None = Rok false <->
     length keys = length values /\ sorted keys /\ Forall (fun v => v <> []) values /\
     forall hk, lk t hk = run_map keys values hk).
Proof. exact range_noproof_exact. Qed.
Print Assumptions C09_range_noproof_exact.

Theorem C09_never_more_noproof : forall H r first keys values,
  verify_range_proof H r first keys values None <> Rok true.
Proof. exact never_more_noproof. Qed.
Print Assumptions C09_never_more_noproof.

(* zero-element run with one edge proof, over a database that answers genuine hashes
   only with the genuine encoding ([P] covers the node encodings of t): accepted => no
   entry of the trie lies at or after the start key (and "more" is false); conversely such
   a run is accepted as soon as the root node and the hashed nodes on the start key's path
   are present.  [ulen]: every key of the trie has the start key's length. *)
Theorem C09_range_empty_sound_complete : forall (H : list N -> list N),
  (forall x, length (H x) = 32%nat) ->
  forall (db : pdb) (P : list N -> Prop),
  (forall e b, P e -> db_get db (H e) = Some b -> b = e) ->
  forall t r first,
    can t -> content_ok t -> hash_root H t = Some r -> (forall e, genuine H t e -> P e) ->
    forallb byteb first = true -> ulen t (length (keybytes_to_hex first)) ->
    (forall b, verify_range_proof H r first [] [] (Some db) = Rok b ->
               b = false /\ none_from t (keybytes_to_hex first)) /\
    (none_from t (keybytes_to_hex first) -> db_get db r <> None ->
     ~ missing_on H db t (keybytes_to_hex first) ->
     verify_range_proof H r first [] [] (Some db) = Rok false).
Proof. exact range_empty_sound_complete. Qed.
Print Assumptions C09_range_empty_sound_complete.

(* one-element run whose key is the start key: accepted => the trie holds exactly that
   value under the key and "more" <=> some key of the trie is greater; conversely the
   true entry is accepted when the path nodes are present *)
Theorem C09_range_single_sound_complete : forall (H : list N -> list N),
  (forall x, length (H x) = 32%nat) ->
  forall (db : pdb) (P : list N -> Prop),
  (forall e b, P e -> db_get db (H e) = Some b -> b = e) ->
  forall t r first v,
    can t -> content_ok t -> hash_root H t = Some r -> (forall e, genuine H t e -> P e) ->
    forallb byteb first = true -> ulen t (length (keybytes_to_hex first)) ->
    (forall b, verify_range_proof H r first [first] [v] (Some db) = Rok b ->
               lk t (keybytes_to_hex first) = Some v /\ (b = true <-> has_gt t (keybytes_to_hex first))) /\
    (lk t (keybytes_to_hex first) = Some v -> db_get db r <> None ->
     ~ missing_on H db t (keybytes_to_hex first) ->
     exists b, verify_range_proof H r first [first] [v] (Some db) = Rok b /\
               (b = true <-> has_gt t (keybytes_to_hex first))).
Proof. exact range_single_sound_complete. Qed.
Print Assumptions C09_range_single_sound_complete.

(* unsetInternal on a well-formed trie whose keys all have the edge keys' length: whatever
   it returns (node kept / node removed), no key of the closed interval [left, right] is
   reachable afterwards *)
Theorem C09_unset_removes_interior : forall s left right a,
  slotok s -> ulen s (length left) -> length left = length right ->
  valid_key left -> valid_key right -> slice_lt left right = true ->
  unset_internal s left right = Rok a ->
  forall k, between left right k -> lk (act_node a) k = None.
Proof. exact unset_internal_spec. Qed.
Print Assumptions C09_unset_removes_interior.

(* THE TWO-EDGE BRANCH, soundness at full strength (DESIGN.md planned only the genuine-edge
   case): for ANY hash-keyed proof database whose blobs lie in the collision-free set NS
   (genuine nodes with omissions, nodes of other tries, garbage), if VerifyRangeProof accepts
   a run of >= 2 keys, or of one key different from the start key, then on the closed
   interval [firstKey, lastKey] the trie holds exactly the run, and "more" <=> the trie has
   a key beyond the last one.  NS must also cover the encodings of the rebuilt trie. *)
Theorem C09_range_sound_general : forall (H : list N -> list N),
  (forall x, length (H x) = 32%nat) ->
  forall NS : list N -> Prop, H_inj_on H NS ->
  forall db t r first last keys values Lb b,
    db_keyed H db -> db_in NS db ->
    can t -> content_ok t -> hash_root H t = Some r ->
    keys_fixed t Lb -> (0 < Lb)%nat -> N.of_nat Lb < 2 ^ 30 ->
    length first = Lb -> forallb byteb first = true ->
    Forall (fun k => length k = Lb /\ forallb byteb k = true) keys -> Forall small values ->
    last_opt keys = Some last ->
    ((2 <= length keys)%nat \/ last <> first) ->
    NS empty_root_preimage -> (forall e, genuine H t e -> NS e) ->
    (forall a s3, unset_internal t (keybytes_to_hex first) (keybytes_to_hex last) = Rok a ->
                  reinsert (act_node a) keys values = Rok s3 -> forall e, genuine H s3 e -> NS e) ->
    verify_range_proof H r first keys values (Some db) = Rok b ->
    (forall hk, between (keybytes_to_hex first) (keybytes_to_hex last) hk -> lk t hk = run_map keys values hk) /\
    (b = true <-> has_gt t (keybytes_to_hex last)).
Proof. exact range_sound_general_keyed. Qed.
Print Assumptions C09_range_sound_general.

(* for byte keys of one length the order on hex keys used above is bytes.Compare *)
Theorem C09_hex_order : forall a b, forallb byteb a = true -> forallb byteb b = true -> length a = length b ->
  slice_lt (keybytes_to_hex a) (keybytes_to_hex b) = slice_lt a b.
Proof. exact slice_lt_hex. Qed.
Print Assumptions C09_hex_order.

(* never a panic value (nor the model's fuel): the no-proof, empty-run and single-element
   branches, on non-empty keys of one length and genuine proof nodes *)
Theorem C09_range_total_noproof : forall (H : list N -> list N),
  (forall x, length (H x) = 32%nat) ->
  forall r first keys values Lb,
    (0 < Lb)%nat -> N.of_nat Lb < 2 ^ 30 ->
    Forall (fun k => length k = Lb /\ forallb byteb k = true) keys -> Forall small values ->
    no_panic (verify_range_proof H r first keys values None).
Proof. exact noproof_total. Qed.
Print Assumptions C09_range_total_noproof.

Theorem C09_range_total_empty : forall (H : list N -> list N),
  (forall x, length (H x) = 32%nat) ->
  forall (db : pdb) (P : list N -> Prop),
  (forall e b, P e -> db_get db (H e) = Some b -> b = e) ->
  forall t r, can t -> content_ok t -> hash_root H t = Some r -> (forall e, genuine H t e -> P e) ->
  forall first, forallb byteb first = true -> ulen t (length (keybytes_to_hex first)) ->
    no_panic (verify_range_proof H r first [] [] (Some db)).
Proof. exact empty_total. Qed.
Print Assumptions C09_range_total_empty.

Theorem C09_range_total_single : forall (H : list N -> list N),
  (forall x, length (H x) = 32%nat) ->
  forall (db : pdb) (P : list N -> Prop),
  (forall e b, P e -> db_get db (H e) = Some b -> b = e) ->
  forall t r, can t -> content_ok t -> hash_root H t = Some r -> (forall e, genuine H t e -> P e) ->
  forall first, forallb byteb first = true -> ulen t (length (keybytes_to_hex first)) ->
  forall v, no_panic (verify_range_proof H r first [first] [v] (Some db)).
Proof. exact single_total. Qed.
Print Assumptions C09_range_total_single.

(* ... and the two-edge branch (with it: every input shape): genuine proof nodes, non-empty keys
   of one length for trie, run and start key => no panic value whatever the run, the start key
   and the subset of proof nodes present: not the "invalid node" / "it shouldn't happen" panics
   of unsetInternal / unset (DESIGN.md section 10 item 10), no failed type assertion, no
   uncomparable interface comparison, not the hasher, not hasRightElement *)
Theorem C09_range_total : forall (H : list N -> list N),
  (forall x, length (H x) = 32%nat) ->
  forall (db : pdb) (P : list N -> Prop),
  (forall e b, P e -> db_get db (H e) = Some b -> b = e) ->
  forall t r, can t -> content_ok t -> hash_root H t = Some r -> (forall e, genuine H t e -> P e) ->
  forall first keys values Lb,
    keys_fixed t Lb -> (0 < Lb)%nat -> N.of_nat Lb < 2 ^ 30 ->
    length first = Lb -> forallb byteb first = true ->
    Forall (fun k => length k = Lb /\ forallb byteb k = true) keys -> Forall small values ->
    no_panic (verify_range_proof H r first keys values (Some db)).
Proof. exact general_total. Qed.
Print Assumptions C09_range_total.

(* range_complete_honest (two-edge branch), FULL: the honest response to a range request -
   keys/values are exactly the entries of the trie with firstKey <= key <= lastKey (at least one;
   lastKey the last of them, firstKey < lastKey), the root node and the hashed nodes on the paths
   of firstKey and lastKey are in the proof set - is accepted, and "more" is exactly "the trie
   holds a key beyond the last one".  ([sorted]: strictly increasing; the run lies in the interval
   and covers every key of the trie in it; the order on hex keys is bytes.Compare, C09_hex_order.) *)
Theorem C09_range_complete_honest : forall (H : list N -> list N),
  (forall x, length (H x) = 32%nat) ->
  forall (db : pdb) (P : list N -> Prop),
  (forall e b, P e -> db_get db (H e) = Some b -> b = e) ->
  forall t r, can t -> content_ok t -> hash_root H t = Some r -> (forall e, genuine H t e -> P e) ->
  forall first last keys values Lb,
    keys_fixed t Lb -> (0 < Lb)%nat -> N.of_nat Lb < 2 ^ 30 ->
    length first = Lb -> forallb byteb first = true ->
    Forall (fun k => length k = Lb /\ forallb byteb k = true) keys ->
    sorted keys ->
    Forall2 (fun k v => lk t (keybytes_to_hex k) = Some v) keys values ->
    Forall (fun k => between (keybytes_to_hex first) (keybytes_to_hex last) (keybytes_to_hex k)) keys ->
    (forall hk v, lk t hk = Some v -> between (keybytes_to_hex first) (keybytes_to_hex last) hk ->
                  In hk (map keybytes_to_hex keys)) ->
    last_opt keys = Some last ->
    (forall k0, hd_error keys = Some k0 -> slice_lt k0 first = false) ->
    slice_lt first last = true ->
    db_get db r <> None ->
    ~ missing_on H db t (keybytes_to_hex first) -> ~ missing_on H db t (keybytes_to_hex last) ->
    exists b, verify_range_proof H r first keys values (Some db) = Rok b /\
              (b = true <-> has_gt t (keybytes_to_hex last)).
Proof. exact range_complete_honest. Qed.
Print Assumptions C09_range_complete_honest.

(* a by-product, for ANY well-formed run whose last key is a key of the trie (honest or not) and
   whose edge paths are present: it gets past the batch checks, both proofToPath calls and
   unsetInternal, and can only end in acceptance, "invalid proof" or a MissingNodeError *)
Theorem C09_range_complete_honest_partial : forall (H : list N -> list N),
  (forall x, length (H x) = 32%nat) ->
  forall (db : pdb) (P : list N -> Prop),
  (forall e b, P e -> db_get db (H e) = Some b -> b = e) ->
  forall t r, can t -> content_ok t -> hash_root H t = Some r -> (forall e, genuine H t e -> P e) ->
  forall first last keys values Lb,
    keys_fixed t Lb -> (0 < Lb)%nat -> N.of_nat Lb < 2 ^ 30 ->
    length first = Lb -> forallb byteb first = true ->
    Forall (fun k => length k = Lb /\ forallb byteb k = true) keys -> Forall small values ->
    length keys = length values -> sorted keys -> Forall (fun v => v <> []) values ->
    last_opt keys = Some last ->
    (forall k0, hd_error keys = Some k0 -> slice_lt k0 first = false) ->
    slice_lt first last = true ->
    (exists v, lk t (keybytes_to_hex last) = Some v) ->
    db_get db r <> None ->
    ~ missing_on H db t (keybytes_to_hex first) -> ~ missing_on H db t (keybytes_to_hex last) ->
    honest_outcome (verify_range_proof H r first keys values (Some db)).
Proof. exact range_complete_honest_partial. Qed.
Print Assumptions C09_range_complete_honest_partial.

(* OUTSIDE the guard (1): an empty key in the no-proof branch makes the Go code panic
   (StackTrie.Update -> writeHexKey: dst[2*len(key)-1]); full statement refuted:
   "verification never panics on any keys". Reproduced on the real code. *)
Theorem C09_range_total_emptykey_refuted : forall H r first,
  verify_range_proof H r first [[]] [[1]] None = Rerr RPanic.
Proof. exact noproof_empty_key_panics. Qed.
Print Assumptions C09_range_total_emptykey_refuted.

(* OUTSIDE the guard (2): trie {01, 0102, 02} (01 is a proper prefix of 0102), start key 01,
   run [01, 02] with the genuine edge proofs: unset() reaches the valueNode in slot 16 and
   the Go code panics ("it shouldn't happen").  Reproduced on the real code. *)
Theorem C09_range_total_prefixkey_refuted :
  (exists ev, update_seq no_resolve NEmpty w2_ops = TOk (w2_t, ev)) /\
  verify_range_proof toy_hash (toy_root w2_t) [1] [[1]; [2]] [[170]; [204]]
    (Some (honest_proof w2_t [1] [2])) = Rerr RPanic.
Proof. exact prefix_key_unset_panics. Qed.
Print Assumptions C09_range_total_prefixkey_refuted.

(* OUTSIDE the guard (3): trie {11, 1110, 111000, 20}: the run [111000] from start key 110fff
   with the genuine edge proofs is ACCEPTED although 1110 lies inside [110fff, 111000]
   (slot 16 of a branch on an edge path is never cleared).  Reproduced on the real code. *)
Theorem C09_range_sound_prefixkey_refuted :
  (exists ev, update_seq no_resolve NEmpty w3_ops = TOk (w3_t, ev)) /\
  lk w3_t (keybytes_to_hex [17; 16]) = Some [187] /\
  slice_lt [17; 15; 255] [17; 16] = true /\ slice_lt [17; 16] [17; 16; 0] = true /\
  verify_range_proof toy_hash (toy_root w3_t) [17; 15; 255] [[17; 16; 0]] [[204]]
    (Some (honest_proof w3_t [17; 15; 255] [17; 16; 0])) = Rok true.
Proof. exact prefix_key_omission_accepted. Qed.
Print Assumptions C09_range_sound_prefixkey_refuted.

(* the hypotheses are met by a concrete trie of five one-byte keys (hashed and embedded
   leaves) and a hash that is collision free on its encodings; honest whole / partial /
   empty / single runs are accepted with the right "more", tampered ones rejected *)
Example C09_nonvacuous : ex9_checkp = true.
Proof. exact ex9_checkp_ok. Qed.
