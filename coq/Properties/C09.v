(* Properties/C09.v — Range proofs accept exactly the true ranges.
   Property theorems only; each is closed by [exact] of a lemma proved in
   Trie/RangeProofs.v, about the model Trie/Range.v of /repo/trie/proof.go
   (VerifyRangeProof, proofToPath, unsetInternal, unset, hasRightElement).

   H is any hash function with 32-byte outputs; NS is the finite set of node
   encodings in play and [H_inj_on H NS] says H has no collision on it.
   [canon t]: the in-memory trie Update builds (C06); [lk t hk]: the value under
   hex key hk; [content_ok t]: stored values non-empty, keys and values < 2^32 bytes.
   Guard of every positive statement: NON-EMPTY KEYS OF ONE FIXED LENGTH (as snap's
   32-byte hashes); the three *_refuted witnesses show what happens outside it. *)
From GV Require Import Lib.Tactics Lib.Bytes Trie.Hex Trie.Node Trie.Ops Trie.Hash Trie.OpsProofs Trie.Canon Trie.Stack Trie.Proof Trie.ProofProofs Trie.Range Trie.RangeProofs.
Local Open Scope N_scope.

(* no edge proofs: accepted <-> the run is strictly increasing, free of deletions and is
   the WHOLE content of the trie; "more" is never reported *)
Theorem C09_range_noproof_exact : forall (H : list N -> list N),
  (forall x, length (H x) = 32%nat) ->
  forall NS : list N -> Prop, H_inj_on H NS ->
  forall t r first keys values Lb,
    canon t -> content_ok t -> hash_root H t = Some r ->
    (0 < Lb)%nat -> N.of_nat Lb < 2 ^ 30 ->
    Forall (fun k => length k = Lb /\ forallb byteb k = true) keys -> Forall small values ->
    NS empty_root_preimage -> (forall e, genuine H t e -> NS e) ->
    (forall t' ev, update_seq no_resolve NEmpty (combine keys values) = TOk (t', ev) ->
                   forall e, genuine H t' e -> NS e) ->
    (verify_range_proof H r first keys values None = Rok false <->
     length keys = length values /\ sorted keys /\ Forall (fun v => v <> []) values /\
     forall hk, lk t hk = run_map keys values hk).
Proof. exact range_noproof_exact. Qed.
Print Assumptions C09_range_noproof_exact.

Theorem C09_never_more_noproof : forall H r first keys values,
  verify_range_proof H r first keys values None <> Rok true.
Proof. exact never_more_noproof. Qed.
Print Assumptions C09_never_more_noproof.

(* OUTSIDE the guard (1): an empty key in the no-proof branch makes the Go code panic
   (StackTrie.Update -> writeHexKey: dst[2*len(key)-1]); full statement refuted:
   "verification never panics on any keys". Reproduced on the real code. *)
Theorem C09_range_total_emptykey_refuted : forall H r first,
  verify_range_proof H r first [[]] [[1]] None = Rerr RPanic.
Proof. exact noproof_empty_key_panics. Qed.
Print Assumptions C09_range_total_emptykey_refuted.

(* OUTSIDE the guard (2): trie {01, 0102, 02} (01 is a proper prefix of 0102), start key 01,
   run [01, 02] with the genuine edge proofs: unset() reaches the valueNode in slot 16 and
   the Go code panics ("it shouldn't happen").  Reproduced on the real code. *)
Theorem C09_range_total_prefixkey_refuted :
  (exists ev, update_seq no_resolve NEmpty w2_ops = TOk (w2_t, ev)) /\
  verify_range_proof toy_hash (toy_root w2_t) [1] [[1]; [2]] [[170]; [204]]
    (Some (honest_proof w2_t [1] [2])) = Rerr RPanic.
Proof. exact prefix_key_unset_panics. Qed.
Print Assumptions C09_range_total_prefixkey_refuted.

(* OUTSIDE the guard (3): trie {11, 1110, 111000, 20}: the run [111000] from start key 110fff
   with the genuine edge proofs is ACCEPTED although 1110 lies inside [110fff, 111000]
   (slot 16 of a branch on an edge path is never cleared).  Reproduced on the real code. *)
Theorem C09_range_sound_prefixkey_refuted :
  (exists ev, update_seq no_resolve NEmpty w3_ops = TOk (w3_t, ev)) /\
  lk w3_t (keybytes_to_hex [17; 16]) = Some [187] /\
  slice_lt [17; 15; 255] [17; 16] = true /\ slice_lt [17; 16] [17; 16; 0] = true /\
  verify_range_proof toy_hash (toy_root w3_t) [17; 15; 255] [[17; 16; 0]] [[204]]
    (Some (honest_proof w3_t [17; 15; 255] [17; 16; 0])) = Rok true.
Proof. exact prefix_key_omission_accepted. Qed.
Print Assumptions C09_range_sound_prefixkey_refuted.

(* the hypotheses are met by a concrete trie of five one-byte keys (hashed and embedded
   leaves) and a hash that is collision free on its encodings; honest whole / partial /
   empty / single runs are accepted with the right "more", tampered ones rejected *)
Example C09_nonvacuous : ex9_checkp = true.
Proof. exact ex9_checkp_ok. Qed.
