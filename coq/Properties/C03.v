(* Properties/C03.v — Signing and sender recovery are inverse and strict.
   Property theorems only; each is closed by [exact] of a lemma proved in
   Crypto/SignerProofs.v about the model Crypto/Signer.v of
   /repo/core/types/transaction_signing.go, tx_*.go (sigHash, setSignatureValues),
   transaction.go (isProtectedV, WithSignature) and crypto.ValidateSignatureValues.

   The signature scheme (crypto.Sign / crypto.Ecrecover over secp256k1) and the
   hash H (Keccak-256) are universally quantified; [recover_sign], [sign_low_s],
   [sign_range] are explicit hypotheses.  That the CONCRETE curve satisfies
   recover_sign is NOT proved: the curve is library code (libsecp256k1 / decred),
   covered by the differential run in both the cgo and the CGO_ENABLED=0 build. *)
(* Crypto.SecpTest: vm_compute TESTS of the executable curve Crypto/Secp.v on go-ethereum
   vectors (kept in this closure so that every check compiles them); no theorem below uses it *)
From GV Require Import Lib.Tactics Lib.Bytes Crypto.Signer Crypto.SignerProofs Crypto.SecpTest.
Local Open Scope Z_scope.

(* Sender(SignTx(tx, signer, key)) = address of key: every tx type, every signer
   (Frontier, Homestead, EIP155 c, Berlin/London/Cancun/Prague c), every chain id
   c > 0 (unbounded; c < 2^256 for the uint256-typed blob / set-code txs), a typed
   tx naming chain 0 or c; signing changes neither type nor payload. *)
Theorem C03_sender_sign :
  forall (key pubkey : Type) (H : list N -> list N)
    (sign : key -> list N -> Z * Z * Z)
    (recover : list N -> Z -> Z -> Z -> option pubkey)
    (pub : key -> pubkey) (addr_of : pubkey -> list N),
  recover_sign key pubkey sign recover pub -> sign_low_s key sign -> sign_range key sign ->
  forall (sg : signer) (t : tx) (k : key),
  signer_wf sg -> sign_guard sg t ->
  exists t' : tx,
    sign_tx key H sign sg t k = ROk t' /\ same_signed_content t t' /\
    sender pubkey H recover addr_of sg t' = ROk (addr_of (pub k)).
Proof. exact sender_sign. Qed.
Print Assumptions C03_sender_sign.

(* ... and the signed tx is recovered by every COMPATIBLE signer: an unprotected
   (Frontier/Homestead) signature by every signer, a chain-id-c signature by every
   signer for chain id c that supports the type (London-signed under Prague, ...) *)
Theorem C03_sender_sign_compatible :
  forall (key pubkey : Type) (H : list N -> list N)
    (sign : key -> list N -> Z * Z * Z)
    (recover : list N -> Z -> Z -> Z -> option pubkey)
    (pub : key -> pubkey) (addr_of : pubkey -> list N),
  recover_sign key pubkey sign recover pub -> sign_low_s key sign -> sign_range key sign ->
  forall (sg sg' : signer) (t : tx) (k : key),
  signer_wf sg -> sign_guard sg t -> compatible sg sg' (t_type t) ->
  exists t' : tx,
    sign_tx key H sign sg t k = ROk t' /\
    sender pubkey H recover addr_of sg' t' = ROk (addr_of (pub k)).
Proof. exact sender_sign_compatible. Qed.
Print Assumptions C03_sender_sign_compatible.

(* the guard chain id > 0 is needed: NewEIP155Signer(0) signs over the 9-field hash
   but produces V = 27/28, which Sender recovers over the 6-field Frontier hash *)
Theorem C03_sender_sign_eip155_chain0_refuted :
  exists (t : tx) (k : N) (t' : tx),
    signer_supports (EIP155 0) (t_type t) = true /\
    toy_sign_tx (EIP155 0) t k = ROk t' /\
    toy_sender (EIP155 0) t' <> ROk (toy_addr (toy_pub k)).
Proof. exact sender_sign_eip155_chain0_refuted. Qed.
Print Assumptions C03_sender_sign_eip155_chain0_refuted.

(* the signature hash depends neither on V, R, S nor on the tx's chain-id field *)
Theorem C03_sig_hash_indep_vrs :
  forall (H : list N -> list N) (sg : signer) (t : tx) (c v r s : Z),
  signer_hash H sg (set_chain_vrs t c v r s) = signer_hash H sg t /\
  signer_hash H sg (set_vrs t v r s) = signer_hash H sg t.
Proof. exact sig_hash_indep_vrs. Qed.
Print Assumptions C03_sig_hash_indep_vrs.

(* Sender succeeds exactly when every guard holds, and then returns the address of
   the key recovered over the signer's hash *)
Theorem C03_sender_ok_iff :
  forall (pubkey : Type) (H : list N -> list N)
    (recover : list N -> Z -> Z -> Z -> option pubkey) (addr_of : pubkey -> list N)
    (sg : signer) (t : tx) (a : list N),
  sender pubkey H recover addr_of sg t = ROk a <->
  signer_supports sg (t_type t) = true /\ chain_mismatch sg t = false /\
  vb_ok (norm_v sg t) = true /\ rs_ok (t_r t) (t_s t) (homestead_flag sg) = true /\
  exists pk, recover (H (sender_preimage sg t)) (t_r t) (t_s t) (Z.abs (norm_v sg t) - 27) = Some pk
             /\ a = addr_of pk.
Proof. exact sender_ok_iff. Qed.
Print Assumptions C03_sender_ok_iff.

Theorem C03_sender_rejects_unsupported_type :
  forall (pubkey : Type) (H : list N -> list N)
    (recover : list N -> Z -> Z -> Z -> option pubkey) (addr_of : pubkey -> list N)
    (sg : signer) (t : tx),
  sender pubkey H recover addr_of sg t = RErr ErrTxTypeNotSupported <->
  signer_supports sg (t_type t) = false.
Proof. exact sender_unsupported_iff. Qed.
Print Assumptions C03_sender_rejects_unsupported_type.

Theorem C03_sender_rejects_chain_mismatch :
  forall (pubkey : Type) (H : list N -> list N)
    (recover : list N -> Z -> Z -> Z -> option pubkey) (addr_of : pubkey -> list N)
    (sg : signer) (t : tx),
  signer_supports sg (t_type t) = true ->
  (sender pubkey H recover addr_of sg t = RErr ErrInvalidChainId <-> chain_mismatch sg t = true).
Proof. exact sender_chain_mismatch_iff. Qed.
Print Assumptions C03_sender_rejects_chain_mismatch.

Theorem C03_sender_rejects_high_s :
  forall (pubkey : Type) (H : list N -> list N)
    (recover : list N -> Z -> Z -> Z -> option pubkey) (addr_of : pubkey -> list N)
    (sg : signer) (t : tx),
  sg <> Frontier -> signer_supports sg (t_type t) = true -> chain_mismatch sg t = false ->
  vb_ok (norm_v sg t) = true -> 1 <= t_r t < secp_n -> 1 <= t_s t < secp_n ->
  (sender pubkey H recover addr_of sg t = RErr ErrInvalidSig <-> secp_half_n < t_s t).
Proof. exact sender_rejects_high_s. Qed.
Print Assumptions C03_sender_rejects_high_s.

Theorem C03_frontier_accepts_high_s :
  forall (pubkey : Type) (H : list N -> list N)
    (recover : list N -> Z -> Z -> Z -> option pubkey) (addr_of : pubkey -> list N) (t : tx),
  is_legacy (t_type t) = true -> vb_ok (t_v t) = true ->
  1 <= t_r t < secp_n -> 1 <= t_s t < secp_n ->
  sender pubkey H recover addr_of Frontier t <> RErr ErrInvalidSig.
Proof. exact frontier_accepts_high_s. Qed.
Print Assumptions C03_frontier_accepts_high_s.

Theorem C03_sender_rejects_bad_range :
  forall (pubkey : Type) (H : list N -> list N)
    (recover : list N -> Z -> Z -> Z -> option pubkey) (addr_of : pubkey -> list N)
    (sg : signer) (t : tx),
  signer_supports sg (t_type t) = true -> chain_mismatch sg t = false ->
  vb_ok (norm_v sg t) = true -> (sg <> Frontier -> t_s t <= secp_half_n) ->
  (sender pubkey H recover addr_of sg t = RErr ErrInvalidSig <->
   ~ (1 <= t_r t < secp_n /\ 1 <= t_s t < secp_n)).
Proof. exact sender_rejects_bad_range. Qed.
Print Assumptions C03_sender_rejects_bad_range.

Theorem C03_sender_rejects_bad_v :
  forall (pubkey : Type) (H : list N -> list N)
    (recover : list N -> Z -> Z -> Z -> option pubkey) (addr_of : pubkey -> list N)
    (sg : signer) (t : tx),
  signer_supports sg (t_type t) = true -> chain_mismatch sg t = false ->
  rs_ok (t_r t) (t_s t) (homestead_flag sg) = true ->
  (sender pubkey H recover addr_of sg t = RErr ErrInvalidSig <-> vb_ok (norm_v sg t) = false).
Proof. exact sender_rejects_bad_v. Qed.
Print Assumptions C03_sender_rejects_bad_v.

(* ... and for V >= 0 (all that RLP / JSON can carry) the V values that pass are exactly
   {27,28} (unprotected legacy), {35+2c, 36+2c} (EIP-155) and {0,1} (typed) *)
Theorem C03_admissible_v :
  forall (sg : signer) (t : tx),
  0 <= t_v t -> (forall c, signer_chain_id sg = Some c -> 0 <= c) ->
  signer_supports sg (t_type t) = true -> chain_mismatch sg t = false ->
  (vb_ok (norm_v sg t) = true <-> expected_v sg t (t_v t)).
Proof. exact vb_ok_norm_v_iff. Qed.
Print Assumptions C03_admissible_v.

(* the guard V >= 0 is needed: recoverPlain / isProtectedV look at |V| *)
Theorem C03_recover_plain_neg_v :
  forall (pubkey : Type) (H : list N -> list N)
    (recover : list N -> Z -> Z -> Z -> option pubkey) (addr_of : pubkey -> list N)
    (h : list N) (R S Vb : Z) (hs : bool),
  recover_plain pubkey recover addr_of h R S (- Vb) hs =
  recover_plain pubkey recover addr_of h R S Vb hs.
Proof. exact recover_plain_neg_v. Qed.
Print Assumptions C03_recover_plain_neg_v.

Theorem C03_admissible_v_negative_refuted :
  exists (sg : signer) (t : tx),
    t_v t < 0 /\ signer_supports sg (t_type t) = true /\ chain_mismatch sg t = false /\
    rs_ok (t_r t) (t_s t) (homestead_flag sg) = true /\
    vb_ok (norm_v sg t) = true /\ ~ expected_v sg t (t_v t) /\
    exists a, toy_sender sg t = ROk a.
Proof. exact vb_ok_negative_v_refuted. Qed.
Print Assumptions C03_admissible_v_negative_refuted.

(* ValidateSignatureValues is exactly the range test *)
Theorem C03_validate_signature_values :
  forall (v r s : Z) (hs : bool),
  validate_signature_values v r s hs = rs_ok r s hs && ((v =? 0) || (v =? 1)).
Proof. exact validate_spec. Qed.
Print Assumptions C03_validate_signature_values.

(* chain id <-> V, for ALL chain ids (no bound: the uint64 fast path and the
   big.Int path of deriveChainId agree with the encoder) *)
Theorem C03_v_roundtrip :
  forall (c recid : Z), 0 <= c -> recid = 0 \/ recid = 1 ->
  derive_chain_id (v_of c recid) = c.
Proof. exact derive_chain_id_v_of. Qed.
Print Assumptions C03_v_roundtrip.

Theorem C03_v_roundtrip_inv :
  forall (v c : Z), 0 <= v -> 0 <= c -> v <> 27 -> v <> 28 ->
  derive_chain_id v = c -> 35 <= v -> v = 35 + 2 * c \/ v = 36 + 2 * c.
Proof. exact derive_chain_id_nonneg_inv. Qed.
Print Assumptions C03_v_roundtrip_inv.

(* WithSignature changes only chain id and V, R, S *)
Theorem C03_with_signature_preserves_fields :
  forall (sg : signer) (t t' : tx) (r s v : Z),
  with_signature sg t r s v = ROk t' ->
  same_signed_content t t' /\
  (is_legacy (t_type t) = true -> t_chain t' = t_chain t) /\
  (is_legacy (t_type t) = false -> exists c, signer_chain_id sg = Some c /\
     t_chain t' = if is_u256_type (t_type t) then u256_from_big c else c) /\
  exists r' s' v', signature_values sg t r s v = ROk (r', s', v') /\
    if is_u256_type (t_type t)
    then t_v t' = u256_from_big v' /\ t_r t' = u256_from_big r' /\ t_s t' = u256_from_big s'
    else t_v t' = v' /\ t_r t' = r' /\ t_s t' = s'.
Proof. exact with_signature_preserves_fields. Qed.
Print Assumptions C03_with_signature_preserves_fields.

Theorem C03_with_signature_preserves_hash :
  forall (sg sg' : signer) (t t' : tx) (r s v : Z),
  with_signature sg t r s v = ROk t' -> signer_preimage sg' t' = signer_preimage sg' t.
Proof. exact with_signature_preserves_hash. Qed.
Print Assumptions C03_with_signature_preserves_hash.

(* non-vacuity: a concrete scheme meets recover_sign / sign_low_s / sign_range, and
   signing + recovering under it returns the key's address for every signer kind and
   tx type, chain id 2^64+5 *)
Example C03_nonvacuous :
  (recover_sign N Z toy_sign toy_recover toy_pub /\ sign_low_s N toy_sign /\ sign_range N toy_sign) /\
  nonvac_results = repeat (ROk (toy_addr (toy_pub 5))) 8.
Proof. split; [exact toy_scheme_ok | vm_compute; reflexivity]. Qed.
