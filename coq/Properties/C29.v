(* Properties/C29.v — static and reverted frames have no lasting effects.
   Property theorems only; each is closed by [exact] of a lemma of EVM/FramesProofs.v,
   about the EVM core model EVM/{State,Step,Interp}.v (snapshot = copy of the world
   record).  They hold for every fork record, environment, world, code, input, value, gas
   and every recursion fuel [d] — no bound on sizes.  Vocabulary: EVM/Frames.v
   ([static_same]: balances, nonces, code, storage of every address, transient storage,
   logs, refund counter, self-destruct and creation marks equal; only the EIP-2929 warm
   sets may differ.  [bal_wf]: balances are uint256 values).

   [run d] interprets a frame with d nested levels available; [reachable (step (run d') c)
   (init_frame w gas) f]: f is a state the interpreter loop of that frame passes through
   (descendant frames run between two such states). *)
From GV Require Import Lib.Tactics Lib.Bytes EVM.Word256 EVM.Memory EVM.Gas EVM.State EVM.Instr.
From GV Require Import EVM.Step EVM.Interp EVM.Forks EVM.Frames EVM.FramesProofs.
Local Open Scope N_scope.

(* static_no_write: a frame run with the read-only flag — with all its descendants —
   leaves balances, nonces, code, storage, transient storage and logs unchanged: in its
   result and at every state it passes through. *)
Theorem C29_static_no_write : forall d c w gas,
  c_static c = true -> bal_wf w ->
  static_same w (r_w (run d c w gas)) /\
  forall f, reachable (step (run (pred d)) c) (init_frame w gas) f -> static_same w (f_w f).
Proof. exact static_no_write. Qed.
Print Assumptions C29_static_no_write.

(* ... and as seen by the caller of STATICCALL, whatever its own flag *)
Theorem C29_staticcall_no_write : forall d e this tc tv static depth w to input gas,
  bal_wf w ->
  static_same w (cr_w (evm_call (run d) e K_STATICCALL this tc tv static depth w to 0 input gas)).
Proof. exact staticcall_no_write. Qed.
Print Assumptions C29_staticcall_no_write.

(* revert_restores_all, message calls: evm.Call / CallCode / DelegateCall / StaticCall
   ending in REVERT, an exceptional halt, a failed precheck or a failed precompile hand
   back EXACTLY the world at entry (accounts, storage, transient storage, logs, refund
   counter, warm sets, marks); only cr_gas differs.  For every interpreter [rec]. *)
Theorem C29_revert_restores_all_call : forall rec e k this tc tv static depth w to value input gas s,
  cr_err (evm_call rec e k this tc tv static depth w to value input gas) = Some s ->
  cr_w (evm_call rec e k this tc tv static depth w to value input gas) = w.
Proof. exact call_revert_restores. Qed.
Print Assumptions C29_revert_restores_all_call.

(* revert_restores_all, creations: a failed precheck leaves the world untouched; any later
   failure leaves exactly the world at evm.create's snapshot — the creator's nonce bumped
   and the new address warm (both deliberately outside the snapshot), nothing else. *)
Theorem C29_revert_restores_all_create : forall rec e this static depth w init gas value addr s,
  xr_err (evm_create rec e this static depth w init gas value addr) = Some s ->
  xr_w (evm_create rec e this static depth w init gas value addr)
    = create_failed_world depth w this value addr.
Proof. exact create_revert_restores. Qed.
Print Assumptions C29_revert_restores_all_create.

(* revert_restores_all, seen from the calling frame: a CALL-family opcode that pushes 0
   leaves the frame's world as before the opcode, up to the warming of one address *)
Theorem C29_revert_restores_all_opcode : forall rec c f k f',
  exec_call rec c f k = inl f' -> hd_error (f_stack f') = Some 0 ->
  only_warmed (f_w f) (f_w f').
Proof. exact exec_call_failed_restores. Qed.
Print Assumptions C29_revert_restores_all_opcode.

(* revert_restores_all, outermost frame *)
Theorem C29_revert_restores_all_top_call : forall e w pcs to value input gas,
  t_status (top_call e w pcs to value input gas) <> S_Ok ->
  t_w (top_call e w pcs to value input gas) = prepare e w (Some to) pcs.
Proof. exact top_call_failed_restores. Qed.
Print Assumptions C29_revert_restores_all_top_call.

Theorem C29_revert_restores_all_top_create : forall e w pcs value init gas,
  t_status (top_create e w pcs value init gas) <> S_Ok ->
  let w0 := prepare e w None pcs in
  t_w (top_create e w pcs value init gas)
    = create_failed_world 0 w0 (e_origin e) value (t_addr (top_create e w pcs value init gas)).
Proof. exact top_create_failed_restores. Qed.
Print Assumptions C29_revert_restores_all_top_create.

(* static_propagates: children of a static frame are static.  A static frame cannot tell
   apart two interpreters for child frames that agree on static contexts (so every child
   it starts is static, and CREATE/CREATE2 start none), and the flag of the frame a
   CALL-family opcode starts is child_static k (flag of the caller) = true. *)
Theorem C29_static_propagates : forall rec1 rec2 c w gas,
  c_static c = true ->
  (forall c' w' g, c_static c' = true -> rec1 c' w' g = rec2 c' w' g) ->
  run_frame rec1 c w gas = run_frame rec2 c w gas /\
  (forall f, step rec1 c f = step rec2 c f) /\
  (forall k, child_static k (c_static c) = true).
Proof. exact static_propagates. Qed.
Print Assumptions C29_static_propagates.

(* the flag evm.Call & co. give the child really is child_static k static (observed by a
   probe interpreter that reports the flag it was started with) *)
Theorem C29_child_flag : forall e k this tc tv static depth w to value input gas s,
  cr_err (evm_call flag_probe e k this tc tv static depth w to value input gas) = Some s ->
  s = S_Revert -> child_static k static = true.
Proof. exact evm_call_child_flag. Qed.
Print Assumptions C29_child_flag.

(* Non-vacuity.  0x1000 stores 5 at slot 0, CALLs 0x1001 (which stores 7 at slot 1,
   TSTOREs, emits a LOG0 and REVERTs), then STATICCALLs 0x1001 again.  The call succeeds
   overall, 0x1001's slot 1, its transient slot and the log are gone, 0x1000's slot is
   there.  The same callee code run as a static frame halts and static_same holds with
   its hypotheses (flag set, balances well-formed) met. *)
Example C29_nonvacuous :
  let callee := [96; 7; 96; 1; 85; 96; 9; 96; 2; 93; 96; 0; 96; 0; 160; 96; 0; 96; 0; 253] in
  let caller := [96; 5; 96; 0; 85;
                 96; 0; 96; 0; 96; 0; 96; 0; 96; 0; 97; 16; 1; 90; 241; 80;
                 96; 0; 96; 0; 96; 0; 96; 0; 97; 16; 1; 90; 250; 80; 0] in
  let w := mk_world [(1, mk_account 1000 0 [] []); (4096, mk_account 10 1 caller []);
                     (4097, mk_account 20 1 callee [])] [] [] [] 0 [] [] [] in
  let e := mk_env cancun 1 0 2 0 0 0 1000000 1 0 0 [] (w_accounts w) in
  let r := top_call e w cancun_precompiles 4096 0 [] 1000000 in
  let c := new_ctx e 4097 4096 0 [] callee true 2 in
  (t_status r = S_Ok /\ get_storage (t_w r) 4096 0 = 5 /\ get_storage (t_w r) 4097 1 = 0 /\
   get_transient (t_w r) 4097 2 = 0 /\ w_logs (t_w r) = []) /\
  c_static c = true /\ bal_wfb w = true /\
  r_status (run 3 c w 100000) = S_Halt E_OutOfGas.
Proof. vm_compute. repeat split; reflexivity. Qed.
