(* Properties/C33.v — Parallel block execution agrees with sequential execution.

   Model: State/Parallel.v (abstract-transaction model of core/state_processor.go,
   core/state_processor_parallel.go, core/types/bal, core/state/reader_eip_7928.go,
   core/state/statedb_eip_7928.go, core/block_validator.go).
   Named hypotheses (not axioms): keqb/veqb/deqb decide equality; every phase of the
   block reads the state only through its view ([tx_ext]); a valid transaction never
   uses more execution/state gas than its gas limit ([gas_local]); the access-list
   hash is injective ([Hbal_inj]); the state root is a function of the observable
   state ([Hroot_ext]).  Determinism of a phase is built in: it is a Gallina function.

   Which differences of an attached access list are detected (C33_wrong_bal_rejected):
   ANY structural difference from the list sequential execution produces — a changed
   post-value, a shifted block-access index, a missing or an extra change entry, a
   missing or an extra read-only key, a reordered or duplicated key — because
   validation compares the hash of the list REBUILT from the observed effects with the
   header field the attached list must hash to, and the true list is the only
   fixpoint of "rebuild" (C33_rebuilt_fixpoint_unique). *)
From GV Require Import Lib.Tactics State.Parallel State.ParallelProofs.

(* the view handed to phase i (0 = pre-execution system calls, i+1 = transaction i,
   n+1 = post-execution) by the reader built on the TRUE access list is the state
   sequential execution has reached before that phase, on every key *)
Theorem C33_overlay_eq_seq_state :
  forall (K V Out : Type) (keqb kltb : K -> K -> bool) (veqb : V -> V -> bool),
  (forall a b : K, keqb a b = true <-> a = b) ->
  (forall a b : V, veqb a b = true <-> a = b) ->
  forall (A : Type) (acct_of : K -> A) (aeqb : A -> A -> bool),
  (forall a b : A, aeqb a b = true <-> a = b) ->
  forall (pre : view K V) (b : block K V Out) (d r : list (tx K V Out)) (k : K),
  phases K V Out b = d ++ r ->
  overlay K V keqb A acct_of aeqb pre (bal_of_seq K V Out keqb kltb veqb pre b) (N.of_nat (length d)) k
  = state_after K V Out keqb d pre k.
Proof. exact overlay_eq_seq_state. Qed.
Print Assumptions C33_overlay_eq_seq_state.

(* the index built by BlockAccessList.Lookup() serves EVERY change list of every
   account, whatever its kind (balance, nonce, code, storage slot): on a list with
   unique keys the lookup through the per-account index is searchLatest on the key's
   own change list.  (C33_overlay_eq_seq_state and everything below go through this
   index; an index that left out the accounts or the lists of one kind would not
   satisfy this statement.) *)
Theorem C33_lookup_serves_every_key :
  forall (K V : Type) (keqb : K -> K -> bool),
  (forall a b : K, keqb a b = true <-> a = b) ->
  forall (A : Type) (acct_of : K -> A) (aeqb : A -> A -> bool),
  (forall a b : A, aeqb a b = true <-> a = b) ->
  forall (b : bal K V) (k : K) (limit : N),
  NoDup (map fst (b_w K V b)) ->
  bal_lookup K V keqb A acct_of aeqb b k limit
  = match aget K keqb k (b_w K V b) with
    | Some es => search_latest V es limit None
    | None => None
    end.
Proof. exact (fun K V keqb => bal_lookup_nodup K V keqb keqb). Qed.
Print Assumptions C33_lookup_serves_every_key.

(* ApplyBlockAccessList(true list) installs the sequential post-state *)
Theorem C33_apply_bal_state :
  forall (K V Out : Type) (keqb kltb : K -> K -> bool) (veqb : V -> V -> bool),
  (forall a b : K, keqb a b = true <-> a = b) ->
  (forall a b : V, veqb a b = true <-> a = b) ->
  forall (pre : view K V) (b : block K V Out) (k : K),
  apply_bal K V keqb pre (bal_of_seq K V Out keqb kltb veqb pre b) k
  = state_after K V Out keqb (phases K V Out b) pre k.
Proof.
  exact (fun K V Out keqb kltb veqb Hk Hv =>
           apply_bal_state K V Out keqb kltb veqb Hk Hv unit (fun _ => tt)).
Qed.
Print Assumptions C33_apply_bal_state.

(* bal_of_seq is the list the sequential processor returns *)
Theorem C33_bal_of_seq_is_sequential :
  forall (K V Out : Type) (keqb kltb : K -> K -> bool) (veqb : V -> V -> bool)
         (pre : view K V) (b : block K V Out) (res : presult K V Out) (st : view K V),
  seq_process K V Out keqb veqb pre b = Some (res, st) ->
  to_encoding K V kltb (r_bal K V Out res) = bal_of_seq K V Out keqb kltb veqb pre b.
Proof. exact seq_process_bal. Qed.
Print Assumptions C33_bal_of_seq_is_sequential.

(* every interleaving h of Claim/Finish steps of any number of workers that runs to
   completion hands processParallel the same results *)
Theorem C33_schedule_independent :
  forall (K V Out : Type) (keqb : K -> K -> bool) (A : Type) (acct_of : K -> A)
         (aeqb : A -> A -> bool) (pre : view K V) (B : bal K V)
         (ts : list (tx K V Out)) (h : list (nat * wlabel)) (s : pstate K V Out),
  prun K V Out keqb A acct_of aeqb pre B ts (p_init K V Out) h = Some s ->
  p_done K V Out (length ts) s = true ->
  p_outcome K V Out ts s = wexec_all K V Out keqb A acct_of aeqb pre B ts 0.
Proof. exact schedule_independent. Qed.
Print Assumptions C33_schedule_independent.

(* with the true list attached, for EVERY completed schedule and worker count the
   parallel processor returns what the sequential processor returns: both fail, or both
   succeed with equal receipts (cumulative gas, log indices, outputs), gas used,
   rebuilt access list and request data, and ApplyBlockAccessList's state equals the
   sequential post-state on every key *)
Theorem C33_parallel_eq_sequential :
  forall (K V Out : Type) (keqb kltb : K -> K -> bool) (veqb : V -> V -> bool),
  (forall a b : K, keqb a b = true <-> a = b) ->
  (forall a b : V, veqb a b = true <-> a = b) ->
  forall (A : Type) (acct_of : K -> A) (aeqb : A -> A -> bool),
  (forall a b : A, aeqb a b = true <-> a = b) ->
  forall (pre : view K V) (b : block K V Out) (h : list (nat * wlabel)) (s : pstate K V Out),
  Forall (tx_ext K V Out) (phases K V Out b) ->
  Forall (gas_local K V Out) (b_txs K V Out b) ->
  prun K V Out keqb A acct_of aeqb pre (bal_of_seq K V Out keqb kltb veqb pre b) (b_txs K V Out b)
       (p_init K V Out) h = Some s ->
  p_done K V Out (length (b_txs K V Out b)) s = true ->
  same_outcome K V Out
    (seq_process K V Out keqb veqb pre b)
    (par_process K V Out keqb veqb A acct_of aeqb pre b (bal_of_seq K V Out keqb kltb veqb pre b)
       (p_outcome K V Out (b_txs K V Out b) s)).
Proof. exact parallel_eq_sequential. Qed.
Print Assumptions C33_parallel_eq_sequential.

(* the true list is the only list that rebuilds to itself *)
Theorem C33_rebuilt_fixpoint_unique :
  forall (K V Out : Type) (keqb kltb : K -> K -> bool) (veqb : V -> V -> bool),
  (forall a b : K, keqb a b = true <-> a = b) ->
  (forall a b : V, veqb a b = true <-> a = b) ->
  forall (A : Type) (acct_of : K -> A) (aeqb : A -> A -> bool),
  (forall a b : A, aeqb a b = true <-> a = b) ->
  forall (pre : view K V) (b : block K V Out) (B : bal K V),
  Forall (tx_ext K V Out) (phases K V Out b) ->
  rebuilt K V Out keqb kltb veqb A acct_of aeqb pre b B = B ->
  B = bal_of_seq K V Out keqb kltb veqb pre b.
Proof. exact rebuilt_fixpoint_unique. Qed.
Print Assumptions C33_rebuilt_fixpoint_unique.

(* a block whose attached access list differs in any way from the true one is rejected
   by validation (ValidateBody + processParallel + ValidateState), for every header,
   every completed schedule and every worker count *)
Theorem C33_wrong_bal_rejected :
  forall (K V Out D : Type) (keqb kltb : K -> K -> bool) (veqb : V -> V -> bool)
         (deqb : D -> D -> bool),
  (forall a b : K, keqb a b = true <-> a = b) ->
  (forall a b : V, veqb a b = true <-> a = b) ->
  forall (A : Type) (acct_of : K -> A) (aeqb : A -> A -> bool),
  (forall a b : A, aeqb a b = true <-> a = b) ->
  forall (Hbal : bal K V -> D) (Hrec : list (receipt Out) -> D) (Hreq : Out -> D)
         (Hroot : view K V -> D),
  (forall a b : D, deqb a b = true <-> a = b) ->
  (forall a b : bal K V, Hbal a = Hbal b -> a = b) ->
  forall (pre : view K V) (b : block K V Out) (hd : header D) (B : bal K V)
         (h : list (nat * wlabel)) (s : pstate K V Out),
  Forall (tx_ext K V Out) (phases K V Out b) ->
  Forall (gas_local K V Out) (b_txs K V Out b) ->
  prun K V Out keqb A acct_of aeqb pre B (b_txs K V Out b) (p_init K V Out) h = Some s ->
  p_done K V Out (length (b_txs K V Out b)) s = true ->
  B <> bal_of_seq K V Out keqb kltb veqb pre b ->
  verdict_par K V Out D keqb kltb veqb deqb A acct_of aeqb Hbal Hrec Hreq Hroot pre b hd B
    (p_outcome K V Out (b_txs K V Out b) s) <> 0%N.
Proof. exact wrong_bal_rejected_sched. Qed.
Print Assumptions C33_wrong_bal_rejected.

(* with the true list attached, parallel validation returns, class by class, the verdict
   of sequential validation (after ValidateBody) *)
Theorem C33_verdict_par_true :
  forall (K V Out D : Type) (keqb kltb : K -> K -> bool) (veqb : V -> V -> bool)
         (deqb : D -> D -> bool),
  (forall a b : K, keqb a b = true <-> a = b) ->
  (forall a b : V, veqb a b = true <-> a = b) ->
  forall (A : Type) (acct_of : K -> A) (aeqb : A -> A -> bool),
  (forall a b : A, aeqb a b = true <-> a = b) ->
  forall (Hbal : bal K V -> D) (Hrec : list (receipt Out) -> D) (Hreq : Out -> D)
         (Hroot : view K V -> D),
  (forall s s' : view K V, (forall k : K, s k = s' k) -> Hroot s = Hroot s') ->
  forall (pre : view K V) (b : block K V Out) (hd : header D)
         (h : list (nat * wlabel)) (s : pstate K V Out),
  Forall (tx_ext K V Out) (phases K V Out b) ->
  Forall (gas_local K V Out) (b_txs K V Out b) ->
  prun K V Out keqb A acct_of aeqb pre (bal_of_seq K V Out keqb kltb veqb pre b) (b_txs K V Out b)
       (p_init K V Out) h = Some s ->
  p_done K V Out (length (b_txs K V Out b)) s = true ->
  verdict_par K V Out D keqb kltb veqb deqb A acct_of aeqb Hbal Hrec Hreq Hroot pre b hd
    (bal_of_seq K V Out keqb kltb veqb pre b) (p_outcome K V Out (b_txs K V Out b) s)
  = if validate_body K V D keqb kltb deqb Hbal (n_of K V Out b + 1)%N hd
         (bal_of_seq K V Out keqb kltb veqb pre b)
    then verdict_seq K V Out D keqb kltb veqb deqb Hbal Hrec Hreq Hroot pre b hd
    else 1%N.
Proof. exact verdict_par_true_sched. Qed.
Print Assumptions C33_verdict_par_true.

(* the executable byte-string instance used by the correspondence run meets the
   equality / injectivity / extensionality hypotheses *)
Theorem C33_instance_hyps :
  (forall a b, bytes_eqb a b = true <-> a = b)
  /\ (forall a b, digest_eqb a b = true <-> a = b)
  /\ (forall a b, DBal a = DBal b -> a = b)
  /\ (forall keys (s s' : view bkey bkey), (forall k, s k = s' k) -> root_on keys s = root_on keys s').
Proof. exact (conj bytes_eqb_spec (conj digest_eqb_spec (conj DBal_inj root_on_ext))). Qed.
Print Assumptions C33_instance_hyps.

(* non-vacuity: a concrete block (two transactions conflicting on one key, a no-op
   write, system phases) whose phases satisfy tx_ext and gas_local; sequential
   execution succeeds; a 2-worker interleaving completes; the true list is accepted
   (verdict 0), a list with its read set dropped is rejected in ValidateBody (1) and,
   with the header hash adjusted to it, by the rebuilt-list comparison (6). *)
Theorem C33_example_hyps :
  Forall (tx_ext bkey bkey bkey) (phases _ _ _ ex_block)
  /\ Forall (gas_local bkey bkey bkey) (b_txs _ _ _ ex_block).
Proof. exact ex_block_hyps. Qed.
Print Assumptions C33_example_hyps.

Example C33_nonvacuous : c33_example_check = true.
Proof. vm_compute. reflexivity. Qed.
