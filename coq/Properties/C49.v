(* Properties/C49.v — JSON-RPC answers every call exactly once.
   Model: Rpc/Batch.v (transcribed from rpc/handler.go, rpc/json.go, rpc/subscription.go).
   [breach c (binit c calls) s] / [sreach c m (sinit c) s]: s is reachable by ANY
   interleaving of the atomic steps of the handler goroutine, the timeout-timer
   goroutine, service goroutines calling Notify, and an external canceller of the
   request context.  [RM r m]: r answers m (a call
   gets its own id back; an invalid entry gets an error).  [answerable l]: the
   entries of l that are not notifications. *)
From GV Require Import Lib.Tactics Rpc.Batch Rpc.BatchProofs.

(* the batch reply is never written twice *)
Theorem C49_batch_written_at_most_once :
  forall c calls s, breach c (binit c calls) s -> length (batches (b_out s)) <= 1.
Proof. exact batch_written_at_most_once. Qed.
Print Assumptions C49_batch_written_at_most_once.

(* for the code as it is (after the loop: respondWithError(timeout) if batchCtx.Err() != nil,
   else write), for EITHER order inside the timer callback, and with the request context
   cancelled by an external event (thread TX: a deadline of the caller's own context, a
   cancelled parent) at ANY point: in every interleaving, for every batch length, when the
   batch is over exactly one batch reply has been written (none iff nothing is answerable),
   it contains exactly one response per call / invalid entry, in batch order, none for
   notifications, and no single reply was written.  Covers timed-out, cancelled and
   oversized batches: the remaining calls, including the one executing when the timer
   fired, are in that one reply. *)
Theorem C49_batch_exactly_one_per_call :
  forall c calls s,
    c_write_on_cancel c = false ->
    breach c (binit c calls) s -> bfinal s = true ->
    exists cnt, batches (b_out s) = match cnt with [] => [] | _ => [cnt] end /\
                singles (b_out s) = [] /\
                Forall2 RM cnt (answerable calls).
Proof. exact batch_exactly_one_per_call. Qed.
Print Assumptions C49_batch_exactly_one_per_call.

(* repaired defects, kept as witnesses against the old code (unconditional write() after
   the loop): (1) commit 09729572d9 — timer callback cancel() before respondWithError: a
   2-call batch whose final reply answers only the first call; (2) commit 01fbbf3d61 — no
   timer at all, the context cancelled from outside between the two calls: same loss *)
Theorem C49_batch_exactly_one_per_call_cancel_first_refuted :
  exists c calls sch,
    c_cancel_first c = true /\ c_write_on_cancel c = true /\
    let s := brun c sch (binit c calls) in
    bfinal s = true /\ answerable calls = calls /\ length calls = 2 /\
    batches (b_out s) = [[mkResp (RCopy (IdVal true 1)) 0]].
Proof. exact batch_cancel_first_refuted. Qed.
Print Assumptions C49_batch_exactly_one_per_call_cancel_first_refuted.

Theorem C49_batch_exactly_one_per_call_external_cancel_refuted :
  exists c calls sch,
    c_cancel_first c = false /\ c_write_on_cancel c = true /\ c_timeout c = false /\
    let s := brun c sch (binit c calls) in
    bfinal s = true /\ answerable calls = calls /\ length calls = 2 /\
    batches (b_out s) = [[mkResp (RCopy (IdVal true 1)) 0]].
Proof. exact batch_external_cancel_refuted. Qed.
Print Assumptions C49_batch_exactly_one_per_call_external_cancel_refuted.

(* safety in either timer order: whatever is on the wire answers a prefix of the batch,
   one response per answerable entry in order — never a duplicate, never a reply to a
   notification *)
Theorem C49_batch_no_duplicate_no_spurious :
  forall c calls s,
    breach c (binit c calls) s ->
    exists cnt k, batches (b_out s) = match cnt with [] => [] | _ => [cnt] end /\
                  Forall2 RM cnt (answerable (firstn k calls)).
Proof. exact batch_no_duplicate_no_spurious. Qed.
Print Assumptions C49_batch_no_duplicate_no_spurious.

(* once written, nothing changes the batch reply: the late pushResponse of the call that
   was executing when respondWithError ran is discarded *)
Theorem C49_batch_late_push_discarded :
  forall c t s s',
    b_wrote s = true -> bstep c t s = Some s' ->
    b_wrote s' = true /\ exists ns, b_out s' = b_out s ++ ns /\ forallb is_notif ns = true.
Proof. exact batch_write_frozen. Qed.
Print Assumptions C49_batch_late_push_discarded.

(* what a timeout writes: the responses so far, then a timeout error for every remaining
   answerable entry; the executing call is the head of the remaining ones *)
Theorem C49_batch_timeout_answers_remaining :
  forall s, b_wrote s = false ->
    b_out (respond_with_error E_TIMEOUT s) =
    b_out s ++ wr (b_resp s ++ map (fun m => error_response m E_TIMEOUT) (answerable (b_calls s))).
Proof. exact batch_timeout_content. Qed.
Print Assumptions C49_batch_timeout_answers_remaining.

Theorem C49_batch_executing_call_is_pending :
  forall c calls s m,
    breach c (binit c calls) s -> b_ppc s = PExec m -> exists rest, b_calls s = m :: rest.
Proof. exact batch_executing_is_head. Qed.
Print Assumptions C49_batch_executing_call_is_pending.

(* whole-batch rejection (DESIGN section 10 item 3): an empty batch or one over the item
   limit gets a single error (carrying the first call's id) and nothing is executed;
   a batch within the limit is processed on its non-response entries *)
Theorem C49_batch_invalid_single_error :
  forall c msgs,
    (msgs = [] \/ (c_item_limit c <> 0%N /\ (c_item_limit c < N.of_nat (length msgs))%N)) ->
    handle_batch_front c msgs =
      match msgs with
      | [] => FEmpty (error_message E_INVALID_REQUEST)
      | _ => FTooLarge [mkResp (first_call_id msgs) E_INVALID_REQUEST]
      end.
Proof. exact batch_invalid_single_error. Qed.
Print Assumptions C49_batch_invalid_single_error.

Theorem C49_batch_within_limit_runs :
  forall c msgs,
    msgs <> [] -> (c_item_limit c = 0%N \/ (N.of_nat (length msgs) <= c_item_limit c)%N) ->
    handle_batch_front c msgs =
      match filter keep_as_call msgs with [] => FNothing | calls => FRun calls end.
Proof. exact batch_within_limit_runs. Qed.
Print Assumptions C49_batch_within_limit_runs.

(* responses found in an incoming batch are not answered *)
Theorem C49_responses_not_answered :
  forall m, keep_as_call m = true -> is_response m = false.
Proof. exact keep_as_call_not_response. Qed.
Print Assumptions C49_responses_not_answered.

(* the handler goroutine never blocks on its own bookkeeping (pushResponse never pops an
   empty list) *)
Theorem C49_batch_processor_progress :
  forall c calls s,
    breach c (binit c calls) s -> b_ppc s <> PDone -> pstep c s <> None.
Proof. exact batch_processor_progress. Qed.
Print Assumptions C49_batch_processor_progress.

(* a single call / invalid message is answered exactly once, whatever the timer does *)
Theorem C49_single_exactly_once :
  forall c m s,
    sreach c m (sinit c) s -> sfinal s = true -> is_notification m = false ->
    exists r ns, s_out s = WSingle r :: ns /\ forallb is_notif ns = true /\
                 singles (s_out s) = [r] /\ RM r m.
Proof. exact single_exactly_once. Qed.
Print Assumptions C49_single_exactly_once.

(* a single notification never gets a reply, in every interleaving, timeout or not — for
   the timer callback as it is in the code (it returns before writing when
   msg.isNotification()) *)
Theorem C49_single_notification_no_reply :
  forall c m s,
    c_notif_timeout_reply c = false ->
    sreach c m (sinit c) s -> is_notification m = true -> singles (s_out s) = [].
Proof. exact single_notification_no_reply. Qed.
Print Assumptions C49_single_notification_no_reply.

(* the callback before commit 947a0e3339 (no isNotification test) answered a timed-out
   notification with an error *)
Theorem C49_single_notification_timeout_refuted :
  exists c m sch,
    c_notif_timeout_reply c = true /\ is_notification m = true /\
    let s := srun c m sch (sinit c) in
    sfinal s = true /\ singles (s_out s) = [error_response m E_TIMEOUT].
Proof. exact single_notification_timeout_refuted. Qed.
Print Assumptions C49_single_notification_timeout_refuted.

(* subscription notifications are written only after the reply carrying the response of
   the subscribe call (batch: the batch reply is the first thing written and contains it;
   single: the reply is the first thing written) *)
Theorem C49_notifications_after_response_batch :
  forall c calls s pre m q post,
    breach c (binit c calls) s ->
    b_out s = pre ++ WNotif m q :: post -> is_call m = true ->
    exists cnt r pre', pre = WBatch cnt :: pre' /\ In r cnt /\ r_id r = RCopy (m_id m).
Proof. exact batch_notifications_after_response. Qed.
Print Assumptions C49_notifications_after_response_batch.

Theorem C49_notifications_after_response_single :
  forall c m s pre m' q post,
    sreach c m (sinit c) s ->
    s_out s = pre ++ WNotif m' q :: post -> is_notification m = false ->
    exists r pre', pre = WSingle r :: pre' /\ RM r m.
Proof. exact single_notifications_after_response. Qed.
Print Assumptions C49_notifications_after_response_single.

(* every schedule run by [brun]/[srun] is an interleaving covered by the theorems *)
Theorem C49_schedules_are_interleavings :
  forall c sch s, breach c s (brun c sch s).
Proof. exact brun_reach. Qed.
Print Assumptions C49_schedules_are_interleavings.

(* non-vacuity: a 4-entry batch (call, notification, invalid entry, subscribe call with 2
   buffered notifications) under a timeout that fires while the subscribe call executes,
   plus one later Notify: reachable, final, one reply with 3 responses (result, invalid
   request, timeout for the executing call whose real answer is discarded), and the three
   notifications after it *)
Example C49_nonvacuous :
  let c := mkCfg 0 0 43 true false false false in
  let sub := mkMsg true (IdVal true 5) MPlain true false false 0 20 (Some (2, 1)) in
  let calls := [ mkMsg true (IdVal true 1) MPlain false false false 0 1 None;
                 mkMsg true IdAbsent MPlain false false false 0 1 None;
                 mkMsg false (IdVal true 3) MEmpty false false false 0 0 None;
                 sub ] in
  let s := brun c (repeat TP 14 ++ [TT; TT] ++ repeat TP 9 ++ [TE 0]) (binit c calls) in
  bfinal s = true /\ c_write_on_cancel c = false /\
  b_out s = [ WBatch [ mkResp (RCopy (IdVal true 1)) 0;
                       mkResp (RCopy (IdVal true 3)) 1;
                       mkResp (RCopy (IdVal true 5)) 5 ];
              WNotif sub 0; WNotif sub 1; WNotif sub 2 ].
Proof. vm_compute. repeat split; reflexivity. Qed.
