(* Properties/C45.v — Discovery packets and node records are authenticated and
   canonical.  Property theorems only; each is closed by [exact] of a lemma
   proved in Net/EnrProofs.v (about Net/Enr.v, the model of p2p/enr/enr.go +
   p2p/enode/idscheme.go on the C01 stream model) or Net/V5wireProofs.v (about
   Net/V5wire.v, the model of p2p/discover/v5wire over abstract cryptography).

   RECORD PART (full).  Cryptography enters as the universally quantified
   functions H (Keccak-256) and verify (secp256k1 signature verification).
   SESSION PART (symbolic-partial).  All primitives are universally quantified
   functions; AEAD integrity is IDEALISED as the named hypotheses
   "open k n c a = Some p -> c = seal k n p a" and injectivity of seal (key
   separation).  What is missing from the full statement is spelled out at the
   theorems concerned. *)
From GV Require Import Lib.Tactics Lib.Bytes Rlp.Item Rlp.Codec Net.Enr Net.EnrProofs Net.V5wire Net.V5wireProofs.
Local Open Scope N_scope.

(* ======================= node records ======================= *)

(* A byte string is accepted (rlp.DecodeBytes into enr.Record, then enode.New
   with the v4 scheme) with result r  IFF  it is the canonical encoding of r's
   fields (list header, signature, seq as canonical uint64, key strings, raw
   values), r.raw is that string, it is at most 300 bytes, seq is a uint64 and
   every value is one framed RLP value, the keys are strictly increasing
   (sorted AND unique), and the signature verifies: "id" = "v4", "secp256k1" a
   33-byte string pk, verify pk (H (rlp [seq, k1, v1, ...])) sig.  Both
   directions, all byte strings. *)
Theorem C45_enr_accept_iff :
  forall (H : list N -> list N) (verify : list N -> list N -> list N -> bool) (b : list N) (r : record),
  bytesb b = true ->
  (accept H verify b = EOk r <->
   b = encode r /\ r_raw r = b /\ lenN b <= 300 /\ rec_ok r /\
   sortedb (keys r) = true /\ sig_valid H verify r).
Proof. exact accept_iff. Qed.
Print Assumptions C45_enr_accept_iff.

(* the decoding step alone (before signature verification) *)
Theorem C45_enr_decode_iff :
  forall (b : list N) (r : record), bytesb b = true ->
  (Enr.decode b = EOk r <->
   b = encode r /\ r_raw r = b /\ lenN b <= 300 /\ rec_ok r /\ sortedb (keys r) = true).
Proof. exact decode_iff. Qed.
Print Assumptions C45_enr_decode_iff.

(* accepted records re-encode to the same bytes: both the canonical encoding
   recomputed from the decoded fields (Record.encode) and what
   Record.EncodeRLP writes *)
Theorem C45_enr_reencode_identical :
  forall (H : list N -> list N) (verify : list N -> list N -> list N -> bool) (b : list N) (r : record),
  bytesb b = true -> accept H verify b = EOk r -> encode r = b /\ encode_rlp r = b.
Proof. exact reencode_identical. Qed.
Print Assumptions C45_enr_reencode_identical.

Theorem C45_enr_keys_unique :
  forall (H : list N -> list N) (verify : list N -> list N -> list N -> bool) (b : list N) (r : record),
  bytesb b = true -> accept H verify b = EOk r -> NoDup (keys r).
Proof. exact accepted_keys_unique. Qed.
Print Assumptions C45_enr_keys_unique.

(* the same key twice in a row is never accepted — at any position of the pair
   list and for any key, the empty key included (the Go loop's first-pair test
   is `i > 0`, not "previous key non-empty") *)
Theorem C45_enr_no_adjacent_duplicate :
  forall (b : list N) (r : record) (ps1 : list (list N * list N)) (k v1 v2 : list N)
         (ps2 : list (list N * list N)),
  bytesb b = true -> Enr.decode b = EOk r -> r_pairs r <> ps1 ++ (k, v1) :: (k, v2) :: ps2.
Proof. exact decode_no_adjacent_dup. Qed.
Print Assumptions C45_enr_no_adjacent_duplicate.

(* the model's fuel is never exhausted: every rejection is a Go error class *)
Theorem C45_enr_no_fuel_error :
  forall b : list N, bytesb b = true -> Enr.decode b <> EErr EFuel.
Proof. exact decode_no_fuel. Qed.
Print Assumptions C45_enr_no_fuel_error.

(* ======================= discovery v5: framing ======================= *)

(* masking is an involution per (key, iv, stream offset) *)
Theorem C45_v5_mask_involution :
  forall (ks : bytes -> bytes -> nat -> N) (k iv d : bytes) (o : nat),
  xor_from ks k iv o (xor_from ks k iv o d) = d.
Proof. exact xor_from_invol. Qed.
Print Assumptions C45_v5_mask_involution.

Theorem C45_v5_static_header_roundtrip :
  forall h : sheader, wf_sheader h -> dec_static (enc_static h) = Some h.
Proof. exact static_roundtrip. Qed.
Print Assumptions C45_v5_static_header_roundtrip.

(* any packet kind: what EncodeRaw writes for destination dest is parsed back
   by dest (length check, unmasking, checkValid incl. the authsize and minimum
   size checks, slicing) to exactly iv, header, authdata and message *)
Theorem C45_v5_header_roundtrip :
  forall (ks : bytes -> bytes -> nat -> N) (dest proto : bytes) (iv : list N) (h : sheader)
         (auth msg : list N),
  wf_sheader h -> length iv = 16%nat -> h_proto h = proto -> minVersion <= h_version h ->
  h_authsize h = lenN auth ->
  h_flag h = flagWhoareyou \/ minMessageSize <= lenN auth + lenN msg ->
  minPacketSize <= 39 + lenN auth + lenN msg ->
  parse_packet ks dest proto (encode_raw ks dest iv h auth msg) = inr (iv, enc_static h, h, auth, msg).
Proof. exact header_roundtrip. Qed.
Print Assumptions C45_v5_header_roundtrip.

(* ======================= discovery v5: round trips ======================= *)

(* WHOAREYOU: B's challenge for A is stored under (A, addr) with the unmasked
   header as challenge data, and A decodes exactly that challenge *)
Theorem C45_v5_roundtrip_whoareyou :
  forall (ks : bytes -> bytes -> nat -> N)
         (open : bytes -> bytes -> bytes -> bytes -> option bytes) (Hsha : bytes -> bytes)
         (sig_verify : bytes -> bytes -> bytes -> bool) (pub_valid : bytes -> bool)
         (ecdh : bytes -> bytes -> bytes) (kdf : bytes -> bytes -> bytes -> bytes * bytes)
         (rec_seq : bytes -> option N) (rec_node : bytes -> option node) (msg_ok : bytes -> bool)
         (cB cA : codec) (dest addrA addrB : bytes) (w : challenge) (iv : list N)
         (cB' : codec) (P : bytes) (w' : challenge),
  length iv = 16%nat -> length (w_nonce w) = 12%nat -> length (w_idnonce w) = 16%nat ->
  w_seq w < 2 ^ 64 -> length (c_proto cB) = 6%nat -> c_proto cA = c_proto cB -> c_id cA = dest ->
  encode_whoareyou ks cB dest addrA w iv = Some (cB', P, w') ->
  lookup (dest, addrA) (c_handshakes cB') = Some w' /\
  c_sessions cB' = c_sessions cB /\
  w_cdata w' = firstn (length P) (iv ++ skipn 16 (w_cdata w')) /\
  decode ks open Hsha sig_verify pub_valid ecdh kdf rec_seq rec_node msg_ok cA P addrB =
  (cA, DWhoareyou (mkChal (w_nonce w) (w_idnonce w) (w_seq w) None (w_cdata w'))).
Proof. exact whoareyou_roundtrip. Qed.
Print Assumptions C45_v5_roundtrip_whoareyou.

(* handshake: A answers the challenge w that B holds for it; B verifies the id
   signature, derives the same keys, decrypts the message, installs the session
   (B reads what A writes and vice versa) and drops the challenge.
   Hypotheses: AEAD round trip, 16-byte tag, ECDH commutativity, signature
   correctness, size bounds of signature / public key. *)
Theorem C45_v5_roundtrip_handshake :
  forall (ks : bytes -> bytes -> nat -> N) (seal : bytes -> bytes -> bytes -> bytes -> bytes)
         (open : bytes -> bytes -> bytes -> bytes -> option bytes) (Hsha pub_of : bytes -> bytes)
         (sign : bytes -> bytes -> bytes) (sig_verify : bytes -> bytes -> bytes -> bool)
         (pub_valid : bytes -> bool) (ecdh : bytes -> bytes -> bytes)
         (kdf : bytes -> bytes -> bytes -> bytes * bytes) (rec_seq : bytes -> option N)
         (rec_node : bytes -> option node) (msg_ok : bytes -> bool),
  (forall k n p a : bytes, open k n (seal k n p a) a = Some p) ->
  (forall k n p a : bytes, 16 <= lenN (seal k n p a)) ->
  (forall a b : bytes, ecdh a (pub_of b) = ecdh b (pub_of a)) ->
  (forall k h : bytes, sig_verify (pub_of k) h (sign k h) = true) ->
  (forall k : bytes, pub_valid (pub_of k) = true) ->
  (forall k h : bytes, lenN (sign k h) <= 255) ->
  (forall k : bytes, lenN (pub_of k) <= 255) ->
  forall (cA cB : codec) (addrA addrB : bytes) (w : challenge) (nodeA nodeB : node) (eph : bytes)
         (rnd8 iv pt : list N),
  lookup (c_id cA, addrA) (c_handshakes cB) = Some w ->
  n_pub nodeB = pub_of (c_priv cB) -> n_id nodeB = c_id cB ->
  decode_handshake_record rec_seq rec_node (w_node w) (c_id cA)
    (if w_seq w <? n_seq (c_node cA) then n_rec (c_node cA) else []) = inr nodeA ->
  n_pub nodeA = pub_of (c_priv cA) ->
  lenN (n_rec (c_node cA)) <= 300 ->
  c_proto cA = c_proto cB -> length (c_proto cA) = 6%nat -> length (c_id cA) = 32%nat ->
  length iv = 16%nat -> length rnd8 = 8%nat -> pt <> [] -> msg_ok pt = true ->
  exists (cA' : codec) (P : bytes) (cB' : codec) (sA sB : session),
    encode_handshake ks seal Hsha pub_of sign ecdh kdf cA (c_id cB) addrB
      (mkChal (w_nonce w) (w_idnonce w) (w_seq w) (Some nodeB) (w_cdata w)) eph rnd8 iv pt
      = Some (cA', P) /\
    decode ks open Hsha sig_verify pub_valid ecdh kdf rec_seq rec_node msg_ok cB P addrA =
      (cB', DMsg (c_id cA) (Some nodeA) pt) /\
    lookup (c_id cB, addrB) (c_sessions cA') = Some sA /\
    lookup (c_id cA, addrA) (c_sessions cB') = Some sB /\
    s_read sB = s_write sA /\ s_write sB = s_read sA /\
    lookup (c_id cA, addrA) (c_handshakes cB') = None.
Proof. exact handshake_roundtrip. Qed.
Print Assumptions C45_v5_roundtrip_handshake.

(* ordinary messages of every type (the plaintext is type byte ++ RLP body,
   opaque here) over an established session: the sender's nonce counter
   advances, the receiver decodes exactly the plaintext from the right source *)
Theorem C45_v5_roundtrip_message :
  forall (ks : bytes -> bytes -> nat -> N) (seal : bytes -> bytes -> bytes -> bytes -> bytes)
         (open : bytes -> bytes -> bytes -> bytes -> option bytes) (Hsha : bytes -> bytes)
         (sig_verify : bytes -> bytes -> bytes -> bool) (pub_valid : bytes -> bool)
         (ecdh : bytes -> bytes -> bytes) (kdf : bytes -> bytes -> bytes -> bytes * bytes)
         (rec_seq : bytes -> option N) (rec_node : bytes -> option node) (msg_ok : bytes -> bool),
  (forall k n p a : bytes, open k n (seal k n p a) a = Some p) ->
  (forall k n p a : bytes, 16 <= lenN (seal k n p a)) ->
  forall (cA cB : codec) (idB addrA addrB : bytes) (sA sB : session) (rnd8 : list N) (rnd12 : bytes)
         (iv pt : list N) (junk : bytes),
  lookup (idB, addrB) (c_sessions cA) = Some sA ->
  lookup (c_id cA, addrA) (c_sessions cB) = Some sB ->
  s_read sB = s_write sA -> c_id cB = idB -> c_proto cA = c_proto cB ->
  length (c_proto cA) = 6%nat -> length (c_id cA) = 32%nat -> length iv = 16%nat ->
  length rnd8 = 8%nat -> pt <> [] -> msg_ok pt = true ->
  exists (cA' : codec) (P : bytes),
    encode_message ks seal cA idB addrB rnd8 rnd12 iv pt junk = Some (cA', P) /\
    (exists sA' : session,
       lookup (idB, addrB) (c_sessions cA') = Some sA' /\
       s_write sA' = s_write sA /\ s_read sA' = s_read sA /\ s_ctr sA' = next_ctr (s_ctr sA)) /\
    decode ks open Hsha sig_verify pub_valid ecdh kdf rec_seq rec_node msg_ok cB P addrA =
      (cB, DMsg (c_id cA) None pt).
Proof. exact message_roundtrip. Qed.
Print Assumptions C45_v5_roundtrip_message.

(* ======================= discovery v5: authenticity =======================
   FULL STATEMENT WANTED: "no packet that was tampered with, replayed across
   sessions or addressed to another node is ever accepted, against an adversary
   who can compute".  PROVED (symbolic, hence _partial): under idealised AEAD
   integrity, whatever Decode accepts as an ordinary message is an honest seal
   under the read key of the local session with the claimed source over exactly
   the header bytes seen; consequently a sealed message is rejected under any
   other header bytes / nonce (every byte of masking IV, static header and
   authdata is authenticated), under any other session's key, and by any node
   whose session key differs.  MISSING: a computational adversary model (the
   hypotheses are injectivity idealisations, false of real AES-GCM as stated),
   handshake-packet authenticity (id-signature unforgeability), and for a
   misdelivered packet the case where the wrong node's unmasking moves the
   message boundary (covered only by C45_v5_authentic_partial). *)
Theorem C45_v5_authentic_partial :
  forall (ks : bytes -> bytes -> nat -> N) (seal : bytes -> bytes -> bytes -> bytes -> bytes)
         (open : bytes -> bytes -> bytes -> bytes -> option bytes) (Hsha : bytes -> bytes)
         (sig_verify : bytes -> bytes -> bytes -> bool) (pub_valid : bytes -> bool)
         (ecdh : bytes -> bytes -> bytes) (kdf : bytes -> bytes -> bytes -> bytes * bytes)
         (rec_seq : bytes -> option N) (rec_node : bytes -> option node) (msg_ok : bytes -> bool),
  (forall k n c a p : bytes, open k n c a = Some p -> c = seal k n p a) ->
  forall (c : codec) (input addr : bytes) (c' : codec) (src : bytes) (n : option node) (pt : bytes),
  decode ks open Hsha sig_verify pub_valid ecdh kdf rec_seq rec_node msg_ok c input addr =
    (c', DMsg src n pt) ->
  exists (iv static : bytes) (h : sheader) (auth msg : bytes),
    parse_packet ks (c_id c) (c_proto c) input = inr (iv, static, h, auth, msg) /\
    (h_flag h = flagMessage ->
     exists s : session,
       lookup (src, addr) (c_sessions c) = Some s /\
       msg = seal (s_read s) (h_nonce h) pt (iv ++ static ++ auth)) /\
    (h_flag h = flagMessage \/ h_flag h = flagHandshake).
Proof. exact decode_authentic. Qed.
Print Assumptions C45_v5_authentic_partial.

Theorem C45_v5_rejects_tampered_partial :
  forall (seal : bytes -> bytes -> bytes -> bytes -> bytes)
         (open : bytes -> bytes -> bytes -> bytes -> option bytes) (msg_ok : bytes -> bool),
  (forall k n c a p : bytes, open k n c a = Some p -> c = seal k n p a) ->
  (forall k n p a k' n' p' a' : bytes,
     seal k n p a = seal k' n' p' a' -> k = k' /\ n = n' /\ p = p' /\ a = a') ->
  forall (c : codec) (addr : bytes) (h : sheader) (auth hd k n0 pt0 hd0 src : bytes)
         (n : option node) (pt : bytes),
  hd <> hd0 \/ h_nonce h <> n0 ->
  decode_message open msg_ok c addr h auth hd (seal k n0 pt0 hd0) <> DMsg src n pt.
Proof. exact rejects_tampered_header. Qed.
Print Assumptions C45_v5_rejects_tampered_partial.

Theorem C45_v5_rejects_cross_session_partial :
  forall (seal : bytes -> bytes -> bytes -> bytes -> bytes)
         (open : bytes -> bytes -> bytes -> bytes -> option bytes) (msg_ok : bytes -> bool),
  (forall k n c a p : bytes, open k n c a = Some p -> c = seal k n p a) ->
  (forall k n p a k' n' p' a' : bytes,
     seal k n p a = seal k' n' p' a' -> k = k' /\ n = n' /\ p = p' /\ a = a') ->
  forall (c : codec) (addr : bytes) (h : sheader) (auth hd k0 n0 pt0 hd0 src : bytes)
         (n : option node) (pt : bytes),
  (forall s : session, lookup (auth, addr) (c_sessions c) = Some s -> s_read s <> k0) ->
  decode_message open msg_ok c addr h auth hd (seal k0 n0 pt0 hd0) <> DMsg src n pt.
Proof. exact rejects_cross_session. Qed.
Print Assumptions C45_v5_rejects_cross_session_partial.

Theorem C45_v5_rejects_wrong_destination_partial :
  forall (ks : bytes -> bytes -> nat -> N) (seal : bytes -> bytes -> bytes -> bytes -> bytes)
         (open : bytes -> bytes -> bytes -> bytes -> option bytes) (Hsha : bytes -> bytes)
         (sig_verify : bytes -> bytes -> bytes -> bool) (pub_valid : bytes -> bool)
         (ecdh : bytes -> bytes -> bytes) (kdf : bytes -> bytes -> bytes -> bytes * bytes)
         (rec_seq : bytes -> option N) (rec_node : bytes -> option node) (msg_ok : bytes -> bool),
  (forall k n c a p : bytes, open k n c a = Some p -> c = seal k n p a) ->
  (forall k n p a k' n' p' a' : bytes,
     seal k n p a = seal k' n' p' a' -> k = k' /\ n = n' /\ p = p' /\ a = a') ->
  forall (c : codec) (input addr : bytes) (c' : codec) (src : bytes) (n : option node)
         (pt k0 n0 pt0 hd0 iv static : bytes) (h : sheader) (auth : bytes),
  parse_packet ks (c_id c) (c_proto c) input = inr (iv, static, h, auth, seal k0 n0 pt0 hd0) ->
  h_flag h = flagMessage ->
  (forall s : session, lookup (auth, addr) (c_sessions c) = Some s -> s_read s <> k0) ->
  decode ks open Hsha sig_verify pub_valid ecdh kdf rec_seq rec_node msg_ok c input addr
    <> (c', DMsg src n pt).
Proof. exact rejects_wrong_destination. Qed.
Print Assumptions C45_v5_rejects_wrong_destination_partial.

(* non-vacuity: the EIP-778 example record is accepted (and its mutations are
   rejected); a complete WHOAREYOU / handshake / reply exchange between two
   codecs runs through in a toy instantiation, a tampered and two misdelivered
   copies of the reply are not accepted *)
Example C45_nonvacuous : example_ok = true /\ Toy.scenario_ok = true.
Proof. split; vm_compute; reflexivity. Qed.

(* the empty key: ["", ""] is a duplicate (first, middle, repeated), "" after a
   larger key is unsorted, a single "" is an ordinary smallest key *)
Example C45_empty_key_duplicate : empty_key_ok = true.
Proof. vm_compute. reflexivity. Qed.
