(* Properties/C05.v — Alternative cryptographic backends agree (PARTIAL).
   Property theorems only, each closed by [exact] of a lemma of Crypto/Blake2bProofs.v
   or Crypto/Bn254Proofs.v about the models Crypto/Blake2b.v (fGeneric/F/blake2F.Run)
   and Crypto/Bn254.v (G1/G2 decoding, affine G1 arithmetic, precompile slicing).
   The agreement of the assembly / gnark / cloudflare / google / gokzg / ckzg code with
   each other and with these models is established by the differential run only; the
   pairing and the KZG verification equations are not modelled at all. *)
From GV Require Import Lib.Tactics Crypto.Blake2b Crypto.Blake2bProofs Crypto.Bn254 Crypto.Bn254Proofs.

(* ---- BLAKE2b F ---- *)
Local Open Scope N_scope.

(* r1 + r2 rounds = r1 rounds, then r2 more continuing the SIGMA schedule at index
   i0 + r1: what makes a round count of 2^32 - 1 meaningful (no bound on r1, r2) *)
Theorem C05_blake2b_F_rounds_compose : forall m i0 r1 r2 v,
  rounds_from m i0 (r1 + r2) v = rounds_from m (i0 + r1) r2 (rounds_from m i0 r1 v).
Proof. exact rounds_compose. Qed.
Print Assumptions C05_blake2b_F_rounds_compose.

(* the schedule is used "round mod 10" *)
Theorem C05_blake2b_rounds_period : forall m i0 k n v,
  rounds_from m (i0 + 10 * k) n v = rounds_from m i0 n v.
Proof. exact rounds_period. Qed.
Print Assumptions C05_blake2b_rounds_period.

(* the same fact on fGeneric itself, under the guard of Go's int(rounds) conversion *)
Theorem C05_blake2b_F_compose : forall h m c0 c1 flag r1 r2 v,
  length m = 16%nat -> r1 + r2 < 9223372036854775808 ->
  init_vec h c0 c1 flag = Some v ->
  f_generic h m c0 c1 flag (r1 + r2) =
  finish h (rounds_from m r1 r2 (rounds_from m 0 r1 v)).
Proof. exact f_generic_compose. Qed.
Print Assumptions C05_blake2b_F_compose.

(* F is total on [8]uint64 x [16]uint64 for EVERY round count and returns 8 words;
   it fails only on ill-typed arguments *)
Theorem C05_blake2b_F_total : forall h m c0 c1 final rounds,
  (length h = 8%nat /\ length m = 16%nat ->
     exists h', F h m c0 c1 final rounds = Some h' /\ length h' = 8%nat) /\
  (~ (length h = 8%nat /\ length m = 16%nat) -> F h m c0 c1 final rounds = None).
Proof. exact F_total. Qed.
Print Assumptions C05_blake2b_F_total.

(* the result words are uint64 values: every wrap-around is accounted for *)
Theorem C05_blake2b_F_words : forall h m c0 c1 flag rounds h',
  words_ok h -> c0 < two64 -> c1 < two64 -> flag < two64 ->
  f_generic h m c0 c1 flag rounds = Some h' -> words_ok h'.
Proof. exact f_generic_words. Qed.
Print Assumptions C05_blake2b_F_words.

(* the final flag only inverts v[14] of the initial working vector *)
Theorem C05_blake2b_final_flag : forall h c0 c1 v,
  init_vec h c0 c1 0 = Some v ->
  init_vec h c0 c1 mask64 = Some (set_w14 v (N.lxor (w14 v) mask64)) /\
  w14 v < two64 /\ N.lxor (w14 v) mask64 = mask64 - w14 v.
Proof. exact final_flag_v14. Qed.
Print Assumptions C05_blake2b_final_flag.

Theorem C05_blake2b_F_final_flag : forall h m c0 c1 rounds v,
  init_vec h c0 c1 0 = Some v -> length m = 16%nat ->
  F h m c0 c1 false rounds = finish h (rounds_from m 0 (loop_count rounds) v) /\
  F h m c0 c1 true rounds =
    finish h (rounds_from m 0 (loop_count rounds) (set_w14 v (N.lxor (w14 v) mask64))).
Proof. exact F_final_flag. Qed.
Print Assumptions C05_blake2b_F_final_flag.

(* the precompile: exactly the 213-byte inputs with final byte 0/1 are accepted, with a
   64-byte result; everything else is rejected with the class of the first failing check *)
Theorem C05_blake2f_run_total : forall input,
  (length input <> 213%nat -> blake2f_run input = FErr ErrLength) /\
  (length input = 213%nat -> nth 212 input 0 <> 0 -> nth 212 input 0 <> 1 ->
     blake2f_run input = FErr ErrFinalFlag) /\
  (length input = 213%nat -> (nth 212 input 0 = 0 \/ nth 212 input 0 = 1) ->
     exists out, blake2f_run input = FOk out /\ length out = 64%nat /\
                 Forall (fun x => x < 256) out).
Proof. exact blake2f_run_total. Qed.
Print Assumptions C05_blake2f_run_total.

(* ---- BN254 ---- *)
Local Open Scope Z_scope.

(* every byte string is accepted xor rejected with exactly one class; accepted =>
   coordinates < p and on the curve; the internal class never occurs *)
Theorem C05_g1_decode_total : forall buf,
  match g1_decode buf with
  | Ok p => (64 <= length buf)%nat /\ g1_valid p = true /\
            (p = Inf <-> all_zero (firstn 64 buf) = true) /\
            (p <> Inf -> p = Aff (dec_x buf) (dec_y buf))
  | Err ESize => (length buf < 64)%nat
  | Err ECoord => (64 <= length buf)%nat /\ all_zero (firstn 64 buf) = false /\
                  (P <= dec_x buf \/ P <= dec_y buf)
  | Err ECurve => (64 <= length buf)%nat /\ all_zero (firstn 64 buf) = false /\
                  dec_x buf < P /\ dec_y buf < P /\
                  on_curve_xy (dec_x buf) (dec_y buf) = false
  | Err EInternal => False
  end.
Proof. exact g1_decode_total. Qed.
Print Assumptions C05_g1_decode_total.

Theorem C05_g1_encode_decode : forall p,
  g1_valid p = true -> g1_decode (g1_encode p) = Ok p.
Proof. exact g1_encode_decode. Qed.
Print Assumptions C05_g1_encode_decode.

(* the model's inverse is an inverse whenever it is returned *)
Theorem C05_finv_spec : forall a i,
  finv a = Some i -> (a * i) mod P = 1 mod P /\ in_field i = true.
Proof. intros a i H. destruct (finv_spec a i H) as [H1 H2]. split; [apply cong_iff; exact H1|exact H2]. Qed.
Print Assumptions C05_finv_spec.

(* FULL statement (not proved): (G1 valid points, g1_add) is an abelian group of order
   [Order], g1_add never returns None on valid points, and g1_mul k is k-fold addition.
   PROVED part: closure — whatever the affine chord/tangent formulas return on valid
   points is a valid point (reduced coordinates, y^2 = x^3 + 3).  Missing: totality of
   the inversion (needs primality of P), associativity/commutativity (the group law). *)
Theorem C05_g1_add_on_curve_partial : forall p q r,
  g1_valid p = true -> g1_valid q = true -> g1_add p q = Some r -> g1_valid r = true.
Proof. exact g1_add_valid. Qed.
Print Assumptions C05_g1_add_on_curve_partial.

Theorem C05_g1_mul_on_curve_partial : forall k p r,
  g1_valid p = true -> g1_mul k p = Some r -> g1_valid r = true.
Proof. exact g1_mul_valid. Qed.
Print Assumptions C05_g1_mul_on_curve_partial.

(* the Add / ScalarMul precompiles return the 64-byte encoding of a valid point, which
   decodes back to it (so results can be fed back as inputs) *)
Theorem C05_bn_add_run_ok : forall input out,
  bn_add_run input = Ok out ->
  exists r, out = g1_encode r /\ g1_valid r = true /\ g1_decode out = Ok r.
Proof. exact bn_add_run_ok. Qed.
Print Assumptions C05_bn_add_run_ok.

Theorem C05_bn_mul_run_ok : forall input out,
  bn_mul_run input = Ok out ->
  exists r, out = g1_encode r /\ g1_valid r = true /\ g1_decode out = Ok r.
Proof. exact bn_mul_run_ok. Qed.
Print Assumptions C05_bn_mul_run_ok.

(* G2: the modelled part of Unmarshal lets through only reduced coordinates on the
   twist; the subgroup check is abstract (parameter of [g2_accepts]) *)
Theorem C05_g2_checks_sound : forall buf x y,
  g2_decode_checks buf = G2OnTwist x y ->
  on_twist x y = true /\
  in_field (fst x) = true /\ in_field (snd x) = true /\
  in_field (fst y) = true /\ in_field (snd y) = true.
Proof. exact g2_checks_sound. Qed.
Print Assumptions C05_g2_checks_sound.

Example C05_nonvacuous : blake_nonvacuous && bn_nonvacuous = true.
Proof. vm_compute. reflexivity. Qed.
