(* Properties/C24.v — Freezer tables survive crashes without corruption.
   Property theorems only, about the model Storage/FreezerTable.v of ONE freezer table
   (/repo/core/rawdb/freezer_table.go, freezer_batch.go, freezer_meta.go), each closed by
   [exact] of a lemma of Storage/FreezerTableProofs.v or by evaluation of a witness.

   STATUS AFTER THE DEEPENING ROUND: reopen_contiguous is FULL for one table over all guarded histories
   with crashes inside (C24_reopen_contiguous, via the full table invariant DInv of
   Storage/FreezerTableData.v, preserved by every operation: Storage/FreezerTableOps.v); the freezer level
   is C24_freezer_crash_safe_repeated (histories with crashes + NewFreezer inside, any number of times) and
   C24_freezer_crash_safe (histories ending with the crash; cross-table condition derived from the history; C24_freezer_crash_safe_partial
   is the older version with that condition as a hypothesis).  readable_is_appended: FULL for one table (C24_readable_is_appended).  synced_survive: FULL for one table (C24_synced_survive).  The older,
   weaker statements below are kept.

   FULL STATEMENTS (DESIGN.md C24) and what is proved of them:
     reopen_contiguous   : forall history, forall crash cut, reopen = Ok /\ the table exposes one
                           contiguous range [tail, head).
         proved for EVERY history (of append batches, truncateHead, truncateTail, Sync and the two
         interior points of doSync, under the guard [guarded]: every stored item <= maxFileSize, file
         numbers < 2^16, item numbers < 2^32) and EVERY cut: C24_reopen_contiguous_index_partial —
         checkIndex+repairIndex leave exactly the index bytes below the flush offset, whichever
         metadata record survived.  The invariant behind it (Storage/FreezerTableInv.v, IdxInv) is
         proved preserved by every operation: C24_index_invariant_all_histories.
         missing for the full statement: the rest of repair() after repairIndex (head truncation
         loop, preopen, size check) as a quantified theorem, and crash+reopen as an operation
         INSIDE a history (histories here end with the crash).
         state-level version: C24_reopen_index_recovers_partial — for EVERY table state satisfying the executable
         invariant [inv_b], every index cut between durable and current length, every zero-filled
         extension, either metadata record and any data files, checkIndex+repairIndex leave exactly
         the index bytes below the flush offset (so head = itemOffset + flushOffset/6 - 1).
         missing: (a) forall history, inv_b (final state) — evaluated on every generated history by
         Run/C24.v instead of proved; (b) the rest of repair() after repairIndex (head truncation
         loop, preopen, size check) — covered by the correspondence run and by the evaluated
         witnesses below, not by a quantified theorem.
         The unguarded statement is FALSE of the code before commit 9df0e54227:
         C24_reopen_ok_unclamped_refuted; the same history reopens with the clamp:
         C24_reopen_ok_clamped_witness.
     readable_is_appended, synced_survive : not proved as quantified theorems (they need (a) and (b)).
         synced_survive is FALSE of the current code when an empty item follows an item larger than
         maxFileSize: C24_synced_survive_refuted (open known finding).
     cross-table ("one contiguous range shared by all tables"): Freezer.repair is modelled in
         Storage/Freezer.v on top of the table model.  C24_freezer_repair_aligned (FULL for the repair
         step): for ANY list of per-table states with tail <= head, if repair succeeds every table is at
         exactly [Tail, Ancients), Tail <= Ancients, and Ancients is the minimum head of the non-empty
         tables (within every non-empty table's recovered content).  C24_freezer_repair_keeps_synced: if
         every table recovered at least [h, s), the shared range still contains [h, s).  Not proved: that
         repair SUCCEEDS (needs the data-file facts of each table) and the composition with the per-table
         crash theorems into one statement over freezer histories; both are covered by the freezer-level
         correspondence (kind 9) and its Go oracle.
     zero_tail_detected  : C24_zero_tail_detected, FULL, with the undetectable case as its exact exception. *)
From GV Require Import Lib.Tactics Storage.FreezerTable Storage.FreezerTableProofs Storage.FreezerTableInv Storage.Freezer Storage.FreezerProofs Storage.FreezerSuccess Storage.FreezerTableData Storage.FreezerCompose Storage.FreezerTableOps Storage.FreezerHist Storage.FreezerCross Storage.FreezerReopen Storage.FreezerContent.
Local Open Scope N_scope.

(* checkIndex truncates a zero-filled tail exactly at the first zero entry, unless the last genuine
   entry is (file 0, offset 0) (or the table is empty with tail file 0): then, and only then, the
   zero entries pass as empty items — for every valid index and every number of zero entries *)
Theorem C24_zero_tail_detected : forall es k,
  es <> [] -> check_index es = None -> (0 < k)%nat ->
  check_index (es ++ repeat zero_entry k) =
  if zero_like es then None else Some (6 * N.of_nat (length es)).
Proof. exact zero_tail_detected. Qed.
Print Assumptions C24_zero_tail_detected.

(* a valid prefix of the index is never cut by checkIndex, whatever follows it *)
Theorem C24_check_index_keeps_valid_prefix : forall a b r,
  a <> [] -> check_index a = None -> check_index (a ++ b) = Some r ->
  exists k, (length a <= k < length (a ++ b))%nat /\ r = 6 * N.of_nat k.
Proof. exact check_index_prefix. Qed.
Print Assumptions C24_check_index_keeps_valid_prefix.

(* the index part of crash recovery, for all invariant states and all cuts *)
Theorem C24_reopen_index_recovers_partial : forall t c p data (cm : bool),
  inv_b t = true -> valid_cut (t_index t) c p ->
  let m := if cm then t_mcur t else t_msyn t in
  let u := open_repair_index (crash_file (t_index t) c p) data (Some m) in
  fbytes (t_index u) = firstn (N.to_nat (mflush (t_mcur t))) (fbytes (t_index t))
  /\ t_mcur u = mkMeta 2 (mvtail m) (mflush (t_mcur t))
  /\ t_msyn u = mkMeta 2 (mvtail m) (mflush (t_mcur t))
  /\ t_data u = data.
Proof. exact crash_index_recovers. Qed.
Print Assumptions C24_reopen_index_recovers_partial.

(* the index invariant holds after every guarded history *)
Theorem C24_index_invariant_all_histories : forall maxsz encode clamp t0 h,
  maxsz < two32 -> init clamp = Ok t0 -> guarded maxsz encode t0 h ->
  IdxInv maxsz (fst (run maxsz encode t0 h)).
Proof. intros. apply inv_run; [assumption | eapply inv_init; eauto | assumption]. Qed.
Print Assumptions C24_index_invariant_all_histories.

(* index recovery for every guarded history, every index cut, every zero fill, either metadata record *)
Theorem C24_reopen_contiguous_index_partial : forall maxsz encode clamp t0 h c p data (cm : bool),
  maxsz < two32 -> init clamp = Ok t0 -> guarded maxsz encode t0 h ->
  let t := fst (run maxsz encode t0 h) in
  valid_cut (t_index t) c p ->
  let m := if cm then t_mcur t else t_msyn t in
  let u := open_repair_index (crash_file (t_index t) c p) data (Some m) in
  fbytes (t_index u) = firstn (N.to_nat (mflush (t_mcur t))) (fbytes (t_index t))
  /\ t_mcur u = mkMeta 2 (mvtail m) (mflush (t_mcur t))
  /\ t_msyn u = mkMeta 2 (mvtail m) (mflush (t_mcur t))
  /\ t_data u = data.
Proof. exact reopen_index_recovers. Qed.
Print Assumptions C24_reopen_contiguous_index_partial.

(* two more proved pieces of repair() after repairIndex (not yet assembled into reopen_contiguous):
   data below a file's durable watermark survives every cut and every zero fill ... *)
Theorem C24_durable_data_survives_cut : forall f c p o,
  valid_cut f c p -> (fdur f <= flen f)%nat -> o <= N.of_nat (fdur f) ->
  o <= fsize (crash_file f c p) /\
  firstn (N.to_nat o) (fbytes (crash_file f c p)) = firstn (N.to_nat o) (fbytes f).
Proof. exact crash_file_covers. Qed.
Print Assumptions C24_durable_data_survives_cut.

(* ... and when the head file is at least as long as the last index entry says, the head/index
   truncation loop never touches the index or the metadata: it only cuts the dangling head *)
Theorem C24_repair_loop_head_only_partial : forall fuel t last offsets csize f,
  (1 <= fuel)%nat -> dget (efile last) (t_data t) = Some f -> eoff last <= csize ->
  exists t',
    repair_loop fuel t last offsets csize = Ok (t', last, offsets, eoff last) /\
    t_index t' = t_index t /\ t_mcur t' = t_mcur t /\ t_msyn t' = t_msyn t /\ t_open t' = t_open t /\
    t_offset t' = t_offset t /\ t_hidden t' = t_hidden t /\ t_tail t' = t_tail t /\
    (csize = eoff last -> t' = t) /\
    (eoff last < csize -> t_data t' = dset (efile last) (f_trunc f (eoff last)) (t_data t)).
Proof. exact repair_loop_head_only. Qed.
Print Assumptions C24_repair_loop_head_only_partial.

(* Freezer.repair: all tables end at one range, inside every non-empty table's recovered content *)
Theorem C24_freezer_repair_aligned : forall ts f,
  Forall (fun t => t_hidden t <= t_items t) ts -> fz_repair ts = Ok f ->
  length (fz_tables f) = length ts /\
  Forall (fun t' => t_items t' = fz_head f /\ t_hidden t' = fz_tail f) (fz_tables f) /\
  fz_tail f <= fz_head f /\
  fz_head f = min_head ts /\
  (forall t, In t ts -> t_items t <> 0 -> fz_head f <= t_items t).
Proof. exact fz_repair_aligned. Qed.
Print Assumptions C24_freezer_repair_aligned.

(* nothing that every table recovered is lost by the cross-table alignment *)
Theorem C24_freezer_repair_keeps_synced : forall ts f s h,
  ts <> [] -> (forall t, In t ts -> s <= t_items t /\ t_hidden t <= h) -> h < s ->
  fz_repair ts = Ok f -> s <= fz_head f /\ fz_tail f <= h.
Proof. exact fz_repair_keeps_synced. Qed.
Print Assumptions C24_freezer_repair_keeps_synced.

(* THE TABLE-LEVEL CRASH THEOREM (the whole of newTable/repair(), clamp included).  For every table state
   satisfying the full invariant DInv (index invariant + data files + handles), every cut of the index
   and of every data file between durable and current length, every zero fill, either metadata record:
   reopen succeeds; the reopened table satisfies DInv again (so it can crash again); its entries are
   exactly the entries below the flush offset; tail marker and item offset are unchanged; the virtual
   tail is clamped into the range; and the data of every surviving entry is byte-for-byte what it was. *)
Theorem C24_reopen_contiguous_state : forall maxsz t ci cd (cm : bool),
  DInv maxsz t -> cut_ok t ci cd ->
  let vt := mvtail (if cm then t_mcur t else t_msyn t) in
  exists t',
    crash_reopen true t ci cd cm = Ok t' /\ DInv maxsz t' /\
    t_offset t' = t_offset t /\ t_tail t' = t_tail t /\
    t_items t' = t_offset t + N.of_nat (length (synced_of t)) /\
    t_hidden t' = N.min (N.max vt (t_offset t)) (t_items t') /\
    rest_of t' = synced_of t /\ t_head t' = efile (lastF t) /\
    (forall e, In e (synced_of t) ->
       exists f f', dget (efile e) (t_data t) = Some f /\ dget (efile e) (t_data t') = Some f' /\
                    eoff e <= fsize f' /\
                    firstn (N.to_nat (eoff e)) (fbytes f') = firstn (N.to_nat (eoff e)) (fbytes f)) /\
    t_msyn t' = t_mcur t' /\ mvtail (t_mcur t') = t_hidden t' /\ mflush (t_mcur t') = mflush (t_mcur t) /\
    t_headbytes t' = eoff (lastF t).
Proof. exact open_crash_ok. Qed.
Print Assumptions C24_reopen_contiguous_state.

(* Freezer.repair does not fail on tables that satisfy the index invariant, hold their handles and head
   file, and whose tails do not lie above the common head (unless the table is empty at its tail) *)
Theorem C24_freezer_repair_succeeds : forall maxsz ts,
  Forall (TW maxsz) ts ->
  (forall t, In t ts -> t_items t <> 0 -> t_hidden t <= min_head ts \/ t_items t = t_hidden t) ->
  exists f, fz_repair ts = Ok f.
Proof. exact fz_repair_ok. Qed.
Print Assumptions C24_freezer_repair_succeeds.

(* the full table invariant is preserved by every operation (under the history guard) and by every
   crash + reopen: it holds after every history, crashes inside included *)
Theorem C24_table_invariant_all_histories : forall maxsz encode t0 hs,
  maxsz < two32 -> init true = Ok t0 -> hguarded maxsz encode t0 hs ->
  DInv maxsz (hrun maxsz encode t0 hs).
Proof. intros. apply dinv_hrun; [assumption|eapply dinv_init; eauto|assumption]. Qed.
Print Assumptions C24_table_invariant_all_histories.

(* REOPEN_CONTIGUOUS, FULL for one table: for EVERY guarded history of append batches, truncateHead,
   truncateTail, Sync, the interior points of doSync AND crashes + reopens inside the history, and EVERY
   final crash state (every cut of every file between durable and current length, every zero fill, either
   metadata record): newTable succeeds; the table exposes the one range [tail, head) with tail <= head;
   head = itemOffset + the entries below the flush offset, never above the head before the crash; the
   surviving entries are exactly those entries, and the data of each of them is byte-for-byte the data
   the live table held (so every readable item reads what the live table read at that number) *)
Theorem C24_reopen_contiguous : forall maxsz encode t0 hs ci cd (cm : bool),
  maxsz < two32 -> init true = Ok t0 -> hguarded maxsz encode t0 hs ->
  let t := hrun maxsz encode t0 hs in
  cut_ok t ci cd ->
  exists t', crash_reopen true t ci cd cm = Ok t' /\ DInv maxsz t' /\
    t_hidden t' <= t_items t' /\ t_offset t' = t_offset t /\
    t_items t' = t_offset t + N.of_nat (length (synced_of t)) /\ t_items t' <= t_items t /\
    rest_of t' = synced_of t /\
    (forall e, In e (synced_of t) ->
       exists f f', dget (efile e) (t_data t) = Some f /\ dget (efile e) (t_data t') = Some f' /\
                    eoff e <= fsize f' /\
                    firstn (N.to_nat (eoff e)) (fbytes f') = firstn (N.to_nat (eoff e)) (fbytes f)).
Proof. exact table_crash_safe. Qed.
Print Assumptions C24_reopen_contiguous.

(* READABLE_IS_APPENDED, FULL for one table (compression = an abstract codec with decode (encode x) = Some x;
   the raw table is the identity instance).  The ghost list [bl] computed by [grunF] is the sequence of
   appended items that still have an index entry, in item order: an append adds its items at the end (they
   get the item numbers items, items+1, ...), truncateHead and a crash + reopen keep the first |entries| of
   them, truncateTail keeps the last |entries| (whole data files are dropped from the front and the tail
   marker advances by as many items; a reset leaves none).  After EVERY guarded history (append batches
   with roll-over, truncateHead, truncateTail, Sync and its interior points, crashes + reopens inside)
   every item that is not hidden reads back exactly the appended item, and after one more crash (every
   cut, every zero fill, either metadata record) every item the reopened table exposes does. *)
Theorem C24_readable_is_appended : forall encode decode,
  (forall x, decode (encode x) = Some x) ->
  forall maxsz t0 hs,
  maxsz < two32 -> init true = Ok t0 -> hguarded maxsz encode t0 hs ->
  let '(t, bl) := grunF encode maxsz t0 [] hs in
  (forall k b, nth_error bl k = Some b -> t_hidden t <= t_offset t + N.of_nat k ->
               retrieve decode t (t_offset t + N.of_nat k) = Ok b) /\
  (forall ci cd (cm : bool), cut_ok t ci cd ->
     exists t', crash_reopen true t ci cd cm = Ok t' /\ t_offset t' = t_offset t /\
       forall i, t_hidden t' <= i -> i < t_items t' ->
         exists b, nth_error bl (N.to_nat (i - t_offset t)) = Some b /\ retrieve decode t' i = Ok b).
Proof. exact table_readable_full. Qed.
Print Assumptions C24_readable_is_appended.

(* SYNCED_SURVIVE, FULL for one table.  The ghost [S] computed by [srun] along the history is the item count
   at the last completed Sync, lowered to the item count after every later step (so: the items covered by
   a completed Sync and not truncated since).  After every guarded history, crashes + reopens inside
   included, whose tail truncations are covered by the flush offset or go beyond the head (what
   Freezer.TruncateTail's flush-first order ensures: [xguarded]), and for every final crash state:
   the table reopens, its head is at least S and its tail is at most the tail at the crash — every item in
   [tail at crash, S) is in the range of the reopened table. *)
Theorem C24_synced_survive : forall maxsz encode t0 hs ci cd (cm : bool),
  maxsz < two32 -> init true = Ok t0 -> hguarded maxsz encode t0 hs -> xguarded maxsz encode t0 hs ->
  let '(t, sy) := srun maxsz encode t0 0 hs in
  cut_ok t ci cd ->
  exists t', crash_reopen true t ci cd cm = Ok t' /\ sy <= t_items t' /\ t_hidden t' <= t_hidden t.
Proof. exact table_synced_survive. Qed.
Print Assumptions C24_synced_survive.

(* SYNCED_SURVIVE, the immediate form: a crash right after a completed Sync loses no item (whatever the
   cut).  The general form ("and not truncated since") is not stated over histories. *)
Theorem C24_synced_survive_partial : forall maxsz encode t t1 ci cd (cm : bool) t',
  DInv maxsz t -> step maxsz encode t OSync = Ok t1 -> cut_ok t1 ci cd ->
  crash_reopen true t1 ci cd cm = Ok t' -> t_items t' = t_items t1.
Proof. exact sync_then_crash_keeps_all. Qed.
Print Assumptions C24_synced_survive_partial.

(* NEWFREEZER AFTER A CRASH, composed: tables satisfying DInv, ANY crash state of each of them, and the
   cross-table condition that TruncateTail's sync-first order maintains (no table recovers a tail above
   the head another table recovers, unless it recovers the empty range at its tail): NewFreezer succeeds,
   every table ends at exactly [Tail, Ancients), Ancients = the least head recovered by a non-empty
   table, and a range [h, s) recovered by every table is kept *)
Theorem C24_freezer_reopen_state : forall maxsz (cs : list crashed),
  (forall c, In c cs -> DInv maxsz (cr_t c) /\ cut_ok (cr_t c) (cr_ci c) (cr_cd c) /\ t_head (cr_t c) + 2 < 65536) ->
  (forall c, In c cs -> dur_head (cr_t c) <> 0 ->
     (forall c', In c' cs -> dur_head (cr_t c') <> 0 -> rec_tail c <= dur_head (cr_t c')) \/ dur_head (cr_t c) = rec_tail c) ->
  exists f, fz_open true (map cr_disk cs) = Ok f /\
    length (fz_tables f) = length cs /\
    Forall (fun t' => t_items t' = fz_head f /\ t_hidden t' = fz_tail f) (fz_tables f) /\
    fz_tail f <= fz_head f /\
    (forall c, In c cs -> dur_head (cr_t c) <> 0 -> fz_head f <= dur_head (cr_t c)) /\
    (forall s h, cs <> [] -> h < s -> (forall c, In c cs -> s <= dur_head (cr_t c) /\ rec_tail c <= h) ->
                 s <= fz_head f /\ fz_tail f <= h).
Proof. exact fz_open_crash_ok. Qed.
Print Assumptions C24_freezer_reopen_state.

(* THE FREEZER OVER HISTORIES (partial only in its last hypothesis): from a freezer whose tables satisfy the
   table invariant (the empty freezer does: C24_empty_freezer_ok), after EVERY guarded history of
   ModifyAncients / TruncateHead / TruncateTail (sync first) / SyncAncient and for EVERY crash state of
   every table, NewFreezer succeeds, all tables end at exactly [Tail, Ancients), Ancients is the least
   head recovered by a non-empty table and any range recovered by all tables is kept — PROVIDED the
   cross-table condition holds in the crash state (no table recovers a tail above the head another table
   recovers, unless it recovers the empty range at its tail).  That condition is what TruncateTail's
   sync-first order (commit 4e0311bb15) maintains; it is a hypothesis here, not yet derived from the
   history; crash + reopen inside a FREEZER history is not covered either (it is for one table). *)
Theorem C24_freezer_crash_safe_partial : forall maxsz f0 h (cs : list crashed),
  maxsz < two32 -> Forall (DInv maxsz) (fz_tables f0) -> fz_guarded maxsz f0 h ->
  map cr_t cs = fz_tables (fz_hrun maxsz f0 h) ->
  (forall c, In c cs -> cut_ok (cr_t c) (cr_ci c) (cr_cd c) /\ t_head (cr_t c) + 2 < 65536) ->
  (forall c, In c cs -> dur_head (cr_t c) <> 0 ->
     (forall c', In c' cs -> dur_head (cr_t c') <> 0 -> rec_tail c <= dur_head (cr_t c')) \/ dur_head (cr_t c) = rec_tail c) ->
  exists f', fz_open true (map cr_disk cs) = Ok f' /\
    length (fz_tables f') = length cs /\
    Forall (fun t' => t_items t' = fz_head f' /\ t_hidden t' = fz_tail f') (fz_tables f') /\
    fz_tail f' <= fz_head f' /\
    (forall c, In c cs -> dur_head (cr_t c) <> 0 -> fz_head f' <= dur_head (cr_t c)) /\
    (forall s hh, cs <> [] -> hh < s -> (forall c, In c cs -> s <= dur_head (cr_t c) /\ rec_tail c <= hh) ->
                 s <= fz_head f' /\ fz_tail f' <= hh).
Proof. exact freezer_crash_safe. Qed.
Print Assumptions C24_freezer_crash_safe_partial.

Theorem C24_empty_freezer_ok : forall maxsz,
  (exists f0, fz_open true (repeat (f_empty, [], None) 2) = Ok f0 /\ Forall (DInv maxsz) (fz_tables f0)) /\
  (exists f0, fz_open true (repeat (f_empty, [], None) 3) = Ok f0 /\ Forall (DInv maxsz) (fz_tables f0)).
Proof. exact empty_freezer_dinv. Qed.
Print Assumptions C24_empty_freezer_ok.

(* THE FREEZER THEOREM, cross-table condition DERIVED from the history (FULL for histories that end with the
   crash): from the empty freezer (C24_empty_freezer_inv), after EVERY guarded history of ModifyAncients /
   TruncateHead / TruncateTail (which flushes every table first) / SyncAncient and for EVERY crash state of
   every table (every cut of every file, every zero fill, either metadata record, independently per
   table), NewFreezer succeeds, all tables end at exactly [Tail, Ancients), Ancients is the least head
   recovered by a non-empty table, and any range [hh, s) recovered by every table is kept.  The freezer
   invariant behind it: every table satisfies DInv and XInv (both metadata records carry a tail <= the
   in-memory tail <= the head covered by the flush offset) and all tables agree on items and tail. *)
Theorem C24_freezer_crash_safe : forall maxsz f0 h (cs : list crashed),
  maxsz < two32 -> FXInv maxsz f0 -> fz_guarded maxsz f0 h ->
  map cr_t cs = fz_tables (fz_hrun maxsz f0 h) ->
  (forall c, In c cs -> cut_ok (cr_t c) (cr_ci c) (cr_cd c) /\ t_head (cr_t c) + 2 < 65536) ->
  exists f', fz_open true (map cr_disk cs) = Ok f' /\
    length (fz_tables f') = length cs /\
    Forall (fun t' => t_items t' = fz_head f' /\ t_hidden t' = fz_tail f') (fz_tables f') /\
    fz_tail f' <= fz_head f' /\
    (forall c, In c cs -> dur_head (cr_t c) <> 0 -> fz_head f' <= dur_head (cr_t c)) /\
    (forall s hh, cs <> [] -> hh < s -> (forall c, In c cs -> s <= dur_head (cr_t c) /\ rec_tail c <= hh) ->
                 s <= fz_head f' /\ fz_tail f' <= hh).
Proof. exact freezer_crash_safe_full. Qed.
Print Assumptions C24_freezer_crash_safe.

(* THE FREEZER THEOREM OVER HISTORIES WITH REPEATED CRASHES: NewFreezer after any crash re-establishes the
   freezer invariant (fx_reopen), so histories may contain crashes of every table + NewFreezer at any point,
   any number of times; after every such guarded history and one more crash state of every table,
   NewFreezer succeeds, the invariant holds again, all tables end at exactly [Tail, Ancients), Ancients is
   the least head recovered by a non-empty table, and any range recovered by every table is kept. *)
Theorem C24_freezer_crash_safe_repeated : forall maxsz f0 hs cuts,
  maxsz < two32 -> FXInv maxsz f0 -> fz_hguarded maxsz f0 hs ->
  let f := fz_hhrun maxsz f0 hs in
  crash_guard f cuts ->
  let cs := crashes_of f cuts in
  exists f', fz_open true (map cr_disk cs) = Ok f' /\ FXInv maxsz f' /\
    length (fz_tables f') = length cs /\
    Forall (fun t' => t_items t' = fz_head f' /\ t_hidden t' = fz_tail f') (fz_tables f') /\
    fz_tail f' <= fz_head f' /\
    (forall c, In c cs -> dur_head (cr_t c) <> 0 -> fz_head f' <= dur_head (cr_t c)) /\
    (forall s hh, cs <> [] -> hh < s -> (forall c, In c cs -> s <= dur_head (cr_t c) /\ rec_tail c <= hh) ->
                 s <= fz_head f' /\ fz_tail f' <= hh).
Proof. exact freezer_crash_safe_repeated. Qed.
Print Assumptions C24_freezer_crash_safe_repeated.

Theorem C24_empty_freezer_inv : forall maxsz,
  (exists f0, fz_open true (repeat (f_empty, [], None) 2) = Ok f0 /\ FXInv maxsz f0) /\
  (exists f0, fz_open true (repeat (f_empty, [], None) 3) = Ok f0 /\ FXInv maxsz f0).
Proof. exact empty_freezer_fx. Qed.
Print Assumptions C24_empty_freezer_inv.

(* "reopen = Ok for every history and cut" is false of the code before the clamp in repair():
   files at their durable lengths + the current (never fsync'ed) metadata record *)
Theorem C24_reopen_ok_unclamped_refuted :
  exists t, final 100 false H_vtail = Ok t /\ inv_b t = true /\
    valid_cut (t_index t) 36 0 /\
    crash_reopen false t (36%nat, 0%nat) (dur_cut t) true = Err E_IO.
Proof. eexists. split; [vm_compute; reflexivity|]. vm_compute. repeat split; lia. Qed.
Print Assumptions C24_reopen_ok_unclamped_refuted.

(* the same crash state with the current code: the table opens as the empty range [5,5) *)
Theorem C24_reopen_ok_clamped_witness :
  exists t t', final 100 true H_vtail = Ok t /\
    crash_reopen true t (36%nat, 0%nat) (dur_cut t) true = Ok t' /\
    t_items t' = 5 /\ t_hidden t' = 5 /\ mvtail (t_msyn t') = 5.
Proof. do 2 eexists. split; [vm_compute; reflexivity|]. split; [vm_compute; reflexivity|]. vm_compute. repeat split. Qed.
Print Assumptions C24_reopen_ok_clamped_witness.

(* synced_survive is false of the current code (no crash needed): after Sync all 3 items are
   durable, every file is kept whole, and the reopened table has 1 item; the executable
   invariant correctly fails on that state because the index does not pass checkIndex *)
Theorem C24_synced_survive_refuted :
  exists t t', final 50 true H_oversized = Ok t /\ t_items t = 3 /\
    fdur (t_index t) = flen (t_index t) /\
    crash_reopen true t (flen (t_index t), 0%nat) (full_cut t) false = Ok t' /\
    t_items t' = 1 /\ inv_b t = false /\
    check_index (entries_of (fbytes (t_index t))) = Some 12.
Proof. do 2 eexists. split; [vm_compute; reflexivity|]. split; [vm_compute; reflexivity|].
  split; [vm_compute; reflexivity|]. split; [vm_compute; reflexivity|]. vm_compute. repeat split. Qed.
Print Assumptions C24_synced_survive_refuted.

(* non-vacuity of the history guard: H_vtail and H_mixed are guarded histories *)
Example C24_guard_nonvacuous :
  exists t0, init true = Ok t0 /\ guarded 100 raw_id t0 H_vtail /\ guarded 60 raw_id t0 H_mixed.
Proof.
  eexists. split; [vm_compute; reflexivity|].
  split; vm_compute; repeat split; try reflexivity; try discriminate; repeat constructor; discriminate.
Qed.

(* non-vacuity: the invariant holds on a state with unsynced index entries (durable 36 < 66 bytes),
   unsynced data and an unsynced metadata record, and a cut strictly inside is valid *)
Example C24_nonvacuous :
  exists t, final 100 true H_vtail = Ok t /\ inv_b t = true /\
    fdur (t_index t) = 36%nat /\ flen (t_index t) = 66%nat /\ valid_cut (t_index t) 45 7 /\
    mvtail (t_mcur t) = 8 /\ mvtail (t_msyn t) = 0.
Proof. eexists. split; [vm_compute; reflexivity|]. vm_compute. repeat split; lia. Qed.

(* evaluated, not quantified: on two concrete non-trivial states, EVERY index cut (every kept length
   between durable and current, every zero fill) combined with three head-file cuts, and every
   head-file cut combined with three index cuts, under either metadata record, reopens to one
   contiguous range whose head is the flush-offset head and whose items read what the live table read *)
Example C24_all_cuts_examples :
  (exists t, final 100 true H_vtail = Ok t /\ sweep_cuts true t = true) /\
  (exists t, final 60 true H_mixed = Ok t /\ inv_b t = true /\
             (fdur (t_index t) < flen (t_index t))%nat /\ sweep_cuts true t = true).
Proof.
  split.
  - eexists. split; [vm_compute; reflexivity|]. vm_compute. reflexivity.
  - eexists. split; [vm_compute; reflexivity|]. vm_compute. repeat split; lia.
Qed.
