(* Properties/C19.v — History index behaves as a sorted set of state ids.
   Property theorems only; each is closed by [exact] of a lemma of
   PathDB/IndexProofs.v about the model PathDB/Index.v of
   /repo/triedb/pathdb/history_index_block.go (and history_index.go,
   history_index_iterator.go), for indexes without per-element extensions.

   [bw_reach b]: b is a blockWriter state reached from a fresh writer by
   appends of uint64 ids made while estimateFull() is false (the guard
   indexWriter.append enforces before every append) and by pops.
   [bw_abs b]: the ids decoded from b's restart array and data bytes.
   [asc 0 l]: l is strictly ascending, positive, below 2^64.

   PROVED IN FULL (single block: writer, encoding and reader):
     append_abs, append_guard, pop_abs, pop_guard, sorted, desc, finish_parse,
     finish_empty_rejected, parse_total, uvarint round trip, read_gt_least,
     iter_yields_abs, seek_iter_yields_above.
   See the end of the file for what is not proved. *)
From GV Require Import Lib.Tactics Lib.Uvarint Lib.UvarintProofs PathDB.Index PathDB.IndexProofs PathDB.IndexReaderProofs PathDB.IndexMultiProofs PathDB.IndexDeleteProofs PathDB.IndexTrimProofs.
Local Open Scope N_scope.

(* LEB128: decoding an encoding gives the value and its length back, whatever follows *)
Theorem C19_uvarint_round_trip : forall x rest,
  x < two64 -> uvarint (put_uvarint x ++ rest) = UvOk x (length (put_uvarint x)).
Proof. exact uvarint_put. Qed.
Print Assumptions C19_uvarint_round_trip.

(* a successful append adds exactly the id at the end *)
Theorem C19_append_abs : forall b id b',
  bw_reach b -> id < two64 -> bw_estimate_full b = false ->
  bw_append b id = Ok b' -> bw_abs b' = bw_abs b ++ [id].
Proof. exact append_abs. Qed.
Print Assumptions C19_append_abs.

(* append succeeds iff the id is non-zero and above the last stored id; otherwise
   it fails with exactly the class of the violated guard *)
Theorem C19_append_guard : forall b id,
  bw_reach b -> id < two64 -> bw_estimate_full b = false ->
  ((exists b', bw_append b id = Ok b') <-> (id <> 0 /\ last (bw_abs b) 0 < id)) /\
  (bw_append b id = Err EZeroId <-> id = 0) /\
  (bw_append b id = Err EAppendOrder <-> (id <> 0 /\ id <= last (bw_abs b) 0)).
Proof. exact append_guard. Qed.
Print Assumptions C19_append_guard.

(* a successful pop removes exactly the last id (all three cases of pop: last
   element, last element of a restart section, inside a section) *)
Theorem C19_pop_abs : forall b id b',
  bw_reach b -> bw_pop b id = Ok b' -> bw_abs b' = removelast (bw_abs b).
Proof. exact pop_abs. Qed.
Print Assumptions C19_pop_abs.

(* pop succeeds iff the id is the (non-zero) last stored id; it never panics,
   never runs out of fuel and never reports "not found" on a reachable writer *)
Theorem C19_pop_guard : forall b id,
  bw_reach b ->
  ((exists b', bw_pop b id = Ok b') <-> (id <> 0 /\ bw_abs b <> [] /\ id = last (bw_abs b) 0)) /\
  (bw_pop b id = Err EZeroId <-> id = 0) /\
  (bw_pop b id = Err EPopOrder <-> (id <> 0 /\ id <> last (bw_abs b) 0)).
Proof. exact pop_guard. Qed.
Print Assumptions C19_pop_guard.

(* invariant: the stored ids are strictly ascending positive uint64s *)
Theorem C19_sorted_strict : forall b, bw_reach b -> asc 0 (bw_abs b).
Proof. exact reach_sorted. Qed.
Print Assumptions C19_sorted_strict.

(* the descriptor tells the truth: max = last id, entries = number of ids *)
Theorem C19_desc_consistent : forall b,
  bw_reach b -> d_max (bw_desc b) = last (bw_abs b) 0 /\ d_entries (bw_desc b) = lenN (bw_abs b).
Proof. exact reach_desc. Qed.
Print Assumptions C19_desc_consistent.

(* write/read round trip at every reachable state: parseIndexBlock(finish(w))
   returns w's restart array and data, and reopening the bytes with w's
   descriptor and a limit that trims nothing gives back w itself *)
Theorem C19_finish_parse : forall b limit,
  bw_reach b -> bw_abs b <> [] -> last (bw_abs b) 0 <= limit ->
  parse_index_block (bw_finish b) = Ok (bw_restarts b, bw_data b) /\
  new_block_writer (bw_finish b) (bw_desc b) limit = Ok b.
Proof. exact finish_parse. Qed.
Print Assumptions C19_finish_parse.

(* the encoding of an empty block is not a valid block *)
Theorem C19_finish_empty_rejected : forall b,
  bw_reach b -> bw_abs b = [] -> parse_index_block (bw_finish b) = Err ENoRestart.
Proof. exact finish_empty_rejected. Qed.
Print Assumptions C19_finish_empty_rejected.

(* parseIndexBlock is total on arbitrary bytes: every slice access of the model is
   checked, and no byte string reaches an out-of-range access or exhausts a loop *)
Theorem C19_parse_total : forall blob,
  parse_index_block blob <> Err EPanic /\ parse_index_block blob <> Err EFuel.
Proof. exact parse_index_block_total. Qed.
Print Assumptions C19_parse_total.

(* readGreaterThan on the bytes written by any reachable non-empty writer returns
   the LEAST stored id above the query, or the MaxUint64 sentinel when there is
   none; it never errors, panics or runs out of fuel *)
Theorem C19_read_gt_least : forall b q,
  bw_reach b -> bw_abs b <> [] ->
  exists r v, new_block_reader (bw_finish b) = Ok r /\ br_read_gt r q = Ok (Ok v) /\
    ((In v (bw_abs b) /\ q < v /\ forall y, In y (bw_abs b) -> q < y -> v <= y) \/
     (v = maxU64 /\ forall y, In y (bw_abs b) -> y <= q)).
Proof. exact read_gt_least. Qed.
Print Assumptions C19_read_gt_least.

(* Next* from a fresh iterator yields exactly the stored ids, in order, and ends
   without error *)
Theorem C19_iter_yields_abs : forall b fuel,
  bw_reach b -> bw_abs b <> [] -> (length (bw_abs b) < fuel)%nat ->
  exists r it', new_block_reader (bw_finish b) = Ok r /\
    bi_drain fuel r (bi_reset r) [] = Ok (it', bw_abs b) /\ bi_err it' = None.
Proof. exact iter_yields_abs. Qed.
Print Assumptions C19_iter_yields_abs.

(* SeekGT q followed by Next* yields exactly the stored ids above q, in order
   ([above q l] = filter (q <?) l); SeekGT returns false iff there is none *)
Theorem C19_seek_iter_yields_above : forall b q fuel,
  bw_reach b -> bw_abs b <> [] -> (length (bw_abs b) < fuel)%nat ->
  exists r, new_block_reader (bw_finish b) = Ok r /\
    match above q (bw_abs b) with
    | [] => exists it', bi_seek_gt r (bi_reset r) q = Ok (it', false) /\ bi_err it' = None
    | x :: aft =>
        exists it' it'', bi_seek_gt r (bi_reset r) q = Ok (it', true) /\ bi_id it' = x /\
                         bi_drain fuel r it' [x] = Ok (it'', x :: aft) /\ bi_err it'' = None
    end.
Proof. exact seek_iter_yields_above. Qed.
Print Assumptions C19_seek_iter_yields_above.

(* ---- the multi-block layer (indexWriter and index pruner over a store) ----
   [iok i0 bl]: bl is a list of reachable non-empty blocks, block number k carrying
   id i0 + k (i0 > 0 after pruning), block ids below 2^32, all their ids together
   strictly ascending.  [stored db bl]: the store's metadata is the descriptors of
   bl and it holds finish() of every block under its id.  [iabs bl] = all ids. *)

(* the metadata written for any such block list parses back to its descriptors *)
Theorem C19_index_meta_round_trip : forall i0 ds,
  ds <> [] -> descs_ok i0 ds -> N.of_nat (length ds) + i0 <= 4294967296 ->
  parse_index (flat_map desc_encode ds) = Ok ds.
Proof. exact parse_index_round. Qed.
Print Assumptions C19_index_meta_round_trip.

(* reading a stored index back (metadata, then every block) gives the
   concatenation of the blocks' ids *)
Theorem C19_index_stored_abs : forall i0 db bl,
  iok i0 bl -> stored db bl -> db_abs db = Ok (iabs bl).
Proof. exact db_abs_spec. Qed.
Print Assumptions C19_index_stored_abs.

(* indexWriter.append, with rotation to a new block when the live one is full:
   fails exactly when id <= last, otherwise adds exactly the id at the end and
   keeps the invariant [iwrepr] (descriptor list, frozen writers, live writer) *)
Theorem C19_index_append : forall i0 w pre id,
  iwrepr i0 w pre -> id < two64 -> i0 + N.of_nat (length (pre ++ iw_frozen w)) + 2 < 4294967296 ->
  (id <= last (iw_abs w pre) 0 -> iw_append w id = Err EAppendOrder) /\
  (last (iw_abs w pre) 0 < id ->
   exists w', iw_append w id = Ok w' /\ iwrepr i0 w' pre /\ iw_abs w' pre = iw_abs w pre ++ [id] /\
              (length (pre ++ iw_frozen w') <= S (length (pre ++ iw_frozen w)))%nat).
Proof. exact iw_append_spec. Qed.
Print Assumptions C19_index_append.

(* a whole writer session on any stored index: newIndexWriter with a limit that
   trims nothing, appends of a non-empty ascending run of uint64 ids above the
   last stored id, finish: the new store again satisfies [stored]/[iok] and reads
   back as old ids ++ new ids *)
Theorem C19_index_writer_session : forall i0 db bl limit ids,
  iok i0 bl -> stored db bl -> last (iabs bl) 0 <= limit ->
  ids <> [] -> asc (last (iabs bl) 0) ids ->
  i0 + N.of_nat (length bl) + N.of_nat (length ids) + 2 < 4294967296 ->
  exists i1 w w' bl',
    new_index_writer db limit = Ok w /\ iw_appends w ids = Ok w' /\
    stored (iw_finish w' db) bl' /\ iok i1 bl' /\ (bl <> [] -> i1 = i0) /\ iabs bl' = iabs bl ++ ids /\
    db_abs (iw_finish w' db) = Ok (iabs bl ++ ids).
Proof. exact writer_session. Qed.
Print Assumptions C19_index_writer_session.

(* the index pruner (pruneEntry) with tail t on any stored index drops exactly
   the k leading blocks whose last id is below t ([lead_below]): it reports k,
   the store then holds the remaining blocks (block ids now start at i0 + k),
   every dropped id is < t, and the first kept block reaches t or beyond - so no
   id >= t is ever removed, and in particular a block whose last id EQUALS t stays *)
Theorem C19_prune_spec : forall i0 db bl tail,
  iok i0 bl -> stored db bl ->
  let k := lead_below bl tail in
  snd (prune_entry db tail) = k /\
  stored (fst (prune_entry db tail)) (skipn k bl) /\ iok (i0 + N.of_nat k) (skipn k bl) /\
  (forall x, In x (iabs (firstn k bl)) -> x < tail) /\
  (forall b r, skipn k bl = b :: r -> tail <= last (bw_abs b) 0) /\
  iabs bl = iabs (firstn k bl) ++ iabs (skipn k bl).
Proof. exact prune_spec. Qed.
Print Assumptions C19_prune_spec.

(* indexDeleter.pop across blocks: fails exactly on id = 0 / id <> last; otherwise
   removes exactly the last id - dropping the live block when it becomes empty and
   reopening the previous one from the store - and keeps the invariant [idrepr] *)
Theorem C19_index_pop : forall i0 db d pre id,
  idrepr i0 db d pre -> id_abs d pre <> [] ->
  (id = 0 -> id_pop db d id = Err EZeroId) /\
  (id <> 0 -> id <> last (id_abs d pre) 0 -> id_pop db d id = Err EPopOrder) /\
  (id = last (id_abs d pre) 0 ->
   exists d' pre', id_pop db d id = Ok d' /\ idrepr i0 db d' pre' /\ id_abs d' pre' = removelast (id_abs d pre)).
Proof. exact id_pop_spec. Qed.
Print Assumptions C19_index_pop.

(* newBlockWriter(finish(w), desc, limit) keeps exactly the ids <= limit
   ([below limit l] = filter (<= limit) l, a prefix since l is ascending) *)
Theorem C19_block_reopen_limit : forall b limit,
  bw_reach b -> bw_abs b <> [] ->
  exists b', new_block_writer (bw_finish b) (bw_desc b) limit = Ok b' /\ bw_reach b' /\
             bw_abs b' = below limit (bw_abs b) /\ d_id (bw_desc b') = d_id (bw_desc b).
Proof. exact new_block_writer_trim. Qed.
Print Assumptions C19_block_reopen_limit.

(* the shared open of newIndexWriter/newIndexDeleter with ANY limit (descriptor
   trimming loop, block trimming, and the fall-back to the previous block when the
   last one is emptied - /repo bb1fc7bf): the blocks kept plus the live block hold
   exactly the ids <= limit; the live block is empty only if nothing is kept *)
Theorem C19_index_open_limit : forall i0 db bl limit,
  iok i0 bl -> stored db bl -> bl <> [] ->
  exists pre bw dropped,
    open_last db limit = Ok (map bw_desc pre, bw, dropped) /\
    (exists rest, bl = pre ++ rest /\ rest <> []) /\ bw_reach bw /\
    d_id (bw_desc bw) = i0 + N.of_nat (length pre) /\
    iabs pre ++ bw_abs bw = below limit (iabs bl) /\ (bw_abs bw = [] -> pre = []) /\
    (forall i, In i dropped -> i0 + N.of_nat (length pre) < i).
Proof. exact open_last_trim. Qed.
Print Assumptions C19_index_open_limit.

(* ---- ALL histories.  [ihist3 db]: db is reached from the empty store by any
   sequence of
     - writer sessions: newIndexWriter with ANY limit, a non-empty run of uint64
       ids ascending above the last id <= limit, finish (next block id + run
       length below 2^32);
     - deleter sessions: newIndexDeleter with ANY limit, pops of the then-last
       ids (any number, possibly none = a pure reopen(limit)), finish;
     - index pruner runs with ANY tail.
   The refinement: the stored index is always a strictly ascending list l
   (a sorted set), and
     writer session   l  |->  below limit l ++ ids
     deleter session  l  |->  keep,  where below limit l = keep ++ rev popped
     pruner run       l  |->  a suffix l2 of l, l = l1 ++ l2, every id of l1 < tail,
                              every id >= tail kept (block granularity: C19_prune_spec)
   and the sessions always run (no error, panic or fuel exhaustion). ---- *)
Theorem C19_history_invariant : forall db,
  ihist3 db -> exists i0 bl, iok i0 bl /\ stored db bl.
Proof. exact ihist3_inv. Qed.
Print Assumptions C19_history_invariant.

Theorem C19_history_sorted : forall db, ihist3 db -> exists l, db_abs db = Ok l /\ asc 0 l.
Proof. exact hist3_sorted. Qed.
Print Assumptions C19_history_sorted.

Theorem C19_history_write : forall db l limit ids w w',
  ihist3 db -> db_abs db = Ok l -> ids <> [] -> asc (last (below limit l) 0) ids ->
  db_next_id db + N.of_nat (length ids) + 2 < 4294967296 ->
  new_index_writer db limit = Ok w -> iw_appends w ids = Ok w' ->
  db_abs (iw_finish w' db) = Ok (below limit l ++ ids).
Proof. exact hist3_write. Qed.
Print Assumptions C19_history_write.

Theorem C19_history_write_total : forall db l limit ids,
  ihist3 db -> db_abs db = Ok l -> ids <> [] -> asc (last (below limit l) 0) ids ->
  db_next_id db + N.of_nat (length ids) + 2 < 4294967296 ->
  exists w w', new_index_writer db limit = Ok w /\ iw_appends w ids = Ok w'.
Proof. exact hist3_write_total. Qed.
Print Assumptions C19_history_write_total.

Theorem C19_history_delete : forall db l keep ps limit d d',
  ihist3 db -> db_abs db = Ok l -> below limit l = keep ++ rev ps ->
  new_index_deleter db limit = Ok d -> id_pops db d ps = Ok d' ->
  db_abs (id_finish d' db) = Ok keep.
Proof. exact hist3_delete. Qed.
Print Assumptions C19_history_delete.

Theorem C19_history_delete_total : forall db l keep ps limit,
  ihist3 db -> db_abs db = Ok l -> below limit l = keep ++ rev ps ->
  exists d d', new_index_deleter db limit = Ok d /\ id_pops db d ps = Ok d'.
Proof. exact hist3_delete_total. Qed.
Print Assumptions C19_history_delete_total.

(* pruning at any point of any history removes a prefix made only of ids below
   the tail and never an id >= tail *)
Theorem C19_history_prune : forall db l tail,
  ihist3 db -> db_abs db = Ok l ->
  exists l1 l2, l = l1 ++ l2 /\ db_abs (fst (prune_entry db tail)) = Ok l2 /\
                (forall x, In x l1 -> x < tail) /\ (forall x, In x l -> tail <= x -> In x l2).
Proof. exact hist3_prune. Qed.
Print Assumptions C19_history_prune.

(* with a limit at or above the last id nothing is trimmed *)
Theorem C19_below_id : forall limit l, asc 0 l -> last l 0 <= limit -> below limit l = l.
Proof. exact below_id. Qed.
Print Assumptions C19_below_id.

(* NOT PROVED (modelled, compared with the implementation on every run, checked
   by the Go-side sorted-slice oracle):
     index_read_gt_partial  : indexReader.readGreaterThan / indexIterator over SEVERAL
                              blocks = least id above q / all ids above q; proved for one
                              block (C19_read_gt_least, C19_seek_iter_yields_above), and the
                              stored index is proved to decode to the sorted list (db_abs)
     reader / writer totality on corrupted-but-parsed blocks (iterators never panic;
                              pop returns an error class instead of panicking or spinning)
     a writer session that appends nothing: excluded from [ihist3] (ids <> []); when the
                              limit empties the only block, finish() writes nothing (latent)
   NOT MODELLED: per-element extensions, bitmaps, extension filters (filter_no_drop);
   of the pruner only pruneEntry/prunePrefix's per-key effect is modelled (not its
   goroutine, pause/resume protocol, batching or iterator re-opening). *)

(* Historical witness (repaired in /repo commit 2876db98): before the repair
   scanSection did not look at binary.Uvarint's byte count ([scan_loop false]).
   The block  80 | 0000 | 01  (data = one continuation byte, one restart at 0)
   passes parseIndexBlock, a writer opens on it, and the section scan of pop(5)
   made no progress for ANY amount of fuel.  With the repaired code
   ([scan_loop true], the one the model's writer uses) the same pop returns the
   "invalid varint" error class.  The case is in corpus/C19 (a regression shows
   as "case timed out"). *)
Theorem C19_old_scan_diverged_on_corrupt_block :
  exists blob d b,
    new_block_writer blob d maxU64 = Ok b /\
    (forall fuel s, scan_loop false fuel (bw_data b) 0 1 (search_fn 5) 0 (bw_data b) 0 s = Err EFuel) /\
    bw_pop b 5 = Err EScanVarint.
Proof.
  exists [128; 0; 0; 1], (mkDesc 5 2 0), (mkBW (mkDesc 5 2 0) [0] [128]).
  split; [vm_compute; reflexivity|]. split; [exact corrupt_scan_diverges|vm_compute; reflexivity].
Qed.
Print Assumptions C19_old_scan_diverged_on_corrupt_block.

(* non-vacuity: [nonvac_check] (PathDB/IndexProofs.v) appends 260 ids spanning
   two restart sections under the guards of bw_reach (build_reach), checks the
   decoded ids, the restart count and the finish/parse round trip on the
   concrete bytes, and pops five ids across the section boundary *)
Example C19_nonvacuous : nonvac_check = true.
Proof. vm_compute. reflexivity. Qed.
