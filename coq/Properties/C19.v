From GV Require Import Lib.Tactics PathDB.Index.
Theorem C19_placeholder : True. Proof. exact I. Qed.
Print Assumptions C19_placeholder.
