(* runner/sx_io.ml — generic line-protocol driver, textually appended to each
   family's extracted code (so [positive], [n], [z], [sx] below are the
   extracted Coq types; numbers stay Coq binary numbers, never OCaml int).

   stdin : one case per line     atom ::= hex | -hex | x<hexbytes>     sx ::= atom | ( sx* )
   stdout: one result per line, same syntax.  *)

let hexval c =
  match c with
  | '0'..'9' -> Char.code c - 48
  | 'a'..'f' -> Char.code c - 87
  | 'A'..'F' -> Char.code c - 55
  | _ -> failwith "bad hex digit"

(* push one bit (msb first) onto an optional positive *)
let push_bit (acc : positive option) (b : bool) : positive option =
  match acc, b with
  | None, false -> None
  | None, true -> Some XH
  | Some p, false -> Some (XO p)
  | Some p, true -> Some (XI p)

let pos_of_hex (s : string) : positive option =
  let acc = ref None in
  String.iter (fun c ->
    let v = hexval c in
    for i = 3 downto 0 do acc := push_bit !acc ((v lsr i) land 1 = 1) done) s;
  !acc

let n_of_int (i : int) : n =
  if i = 0 then N0 else
  let rec go i = if i = 1 then XH else if i land 1 = 1 then XI (go (i lsr 1)) else XO (go (i lsr 1)) in
  Npos (go i)

let rec bits_of_pos (p : positive) (acc : bool list) : bool list =
  (* returns bits lsb first appended... we build msb-first list *)
  match p with
  | XH -> true :: acc
  | XO q -> bits_of_pos q (false :: acc)
  | XI q -> bits_of_pos q (true :: acc)

let hex_of_pos (p : positive) : string =
  let bits = bits_of_pos p [] in            (* msb first *)
  let n = List.length bits in
  let pad = (4 - n mod 4) mod 4 in
  let bits = List.init pad (fun _ -> false) @ bits in
  let buf = Buffer.create 16 in
  let rec go l = match l with
    | a :: b :: c :: d :: r ->
        let v = (if a then 8 else 0) + (if b then 4 else 0) + (if c then 2 else 0) + (if d then 1 else 0) in
        Buffer.add_char buf "0123456789abcdef".[v]; go r
    | [] -> ()
    | _ -> assert false in
  go bits; Buffer.contents buf

let int_of_n (x : n) : int =
  match x with
  | N0 -> 0
  | Npos p ->
      let rec go p = match p with XH -> 1 | XO q -> 2 * go q | XI q -> 2 * go q + 1 in go p

(* ---- parser ---- *)
let parse_line (s : string) : sx =
  let len = String.length s in
  let pos = ref 0 in
  let skip () = while !pos < len && (s.[!pos] = ' ' || s.[!pos] = '\t') do incr pos done in
  let token () =
    let st = !pos in
    while !pos < len && s.[!pos] <> ' ' && s.[!pos] <> '(' && s.[!pos] <> ')' && s.[!pos] <> '\t' do incr pos done;
    String.sub s st (!pos - st) in
  let rec item () : sx =
    skip ();
    if !pos >= len then failwith "unexpected end";
    if s.[!pos] = '(' then begin
      incr pos;
      let acc = ref [] in
      let fin = ref false in
      while not !fin do
        skip ();
        if !pos >= len then failwith "unclosed list";
        if s.[!pos] = ')' then (incr pos; fin := true) else acc := item () :: !acc
      done;
      SL (List.rev !acc)
    end else begin
      let t = token () in
      if t = "" then failwith "empty token";
      if t.[0] = 'x' then begin
        let h = String.sub t 1 (String.length t - 1) in
        if String.length h mod 2 <> 0 then failwith "odd hex bytes";
        let bs = List.init (String.length h / 2) (fun i -> n_of_int (hexval h.[2*i] * 16 + hexval h.[2*i+1])) in
        SB bs
      end else if t.[0] = '-' then
        (match pos_of_hex (String.sub t 1 (String.length t - 1)) with
         | None -> SI Z0 | Some p -> SI (Zneg p))
      else
        (match pos_of_hex t with None -> SI Z0 | Some p -> SI (Zpos p))
    end in
  let r = item () in
  skip ();
  if !pos <> len then failwith "trailing input";
  r

(* ---- printer ---- *)
let rec print_sx (b : Buffer.t) (v : sx) : unit =
  match v with
  | SI Z0 -> Buffer.add_char b '0'
  | SI (Zpos p) -> Buffer.add_string b (hex_of_pos p)
  | SI (Zneg p) -> Buffer.add_char b '-'; Buffer.add_string b (hex_of_pos p)
  | SB bs ->
      Buffer.add_char b 'x';
      List.iter (fun x -> let i = int_of_n x in
                   if i > 255 then Buffer.add_string b "!!" (* model produced a non-byte: visible mismatch *)
                   else Buffer.add_string b (Printf.sprintf "%02x" i)) bs
  | SL l ->
      Buffer.add_char b '(';
      List.iteri (fun i x -> if i > 0 then Buffer.add_char b ' '; print_sx b x) l;
      Buffer.add_char b ')'

let sx_main (run : sx -> sx) : unit =
  let b = Buffer.create 65536 in
  (try
    while true do
      let line = input_line stdin in
      if String.length line > 0 then begin
        (match (try Some (parse_line line) with Failure _ -> None) with
         | None -> Buffer.add_string b "!parse-error"
         | Some c ->
            (try print_sx b (run c) with Stack_overflow -> Buffer.add_string b "!stack-overflow"));
        Buffer.add_char b '\n';
        if Buffer.length b > 60000 then (print_string (Buffer.contents b); Buffer.clear b)
      end
    done
  with End_of_file -> ());
  print_string (Buffer.contents b); flush stdout
