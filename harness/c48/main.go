// Family c48: the snap protocol SERVING functions of eth/protocols/snap/handlers.go
// (ServiceGetAccountRangeQuery, ServiceGetStorageRangesQuery, ServiceGetByteCodesQuery,
// ServiceGetTrieNodesQuery) vs coq/Net/SnapServe.v, with trie.VerifyRangeProof (the
// consumer-side verifier) as oracle.
//
// A case is ( view reqs spec ): [spec] is the recipe of a genesis state (scheme, empty blocks
// on top, accounts with nonce/balance/code/storage); a real core.BlockChain over a memory
// database is built from it; [view] is the flat view of the head state (accounts by hash with
// slim bodies, slots, node tables of the account trie and every storage trie) computed from
// the real TRIES with trie.NodeIterator (independent of the snapshot iterators and of
// Trie.GetNode used by the handlers) and handed to the model; [reqs] are the requests.  Run
// rebuilds the chain, recomputes the view (a case whose view differs from the rebuilt state
// yields the observation (-2)), serves every request with the real functions and checks the
// property directly.
package main

import (
	"bytes"
	"fmt"
	"math/big"
	"sort"
	"time"

	"github.com/ethereum/go-ethereum/common"
	"github.com/ethereum/go-ethereum/consensus/ethash"
	"github.com/ethereum/go-ethereum/core"
	"github.com/ethereum/go-ethereum/core/rawdb"
	"github.com/ethereum/go-ethereum/core/types"
	"github.com/ethereum/go-ethereum/crypto"
	"github.com/ethereum/go-ethereum/eth/protocols/snap"
	"github.com/ethereum/go-ethereum/params"
	"github.com/ethereum/go-ethereum/rlp"
	"github.com/ethereum/go-ethereum/trie"
	"github.com/ethereum/go-ethereum/trie/trienode"
	. "gethverif/harness/hxlib"
)

const softLimit = 2 * 1024 * 1024

// ---------------------------------------------------------------- state recipe

type accSpec struct {
	Addr    common.Address
	Nonce   uint64
	Balance *big.Int
	Code    []byte
	Storage [][2]common.Hash
}

type stateSpec struct {
	Scheme   int // 0 hash, 1 path
	Blocks   int
	Accounts []accSpec
}

func (s *stateSpec) sx() Sx {
	accs := SL{}
	for _, a := range s.Accounts {
		st := SL{}
		for _, kv := range a.Storage {
			st = append(st, L(B(kv[0][:]), B(kv[1][:])))
		}
		accs = append(accs, L(B(a.Addr[:]), U(a.Nonce), Big(a.Balance), B(a.Code), st))
	}
	return L(I(int64(s.Scheme)), I(int64(s.Blocks)), accs)
}

func shape(cond bool, msg string) {
	if !cond {
		panic("hxlib: " + msg)
	}
}

func asL(x Sx) SL   { l, ok := x.(SL); shape(ok, "list expected"); return l }
func asB(x Sx) []byte { b, ok := x.(SB); shape(ok, "bytes expected"); return []byte(b) }
func asI(x Sx) *big.Int {
	i, ok := x.(SI)
	shape(ok, "int expected")
	return i.V
}
func asU64(x Sx) uint64 {
	v := asI(x)
	shape(v.Sign() >= 0, "non-negative expected")
	if !v.IsUint64() {
		return ^uint64(0)
	}
	return v.Uint64()
}

func parseSpec(x Sx) *stateSpec {
	l := asL(x)
	shape(len(l) == 3, "spec shape")
	s := &stateSpec{Scheme: int(asU64(l[0]) % 2), Blocks: int(asU64(l[1]) % 3)}
	for _, ax := range asL(l[2]) {
		al := asL(ax)
		shape(len(al) == 5, "account spec shape")
		a := accSpec{Addr: common.BytesToAddress(asB(al[0])), Nonce: asU64(al[1]), Balance: new(big.Int).Abs(asI(al[2])), Code: asB(al[3])}
		for _, kv := range asL(al[4]) {
			kl := asL(kv)
			shape(len(kl) == 2, "storage spec shape")
			a.Storage = append(a.Storage, [2]common.Hash{common.BytesToHash(asB(kl[0])), common.BytesToHash(asB(kl[1]))})
		}
		s.Accounts = append(s.Accounts, a)
	}
	s.normalise()
	return s
}

// An empty genesis alloc commits nothing, so in path scheme the flat-state generator of a fresh
// database is still running in the background when blocks arrive and the iterators answer
// "not available" for a while (timing dependent, not a property of the handlers): no blocks on
// top of an empty alloc.
func (s *stateSpec) normalise() {
	if len(s.Accounts) == 0 {
		s.Blocks = 0
	}
}

func buildChain(s *stateSpec) (*core.BlockChain, common.Hash) {
	ga := make(types.GenesisAlloc)
	for _, a := range s.Accounts {
		acc := types.Account{Balance: a.Balance, Nonce: a.Nonce, Code: a.Code}
		if len(a.Storage) > 0 {
			acc.Storage = make(map[common.Hash]common.Hash)
			for _, kv := range a.Storage {
				acc.Storage[kv[0]] = kv[1]
			}
		}
		ga[a.Addr] = acc
	}
	gspec := &core.Genesis{Config: params.TestChainConfig, Alloc: ga}
	scheme := rawdb.HashScheme
	if s.Scheme == 1 {
		scheme = rawdb.PathScheme
	}
	options := &core.BlockChainConfig{
		TrieCleanLimit: 0, TrieDirtyLimit: 0, TrieTimeLimit: 5 * time.Minute,
		NoPrefetch: true, SnapshotLimit: 100, SnapshotWait: true, StateScheme: scheme,
	}
	bc, err := core.NewBlockChain(rawdb.NewMemoryDatabase(), gspec, ethash.NewFaker(), options)
	if err != nil {
		panic("hxlib: NewBlockChain: " + err.Error())
	}
	if s.Blocks > 0 {
		_, blocks, _ := core.GenerateChainWithGenesis(gspec, ethash.NewFaker(), s.Blocks, func(i int, gen *core.BlockGen) {})
		if _, err := bc.InsertChain(blocks); err != nil {
			panic("hxlib: InsertChain: " + err.Error())
		}
	}
	return bc, bc.CurrentBlock().Root
}

// ---------------------------------------------------------------- true state (from the tries)

type nodeEnt struct {
	Path   []byte // hex path
	Stored bool
	Hash   common.Hash
	Len    int
}

type slotView struct {
	Hash common.Hash
	Val  []byte
}

type accView struct {
	Hash  common.Hash
	Slim  []byte
	Full  []byte
	Root  common.Hash
	Slots []slotView
	Nodes []nodeEnt
}

type view struct {
	Root     common.Hash
	Accounts []accView
	Codes    map[common.Hash][]byte
	CodeList []common.Hash
	Nodes    []nodeEnt
}

func walkTrie(tr *trie.Trie) (leaves [][2][]byte, nodes []nodeEnt) {
	it, err := tr.NodeIterator(nil)
	if err != nil {
		panic("hxlib: NodeIterator: " + err.Error())
	}
	for it.Next(true) {
		p := append([]byte{}, it.Path()...)
		if it.Leaf() {
			leaves = append(leaves, [2][]byte{append([]byte{}, it.LeafKey()...), append([]byte{}, it.LeafBlob()...)})
			nodes = append(nodes, nodeEnt{Path: p})
			continue
		}
		if h := it.Hash(); h != (common.Hash{}) {
			nodes = append(nodes, nodeEnt{Path: p, Stored: true, Hash: h, Len: len(it.NodeBlob())})
		} else {
			nodes = append(nodes, nodeEnt{Path: p})
		}
	}
	if it.Error() != nil {
		panic("hxlib: trie iteration: " + it.Error().Error())
	}
	return
}

func computeView(bc *core.BlockChain, root common.Hash, s *stateSpec) *view {
	v := &view{Root: root, Codes: map[common.Hash][]byte{}}
	tr, err := trie.New(trie.StateTrieID(root), bc.TrieDB())
	if err != nil {
		panic("hxlib: open account trie: " + err.Error())
	}
	leaves, nodes := walkTrie(tr)
	v.Nodes = nodes
	for _, lf := range leaves {
		var acc types.StateAccount
		if err := rlp.DecodeBytes(lf[1], &acc); err != nil {
			panic("hxlib: account decode: " + err.Error())
		}
		av := accView{Hash: common.BytesToHash(lf[0]), Full: lf[1], Slim: types.SlimAccountRLP(acc), Root: acc.Root}
		if acc.Root != types.EmptyRootHash {
			st, err := trie.New(trie.StorageTrieID(root, av.Hash, acc.Root), bc.TrieDB())
			if err != nil {
				panic("hxlib: open storage trie: " + err.Error())
			}
			sl, sn := walkTrie(st)
			av.Nodes = sn
			for _, x := range sl {
				av.Slots = append(av.Slots, slotView{Hash: common.BytesToHash(x[0]), Val: x[1]})
			}
		}
		v.Accounts = append(v.Accounts, av)
	}
	for _, a := range s.Accounts {
		if len(a.Code) > 0 {
			h := crypto.Keccak256Hash(a.Code)
			if _, ok := v.Codes[h]; !ok {
				v.Codes[h] = a.Code
				v.CodeList = append(v.CodeList, h)
			}
		}
	}
	sort.Slice(v.CodeList, func(i, j int) bool { return bytes.Compare(v.CodeList[i][:], v.CodeList[j][:]) < 0 })
	return v
}

func hN(h common.Hash) Sx { return Big(new(big.Int).SetBytes(h[:])) }

func nodesSx(ns []nodeEnt) Sx {
	out := SL{}
	for _, n := range ns {
		if n.Stored {
			out = append(out, L(B(n.Path), hN(n.Hash), I(int64(n.Len))))
		} else {
			out = append(out, L(B(n.Path)))
		}
	}
	return out
}

func (v *view) sx() Sx {
	accs := SL{}
	for _, a := range v.Accounts {
		sl := SL{}
		for _, s := range a.Slots {
			sl = append(sl, L(hN(s.Hash), B(s.Val)))
		}
		accs = append(accs, L(hN(a.Hash), B(a.Slim), sl, nodesSx(a.Nodes)))
	}
	codes := SL{}
	for _, h := range v.CodeList {
		codes = append(codes, L(hN(h), I(int64(len(v.Codes[h])))))
	}
	return L(hN(v.Root), accs, codes, nodesSx(v.Nodes))
}

func (v *view) account(h common.Hash) *accView {
	for i := range v.Accounts {
		if v.Accounts[i].Hash == h {
			return &v.Accounts[i]
		}
	}
	return nil
}

// ---------------------------------------------------------------- requests

func hashOfInt(x Sx) common.Hash {
	v := asI(x)
	shape(v.Sign() >= 0, "hash must be non-negative")
	return common.BigToHash(v)
}

// the root field: 1 stands for "the head root" (so that a shrunk recipe keeps its requests meaningful)
func reqRoot(x Sx, head common.Hash) common.Hash {
	v := asI(x)
	if v.Cmp(big.NewInt(1)) == 0 {
		return head
	}
	return hashOfInt(x)
}

func capBytes(b uint64) uint64 {
	if b > softLimit {
		return softLimit
	}
	return b
}

type reqOut struct {
	obs    Sx
	oracle string
	tags   []string
	nt     bool
}

func fail(o *reqOut, f string, a ...interface{}) {
	if o.oracle == "" {
		o.oracle = fmt.Sprintf(f, a...)
	}
}

func proofDB(proof [][]byte) *trienode.ProofSet {
	db := trienode.NewProofSet()
	for _, n := range proof {
		db.Put(crypto.Keccak256(n), n)
	}
	return db
}

func runAccountRange(bc *core.BlockChain, v *view, r SL) (o reqOut) {
	shape(len(r) == 5, "req0 shape")
	root, origin, limit, nbytes := reqRoot(r[1], v.Root), hashOfInt(r[2]), hashOfInt(r[3]), asU64(r[4])
	accs, proof := snap.ServiceGetAccountRangeQuery(bc, &snap.GetAccountRangePacket{ID: 1, Root: root, Origin: origin, Limit: limit, Bytes: nbytes})
	items := SL{}
	for _, a := range accs {
		items = append(items, L(hN(a.Hash), B(a.Body)))
	}
	o.obs = L(items, Bool(len(proof) > 0))
	o.tags = append(o.tags, "acct")
	if root != v.Root {
		o.tags = append(o.tags, "acct:unknown-root")
		if len(accs) != 0 || len(proof) != 0 {
			fail(&o, "account range: data served for an unknown root")
		}
		return
	}
	if bytes.Compare(origin[:], limit[:]) > 0 {
		o.tags = append(o.tags, "acct:inverted")
	}
	B_ := capBytes(nbytes)
	// true run
	i0 := sort.Search(len(v.Accounts), func(i int) bool { return bytes.Compare(v.Accounts[i].Hash[:], origin[:]) >= 0 })
	n := len(accs)
	if i0+n > len(v.Accounts) {
		fail(&o, "account range: %d accounts returned, only %d exist from the origin", n, len(v.Accounts)-i0)
		return
	}
	if n == 0 && i0 < len(v.Accounts) {
		fail(&o, "account range: empty response although accounts exist at or after the origin")
	}
	var size uint64
	var keys, vals [][]byte
	for j, a := range accs {
		t := v.Accounts[i0+j]
		if a.Hash != t.Hash || !bytes.Equal(a.Body, t.Slim) {
			fail(&o, "account range: item %d is not the %d-th account at or after the origin (gap or invented data)", j, j)
			return
		}
		if j < n-1 {
			if bytes.Compare(a.Hash[:], limit[:]) >= 0 {
				fail(&o, "account range: continued past an account at or above the limit")
			}
		}
		size += uint64(32 + len(a.Body))
		if j < n-1 && size > B_ {
			fail(&o, "account range: byte budget exceeded before the last item (%d > %d)", size, B_)
		}
		full, err := types.FullAccountRLP(a.Body)
		if err != nil {
			fail(&o, "account range: body not slim RLP: %v", err)
			return
		}
		keys = append(keys, append([]byte{}, a.Hash[:]...))
		vals = append(vals, full)
	}
	more := i0+n < len(v.Accounts)
	if more && n > 0 {
		last := accs[n-1]
		switch {
		case bytes.Compare(last.Hash[:], limit[:]) >= 0:
			o.tags = append(o.tags, "acct:stop-limit")
		case size > B_:
			o.tags = append(o.tags, "acct:stop-bytes")
		default:
			fail(&o, "account range: stopped early without reaching the limit or the byte budget")
		}
	} else if n > 0 {
		o.tags = append(o.tags, "acct:exhausted")
	} else {
		o.tags = append(o.tags, "acct:empty")
	}
	if len(v.Accounts) > 0 && len(proof) == 0 {
		fail(&o, "account range: no proof attached")
	}
	var cont bool
	var err error
	if len(v.Accounts) == 0 {
		// degenerate: the empty trie has no node to prove anything with; the response is
		// (nil, no proof nodes); only the all-elements form of the verifier applies
		o.tags = append(o.tags, "acct:empty-trie")
		cont, err = trie.VerifyRangeProof(root, nil, nil, nil, nil)
	} else {
		cont, err = trie.VerifyRangeProof(root, origin[:], keys, vals, proofDB(proof))
	}
	if err != nil {
		fail(&o, "account range: VerifyRangeProof rejects the response: %v", err)
	} else if cont != more {
		fail(&o, "account range: VerifyRangeProof more=%v but the state has more=%v", cont, more)
	}
	o.nt = n >= 2 && more && err == nil
	return
}

func isZero(b []byte) bool {
	for _, x := range b {
		if x != 0 {
			return false
		}
	}
	return true
}

// hardLimit as an exact rational bound: the handler uses uint64(float64(B) * 1.1)
func hardLimit(B_ uint64) uint64 { return uint64(float64(B_) * (1 + 0.1)) }

// clientCheckStorage is the check a requester runs on a storage-ranges reply (snap sync
// OnStorage): slot set #i belongs to the i-th requested account (accounts without any storage
// are never requested by a client and get no set from the server, so they are left out); every
// set but the last, and the last one when no proof is attached, must verify as the COMPLETE
// storage trie of its account (VerifyRangeProof with nil proof); the last set with a proof must
// verify from the request origin with the proof, and the verifier's `more` flag must agree with
// the true storage; an empty reply for a first account that has storage and a non-zero origin
// must carry a proof of emptiness that verifies with more=false.
func clientCheckStorage(v *view, accounts []common.Hash, origin common.Hash, B_ uint64, slots [][]*snap.StorageData, proof [][]byte) string {
	var elig []*accView
	firstElig := false
	for i, h := range accounts {
		if av := v.account(h); av != nil && len(av.Slots) > 0 {
			elig = append(elig, av)
			if i == 0 {
				firstElig = true
			}
		}
	}
	if len(slots) > len(elig) {
		return fmt.Sprintf("storage ranges (client check): %d slot sets for %d requested accounts with storage", len(slots), len(elig))
	}
	for i, l := range slots {
		av := elig[i]
		var keys, vals [][]byte
		for _, s := range l {
			keys = append(keys, append([]byte{}, s.Hash[:]...))
			vals = append(vals, s.Body)
		}
		if i < len(slots)-1 || len(proof) == 0 {
			if _, err := trie.VerifyRangeProof(av.Root, nil, keys, vals, nil); err != nil {
				return fmt.Sprintf("storage ranges (client check): slot set #%d does not verify as the complete storage of requested account %x: %v", i, av.Hash, err)
			}
			continue
		}
		var og common.Hash
		if i == 0 && firstElig {
			og = origin
		}
		cont, err := trie.VerifyRangeProof(av.Root, og[:], keys, vals, proofDB(proof))
		if err != nil {
			return fmt.Sprintf("storage ranges (client check): proven slot set #%d does not verify for requested account %x from origin %x: %v", i, av.Hash, og, err)
		}
		more := len(l) > 0 && bytes.Compare(av.Slots[len(av.Slots)-1].Hash[:], l[len(l)-1].Hash[:]) > 0
		if cont != more {
			return fmt.Sprintf("storage ranges (client check): verifier says more=%v, the storage of %x has more=%v", cont, av.Hash, more)
		}
	}
	if len(slots) == 0 && firstElig && origin != (common.Hash{}) && B_ > 0 {
		av := elig[0]
		if len(proof) == 0 {
			return fmt.Sprintf("storage ranges (client check): empty slot set for requested account %x with non-zero origin %x carries no proof of emptiness (indistinguishable from 'state unavailable')", av.Hash, origin)
		}
		cont, err := trie.VerifyRangeProof(av.Root, origin[:], nil, nil, proofDB(proof))
		if err != nil || cont {
			return fmt.Sprintf("storage ranges (client check): proof of emptiness from origin %x does not verify for %x: more=%v err=%v", origin, av.Hash, cont, err)
		}
	}
	return ""
}

func runStorageRanges(bc *core.BlockChain, v *view, r SL) (o reqOut) {
	shape(len(r) == 6, "req1 shape")
	root := reqRoot(r[1], v.Root)
	var accounts []common.Hash
	for _, x := range asL(r[2]) {
		accounts = append(accounts, hashOfInt(x))
	}
	originB, limitB, nbytes := asB(r[3]), asB(r[4]), asU64(r[5])
	req := &snap.GetStorageRangesPacket{ID: 1, Root: root, Accounts: append([]common.Hash{}, accounts...), Bytes: nbytes}
	if len(originB) > 0 {
		req.Origin = append([]byte{}, originB...)
	}
	if len(limitB) > 0 {
		req.Limit = append([]byte{}, limitB...)
	}
	slots, proof := snap.ServiceGetStorageRangesQuery(bc, req)
	lists := SL{}
	for _, l := range slots {
		its := SL{}
		for _, s := range l {
			its = append(its, L(hN(s.Hash), B(s.Body)))
		}
		lists = append(lists, its)
	}
	o.obs = L(lists, Bool(len(proof) > 0))
	o.tags = append(o.tags, "stor", fmt.Sprintf("stor:accounts=%d", min(len(accounts), 4)))
	if root != v.Root {
		o.tags = append(o.tags, "stor:unknown-root")
		if len(slots) != 0 || len(proof) != 0 {
			fail(&o, "storage ranges: data served for an unknown root")
		}
		return
	}
	B_ := capBytes(nbytes)
	hard := hardLimit(B_)
	var origin common.Hash
	limit := common.MaxHash
	if len(originB) > 0 {
		origin = common.BytesToHash(originB)
	}
	if len(limitB) > 0 {
		limit = common.BytesToHash(limitB)
	}
	if bytes.Compare(origin[:], limit[:]) > 0 {
		o.tags = append(o.tags, "stor:inverted")
	}
	// The requester's own check (what the syncer does with the reply), independent of the rest.
	if msg := clientCheckStorage(v, accounts, origin, B_, slots, proof); msg != "" {
		fail(&o, "%s", msg)
	}
	// Assign the returned lists to requested accounts, in request order.
	var size uint64
	ai := 0 // next requested account
	for li, l := range slots {
		if len(l) == 0 {
			fail(&o, "storage ranges: empty slot list %d in the response", li)
			return
		}
		last := li == len(slots)-1
		if li > 0 && size >= B_ {
			fail(&o, "storage ranges: a further account was opened with the byte budget already used (%d >= %d)", size, B_)
		}
		// find the account this list belongs to
		var av *accView
		var from int
		for ; ai < len(accounts); ai++ {
			cand := v.account(accounts[ai])
			var og common.Hash
			if ai == 0 {
				og = origin
			}
			if cand == nil || len(cand.Slots) == 0 {
				continue // nothing to serve for it; the handler emits no list
			}
			f := sort.Search(len(cand.Slots), func(i int) bool { return bytes.Compare(cand.Slots[i].Hash[:], og[:]) >= 0 })
			if f == len(cand.Slots) {
				// only possible for the first account with a non-zero origin behind its last slot:
				// the reply must be the proof of emptiness alone
				fail(&o, "storage ranges: slot set %d served although the first requested account's range from the non-zero origin is empty (it must be answered by a proof of emptiness only; the set would be taken for that account)", li)
				return
			}
			if cand.Slots[f].Hash == l[0].Hash {
				av, from = cand, f
				break
			}
			fail(&o, "storage ranges: list %d does not start at the first slot (>= origin) of the next requested account with storage (gap)", li)
			return
		}
		if av == nil {
			fail(&o, "storage ranges: list %d matches no requested account", li)
			return
		}
		first := ai == 0
		ai++
		if from+len(l) > len(av.Slots) {
			fail(&o, "storage ranges: list %d longer than the account's storage", li)
			return
		}
		var keys, vals [][]byte
		for j, s := range l {
			t := av.Slots[from+j]
			if s.Hash != t.Hash || !bytes.Equal(s.Body, t.Val) {
				fail(&o, "storage ranges: list %d item %d is not the account's next slot (gap or invented data)", li, j)
				return
			}
			if size >= hard {
				fail(&o, "storage ranges: item served with the hard limit already reached (%d >= %d)", size, hard)
			}
			size += uint64(32 + len(s.Body))
			keys = append(keys, append([]byte{}, s.Hash[:]...))
			vals = append(vals, s.Body)
		}
		complete := from == 0 && from+len(l) == len(av.Slots)
		more := from+len(l) < len(av.Slots)
		lim := common.MaxHash
		var og common.Hash
		if first {
			lim, og = limit, origin
		}
		for j := 0; j < len(l)-1; j++ {
			if bytes.Compare(l[j].Hash[:], lim[:]) >= 0 {
				fail(&o, "storage ranges: continued past a slot at or above the limit")
			}
		}
		hasProof := last && len(proof) > 0
		if !last && og != (common.Hash{}) {
			fail(&o, "storage ranges: further accounts served after a range with non-zero origin")
		}
		if hasProof {
			cont, err := trie.VerifyRangeProof(av.Root, og[:], keys, vals, proofDB(proof))
			if err != nil {
				fail(&o, "storage ranges: VerifyRangeProof rejects the proven last range: %v", err)
			} else if cont != more {
				fail(&o, "storage ranges: VerifyRangeProof more=%v but the storage has more=%v", cont, more)
			}
			if more {
				if bytes.Compare(l[len(l)-1].Hash[:], lim[:]) >= 0 {
					o.tags = append(o.tags, "stor:stop-limit")
				} else if size >= hard {
					o.tags = append(o.tags, "stor:stop-hard")
				} else {
					fail(&o, "storage ranges: last range stopped early without reaching the limit or the hard byte limit")
				}
				if len(l) >= 2 && err == nil {
					o.nt = true
				}
			}
			if og == (common.Hash{}) && !more {
				fail(&o, "storage ranges: proof attached to a complete storage served from origin zero")
			}
		} else if complete {
			if _, err := trie.VerifyRangeProof(av.Root, nil, keys, vals, nil); err != nil {
				fail(&o, "storage ranges: VerifyRangeProof rejects a complete storage: %v", err)
			}
			if li > 0 {
				o.tags = append(o.tags, "stor:multi-complete")
			}
		} else {
			// an incomplete storage without a proof (or not last): the consumer cannot verify it.
			// (The handler before /repo 1d1b984ea0 did this for origin zero + stop at req.Limit.)
			fail(&o, "storage ranges: incomplete storage range returned without proof (list %d of %d, %d of %d slots, origin %x, limit %x)", li, len(slots), len(l), len(av.Slots), og, lim)
		}
	}
	if len(slots) == 0 {
		o.tags = append(o.tags, "stor:empty")
		if len(proof) > 0 {
			o.tags = append(o.tags, "stor:empty-with-proof")
			// proof of an empty range [origin, ...): must verify as such
			if len(accounts) > 0 {
				if av := v.account(accounts[0]); av != nil {
					if cont, err := trie.VerifyRangeProof(av.Root, origin[:], nil, nil, proofDB(proof)); err != nil || cont {
						fail(&o, "storage ranges: empty proven range does not verify: more=%v err=%v", cont, err)
					}
				}
			}
		}
		// something must be served when the first account has slots from the origin and B > 0
		if B_ > 0 && len(accounts) > 0 {
			if av := v.account(accounts[0]); av != nil {
				f := sort.Search(len(av.Slots), func(i int) bool { return bytes.Compare(av.Slots[i].Hash[:], origin[:]) >= 0 })
				if f < len(av.Slots) {
					fail(&o, "storage ranges: empty response although the first account has slots at or after the origin")
				}
			}
		}
	} else if len(proof) == 0 && size < B_ {
		// no proof and budget left: every remaining requested account must have been served (none has storage left)
		for ; ai < len(accounts); ai++ {
			if cand := v.account(accounts[ai]); cand != nil && len(cand.Slots) > 0 {
				fail(&o, "storage ranges: stopped before account %d with budget left and no proof", ai)
				break
			}
		}
	}
	return
}

func runByteCodes(bc *core.BlockChain, v *view, r SL) (o reqOut) {
	shape(len(r) == 3, "req2 shape")
	var hashes []common.Hash
	for _, x := range asL(r[1]) {
		hashes = append(hashes, hashOfInt(x))
	}
	nbytes := asU64(r[2])
	codes := snap.ServiceGetByteCodesQuery(bc, &snap.GetByteCodesPacket{ID: 1, Hashes: append([]common.Hash{}, hashes...), Bytes: nbytes})
	obs := SL{}
	for _, c := range codes {
		obs = append(obs, hN(crypto.Keccak256Hash(c)))
	}
	o.obs = obs
	o.tags = append(o.tags, "code")
	B_ := capBytes(nbytes)
	if len(hashes) > 1024 {
		o.tags = append(o.tags, "code:over-1024")
		hashes = hashes[:1024]
	}
	var total uint64
	hi := 0
	for ci, c := range codes {
		h := crypto.Keccak256Hash(c)
		if ci > 0 && total > B_ {
			fail(&o, "byte codes: budget exceeded before the last code (%d > %d)", total, B_)
		}
		// next requested hash that is available must be this one
		for hi < len(hashes) {
			_, known := v.Codes[hashes[hi]]
			if known || hashes[hi] == types.EmptyCodeHash {
				break
			}
			hi++
		}
		if hi >= len(hashes) || hashes[hi] != h {
			fail(&o, "byte codes: code %d does not hash to the next available requested hash", ci)
			return
		}
		hi++
		total += uint64(len(c))
	}
	if total <= B_ {
		for ; hi < len(hashes); hi++ {
			if _, known := v.Codes[hashes[hi]]; known || hashes[hi] == types.EmptyCodeHash {
				fail(&o, "byte codes: available code %d not served with budget left", hi)
				break
			}
		}
	} else {
		o.tags = append(o.tags, "code:stop-bytes")
	}
	return
}

// RLP encoding of an Sx tree: bytes = string, list = list
func rlpTree(x Sx) []byte {
	switch t := x.(type) {
	case SB:
		enc, _ := rlp.EncodeToBytes([]byte(t))
		return enc
	case SL:
		var items []rlp.RawValue
		for _, y := range t {
			items = append(items, rlpTree(y))
		}
		if items == nil {
			items = []rlp.RawValue{}
		}
		enc, _ := rlp.EncodeToBytes(items)
		return enc
	}
	panic("hxlib: integer inside a path tree")
}

func runTrieNodes(bc *core.BlockChain, v *view, r SL) (o reqOut) {
	shape(len(r) == 4, "req3 shape")
	root, sets, nbytes := reqRoot(r[1], v.Root), asL(r[2]), asU64(r[3])
	enc, err := rlp.EncodeToBytes([]interface{}{uint64(1), root, rlp.RawValue(rlpTree(sets)), nbytes})
	if err != nil {
		panic("hxlib: encode trie nodes request: " + err.Error())
	}
	var req snap.GetTrieNodesPacket
	if err := rlp.DecodeBytes(enc, &req); err != nil {
		panic("hxlib: decode trie nodes request: " + err.Error())
	}
	nodes, serr := snap.ServiceGetTrieNodesQuery(bc, &req)
	blobs := SL{}
	for _, n := range nodes {
		if len(n) == 0 {
			blobs = append(blobs, L())
		} else {
			blobs = append(blobs, L(hN(crypto.Keccak256Hash(n))))
		}
	}
	o.obs = L(blobs, Bool(serr != nil))
	o.tags = append(o.tags, "node")
	if serr != nil {
		o.tags = append(o.tags, "node:error")
	}
	if root != v.Root {
		if root == (common.Hash{}) || root == types.EmptyRootHash {
			// trie.New opens these as the empty trie: only empty blobs may come back
			o.tags = append(o.tags, "node:empty-root")
			for _, n := range nodes {
				if len(n) != 0 {
					fail(&o, "trie nodes: node data served from the empty trie")
				}
			}
			return
		}
		o.tags = append(o.tags, "node:unknown-root")
		if len(nodes) != 0 || serr != nil {
			fail(&o, "trie nodes: data or error for an unknown root")
		}
		return
	}
	// flatten the requested (owner, path) sequence; note malformed shapes
	type want struct {
		nodes []nodeEnt
		path  []byte
		none  bool // account not in the state: nothing may be served for it
	}
	var wants []want
	malformed := false
	for _, s := range sets {
		sl, ok := s.(SL)
		if !ok || len(sl) == 0 {
			malformed = true
			break
		}
		k, ok := sl[0].(SB)
		if !ok {
			malformed = true
			break
		}
		if len(sl) == 1 {
			wants = append(wants, want{nodes: v.Nodes, path: trie.VerifCompactToHex([]byte(k))})
			continue
		}
		av := v.account(common.BytesToHash([]byte(k)))
		if av == nil {
			continue // account not in the state: the handler skips the set without looking at its paths
		}
		bad := false
		for _, p := range sl[1:] {
			pb, ok := p.(SB)
			if !ok {
				bad = true
				break
			}
			wants = append(wants, want{nodes: av.Nodes, path: trie.VerifCompactToHex([]byte(pb))})
		}
		if bad {
			malformed = true
			break
		}
	}
	if serr != nil && !malformed {
		fail(&o, "trie nodes: error returned for a well-formed request: %v", serr)
	}
	B_ := capBytes(nbytes)
	var total uint64
	wi := 0
	for ni, n := range nodes {
		if ni > 0 && total > B_ {
			fail(&o, "trie nodes: budget exceeded before the last node (%d > %d)", total, B_)
		}
		total += uint64(len(n))
		matched := false
		for ; wi < len(wants) && !matched; wi++ {
			w := wants[wi]
			var ent *nodeEnt
			for i := range w.nodes {
				if bytes.Equal(w.nodes[i].Path, w.path) {
					ent = &w.nodes[i]
					break
				}
			}
			if len(n) == 0 {
				matched = ent == nil
			} else {
				matched = ent != nil && ent.Stored && ent.Hash == crypto.Keccak256Hash(n) && ent.Len == len(n)
			}
		}
		if !matched {
			fail(&o, "trie nodes: node %d is not the trie node at any remaining requested path", ni)
			return
		}
		if len(n) > 0 {
			o.nt = true
		}
	}
	if total > B_ {
		o.tags = append(o.tags, "node:stop-bytes")
	}
	if len(wants) > 1024 {
		o.tags = append(o.tags, "node:over-1024")
	}
	return
}

func run(c Sx) Result {
	cl := asL(c)
	shape(len(cl) == 3, "case shape")
	spec := parseSpec(cl[2])
	bc, root := buildChain(spec)
	defer bc.Stop()
	v := computeView(bc, root, spec)
	res := Result{Tags: []string{fmt.Sprintf("scheme=%d", spec.Scheme), fmt.Sprintf("blocks=%d", spec.Blocks),
		fmt.Sprintf("accounts=%d", min(len(v.Accounts)/4*4, 16))}}
	viewOK := String(v.sx()) == String(cl[0])
	obs := SL{}
	for _, rx := range asL(cl[1]) {
		r := asL(rx)
		shape(len(r) >= 1, "request shape")
		var o reqOut
		switch asU64(r[0]) {
		case 0:
			o = runAccountRange(bc, v, r)
		case 1:
			o = runStorageRanges(bc, v, r)
		case 2:
			o = runByteCodes(bc, v, r)
		case 3:
			o = runTrieNodes(bc, v, r)
		default:
			shape(false, "request kind")
		}
		obs = append(obs, o.obs)
		if o.oracle != "" && res.Oracle == "" {
			res.Oracle = o.oracle
		}
		res.Tags = append(res.Tags, o.tags...)
		res.NonTrivial = res.NonTrivial || o.nt
	}
	if viewOK {
		res.Obs = obs
	} else {
		res.Obs = L(I(-2))
		res.Tags = append(res.Tags, "view-mismatch")
	}
	// de-duplicate tags
	sort.Strings(res.Tags)
	out := res.Tags[:0]
	for i, t := range res.Tags {
		if i == 0 || t != res.Tags[i-1] {
			out = append(out, t)
		}
	}
	res.Tags = out
	return res
}

// ---------------------------------------------------------------- generator

func genSpec(r *Rng) *stateSpec {
	s := &stateSpec{Scheme: r.Intn(2), Blocks: 0}
	if r.Chance(1, 3) {
		s.Blocks = r.Range(1, 2)
	}
	n := 0
	switch r.Intn(10) {
	case 0:
		n = 0
	case 1:
		n = 1
	case 2, 3:
		n = r.Range(2, 4)
	default:
		n = r.Range(5, 14)
	}
	sharedCode := r.Bytes(r.Range(1, 40))
	for i := 0; i < n; i++ {
		a := accSpec{Addr: common.BytesToAddress(r.Bytes(20)), Nonce: uint64(r.Intn(3)), Balance: new(big.Int).SetBytes(r.Bytes(r.Range(0, 9)))}
		if a.Nonce == 2 {
			a.Nonce = r.U64() >> uint(r.Intn(64))
		}
		switch r.Intn(6) {
		case 0:
			a.Code = sharedCode
		case 1:
			a.Code = r.Bytes(r.Range(1, 60))
		case 2:
			a.Code = r.Bytes(r.Range(100, 300))
		}
		ns := 0
		switch r.Intn(10) {
		case 0, 1, 2, 3:
			ns = 0
		case 4, 5:
			ns = r.Range(1, 2)
		case 6, 7:
			ns = r.Range(3, 8)
		case 8:
			ns = r.Range(9, 20)
		default:
			ns = r.Range(21, 48)
		}
		for j := 0; j < ns; j++ {
			var k, val common.Hash
			copy(k[:], r.Bytes(32))
			vb := r.Bytes(r.Range(1, 32))
			if vb[0] == 0 {
				vb[0] = 1
			}
			copy(val[32-len(vb):], vb)
			a.Storage = append(a.Storage, [2]common.Hash{k, val})
		}
		s.Accounts = append(s.Accounts, a)
	}
	s.normalise()
	return s
}

func addBig(h common.Hash, d int64) common.Hash {
	v := new(big.Int).SetBytes(h[:])
	v.Add(v, big.NewInt(d))
	if v.Sign() < 0 {
		v.SetInt64(0)
	}
	if v.BitLen() > 256 {
		return common.MaxHash
	}
	return common.BigToHash(v)
}

func randHash(r *Rng) common.Hash { var h common.Hash; copy(h[:], r.Bytes(32)); return h }

// a key in or around the sorted key list
func pickKey(r *Rng, keys []common.Hash) common.Hash {
	if len(keys) == 0 || r.Chance(1, 8) {
		return randHash(r)
	}
	k := keys[r.Intn(len(keys))]
	switch r.Intn(4) {
	case 0:
		return addBig(k, 1)
	case 1:
		return addBig(k, -1)
	}
	return k
}

func pickBytes(r *Rng, sizes []int) uint64 {
	switch r.Intn(12) {
	case 0:
		return 0
	case 1:
		return 1
	case 2:
		return r.U64()
	case 3:
		return softLimit + uint64(r.Intn(3)) - 1
	case 4:
		return uint64(r.Intn(1 << 16))
	}
	if len(sizes) > 0 {
		// around a cumulative size of the data to be served
		s := sizes[r.Intn(len(sizes))]
		return uint64(max(0, s+r.Range(-3, 3)))
	}
	return uint64(r.Intn(800))
}

func cumSizes(lens []int) []int {
	var out []int
	t := 0
	for _, l := range lens {
		t += l
		out = append(out, t)
	}
	return out
}

func genRootField(r *Rng, adversarial bool) Sx {
	if adversarial && r.Chance(1, 6) {
		switch r.Intn(3) {
		case 0:
			return I(0)
		case 1:
			return hN(types.EmptyRootHash)
		}
		return hN(randHash(r))
	}
	return I(1)
}

func genOriginBytes(r *Rng, keys []common.Hash, adversarial bool) []byte {
	switch r.Intn(10) {
	case 0, 1, 2, 3:
		return nil
	case 4:
		return make([]byte, 32)
	case 5:
		if adversarial {
			switch r.Intn(4) {
			case 0:
				return r.Bytes(r.Range(1, 31))
			case 1:
				return r.Bytes(r.Range(33, 40))
			case 2:
				return make([]byte, r.Range(1, 40))
			}
			return bytes.Repeat([]byte{0xff}, 32)
		}
	}
	if len(keys) > 0 && r.Chance(1, 4) {
		// behind the last slot: the requested range is empty
		k := addBig(keys[len(keys)-1], int64(r.Range(1, 3)))
		if r.Chance(1, 4) {
			k = common.MaxHash
		}
		return k[:]
	}
	k := pickKey(r, keys)
	return k[:]
}

func compactOf(hexPath []byte, term bool) []byte {
	h := append([]byte{}, hexPath...)
	if term {
		h = append(h, 16)
	}
	return trie.VerifHexToCompact(h)
}

func genPath(r *Rng, nodes []nodeEnt, adversarial bool) Sx {
	if adversarial && r.Chance(1, 4) {
		switch r.Intn(4) {
		case 0:
			return B(r.Bytes(r.Range(1, 4)))
		case 1:
			return B(r.Bytes(r.Range(34, 70))) // over-long
		case 2:
			return B(r.Bytes(33))
		}
		return B(nil)
	}
	if len(nodes) == 0 || r.Chance(1, 8) {
		n := r.Intn(4)
		p := make([]byte, n)
		for i := range p {
			p[i] = byte(r.Intn(16))
		}
		return B(compactOf(p, false))
	}
	e := nodes[r.Intn(len(nodes))]
	p := e.Path
	term := false
	if len(p) > 0 && p[len(p)-1] == 16 {
		p, term = p[:len(p)-1], true
		if r.Chance(1, 2) { // mostly cut value paths down to something shorter
			p, term = p[:r.Intn(len(p)+1)], false
		}
	}
	if r.Chance(1, 6) && len(p) > 0 {
		p = p[:r.Intn(len(p))]
	}
	if r.Chance(1, 8) {
		p = append(append([]byte{}, p...), byte(r.Intn(16)))
	}
	return B(compactOf(p, term))
}

func genReqs(r *Rng, v *view, adversarial bool, big_ bool) SL {
	var accKeys []common.Hash
	var accLens []int
	for _, a := range v.Accounts {
		accKeys = append(accKeys, a.Hash)
		accLens = append(accLens, 32+len(a.Slim))
	}
	reqs := SL{}
	nreq := r.Range(10, 18)
	for i := 0; i < nreq; i++ {
		switch r.Intn(9) {
		case 0, 1, 2: // account range
			origin := common.Hash{}
			if r.Chance(2, 3) {
				origin = pickKey(r, accKeys)
			}
			limit := common.MaxHash
			switch r.Intn(6) {
			case 0, 1:
				limit = pickKey(r, accKeys)
			case 2:
				limit = origin
			case 3:
				if adversarial {
					limit = addBig(origin, -int64(r.Range(1, 1000))) // inverted
				}
			case 4:
				if adversarial {
					limit = common.Hash{}
				}
			}
			i0 := sort.Search(len(accKeys), func(i int) bool { return bytes.Compare(accKeys[i][:], origin[:]) >= 0 })
			reqs = append(reqs, L(I(0), genRootField(r, adversarial), hN(origin), hN(limit), U(pickBytes(r, cumSizes(accLens[i0:])))))
		case 3, 4, 5: // storage ranges
			var accs SL
			var firstKeys []common.Hash
			var lens []int
			na := r.Range(0, 5)
			if r.Chance(1, 4) {
				na = 1
			}
			if adversarial && r.Chance(1, 5) {
				na = r.Range(6, 20)
			}
			for j := 0; j < na; j++ {
				if len(v.Accounts) == 0 || r.Chance(1, 10) {
					accs = append(accs, hN(randHash(r)))
					continue
				}
				a := v.Accounts[r.Intn(len(v.Accounts))]
				if len(a.Slots) == 0 && r.Chance(2, 3) { // prefer accounts with storage
					a = v.Accounts[r.Intn(len(v.Accounts))]
				}
				accs = append(accs, hN(a.Hash))
				if j == 0 {
					for _, s := range a.Slots {
						firstKeys = append(firstKeys, s.Hash)
					}
				}
				for _, s := range a.Slots {
					lens = append(lens, 32+len(s.Val))
				}
			}
			if accs == nil {
				accs = SL{}
			}
			ob := genOriginBytes(r, firstKeys, adversarial)
			var lb []byte
			if r.Chance(1, 2) {
				lb = genOriginBytes(r, firstKeys, adversarial)
			}
			reqs = append(reqs, L(I(1), genRootField(r, adversarial), accs, B(ob), B(lb), U(pickBytes(r, cumSizes(lens)))))
		case 6: // byte codes
			hs := SL{}
			var lens []int
			nh := r.Range(0, 8)
			if big_ && r.Chance(1, 3) {
				nh = r.Range(1020, 1040)
			}
			for j := 0; j < nh; j++ {
				switch {
				case len(v.CodeList) > 0 && r.Chance(3, 5):
					h := v.CodeList[r.Intn(len(v.CodeList))]
					hs = append(hs, hN(h))
					lens = append(lens, len(v.Codes[h]))
				case r.Chance(1, 4):
					hs = append(hs, hN(types.EmptyCodeHash))
				default:
					hs = append(hs, hN(randHash(r)))
				}
			}
			reqs = append(reqs, L(I(2), hs, U(pickBytes(r, cumSizes(lens)))))
		default: // trie nodes
			sets := SL{}
			ns := r.Range(0, 6)
			if big_ && r.Chance(1, 3) {
				ns = r.Range(1000, 1100)
			}
			var lens []int
			for j := 0; j < ns; j++ {
				if adversarial && r.Chance(1, 12) {
					switch r.Intn(5) {
					case 0:
						sets = append(sets, L()) // zero-item pathset
					case 1:
						sets = append(sets, B(r.Bytes(r.Range(0, 3)))) // string instead of a list
					case 2:
						sets = append(sets, L(L(B([]byte{1})))) // list as account key
					case 3:
						sets = append(sets, L(L(), B(nil)))
					default:
						k := randHash(r)
						if len(v.Accounts) > 0 && r.Chance(2, 3) {
							k = v.Accounts[r.Intn(len(v.Accounts))].Hash
						}
						sets = append(sets, L(B(k[:]), B(nil), L(B(nil)))) // list as storage path
					}
					continue
				}
				if r.Chance(1, 2) || len(v.Accounts) == 0 {
					sets = append(sets, L(genPath(r, v.Nodes, adversarial)))
					lens = append(lens, 100)
					continue
				}
				a := v.Accounts[r.Intn(len(v.Accounts))]
				if len(a.Slots) == 0 && r.Chance(2, 3) {
					a = v.Accounts[r.Intn(len(v.Accounts))]
				}
				key := B(a.Hash[:])
				if r.Chance(1, 10) {
					key = B(r.Bytes(r.Range(0, 40)))
				}
				ps := SL{key}
				np := r.Range(1, 5)
				if big_ && ns < 100 && r.Chance(1, 4) {
					np = r.Range(500, 1100)
				}
				for q := 0; q < np; q++ {
					ps = append(ps, genPath(r, a.Nodes, adversarial))
					lens = append(lens, 100)
				}
				sets = append(sets, ps)
			}
			reqs = append(reqs, L(I(3), genRootField(r, adversarial), sets, U(pickBytes(r, cumSizes(lens)))))
		}
	}
	return reqs
}

func gen(r *Rng, tier string, emit func(Sx)) {
	r = NewRng(r.U64())
	n := 220
	if tier == "thorough" {
		n = 2500
	}
	for _, w := range witnessCases() {
		emit(w)
	}
	for i := 0; i < n; i++ {
		spec := genSpec(r)
		bc, root := buildChain(spec)
		v := computeView(bc, root, spec)
		adversarial := i%3 == 2
		big_ := i%15 == 7
		reqs := genReqs(r, v, adversarial, big_)
		bc.Stop()
		emit(L(v.sx(), reqs, spec.sx()))
	}
}

// the recorded finding (repaired in /repo 1d1b984ea0): origin absent/zero, iteration stopped at
// req.Limit before the end of the storage; one and two requested accounts
func witnessCases() []Sx {
	var out []Sx
	for scheme := 0; scheme < 2; scheme++ {
		spec := &stateSpec{Scheme: scheme, Accounts: []accSpec{
			{Addr: common.HexToAddress("0x67408c17eeaa82bc5759571657476edf651e7662"), Balance: new(big.Int),
				Storage: [][2]common.Hash{{common.Hash{}, common.BytesToHash([]byte{0xc6})}, {common.BytesToHash([]byte{0xff}), common.BytesToHash([]byte{0x45})}}},
			{Addr: common.HexToAddress("0x00000000000000000000000000000000000000aa"), Balance: big.NewInt(7),
				Storage: [][2]common.Hash{{common.BytesToHash([]byte{1}), common.BytesToHash([]byte{2})}}},
		}}
		bc, root := buildChain(spec)
		v := computeView(bc, root, spec)
		bc.Stop()
		var both, rev SL
		for _, a := range v.Accounts {
			both = append(both, hN(a.Hash))
			rev = append(SL{hN(a.Hash)}, rev...)
		}
		var reqs SL
		for _, accs := range []SL{both[:1], both[1:], both, rev} {
			reqs = append(reqs,
				L(I(1), I(1), accs, B(nil), B([]byte{0}), U(1)),
				L(I(1), I(1), accs, B(nil), B([]byte{0}), U(100000)),
				L(I(1), I(1), accs, B(make([]byte, 32)), B(make([]byte, 32)), U(100000)))
		}
		// origins behind the last slot, at the last slot, between and at the first slot of the
		// FIRST requested account, with one and several accounts per request
		for _, order := range [][]int{{0}, {1}, {0, 1}, {1, 0}, {0, 1, 0}} {
			var accs SL
			for _, i := range order {
				accs = append(accs, hN(v.Accounts[i].Hash))
			}
			sl := v.Accounts[order[0]].Slots
			lastK, firstK := sl[len(sl)-1].Hash, sl[0].Hash
			for _, og := range []common.Hash{addBig(lastK, 1), common.MaxHash, lastK, addBig(firstK, 1), firstK, addBig(firstK, -1)} {
				reqs = append(reqs, L(I(1), I(1), accs, B(og[:]), B(nil), U(100000)), L(I(1), I(1), accs, B(og[:]), B(common.MaxHash[:]), U(1)))
			}
		}
		out = append(out, L(v.sx(), reqs, spec.sx()))
	}
	return out
}

func main() {
	Main(Family{
		ID: "C48",
		Rule: "a random genesis state (hash or path scheme, 0-2 empty blocks on top, 0-14 accounts with random nonce/balance/code and 0-48 storage slots) is built in a real core.BlockChain over a memory database; 10-18 requests per state: account ranges (origin/limit at, next to and between existing account hashes, inverted, limit=origin, zero), storage ranges over 0-20 accounts incl. unknown, repeated and storage-less ones with origin/limit byte strings of any length, byte codes incl. unknown, empty-code and >1024 hashes, trie node path sets incl. prefixes of existing node paths, value paths, over-long and random paths, malformed shapes and >1024 lookups; byte budgets 0, 1, around the cumulative sizes, around softResponseLimit, 2^64-ish; a third of the cases use the adversarial stream (unknown roots, malformed shapes). Non-trivial: some range response has >= 2 items, was cut by limit/budget with more data remaining and is accepted by trie.VerifyRangeProof with more=true, or a trie node blob was served.",
		Gen:  gen,
		Run:  run,
	})
}
