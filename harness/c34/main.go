// Family c34: stateless re-execution from the collected witness
// (core/stateless.go ExecuteStateless, core/stateless/witness.go + database.go MakeHashDB,
// trie/trie.go Witness()/prevalueTracer/resolveAndTrack, core/state witness collection,
// core/blockchain.go ProcessBlock with MakeWitness) vs coq/Trie/Witness.v.
//
// Two kinds of cases.
//
// kind 0, trie level (compared with the Coq model):
//
//	( 0 scheme ( trie.. ) ( op.. ) ( junk.. ) ( removal.. ) )
//	  scheme  0 = hash scheme, 1 = path scheme (triedb over rawdb.NewMemoryDatabase)
//	  trie    ( (x<key> x<value>).. )   initial content of committed trie j (trie 0 = account
//	          trie, owner zero; trie j>0 = storage trie of owner keccak(byte j))
//	  op      (3 j)               trie.New at the root of initial trie j -> session id = number
//	                              of opens so far; j >= number of tries: an unknown root
//	          (0 i x<key> x<val>) Trie.Update on session i (empty value deletes)
//	          (1 i x<key>)        Trie.Delete on session i
//	          (2 i x<key>)        Trie.Get on session i
//	  junk    x<blob>             extra blobs thrown into the witness before MakeHashDB
//	  removal integer r           re-run without witness node number r mod |witness| (sorted by hash)
//
//	observation ( 0 (x<root_j>..) full )                        when the full run fails
//	            ( 0 (x<root_j>..) full stateless 1 (x<hash>..) (removalres..) )
//	  full, stateless, removalres = (1 ((x<value>)|()..) (x<root>..)) | (-2 class)
//	      get results in order, Trie.Hash() of every session at the end;
//	      class 1 = MissingNodeError, 2 = panic / bad session id, 4 = other error
//	  (x<hash>..) = keccak of every node of the union of trie.Witness() of all sessions, sorted
//
// kind 1, block level (Go oracle only; the model returns the predicted constants):
//
//	( 1 seed mode nblocks nremovals )     mode 0 = hash scheme + snapshot, 1 = hash scheme,
//	                                      2 = path scheme;  nremovals < 0 = all
//	observation ( 1 ok_state ok_receipt silent )   silent = number of single removals after
//	      which ExecuteStateless returned err == nil AND both header roots
package main

import (
	"bytes"
	"context"
	"crypto/ecdsa"
	"errors"
	"fmt"
	"math/big"
	"sort"
	"strings"
	"sync"

	"github.com/ethereum/go-ethereum/common"
	"github.com/ethereum/go-ethereum/consensus"
	"github.com/ethereum/go-ethereum/consensus/beacon"
	"github.com/ethereum/go-ethereum/consensus/ethash"
	"github.com/ethereum/go-ethereum/core"
	"github.com/ethereum/go-ethereum/core/rawdb"
	"github.com/ethereum/go-ethereum/core/state"
	"github.com/ethereum/go-ethereum/core/stateless"
	"github.com/ethereum/go-ethereum/core/types"
	"github.com/ethereum/go-ethereum/core/vm"
	"github.com/ethereum/go-ethereum/crypto"
	"github.com/ethereum/go-ethereum/ethdb"
	"github.com/ethereum/go-ethereum/params"
	"github.com/ethereum/go-ethereum/trie"
	"github.com/ethereum/go-ethereum/trie/trienode"
	"github.com/ethereum/go-ethereum/triedb"
	"github.com/ethereum/go-ethereum/triedb/pathdb"
	. "gethverif/harness/hxlib"
)

// ======================================================================== trie level

func newTrieDB(scheme int) (ethdb.Database, *triedb.Database) {
	disk := rawdb.NewMemoryDatabase()
	if scheme == 0 {
		return disk, triedb.NewDatabase(disk, triedb.HashDefaults)
	}
	conf := *pathdb.Defaults
	conf.NoAsyncFlush = true
	conf.NoAsyncGeneration = true
	return disk, triedb.NewDatabase(disk, &triedb.Config{PathDB: &conf})
}

func ownerOf(j int) common.Hash {
	if j == 0 {
		return common.Hash{}
	}
	return crypto.Keccak256Hash([]byte{byte(j)})
}

func bogusRoot(j int) common.Hash {
	return crypto.Keccak256Hash([]byte("c34-unknown-root"), []byte{byte(j)})
}

type kvp struct{ k, v []byte }

// buildTries commits the initial tries into a fresh node database and returns their roots.
func buildTries(scheme int, tries [][]kvp) (*triedb.Database, []common.Hash, error) {
	_, db := newTrieDB(scheme)
	roots := make([]common.Hash, len(tries))
	merged := trienode.NewMergedNodeSet()
	var sets []*trienode.NodeSet
	for j, kvs := range tries {
		var t *trie.Trie
		var err error
		if j == 0 {
			t = trie.NewEmpty(db)
		} else {
			t, err = trie.New(trie.StorageTrieID(types.EmptyRootHash, ownerOf(j), types.EmptyRootHash), db)
			if err != nil {
				return nil, nil, err
			}
		}
		for _, e := range kvs {
			if err := t.Update(e.k, e.v); err != nil {
				return nil, nil, err
			}
		}
		root, nodes := t.Commit(false)
		roots[j] = root
		if nodes != nil {
			sets = append(sets, nodes)
			if err := merged.Merge(nodes); err != nil {
				return nil, nil, err
			}
		}
	}
	if scheme == 0 {
		// hash scheme: every trie is committed on its own (storage tries are not referenced
		// by decodable account leaves here)
		for j := range tries {
			if roots[j] == types.EmptyRootHash {
				continue
			}
			for _, ns := range sets {
				if ns.Owner == ownerOf(j) {
					if err := db.Update(roots[j], types.EmptyRootHash, uint64(j+1), trienode.NewWithNodeSet(ns), triedb.NewStateSet()); err != nil {
						return nil, nil, err
					}
					if err := db.Commit(roots[j], false); err != nil {
						return nil, nil, err
					}
				}
			}
		}
		return db, roots, nil
	}
	if roots[0] == types.EmptyRootHash {
		return db, roots, nil // nothing to flush (the generator keeps trie 0 non-empty)
	}
	if err := db.Update(roots[0], types.EmptyRootHash, 1, merged, triedb.NewStateSet()); err != nil {
		return nil, nil, err
	}
	if err := db.Commit(roots[0], false); err != nil {
		return nil, nil, err
	}
	return db, roots, nil
}

type sessRes struct {
	cls   int      // 0 = ok
	vals  [][]byte // get results (nil = absent), in order
	has   []bool
	roots []common.Hash
	tries []*trie.Trie
}

func errClass(err error) int {
	var m *trie.MissingNodeError
	if errors.As(err, &m) {
		return 1
	}
	return 4
}

// runSession runs the operations against node database db.  stateRoot is the root used
// to obtain the node reader (path scheme: the state the tries belong to).
func runSession(db *triedb.Database, scheme int, stateRoot common.Hash, roots []common.Hash, ops SL) sessRes {
	var res sessRes
	var owners []int
	for _, o := range ops {
		op := AsList(o)
		switch AsInt(op[0]) {
		case 3:
			j := AsInt(op[1])
			var root common.Hash
			if j >= 0 && j < len(roots) {
				root = roots[j]
			} else {
				root = bogusRoot(j)
			}
			var id *trie.ID
			jj := j
			if jj < 0 || jj >= len(roots) {
				jj = 0
			}
			if scheme == 0 || jj == 0 {
				// hash-keyed databases ignore the owner; the account trie has owner zero
				id = trie.TrieID(root)
				if scheme == 1 {
					id = &trie.ID{StateRoot: stateRoot, Owner: common.Hash{}, Root: root}
				}
			} else {
				id = trie.StorageTrieID(stateRoot, ownerOf(jj), root)
			}
			t, err := trie.New(id, db)
			if err != nil {
				res.cls = errClass(err)
				return res
			}
			res.tries = append(res.tries, t)
			owners = append(owners, jj)
		case 0, 1, 2:
			i := AsInt(op[1])
			if i < 0 || i >= len(res.tries) {
				res.cls = 2
				return res
			}
			t := res.tries[i]
			key := AsBytes(op[2])
			switch AsInt(op[0]) {
			case 0:
				if err := t.Update(key, AsBytes(op[3])); err != nil {
					res.cls = errClass(err)
					return res
				}
			case 1:
				if err := t.Delete(key); err != nil {
					res.cls = errClass(err)
					return res
				}
			case 2:
				v, err := t.Get(key)
				if err != nil {
					res.cls = errClass(err)
					return res
				}
				res.vals = append(res.vals, v)
				res.has = append(res.has, len(v) > 0)
			}
		default:
			panic("hxlib: bad op")
		}
	}
	for _, t := range res.tries {
		res.roots = append(res.roots, t.Hash())
	}
	return res
}

func (r sessRes) sx() Sx {
	if r.cls != 0 {
		return L(I(-2), I(int64(r.cls)))
	}
	vals := SL{}
	for i, v := range r.vals {
		vals = append(vals, Opt(r.has[i], B(v)))
	}
	roots := SL{}
	for _, h := range r.roots {
		roots = append(roots, B(h[:]))
	}
	return L(I(1), vals, roots)
}

func (r sessRes) same(o sessRes) bool {
	return String(r.sx()) == String(o.sx())
}

// statelessRun builds a stateless.Witness from the given node blobs, turns it into a
// hash database with MakeHashDB and re-runs the session on it.
func statelessRun(nodes [][]byte, roots []common.Hash, ops SL) sessRes {
	w, err := stateless.NewWitness(&types.Header{Number: big.NewInt(1)}, nil, false)
	if err != nil {
		panic("NewWitness: " + err.Error())
	}
	m := map[string][]byte{}
	for i, b := range nodes {
		m[fmt.Sprint(i)] = b
	}
	w.AddState(m, common.Hash{})
	memdb := w.MakeHashDB()
	db := triedb.NewDatabase(memdb, triedb.HashDefaults)
	defer db.Close()
	return runSession(db, 0, common.Hash{}, roots, ops)
}

func runTrieCase(top SL) Result {
	scheme := AsInt(top[1])
	var tries [][]kvp
	nkeys := 0
	for _, t := range AsList(top[2]) {
		var kvs []kvp
		for _, e := range AsList(t) {
			p := AsList(e)
			kvs = append(kvs, kvp{AsBytes(p[0]), AsBytes(p[1])})
		}
		nkeys += len(kvs)
		tries = append(tries, kvs)
	}
	ops := AsList(top[3])
	var junk [][]byte
	for _, j := range AsList(top[4]) {
		junk = append(junk, AsBytes(j))
	}
	removals := AsList(top[5])

	res := Result{}
	tag := map[string]bool{}
	db, roots, err := buildTries(scheme, tries)
	if err != nil {
		return Result{Obs: L(I(0), I(-3)), Oracle: "", Tags: []string{"build-error"}}
	}
	defer db.Close()
	rootsSx := SL{}
	for _, h := range roots {
		rootsSx = append(rootsSx, B(h[:]))
	}
	stateRoot := common.Hash{}
	if len(roots) > 0 {
		stateRoot = roots[0]
	}
	full := runSession(db, scheme, stateRoot, roots, ops)
	if full.cls != 0 {
		res.Obs = L(I(0), rootsSx, full.sx())
		res.Tags = []string{fmt.Sprintf("full-error-%d", full.cls)}
		return res
	}
	// the witness: union of Trie.Witness() of every session, as stateless.Witness collects it
	wset := map[string][]byte{}
	for _, t := range full.tries {
		for _, blob := range t.Witness() {
			wset[string(crypto.Keccak256(blob))] = blob
		}
	}
	var hashes []string
	for h := range wset {
		hashes = append(hashes, h)
	}
	sort.Strings(hashes)
	hsx := SL{}
	var nodes [][]byte
	for _, h := range hashes {
		hsx = append(hsx, B([]byte(h)))
		nodes = append(nodes, wset[h])
	}
	var fails []string
	st := statelessRun(append(append([][]byte{}, nodes...), junk...), roots, ops)
	if !st.same(full) {
		fails = append(fails, fmt.Sprintf("stateless re-run differs from the full run: full %s stateless %s", String(full.sx()), String(st.sx())))
	}
	remSx := SL{}
	detected := 0
	for _, rm := range removals {
		if len(nodes) == 0 {
			remSx = append(remSx, L())
			continue
		}
		r := AsInt(rm) % len(nodes)
		if r < 0 {
			r += len(nodes)
		}
		var sub [][]byte
		for i, b := range nodes {
			if i != r {
				sub = append(sub, b)
			}
		}
		sub = append(sub, junk...)
		rr := statelessRun(sub, roots, ops)
		remSx = append(remSx, rr.sx())
		readded := false
		for _, j := range junk {
			if bytes.Equal(j, nodes[r]) {
				readded = true
			}
		}
		switch {
		case readded:
			if !rr.same(full) {
				fails = append(fails, "re-added node: re-run differs")
			}
		case rr.cls == 1:
			detected++
		case rr.cls == 0 && rr.same(full):
			fails = append(fails, fmt.Sprintf("removal of witness node %d (%x) not detected: same result", r, hashes[r]))
		case rr.cls == 0:
			fails = append(fails, fmt.Sprintf("removal of witness node %d gives a DIFFERENT result %s", r, String(rr.sx())))
		default:
			fails = append(fails, fmt.Sprintf("removal of witness node %d: error class %d", r, rr.cls))
		}
	}
	res.Obs = L(I(0), rootsSx, full.sx(), st.sx(), I(1), hsx, remSx)
	if len(fails) > 0 {
		res.Oracle = strings.Join(fails, "; ")
	}
	tag[fmt.Sprintf("scheme-%d", scheme)] = true
	tag[fmt.Sprintf("tries-%d", len(tries))] = true
	tag[bucket("keys", nkeys)] = true
	tag[bucket("ops", len(ops))] = true
	tag[bucket("witness", len(nodes))] = true
	tag[bucket("sessions", len(full.tries))] = true
	if len(junk) > 0 {
		tag["junk"] = true
	}
	if detected > 0 {
		tag["removal-detected"] = true
	}
	for t := range tag {
		res.Tags = append(res.Tags, t)
	}
	res.NonTrivial = len(nodes) >= 2 && len(ops) >= 3
	return res
}

func bucket(name string, n int) string {
	switch {
	case n == 0:
		return name + "-0"
	case n <= 2:
		return name + "-1..2"
	case n <= 8:
		return name + "-3..8"
	case n <= 32:
		return name + "-9..32"
	default:
		return name + "-33+"
	}
}

// ======================================================================== block level

const nEOA = 6

var (
	cfg      *params.ChainConfig
	signer   types.Signer
	keys     []*ecdsa.PrivateKey
	eoas     []common.Address
	gspec    *core.Genesis
	coinbase = common.HexToAddress("0xc01babe000000000000000000000000000000001")

	adder   = common.HexToAddress("0xadde000000000000000000000000000000000001")
	copier  = common.HexToAddress("0xc091000000000000000000000000000000000002")
	zeroer  = common.HexToAddress("0x2e10000000000000000000000000000000000003")
	balrd   = common.HexToAddress("0xba1a000000000000000000000000000000000004")
	factory = common.HexToAddress("0xfac7000000000000000000000000000000000005")
	sizerd  = common.HexToAddress("0x512e000000000000000000000000000000000006")
	killer  = common.HexToAddress("0xdead000000000000000000000000000000000007")
	caller  = common.HexToAddress("0xca11000000000000000000000000000000000008")

	// sstore(cd[0], sload(cd[0]) + cd[32])
	adderCode = []byte{0x60, 0x20, 0x35, 0x60, 0x00, 0x35, 0x54, 0x01, 0x60, 0x00, 0x35, 0x55, 0x00}
	// sstore(cd[32], sload(cd[0]))
	copierCode = []byte{0x60, 0x00, 0x35, 0x54, 0x60, 0x20, 0x35, 0x55, 0x00}
	// sstore(cd[0], 0)
	zeroerCode = []byte{0x60, 0x00, 0x60, 0x00, 0x35, 0x55, 0x00}
	// sstore(cd[0], balance(cd[32]))
	balrdCode = []byte{0x60, 0x20, 0x35, 0x31, 0x60, 0x00, 0x35, 0x55, 0x00}
	// sstore(cd[0], extcodesize(cd[32]))
	sizerdCode = []byte{0x60, 0x20, 0x35, 0x3b, 0x60, 0x00, 0x35, 0x55, 0x00}
	// selfdestruct(cd[0])
	killerCode = []byte{0x60, 0x00, 0x35, 0xff}
	// call(gas, cd[0], callvalue, 0,0,0,0); sstore(0, success)
	callerCode = []byte{0x60, 0x00, 0x60, 0x00, 0x60, 0x00, 0x60, 0x00, 0x34, 0x60, 0x00, 0x35, 0x5a, 0xf1, 0x60, 0x00, 0x55, 0x00}
	// child init code ORIGIN SELFDESTRUCT; factory: create(callvalue, 0, 2); sstore(0, addr)
	factoryCode = []byte{0x60, 0x32, 0x60, 0x00, 0x53, 0x60, 0xff, 0x60, 0x01, 0x53,
		0x60, 0x02, 0x60, 0x00, 0x34, 0xf0, 0x60, 0x00, 0x55, 0x00}
	// top-level create: sstore(1,0x42); return 1-byte runtime [STOP]
	createInit = []byte{0x60, 0x42, 0x60, 0x01, 0x55, 0x60, 0x00, 0x60, 0x00, 0x53, 0x60, 0x01, 0x60, 0x00, 0xf3}

	fillers   []common.Address
	worldOnce sync.Once
)

func gwei(n int64) *big.Int { return new(big.Int).Mul(big.NewInt(n), big.NewInt(params.GWei)) }
func word(v uint64) []byte  { h := common.BigToHash(new(big.Int).SetUint64(v)); return h[:] }

func slots(n int, tagb byte) map[common.Hash]common.Hash {
	m := map[common.Hash]common.Hash{}
	for i := 0; i < n; i++ {
		m[common.BigToHash(big.NewInt(int64(i)))] = common.BytesToHash([]byte{tagb, byte(i + 1)})
	}
	return m
}

func world() {
	worldOnce.Do(func() {
		c := *params.MergedTestChainConfig
		cfg = &c
		signer = types.LatestSigner(cfg)
		alloc := types.GenesisAlloc{
			params.BeaconRootsAddress:        {Nonce: 1, Code: params.BeaconRootsCode, Balance: common.Big0},
			params.HistoryStorageAddress:     {Nonce: 1, Code: params.HistoryStorageCode, Balance: common.Big0},
			params.WithdrawalQueueAddress:    {Nonce: 1, Code: params.WithdrawalQueueCode, Balance: common.Big0},
			params.ConsolidationQueueAddress: {Nonce: 1, Code: params.ConsolidationQueueCode, Balance: common.Big0},
			adder:   {Nonce: 1, Code: adderCode, Balance: common.Big0, Storage: slots(24, 0xa1)},
			copier:  {Nonce: 1, Code: copierCode, Balance: common.Big0, Storage: slots(12, 0xc1)},
			zeroer:  {Nonce: 1, Code: zeroerCode, Balance: common.Big0, Storage: slots(20, 0x2e)},
			balrd:   {Nonce: 1, Code: balrdCode, Balance: common.Big0},
			sizerd:  {Nonce: 1, Code: sizerdCode, Balance: common.Big0, Storage: slots(3, 0x51)},
			killer:  {Nonce: 1, Code: killerCode, Balance: big.NewInt(777), Storage: slots(5, 0xde)},
			caller:  {Nonce: 1, Code: callerCode, Balance: big.NewInt(5000)},
			factory: {Nonce: 1, Code: factoryCode, Balance: big.NewInt(1000)},
		}
		for i := 0; i < nEOA; i++ {
			k, _ := crypto.ToECDSA(crypto.Keccak256([]byte(fmt.Sprintf("c34-eoa-%d", i))))
			keys = append(keys, k)
			a := crypto.PubkeyToAddress(k.PublicKey)
			eoas = append(eoas, a)
			alloc[a] = types.Account{Balance: gwei(1_000_000_000)}
		}
		for i := 0; i < 70; i++ {
			a := common.BytesToAddress(crypto.Keccak256([]byte(fmt.Sprintf("c34-filler-%d", i)))[:20])
			fillers = append(fillers, a)
			alloc[a] = types.Account{Balance: big.NewInt(int64(1000 + i))}
		}
		gspec = &core.Genesis{Config: cfg, Alloc: alloc, GasLimit: 60_000_000, BaseFee: big.NewInt(params.InitialBaseFee)}
	})
}

func someAddr(r *Rng) common.Address {
	switch r.Intn(6) {
	case 0:
		return coinbase
	case 1:
		return eoas[r.Intn(nEOA)]
	case 2:
		return fillers[r.Intn(len(fillers))]
	case 3: // an address that does not exist (proof of absence)
		return common.BytesToAddress(append([]byte{0xfe}, r.Bytes(4)...))
	case 4:
		return []common.Address{adder, copier, zeroer, balrd, sizerd, killer, caller, factory}[r.Intn(8)]
	default:
		return common.BytesToAddress(r.Bytes(20))
	}
}

func randomTxs(r *Rng, g *core.BlockGen, tags map[string]bool) {
	n := r.Range(1, 8)
	if r.Chance(1, 12) {
		n = 0
	}
	hot := r.Range(1, nEOA)
	slot := func() uint64 { return uint64(r.Intn(30)) } // some present, some absent
	for i := 0; i < n; i++ {
		si := r.Intn(hot)
		var (
			to    *common.Address
			value = big.NewInt(0)
			data  []byte
			gas   = uint64(600_000)
			tip   = int64(r.Intn(3))
		)
		switch r.Intn(13) {
		case 0, 1: // value transfer (possibly zero value, possibly to an absent account)
			t := someAddr(r)
			to = &t
			value = big.NewInt(int64(r.Intn(3)) * int64(r.Range(0, 1000)))
			tags["transfer"] = true
		case 2, 3:
			to = &adder
			data = append(word(slot()), word(uint64(r.Range(0, 3)))...)
			tags["adder"] = true
		case 4:
			to = &copier
			data = append(word(slot()), word(slot())...)
			tags["copier"] = true
		case 5:
			to = &zeroer
			data = word(slot())
			tags["zeroer"] = true
		case 6:
			to = &balrd
			t := someAddr(r)
			data = append(word(slot()), common.LeftPadBytes(t[:], 32)...)
			tags["balrd"] = true
		case 7:
			to = &sizerd
			t := someAddr(r)
			data = append(word(slot()), common.LeftPadBytes(t[:], 32)...)
			tags["sizerd"] = true
		case 8:
			to = &killer
			t := someAddr(r)
			data = common.LeftPadBytes(t[:], 32)
			tags["selfdestruct-old"] = true
		case 9:
			to = &caller
			t := someAddr(r)
			data = common.LeftPadBytes(t[:], 32)
			value = big.NewInt(int64(r.Intn(2) * r.Range(0, 50)))
			tags["caller"] = true
		case 10:
			to = &factory
			value = big.NewInt(int64(r.Range(0, 50)))
			gas = 1_500_000
			tags["create-selfdestruct"] = true
		case 11:
			data = createInit
			value = big.NewInt(int64(r.Range(0, 9)))
			gas = 1_500_000
			tags["create"] = true
		case 12: // out of gas / failing call
			to = &adder
			data = append(word(slot()), word(1)...)
			gas = 21_000 + 700
			tags["oog"] = true
		}
		from := eoas[si]
		tx := types.MustSignNewTx(keys[si], signer, &types.DynamicFeeTx{
			ChainID: cfg.ChainID, Nonce: g.TxNonce(from), To: to, Value: value, Gas: gas,
			GasFeeCap: gwei(10), GasTipCap: gwei(tip), Data: data,
		})
		g.AddTx(tx)
	}
	if r.Chance(1, 3) {
		g.AddWithdrawal(&types.Withdrawal{Validator: 1, Address: someAddr(r), Amount: uint64(r.Intn(3))})
		tags["withdrawal"] = true
	}
}

func newChain(mode int) *core.BlockChain {
	var c *core.BlockChainConfig
	switch mode {
	case 0:
		c = core.DefaultConfig().WithStateScheme(rawdb.HashScheme)
	case 1:
		c = core.DefaultConfig().WithStateScheme(rawdb.HashScheme)
		c.SnapshotLimit = 0
	default:
		c = core.DefaultConfig().WithStateScheme(rawdb.PathScheme)
	}
	bc, err := core.NewBlockChain(rawdb.NewMemoryDatabase(), gspec, beacon.New(ethash.NewFaker()), c)
	if err != nil {
		panic("hxlib: NewBlockChain: " + err.Error())
	}
	return bc
}

// removal outcome classes
const (
	remError    = 1 // ExecuteStateless returned an error
	remMismatch = 2 // no error, but a root differs from the header's (the caller rejects)
	remSilent   = 3 // no error and both roots equal the header's
	remPanic    = 4
)

func execStateless(block *types.Block, w *stateless.Witness) (cls int, msg string) {
	defer func() {
		if e := recover(); e != nil {
			cls, msg = remPanic, fmt.Sprint(e)
		}
	}()
	hdr := block.Header()
	hdr.Root = common.Hash{}
	hdr.ReceiptHash = common.Hash{}
	task := types.NewBlockWithHeader(hdr).WithBody(*block.Body())
	sroot, rroot, err := core.ExecuteStateless(context.Background(), cfg, vm.Config{}, task, w)
	if err != nil {
		return remError, err.Error()
	}
	if sroot != block.Root() || rroot != block.ReceiptHash() {
		return remMismatch, ""
	}
	return remSilent, ""
}

// ---- diagnosis of an undetected removal.  The oracle classifies with the real
// core.ExecuteStateless; this replica of its few lines (same calls, same order) only
// tells WHY a removal went unnoticed: was the removed node requested from the witness
// database at all, and did the StateDB memorise a database error that nobody looked at.

type probeDB struct {
	ethdb.Database
	mu     sync.Mutex
	target []byte
	asked  int
}

func (p *probeDB) Get(key []byte) ([]byte, error) {
	if bytes.Equal(key, p.target) {
		p.mu.Lock()
		p.asked++
		p.mu.Unlock()
	}
	return p.Database.Get(key)
}
func (p *probeDB) Has(key []byte) (bool, error) {
	if bytes.Equal(key, p.target) {
		p.mu.Lock()
		p.asked++
		p.mu.Unlock()
	}
	return p.Database.Has(key)
}

type headerChain struct{ db ethdb.Database }

func (h *headerChain) Config() *params.ChainConfig       { return cfg }
func (h *headerChain) Engine() consensus.Engine          { return beacon.New(ethash.NewFaker()) }
func (h *headerChain) CurrentHeader() *types.Header      { return nil }
func (h *headerChain) GetHeaderByNumber(uint64) *types.Header { return nil }
func (h *headerChain) GetHeader(hash common.Hash, number uint64) *types.Header {
	return rawdb.ReadHeader(h.db, hash, number)
}
func (h *headerChain) GetHeaderByHash(hash common.Hash) *types.Header {
	number, ok := rawdb.ReadHeaderNumber(h.db, hash)
	if !ok {
		return nil
	}
	return rawdb.ReadHeader(h.db, hash, number)
}

// diagnose returns (times the removed node was requested, memorised StateDB error, root)
func diagnose(block *types.Block, w *stateless.Witness, removed []byte) (asked int, dbErr error, root common.Hash, err error) {
	asked, dbErr, root, _, err = diagnoseRes(block, w, removed)
	return
}

func diagnoseRes(block *types.Block, w *stateless.Witness, removed []byte) (asked int, dbErr error, root common.Hash, pres *core.ProcessResult, err error) {
	defer func() {
		if e := recover(); e != nil {
			err = fmt.Errorf("panic: %v", e)
		}
	}()
	memdb := &probeDB{Database: w.MakeHashDB(), target: crypto.Keccak256(removed)}
	tdb := triedb.NewDatabase(memdb, triedb.HashDefaults)
	defer tdb.Close()
	sdb, err := state.New(w.Root(), state.NewDatabase(tdb, state.NewCodeDB(memdb)))
	if err != nil {
		return memdb.asked, nil, common.Hash{}, nil, err
	}
	hdr := block.Header()
	hdr.Root = common.Hash{}
	hdr.ReceiptHash = common.Hash{}
	task := types.NewBlockWithHeader(hdr).WithBody(*block.Body())
	processor := core.NewStateProcessor(&headerChain{db: memdb})
	pres, err = processor.Process(context.Background(), task, sdb, nil, nil, vm.Config{}, nil)
	if err != nil {
		return memdb.asked, sdb.Error(), common.Hash{}, nil, err
	}
	root = sdb.IntermediateRoot(cfg.Rules(block.Number(), block.Difficulty().Sign() == 0, block.Time()))
	return memdb.asked, sdb.Error(), root, pres, nil
}

// forge: the removal made the stateless execution diverge silently (err == nil, other
// roots).  A block proposer who wants that diverged result accepted puts ITS roots, gas
// and bloom into the header.  Returns a description when the stateless verifier then
// accepts the forged block although full validation rejects it.
func forge(bc *core.BlockChain, parentRoot common.Hash, block *types.Block, w *stateless.Witness, removed []byte) string {
	_, dbErr, root, pres, err := diagnoseRes(block, w, removed)
	if err != nil || pres == nil || dbErr == nil {
		return ""
	}
	hdr := block.Header()
	hdr.Root = root
	hdr.ReceiptHash = types.DeriveSha(pres.Receipts, trie.NewStackTrie(nil))
	hdr.GasUsed = pres.GasUsed
	hdr.Bloom = types.MergeBloom(pres.Receipts)
	forged := types.NewBlockWithHeader(hdr).WithBody(*block.Body())
	if cls, _ := execStateless(forged, w.Copy()); cls != remSilent {
		return ""
	}
	_, ferr := bc.ProcessBlock(context.Background(), parentRoot, forged, core.ExecuteConfig{})
	if ferr == nil {
		return "" // the forged block is valid after all
	}
	return fmt.Sprintf("FORGERY: with witness node %x withheld, ExecuteStateless returns err == nil and exactly the forged header's state root %x and receipt root for a block that full validation rejects (%v); swallowed StateDB error: %v",
		crypto.Keccak256(removed), root, ferr, dbErr)
}

func runBlockCase(top SL) Result {
	world()
	seed := AsU64(top[1])
	mode := AsInt(top[2])
	nblocks := AsInt(top[3])
	nrem := AsInt(top[4])
	if nblocks < 1 {
		nblocks = 1
	}
	if nblocks > 4 {
		nblocks = 4
	}
	r := NewRng(seed)
	tags := map[string]bool{}
	engine := beacon.New(ethash.NewFaker())
	_, blocks, _ := core.GenerateChainWithGenesis(gspec, engine, nblocks, func(_ int, g *core.BlockGen) {
		g.SetCoinbase(coinbase)
		randomTxs(r, g, tags)
	})
	bc := newChain(mode)
	defer bc.Stop()
	if nblocks > 1 {
		if _, err := bc.InsertChain(blocks[:nblocks-1]); err != nil {
			return Result{Obs: L(I(1), I(-3)), Oracle: "prefix blocks rejected: " + err.Error()}
		}
	}
	block := blocks[nblocks-1]
	parent := bc.GetHeaderByHash(block.ParentHash())
	pres, err := bc.ProcessBlock(context.Background(), parent.Root, block, core.ExecuteConfig{MakeWitness: true})
	if err != nil {
		return Result{Obs: L(I(1), I(-3)), Oracle: "full execution failed: " + err.Error()}
	}
	w := pres.Witness()
	if w == nil {
		return Result{Obs: L(I(1), I(-3)), Oracle: "no witness collected"}
	}
	var fails []string
	okState, okReceipt := 1, 1
	{
		hdr := block.Header()
		hdr.Root = common.Hash{}
		hdr.ReceiptHash = common.Hash{}
		task := types.NewBlockWithHeader(hdr).WithBody(*block.Body())
		sroot, rroot, err := core.ExecuteStateless(context.Background(), cfg, vm.Config{}, task, w.Copy())
		if err != nil {
			okState, okReceipt = 0, 0
			fails = append(fails, "stateless execution with the full witness failed: "+err.Error())
		} else {
			if sroot != block.Root() {
				okState = 0
				fails = append(fails, fmt.Sprintf("stateless state root %x != header %x", sroot, block.Root()))
			}
			if rroot != block.ReceiptHash() {
				okReceipt = 0
				fails = append(fails, fmt.Sprintf("stateless receipt root %x != header %x", rroot, block.ReceiptHash()))
			}
		}
	}
	// single removals of state nodes (sorted by hash) and of codes
	var nodes []string
	for n := range w.State {
		nodes = append(nodes, n)
	}
	sort.Slice(nodes, func(i, j int) bool {
		return bytes.Compare(crypto.Keccak256([]byte(nodes[i])), crypto.Keccak256([]byte(nodes[j]))) < 0
	})
	var codes []string
	for c := range w.Codes {
		codes = append(codes, c)
	}
	sort.Strings(codes)
	pick := make([]int, 0, len(nodes))
	for i := range nodes {
		pick = append(pick, i)
	}
	if nrem >= 0 && nrem < len(pick) {
		rr := r.Fork()
		for i := len(pick) - 1; i > 0; i-- {
			j := rr.Intn(i + 1)
			pick[i], pick[j] = pick[j], pick[i]
		}
		pick = pick[:nrem]
		sort.Ints(pick)
	}
	silent, nErr, nMis, unrequested := 0, 0, 0, 0
	nForge, forged := 0, false
	for _, i := range pick {
		c := w.Copy()
		delete(c.State, nodes[i])
		cls, msg := execStateless(block, c)
		switch cls {
		case remError:
			nErr++
			if strings.Contains(msg, "missing trie node") {
				tags["removal-missing-node-error"] = true
			} else {
				tags["removal-other-error"] = true
			}
		case remMismatch:
			nMis++
			tags["removal-root-mismatch"] = true
			if nForge < 6 {
				nForge++
				if msg := forge(bc, parent.Root, block, c, []byte(nodes[i])); msg != "" {
					tags["forgery"] = true
					if !forged {
						fails = append(fails, msg)
					}
					forged = true
				}
			}
		case remSilent:
			// A node the stateless run never asks for was collected but is not required
			// (over-collection, e.g. by the prefetcher): its removal cannot and need not
			// be noticed.  A node that IS asked for and whose absence goes unnoticed is
			// the violation.
			asked, dbErr, _, derr := diagnose(block, c, []byte(nodes[i]))
			if asked == 0 && dbErr == nil && derr == nil {
				tags["removal-of-unrequested-node"] = true
				unrequested++
				continue
			}
			silent++
			if len(fails) < 3 {
				fails = append(fails, fmt.Sprintf("removal of REQUIRED state node %x (index %d of %d) not detected: ExecuteStateless returned err == nil and the header's state and receipt roots although the node was requested %d time(s) from the witness database; memorised StateDB error that was never checked: %v",
					crypto.Keccak256([]byte(nodes[i])), i, len(nodes), asked, dbErr))
			}
		case remPanic:
			fails = append(fails, "ExecuteStateless panicked after a removal: "+msg)
		}
	}
	codeSilent := 0
	for _, cd := range codes {
		c := w.Copy()
		delete(c.Codes, cd)
		cls, msg := execStateless(block, c)
		switch cls {
		case remSilent:
			codeSilent++
			tags["code-removal-silent"] = true
		case remPanic:
			fails = append(fails, "ExecuteStateless panicked after a code removal: "+msg)
		default:
			tags["code-removal-detected"] = true
		}
	}
	res := Result{Obs: L(I(1), I(int64(okState)), I(int64(okReceipt)), I(int64(silent)))}
	if len(fails) > 0 {
		res.Oracle = strings.Join(fails, "; ")
	}
	tags[fmt.Sprintf("mode-%d", mode)] = true
	tags[fmt.Sprintf("blocks-%d", nblocks)] = true
	tags[bucket("txs", len(block.Transactions()))] = true
	tags[bucket("witness-nodes", len(nodes))] = true
	tags[bucket("witness-codes", len(codes))] = true
	tags[bucket("removals", len(pick))] = true
	tags[bucket("unrequested", unrequested)] = true
	_, _ = nErr, nMis
	for t := range tags {
		res.Tags = append(res.Tags, t)
	}
	res.NonTrivial = len(block.Transactions()) >= 1 && len(nodes) >= 4
	return res
}

// ======================================================================== generator

func genKey(r *Rng, klen int) []byte {
	k := make([]byte, klen)
	for i := range k {
		if klen <= 4 {
			k[i] = byte(r.Intn(4)) * 0x11 // heavy prefix sharing
			if r.Chance(1, 4) {
				k[i] = byte(r.U64())
			}
		} else {
			k[i] = byte(r.U64())
		}
	}
	return k
}

func genVal(r *Rng) []byte {
	switch r.Intn(4) {
	case 0:
		return r.Bytes(r.Range(1, 4)) // embedded nodes
	case 1:
		return r.Bytes(r.Range(28, 36)) // around the 32-byte boundary
	default:
		return r.Bytes(r.Range(1, 60))
	}
}

func genTrieCase(r *Rng, adversarial bool) Sx {
	scheme := r.Intn(2)
	ntries := r.Range(1, 3)
	klen := r.Range(2, 4)
	if r.Chance(1, 5) {
		klen = 32
	}
	pool := [][]byte{}
	tries := SL{}
	for j := 0; j < ntries; j++ {
		n := r.Range(0, 40)
		if j == 0 && n == 0 {
			n = 1
		}
		if r.Chance(1, 6) {
			n = r.Range(0, 3) + 1
		}
		seen := map[string]bool{}
		kvs := SL{}
		for i := 0; i < n; i++ {
			k := genKey(r, klen)
			if seen[string(k)] {
				continue
			}
			seen[string(k)] = true
			pool = append(pool, k)
			kvs = append(kvs, L(B(k), B(genVal(r))))
		}
		tries = append(tries, kvs)
	}
	ops := SL{}
	nsess := 0
	// open every trie once up front (sometimes one twice, sometimes lazily)
	for j := 0; j < ntries; j++ {
		ops = append(ops, L(I(3), I(int64(j))))
		nsess++
	}
	if r.Chance(1, 5) {
		ops = append(ops, L(I(3), I(int64(r.Intn(ntries)))))
		nsess++
	}
	if adversarial && r.Chance(1, 3) {
		ops = append(ops, L(I(3), I(int64(ntries+r.Intn(3))))) // unknown root
		nsess++
	}
	nops := r.Range(1, 30)
	pick := func() []byte {
		if len(pool) > 0 && !r.Chance(1, 4) {
			return pool[r.Intn(len(pool))]
		}
		return genKey(r, klen)
	}
	for i := 0; i < nops; i++ {
		s := int64(r.Intn(nsess))
		if adversarial && r.Chance(1, 40) {
			s = int64(nsess + r.Intn(2))
		}
		switch r.Intn(8) {
		case 0, 1, 2:
			ops = append(ops, L(I(2), I(s), B(pick())))
		case 3, 4:
			ops = append(ops, L(I(0), I(s), B(pick()), B(genVal(r))))
		case 5:
			ops = append(ops, L(I(0), I(s), B(pick()), B(nil)))
		default:
			ops = append(ops, L(I(1), I(s), B(pick())))
		}
	}
	junk := SL{}
	if r.Chance(1, 3) {
		for i := r.Range(1, 3); i > 0; i-- {
			if r.Bool() {
				junk = append(junk, B(r.Bytes(r.Range(1, 70))))
			} else {
				// a well-formed leaf node that belongs to no trie of the case
				junk = append(junk, B(append([]byte{0xc0 + 36, 0x82, 0x20, byte(r.U64()), 0xa0}, r.Bytes(32)...)))
			}
		}
	}
	rem := SL{}
	for i := r.Range(1, 6); i > 0; i-- {
		rem = append(rem, I(int64(r.Intn(64))))
	}
	return L(I(0), I(int64(scheme)), tries, ops, junk, rem)
}

func gen(r *Rng, tier string, emit func(Sx)) {
	r = NewRng(r.U64())
	nTrie, nBlock, nrem := 170, 16, int64(30)
	if tier == "thorough" {
		nTrie, nBlock, nrem = 3000, 300, -1
	}
	for i := 0; i < nTrie; i++ {
		emit(genTrieCase(r, i%5 == 4))
	}
	for i := 0; i < nBlock; i++ {
		emit(L(I(1), U(r.U64()>>1), I(int64(i%3)), I(int64(1+r.Intn(3))), I(nrem)))
	}
}

func run(c Sx) Result {
	top := AsList(c)
	switch AsInt(top[0]) {
	case 0:
		return runTrieCase(top)
	case 1:
		return runBlockCase(top)
	}
	panic("hxlib: unknown case kind")
}

func main() {
	Main(Family{
		ID: "C34",
		Rule: "kind 0 (trie level, compared with the Coq model): 1-3 committed tries (account trie + storage tries with owners) of 0-40 keys " +
			"(2-4 byte keys with heavy prefix sharing or 32-byte keys; values 1-60 bytes around the 32-byte embedding boundary) in a hash- or " +
			"path-scheme triedb on a memory database; a session opens the tries (sometimes twice, adversarially at an unknown root) and runs 1-30 " +
			"Get/Update/Delete (3/4 on known keys); the witness is the union of Trie.Witness() collected through stateless.Witness.AddState, " +
			"optionally with junk blobs; the session is re-run over MakeHashDB of the witness and over the witness minus one node (1-6 removals). " +
			"kind 1 (block level, Go oracle only): 1-3 random post-merge blocks (transfers incl. zero value and absent recipients, storage " +
			"adder/copier/zeroer, BALANCE/EXTCODESIZE readers, CALL, create, create+selfdestruct, selfdestruct of an old contract, out-of-gas, " +
			"withdrawals) on a genesis of ~90 accounts; the last block is executed with ProcessBlock(MakeWitness) over hash+snapshot / hash / " +
			"path scheme and re-executed with ExecuteStateless; then single state-node removals (quick 30 random per block, thorough all) and " +
			"all single code removals. Non-trivial: witness >= 2 nodes and >= 3 operations (kind 0); >= 1 transaction and >= 4 witness nodes (kind 1).",
		Gen: gen,
		Run: run,
	})
}
