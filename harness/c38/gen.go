package main

import (
	. "gethverif/harness/hxlib"
)

type gblock struct {
	id, parent, number int
	txs                []int
	used               map[int]bool // txs on the path genesis..this
}

func genTree(r *Rng, n int) []gblock {
	bl := []gblock{{id: 0, used: map[int]bool{}}}
	otherTx := []int{} // txs already used somewhere (to re-use on other forks)
	for id := 1; id <= n; id++ {
		var p int
		for tries := 0; ; tries++ {
			switch {
			case r.Chance(6, 10):
				p = len(bl) - 1 // extend the latest block: long branches
			case r.Chance(1, 2):
				p = bl[len(bl)-1].parent // sibling of the latest: equal-height competitor
			default:
				p = r.Intn(len(bl))
			}
			if bl[p].number < maxDepth || tries > 20 {
				break
			}
		}
		if bl[p].number >= maxDepth {
			p = 0
		}
		b := gblock{id: id, parent: p, number: bl[p].number + 1, used: map[int]bool{}}
		for k := range bl[p].used {
			b.used[k] = true
		}
		ntx := 0
		if r.Chance(7, 10) {
			ntx = r.Range(1, 3)
		}
		for i := 0; i < ntx; i++ {
			t := -1
			if len(otherTx) > 0 && r.Chance(1, 2) {
				t = otherTx[r.Intn(len(otherTx))]
			} else {
				t = r.Intn(nSmallTx)
			}
			if b.used[t] {
				continue
			}
			b.used[t] = true
			b.txs = append(b.txs, t)
			otherTx = append(otherTx, t)
		}
		bl = append(bl, b)
	}
	return bl
}

func treeSx(bl []gblock) Sx {
	out := SL{}
	for _, b := range bl {
		txs := SL{}
		for _, t := range b.txs {
			txs = append(txs, L(I(int64(t)), I(int64(logsOfTx(t)))))
		}
		out = append(out, L(I(int64(b.id)), I(int64(b.parent)), I(int64(b.number)), txs))
	}
	return out
}

// path (exclusive a .. inclusive b), oldest first; a must be an ancestor of b (or -1 for "from genesis")
func pathTo(bl []gblock, b int, stop func(int) bool) []int {
	var p []int
	for x := b; x != 0 && !stop(x); x = bl[x].parent {
		p = append([]int{x}, p...)
	}
	return p
}

func idList(p []int) Sx {
	out := SL{}
	for _, x := range p {
		out = append(out, I(int64(x)))
	}
	return out
}

func genOps(r *Rng, bl []gblock, nops int, adversarial bool, restarts bool) Sx {
	ops := SL{}
	inserted := map[int]bool{0: true}
	n := len(bl) - 1
	maxn := 0
	for _, b := range bl {
		if b.number > maxn {
			maxn = b.number
		}
	}
	pick := func() int { return r.Range(1, n) }
	pickInserted := func() int {
		var l []int
		for k := range bl {
			if inserted[k] {
				l = append(l, k)
			}
		}
		return l[r.Intn(len(l))]
	}
	for len(ops) < nops {
		x := r.Intn(100)
		switch {
		case x < 50: // connected branch segment
			b := pick()
			p := pathTo(bl, b, func(y int) bool { return inserted[y] && !r.Chance(1, 8) })
			if len(p) == 0 {
				p = pathTo(bl, b, func(y int) bool { return y == bl[b].parent && r.Chance(1, 2) })
			}
			if len(p) > 1 && r.Chance(1, 5) {
				p = p[:r.Range(1, len(p))]
			}
			for _, y := range p {
				inserted[y] = true
			}
			ops = append(ops, L(I(0), idList(p)))
		case x < 58: // engine-API style: InsertBlockWithoutSetHead along a path, then SetCanonical of its tip
			b := pick()
			p := []int{b}
			if r.Chance(2, 3) {
				p = pathTo(bl, b, func(y int) bool { return inserted[y] })
				if len(p) == 0 || len(p) > 6 {
					p = []int{b}
				}
			}
			for _, y := range p {
				ops = append(ops, L(I(1), I(int64(y))))
				if inserted[bl[y].parent] {
					inserted[y] = true
				}
			}
			if r.Chance(3, 4) {
				ops = append(ops, L(I(2), I(int64(b))))
			}
		case x < 72:
			ops = append(ops, L(I(2), I(int64(pickInserted()))))
		case x < 84:
			ops = append(ops, L(I(3), I(int64(r.Intn(maxn+2)))))
		case x < 92:
			if restarts {
				ops = append(ops, L(I(4)))
			}
		default:
			if !adversarial {
				continue
			}
			switch r.Intn(6) {
			case 0: // dangling segment (unknown ancestor)
				b := pick()
				ops = append(ops, L(I(0), idList([]int{b})))
			case 1: // non contiguous
				ops = append(ops, L(I(0), idList([]int{pick(), pick()})))
			case 2: // absent block ids
				ops = append(ops, L(I(0), idList([]int{n + 5})))
			case 3:
				ops = append(ops, L(I(2), I(int64(pick()))))
			case 4:
				ops = append(ops, L(I(0), L()))
			case 5:
				ops = append(ops, L(I(3), I(int64(maxn+3))))
			}
		}
	}
	return ops
}

// two branches off a short common prefix; branch B repeats txs of branch A at other
// heights and in its NON-head blocks (so that a multi-block reorg re-indexes them).
// big: the blocks carry LOG-loop txs, several hundred logs each, so that reorg's 512-log
// chunking of removed and re-added logs is crossed several times on both sides.
func genTwoBranches(r *Rng, big bool) ([]gblock, []int, []int, []int) {
	bl := []gblock{{id: 0, used: map[int]bool{}}}
	add := func(parent int, txs []int) int {
		b := gblock{id: len(bl), parent: parent, number: bl[parent].number + 1, txs: txs}
		bl = append(bl, b)
		return b.id
	}
	tip := 0
	var prefix []int
	for i := r.Intn(3); i > 0; i-- {
		tip = add(tip, nil)
		prefix = append(prefix, tip)
	}
	la, lb := r.Range(2, 5), r.Range(2, 5)
	pool := r.Intn(nSmallTx - 12) // small tx ids pool, pool+1, ...
	nextSmall := 0
	small := func() int { nextSmall++; return pool + nextSmall - 1 }
	var branchA, branchB []int
	var txA [][]int
	bigID := nSmallTx
	p := tip
	for i := 0; i < la; i++ {
		var txs []int
		if big {
			for k := r.Range(1, 2); k > 0 && bigID < nTxIDs; k-- {
				txs = append(txs, bigID)
				bigID++
			}
		}
		for k := r.Intn(3); k > 0 && nextSmall < 10; k-- {
			txs = append(txs, small())
		}
		txA = append(txA, txs)
		p = add(p, txs)
		branchA = append(branchA, p)
	}
	// branch B: the txs of A, dealt out again over B's blocks in a shifted arrangement
	var all []int
	for _, t := range txA {
		all = append(all, t...)
	}
	for i := len(all) - 1; i > 0; i-- { // shuffle
		j := r.Intn(i + 1)
		all[i], all[j] = all[j], all[i]
	}
	p = tip
	for i := 0; i < lb; i++ {
		var txs []int
		take := len(all) / (lb - i)
		if i < lb-1 && r.Chance(1, 2) && take < len(all) {
			take++ // bias towards the non-head blocks
		}
		txs = append(txs, all[:take]...)
		all = all[take:]
		if r.Chance(1, 3) && nextSmall < 12 {
			txs = append(txs, small())
		}
		p = add(p, txs)
		branchB = append(branchB, p)
	}
	return bl, prefix, branchA, branchB
}

func noHeadThenCanonical(ops SL, branch []int) SL {
	for _, y := range branch {
		ops = append(ops, L(I(1), I(int64(y))))
	}
	return append(ops, L(I(2), I(int64(branch[len(branch)-1]))))
}

func genTwoBranchOps(r *Rng, prefix, a, b []int) SL {
	ops := SL{}
	if len(prefix) > 0 {
		ops = append(ops, L(I(0), idList(prefix)))
	}
	if r.Bool() {
		ops = append(ops, L(I(0), idList(a)))
	} else {
		ops = noHeadThenCanonical(ops, a)
	}
	switch r.Intn(4) {
	case 0: // plain InsertChain reorg (newChain = [head] each time)
		ops = append(ops, L(I(0), idList(b)))
	default: // one multi-block reorg
		ops = noHeadThenCanonical(ops, b)
	}
	// and back, in one step (both branches are stored with state)
	if r.Chance(2, 3) {
		ops = append(ops, L(I(2), I(int64(a[len(a)-1]))))
	}
	if r.Chance(1, 2) {
		ops = append(ops, L(I(2), I(int64(b[r.Intn(len(b))]))))
	}
	if r.Chance(1, 3) {
		ops = append(ops, L(I(0), idList(a)))
	}
	return ops
}

func gen(r0 *Rng, tier string, emit func(c Sx)) {
	r := NewRng(r0.U64())
	ncases := 110
	if tier == "thorough" {
		ncases = 2500
	}
	for i := 0; i < ncases; i++ {
		if i%5 == 2 || i%37 == 5 {
			// two-branch families: multi-block SetCanonical reorgs with shared txs (every 5th
			// case) and large reorgs crossing the 512-log chunk threshold (every 37th)
			bl, pre, a, b := genTwoBranches(r, i%37 == 5)
			emit(SL{treeSx(bl), genTwoBranchOps(r, pre, a, b), I(1)})
			continue
		}
		n := r.Range(3, 26)
		if i%7 == 0 {
			n = r.Range(2, 6)
		}
		bl := genTree(r, n)
		nops := r.Range(4, 18)
		c := SL{treeSx(bl), genOps(r, bl, nops, i%4 == 3, i%3 != 0)}
		if i%3 == 1 {
			c = append(c, I(1)) // report recorded deviations on this case
		}
		emit(c)
	}
}
