// Family c38: canonical-chain bookkeeping of core.BlockChain (writeHeadBlock, reorg,
// SetCanonical, insertChain, SetHead, restart) vs coq/Chain/Canonical.v.
//
// A case is a block tree plus a history of operations.  The harness builds the real
// blocks with core.GenerateChain (ethash faker, AllEthashProtocolChanges, one distinct
// coinbase per block so that state roots are pairwise distinct), runs the history on a
// real core.BlockChain over rawdb.NewMemoryDatabase() (hash scheme, non-archive, no
// snapshots, TxLookupLimit = 0: the tx indexer is enabled, over an index tail preset to 0,
// and its progress is awaited after each operation), and after every operation reads the observables from
// the database with rawdb accessors and drains the four event subscriptions.
package main

import (
	"crypto/ecdsa"
	"errors"
	"fmt"
	"math/big"
	"os"
	"sort"
	"strings"
	"time"

	. "gethverif/harness/hxlib"
	"github.com/ethereum/go-ethereum/common"
	"github.com/ethereum/go-ethereum/consensus"
	"github.com/ethereum/go-ethereum/consensus/ethash"
	"github.com/ethereum/go-ethereum/core"
	"github.com/ethereum/go-ethereum/core/rawdb"
	"github.com/ethereum/go-ethereum/core/types"
	"github.com/ethereum/go-ethereum/crypto"
	"github.com/ethereum/go-ethereum/ethdb"
	"github.com/ethereum/go-ethereum/params"
	"github.com/ethereum/go-ethereum/triedb"
)

const (
	nSmallTx = 48 // ids below: id%3 logs each
	nTxIDs   = 56 // ids 48..55: bigLogs logs each (a LOG0 loop), to cross reorg's 512-log chunking
	bigLogs  = 300
	maxDepth = 12
)

var (
	chainCfg = params.AllEthashProtocolChanges
	txKeys   []*ecdsa.PrivateKey
	txCache  = map[int]*types.Transaction{}
	log1Addr = common.HexToAddress("0x00000000000000000000000000000000000c3801")
	log2Addr = common.HexToAddress("0x00000000000000000000000000000000000c3802")
	sinkAddr = common.HexToAddress("0x00000000000000000000000000000000000c3800")
	loopAddr = common.HexToAddress("0x00000000000000000000000000000000000c3803")
)

func init() {
	for i := 0; i < nTxIDs; i++ {
		h := crypto.Keccak256([]byte(fmt.Sprintf("c38-key-%d", i)))
		k, err := crypto.ToECDSA(h)
		if err != nil {
			panic(err)
		}
		txKeys = append(txKeys, k)
	}
}

func genesisSpec() *core.Genesis {
	alloc := types.GenesisAlloc{
		log1Addr: {Code: common.FromHex("60006000a000"), Balance: big.NewInt(0)},
		log2Addr: {Code: common.FromHex("60006000a060006000a000"), Balance: big.NewInt(0)},
		// cnt := 300; do { LOG0(0,0); cnt-- } while cnt != 0
		loopAddr: {Code: common.FromHex("61012c5b60006000a0600190038060035700"), Balance: big.NewInt(0)},
	}
	for _, k := range txKeys {
		alloc[crypto.PubkeyToAddress(k.PublicKey)] = types.Account{Balance: new(big.Int).Exp(big.NewInt(10), big.NewInt(20), nil)}
	}
	return &core.Genesis{Config: chainCfg, Alloc: alloc, BaseFee: big.NewInt(params.InitialBaseFee), GasLimit: 30_000_000, Difficulty: big.NewInt(131072)}
}

func logsOfTx(id int) int {
	if id >= nSmallTx {
		return bigLogs
	}
	return id % 3
}

// tx id -> the one transaction with that id (sender key id, nonce 0); logsOfTx(id) logs.
func txOf(id int) *types.Transaction {
	if tx, ok := txCache[id]; ok {
		return tx
	}
	to, gas := sinkAddr, uint64(100000)
	switch {
	case id >= nSmallTx:
		to, gas = loopAddr, 400000
	case id%3 == 1:
		to = log1Addr
	case id%3 == 2:
		to = log2Addr
	}
	tx, err := types.SignTx(types.NewTx(&types.LegacyTx{Nonce: 0, To: &to, Value: big.NewInt(0), Gas: gas,
		GasPrice: big.NewInt(100 * params.GWei)}), types.LatestSigner(chainCfg), txKeys[id])
	if err != nil {
		panic(err)
	}
	txCache[id] = tx
	return tx
}

type blockSpec struct {
	id, parent, number int
	txs                []int
}

type caseSpec struct {
	blocks []blockSpec
	byID   map[int]*blockSpec
	ops    []Sx
	txids  []int
	maxn   int
	report bool
}

func bad(msg string) { panic("hxlib: bad case: " + msg) }

func parseCase(c Sx) *caseSpec {
	top := AsList(c)
	if len(top) != 2 && len(top) != 3 {
		bad("top")
	}
	cs := &caseSpec{byID: map[int]*blockSpec{}}
	// (BLOCKS OPS 1): report the recorded deviations (known findings) as oracle failures.
	// bin/check compares a case with the model only when its oracle is silent, so the
	// generator sets the flag on one case in three and the others keep the tie to the model.
	cs.report = len(top) == 3 && AsInt(top[2]) == 1
	txset := map[int]bool{}
	for _, bsx := range AsList(top[0]) {
		f := AsList(bsx)
		if len(f) != 4 {
			bad("block arity")
		}
		b := blockSpec{id: int(AsInt(f[0])), parent: int(AsInt(f[1])), number: int(AsInt(f[2]))}
		for _, t := range AsList(f[3]) {
			tf := AsList(t)
			if len(tf) != 2 {
				bad("tx arity")
			}
			id, nl := int(AsInt(tf[0])), int(AsInt(tf[1]))
			if id < 0 || id >= nTxIDs || nl != logsOfTx(id) {
				bad("tx id / nlogs")
			}
			b.txs = append(b.txs, id)
			txset[id] = true
		}
		if b.id < 0 || b.id >= 4096 || cs.byID[b.id] != nil {
			bad("block id")
		}
		cs.blocks = append(cs.blocks, b)
		cs.byID[b.id] = &cs.blocks[len(cs.blocks)-1]
	}
	// re-point (the slice may have been reallocated)
	for i := range cs.blocks {
		cs.byID[cs.blocks[i].id] = &cs.blocks[i]
	}
	g := cs.byID[0]
	if g == nil || g.number != 0 || len(g.txs) != 0 {
		bad("genesis")
	}
	for i := range cs.blocks {
		b := &cs.blocks[i]
		if b.id == 0 {
			continue
		}
		p := cs.byID[b.parent]
		if p == nil || p.number+1 != b.number || b.number > 64 {
			bad("parent/number")
		}
		if b.number > cs.maxn {
			cs.maxn = b.number
		}
		// no tx twice on a branch
		seen := map[int]bool{}
		for x := b; x.id != 0; x = cs.byID[x.parent] {
			for _, t := range x.txs {
				if seen[t] {
					bad("tx twice on a branch")
				}
				seen[t] = true
			}
		}
	}
	for t := range txset {
		cs.txids = append(cs.txids, t)
	}
	sort.Ints(cs.txids)
	cs.ops = AsList(top[1])
	return cs
}

// world is the real implementation under test plus the bookkeeping to name things by id.
type world struct {
	cs      *caseSpec
	db      ethdb.Database
	gspec   *core.Genesis
	bc      *core.BlockChain
	blocks  map[int]*types.Block
	idOf    map[common.Hash]int
	txID    map[common.Hash]int
	logsOf  map[int][]int64 // block id -> log ids
	chainCh chan core.ChainEvent
	headCh  chan core.ChainHeadEvent
	rmCh    chan core.RemovedLogsEvent
	logCh   chan []*types.Log
	needIdx bool
	// oracle state
	view         map[int64]int // subscriber's multiset of live logs
	staleAllowed bool          // a SetHead / restart left head block != head header at some point
	shStale      map[int]int   // tx -> height of a lookup entry left behind by SetHead
	shReported   map[int]bool
}

func (w *world) buildBlocks() {
	gendb := rawdb.NewMemoryDatabase()
	tdb := triedb.NewDatabase(gendb, triedb.HashDefaults)
	gblock := w.gspec.MustCommit(gendb, tdb)
	tdb.Close()
	w.blocks = map[int]*types.Block{0: gblock}
	w.idOf = map[common.Hash]int{gblock.Hash(): 0}
	w.txID = map[common.Hash]int{}
	w.logsOf = map[int][]int64{}
	roots := map[common.Hash]int{gblock.Root(): 0}
	// parents first
	order := append([]blockSpec{}, w.cs.blocks...)
	sort.SliceStable(order, func(i, j int) bool { return order[i].number < order[j].number })
	engine := ethash.NewFaker()
	for _, b := range order {
		if b.id == 0 {
			continue
		}
		b := b
		bs, rs := core.GenerateChain(chainCfg, w.blocks[b.parent], engine, gendb, 1, func(i int, g *core.BlockGen) {
			g.SetCoinbase(common.BigToAddress(big.NewInt(int64(0xC0000 + b.id))))
			g.SetExtra([]byte{byte(b.id >> 8), byte(b.id)})
			for _, t := range b.txs {
				g.AddTx(txOf(t))
			}
		})
		blk := bs[0]
		if _, dup := w.idOf[blk.Hash()]; dup {
			bad("duplicate block hash")
		}
		if o, dup := roots[blk.Root()]; dup {
			bad(fmt.Sprintf("state root of block %d equals that of %d", b.id, o))
		}
		roots[blk.Root()] = b.id
		w.blocks[b.id] = blk
		w.idOf[blk.Hash()] = b.id
		idx := 0
		for ti, r := range rs[0] {
			for range r.Logs {
				w.logsOf[b.id] = append(w.logsOf[b.id], int64((b.id*4096+b.txs[ti])*4096+idx))
				idx++
			}
			if len(r.Logs) != logsOfTx(b.txs[ti]) {
				bad("tx did not emit the expected number of logs")
			}
		}
	}
	for _, t := range w.cs.txids {
		w.txID[txOf(t).Hash()] = t
	}
}

func (w *world) open() {
	cfg := core.DefaultConfig().WithStateScheme(rawdb.HashScheme)
	cfg.ArchiveMode = false
	cfg.SnapshotLimit = 0
	cfg.TxLookupLimit = 0
	cfg.NoPrefetch = true
	bc, err := core.NewBlockChain(w.db, w.gspec, ethash.NewFaker(), cfg)
	if err != nil {
		panic("NewBlockChain: " + err.Error())
	}
	w.bc = bc
	w.chainCh = make(chan core.ChainEvent, 4096)
	w.headCh = make(chan core.ChainHeadEvent, 4096)
	w.rmCh = make(chan core.RemovedLogsEvent, 4096)
	w.logCh = make(chan []*types.Log, 4096)
	bc.SubscribeChainEvent(w.chainCh)
	bc.SubscribeChainHeadEvent(w.headCh)
	bc.SubscribeRemovedLogsEvent(w.rmCh)
	bc.SubscribeLogsEvent(w.logCh)
	w.needIdx = bc.CurrentBlock().Number.Uint64() > 0
}

func (w *world) id(h common.Hash) int64 {
	if i, ok := w.idOf[h]; ok {
		return int64(i)
	}
	return -2
}

func (w *world) logID(l *types.Log) int64 {
	b, ok := w.idOf[l.BlockHash]
	t, ok2 := w.txID[l.TxHash]
	if !ok || !ok2 {
		return -2
	}
	return int64((b*4096+t)*4096 + int(l.Index))
}

func errClass(err error) int64 {
	switch {
	case err == nil:
		return 0
	case errors.Is(err, consensus.ErrUnknownAncestor):
		return 4
	case errors.Is(err, consensus.ErrPrunedAncestor):
		return 5
	}
	s := err.Error()
	switch {
	case strings.HasPrefix(s, "invalid old chain"):
		return 2
	case strings.HasPrefix(s, "invalid new chain"):
		return 3
	case strings.HasPrefix(s, "missing parent"):
		return 6
	case strings.HasPrefix(s, "non contiguous insert"):
		return 7
	case strings.HasPrefix(s, "current block missing"):
		return 10
	}
	return 99
}

type evs struct {
	chain, head   []int64
	removed, logs [][]int64
}

func (w *world) drain() evs {
	var e evs
	for {
		select {
		case x := <-w.chainCh:
			e.chain = append(e.chain, w.id(x.Header.Hash()))
		case x := <-w.headCh:
			e.head = append(e.head, w.id(x.Header.Hash()))
			if x.Header.Number.Uint64() > 0 {
				w.needIdx = true
			}
		case x := <-w.rmCh:
			var l []int64
			for _, lg := range x.Logs {
				l = append(l, w.logID(lg))
			}
			e.removed = append(e.removed, l)
		case x := <-w.logCh:
			var l []int64
			for _, lg := range x {
				l = append(l, w.logID(lg))
			}
			e.logs = append(e.logs, l)
		default:
			return e
		}
	}
}

func (w *world) waitIndexer() string {
	if !w.needIdx {
		return ""
	}
	deadline := time.Now().Add(10 * time.Second)
	for {
		p, err := w.bc.TxIndexProgress()
		if err != nil {
			return "tx indexer not enabled"
		}
		if p.Done() {
			return ""
		}
		if time.Now().After(deadline) {
			return "tx indexer did not finish"
		}
		time.Sleep(200 * time.Microsecond)
	}
}

func ids(l []int64) Sx {
	out := SL{}
	for _, x := range l {
		out = append(out, I(x))
	}
	return out
}
func idss(l [][]int64) Sx {
	out := SL{}
	for _, x := range l {
		out = append(out, ids(x))
	}
	return out
}

func (w *world) observe(class int64, e evs) Sx {
	canon := SL{}
	for n := 0; n <= w.cs.maxn+1; n++ {
		h := rawdb.ReadCanonicalHash(w.db, uint64(n))
		canon = append(canon, Opt(h != (common.Hash{}), I(w.id(h))))
	}
	lk := SL{}
	for _, t := range w.cs.txids {
		n := rawdb.ReadTxLookupEntry(w.db, txOf(t).Hash())
		if n == nil {
			lk = append(lk, L())
		} else {
			lk = append(lk, L(U(*n)))
		}
	}
	// the public, cached path: BlockChain.GetCanonicalTransaction (queried after every
	// operation, so the lookup cache is warm when the next operation reorganises the chain)
	rs := SL{}
	for _, t := range w.cs.txids {
		if lk, _ := w.bc.GetCanonicalTransaction(txOf(t).Hash()); lk == nil {
			rs = append(rs, L())
		} else {
			rs = append(rs, L(I(w.id(lk.BlockHash)), U(lk.BlockIndex)))
		}
	}
	heads := L(I(w.id(w.bc.CurrentBlock().Hash())), I(w.id(w.bc.CurrentHeader().Hash())), I(w.id(w.bc.CurrentSnapBlock().Hash())))
	return L(I(class), canon, heads, lk, rs, ids(e.chain), idss(e.removed), idss(e.logs), ids(e.head))
}

// canonical chain as stored: ids for numbers 0..head header number (nil on a gap)
func (w *world) canonChain() ([]int, string) {
	hh := rawdb.ReadHeadHeaderHash(w.db)
	num, ok := rawdb.ReadHeaderNumber(w.db, hh)
	if !ok {
		return nil, "head header hash has no number"
	}
	out := make([]int, num+1)
	want := hh
	for n := int64(num); n >= 0; n-- {
		h := rawdb.ReadCanonicalHash(w.db, uint64(n))
		if h == (common.Hash{}) {
			return nil, fmt.Sprintf("canonical hash missing at %d <= head %d", n, num)
		}
		if h != want {
			return nil, fmt.Sprintf("canonical chain not parent-linked at %d (head header %d)", n, num)
		}
		hd := rawdb.ReadHeader(w.db, h, uint64(n))
		if hd == nil {
			return nil, fmt.Sprintf("canonical header missing at %d", n)
		}
		id, ok := w.idOf[h]
		if !ok {
			return nil, "canonical hash of an unknown block"
		}
		out[n] = id
		want = hd.ParentHash
	}
	return out, ""
}

// what the oracle needs to know about the operation just executed
type opInfo struct {
	idx         int
	kind        int          // 0 InsertChain, 1 InsertBlockWithoutSetHead, 2 SetCanonical, 3 SetHead, 4 restart
	before      []int        // canonical chain (block ids by height) before the operation
	knownBefore map[int]bool // blocks named by the operation that were stored with state before it
	splitBefore bool         // head block != head header when the operation started
}

func logBlock(x int64) int { return int(x / (4096 * 4096)) }

// The direct property oracle, evaluated on the database after one operation.  It returns
// the failures that are NOT one of the recorded deviations first ("real"), then the
// recorded ones, each with its stable id and only when its mechanism has been verified
// on this very operation:
//
//	C38-linked-canon-above-head-header  canonical entries above the head header, all descendants
//	    of it, after an earlier SetHead/restart left head block != head header (entries that
//	    are NOT descendants were C38-stale-canon-above-head-after-sethead, repaired by
//	    337872da5f, and are a plain failure again)
//	C38-setcanonical-reemits-logs   logs of a block that was canonical before the operation and
//	    still is are emitted again (SetCanonical / re-execution of a canonical block)
//	C38-known-reimport-silent       blocks stored with state are re-adopted by InsertChain
//	    (writeKnownBlock) and their logs are not announced
//	C38-sethead-no-removed-logs     SetHead drops canonical blocks without RemovedLogsEvent
//	C38-sethead-stale-lookups       a lookup entry of a block dropped by SetHead is still there
func (w *world) oracle(e evs, op opInfo, res *Result) (real, known []string) {
	pre := fmt.Sprintf("op %d: ", op.idx)
	addReal := func(f string, a ...interface{}) { real = append(real, pre+fmt.Sprintf(f, a...)) }
	addKnown := func(id, f string, a ...interface{}) {
		known = append(known, id+": "+pre+fmt.Sprintf(f, a...))
		res.Tags = append(res.Tags, id)
	}
	chain, msg := w.canonChain()
	if msg != "" {
		addReal("%s", msg)
		return
	}
	headNum := len(chain) - 1
	cb, ch, csn := w.bc.CurrentBlock(), w.bc.CurrentHeader(), w.bc.CurrentSnapBlock()
	// nothing canonical above the head header
	stale, unlinked := 0, 0
	prev := ch.Hash()
	for n := headNum + 1; n <= w.cs.maxn+2; n++ {
		h := rawdb.ReadCanonicalHash(w.db, uint64(n))
		if h == (common.Hash{}) {
			prev = common.Hash{}
			continue
		}
		stale++
		if hd := rawdb.ReadHeader(w.db, h, uint64(n)); hd == nil || hd.ParentHash != prev {
			unlinked++
		}
		prev = h
	}
	linkedOnly := stale > 0 && unlinked == 0 && w.staleAllowed
	if stale > 0 {
		switch {
		case !w.staleAllowed:
			addReal("canonical entry above the head header")
		case unlinked > 0:
			// repaired by 337872da5f (writeHeadBlock drops the markers of the abandoned chain)
			addReal("%d canonical entries above head header #%d, %d of them not linked to it", stale, headNum, unlinked)
		default:
			// leftovers of the head's own chain above a head header that writeHeadBlock pulled
			// down (SetHead onto a block without state, then re-import of the same chain)
			addKnown("C38-linked-canon-above-head-header", "%d canonical entries above head header #%d, all descendants of it", stale, headNum)
		}
	}
	if cb.Hash() != ch.Hash() {
		w.staleAllowed = true
		res.Tags = append(res.Tags, "head-block-below-header")
	}
	// markers agree with the database, head block canonical and stateful
	if rawdb.ReadHeadBlockHash(w.db) != cb.Hash() || rawdb.ReadHeadHeaderHash(w.db) != ch.Hash() || rawdb.ReadHeadFastBlockHash(w.db) != csn.Hash() {
		addReal("in-memory head markers differ from the stored ones")
	}
	bn := int(cb.Number.Uint64())
	if bn > headNum || w.blocks[chain[bn]].Hash() != cb.Hash() {
		addReal("head block is not on the canonical chain")
		return
	}
	sn := int(csn.Number.Uint64())
	if sn > headNum || w.blocks[chain[sn]].Hash() != csn.Hash() {
		addReal("head snap block is not on the canonical chain")
	}
	if !w.bc.HasState(cb.Root) {
		addReal("head block state is not available")
	}
	// tx lookups: a tx resolves iff it is in a canonical block, and to that block
	where := map[int]int{}
	for n, id := range chain {
		for _, t := range w.cs.byID[id].txs {
			where[t] = n
		}
	}
	for _, t := range w.cs.txids {
		h := txOf(t).Hash()
		tx, bh, bnum, _ := rawdb.ReadCanonicalTransaction(w.db, h)
		n, isCanon := where[t]
		if tx != nil {
			if !isCanon || int(bnum) != n || bh != w.blocks[chain[n]].Hash() || tx.Hash() != h {
				if linkedOnly && int(bnum) > headNum {
					addKnown("C38-linked-canon-above-head-header", "tx %d resolves to block #%d above head #%d", t, bnum, headNum)
				} else {
					addReal("tx %d resolves to non-canonical block #%d", t, bnum)
				}
			}
		} else if isCanon {
			addReal("canonical tx %d (block #%d) does not resolve", t, n)
		}
		// the public, cached path must answer from the CURRENT canonical chain as well
		if alk, atx := w.bc.GetCanonicalTransaction(h); alk != nil {
			okAPI := isCanon && int(alk.BlockIndex) == n && alk.BlockHash == w.blocks[chain[n]].Hash() &&
				atx != nil && atx.Hash() == h && rawdb.ReadCanonicalHash(w.db, alk.BlockIndex) == alk.BlockHash
			if okAPI {
				if blk := rawdb.ReadBlock(w.db, alk.BlockHash, alk.BlockIndex); blk == nil || int(alk.Index) >= len(blk.Transactions()) || blk.Transactions()[alk.Index].Hash() != h {
					okAPI = false
				}
			}
			switch {
			case okAPI:
			case linkedOnly && int(alk.BlockIndex) > headNum:
				addKnown("C38-linked-canon-above-head-header", "GetCanonicalTransaction(tx %d) answers block #%d above head #%d", t, alk.BlockIndex, headNum)
			default:
				addReal("GetCanonicalTransaction(tx %d) answers block %d (#%d), which is not the canonical block holding it", t, w.id(alk.BlockHash), alk.BlockIndex)
			}
		} else if isCanon && tx != nil {
			addReal("GetCanonicalTransaction(tx %d) answers nothing although the tx is in canonical block #%d", t, n)
		}
		// database level: an entry points to the canonical block holding the tx
		ent := rawdb.ReadTxLookupEntry(w.db, h)
		if ent == nil || w.shStale[t] != int(*ent) {
			delete(w.shStale, t)
			delete(w.shReported, t)
		}
		if ent != nil && op.kind == 3 && int(*ent) < len(op.before) && int(*ent) > bn {
			// SetHead has just put the block this entry names above the new head block (deleted
			// it, or left only its header canonical) without touching the entry
			for _, bt := range w.cs.byID[op.before[*ent]].txs {
				if bt == t {
					w.shStale[t] = int(*ent)
				}
			}
		}
		if ent == nil || (isCanon && int(*ent) == n) {
			continue
		}
		switch at, ok := w.shStale[t]; {
		case ok && at == int(*ent):
			if !w.shReported[t] { // reported once, when the entry stops naming a canonical block
				w.shReported[t] = true
				addKnown("C38-sethead-stale-lookups", "lookup entry of tx %d still points to #%d, whose block SetHead put above the head block", t, *ent)
			}
		case linkedOnly && int(*ent) > headNum:
			addKnown("C38-linked-canon-above-head-header", "lookup entry of tx %d points to block #%d above head #%d", t, *ent, headNum)
		default:
			addReal("lookup entry of tx %d points to #%d, which does not hold it canonically", t, *ent)
		}
	}
	// the cached block / header / receipt readers agree with the database
	for n := 0; n <= w.cs.maxn+1; n++ {
		chash := rawdb.ReadCanonicalHash(w.db, uint64(n))
		hd, blk := w.bc.GetHeaderByNumber(uint64(n)), w.bc.GetBlockByNumber(uint64(n))
		wantHd := chash != (common.Hash{}) && rawdb.HasHeader(w.db, chash, uint64(n))
		wantBlk := wantHd && rawdb.HasBody(w.db, chash, uint64(n))
		if (hd != nil) != wantHd || (hd != nil && hd.Hash() != chash) {
			addReal("GetHeaderByNumber(%d) disagrees with the canonical index", n)
		}
		if (blk != nil) != wantBlk || (blk != nil && blk.Hash() != chash) {
			addReal("GetBlockByNumber(%d) disagrees with the canonical index", n)
		}
	}
	for i := range w.cs.blocks {
		id := w.cs.blocks[i].id
		b := w.blocks[id]
		num := b.NumberU64()
		stored := rawdb.HasHeader(w.db, b.Hash(), num) && rawdb.HasBody(w.db, b.Hash(), num)
		if w.bc.HasBlock(b.Hash(), num) != stored || (w.bc.GetBlockByHash(b.Hash()) != nil) != stored || (w.bc.GetBlock(b.Hash(), num) != nil) != stored {
			addReal("HasBlock/GetBlock(block %d) disagree with the database (stored=%v)", id, stored)
		}
		if (w.bc.GetHeaderByHash(b.Hash()) != nil) != rawdb.HasHeader(w.db, b.Hash(), num) {
			addReal("GetHeaderByHash(block %d) disagrees with the database", id)
		}
		wantRc := id != 0 && rawdb.HasHeader(w.db, b.Hash(), num) && rawdb.HasReceipts(w.db, b.Hash(), num)
		if rc := w.bc.GetReceiptsByHash(b.Hash()); id != 0 && ((rc != nil) != wantRc || (rc != nil && len(rc) != len(b.Transactions()))) {
			addReal("GetReceiptsByHash(block %d) disagrees with the database (stored=%v)", id, wantRc)
		}
	}
	// logs: a subscriber applying removed/added events holds exactly the canonical logs
	var badRemove, dups []int64
	for _, l := range e.removed {
		for _, x := range l {
			if w.view[x] <= 0 {
				badRemove = append(badRemove, x)
			} else {
				w.view[x]--
			}
		}
	}
	for _, l := range e.logs {
		for _, x := range l {
			if w.view[x] > 0 {
				dups = append(dups, x)
			} else {
				w.view[x]++
			}
		}
	}
	want := map[int64]int{}
	for n := 0; n <= bn; n++ { // logs exist for executed (full) blocks: up to the head block
		for _, x := range w.logsOf[chain[n]] {
			want[x]++
		}
	}
	var missing, extra []int64
	for k := range want {
		if w.view[k] == 0 {
			missing = append(missing, k)
		}
	}
	for k, v := range w.view {
		if v > 0 && want[k] == 0 {
			extra = append(extra, k)
		}
	}
	sort.Slice(missing, func(i, j int) bool { return missing[i] < missing[j] })
	sort.Slice(extra, func(i, j int) bool { return extra[i] < extra[j] })
	wasCanon := func(b int) bool {
		n := w.cs.byID[b].number
		return n < len(op.before) && op.before[n] == b
	}
	isCanonNow := func(b int) bool {
		n := w.cs.byID[b].number
		return n < len(chain) && chain[n] == b
	}
	if len(badRemove) > 0 {
		addReal("RemovedLogsEvent for %d logs the subscriber does not hold", len(badRemove))
	}
	if len(dups) > 0 {
		ok := true
		for _, x := range dups {
			if b := logBlock(x); !wasCanon(b) || !isCanonNow(b) {
				ok = false
			}
		}
		if ok && op.kind != 3 && op.kind != 4 {
			addKnown("C38-setcanonical-reemits-logs", "%d logs of block %d, canonical before and after, emitted again", len(dups), logBlock(dups[0]))
		} else {
			addReal("%d logs emitted twice without removal", len(dups))
		}
	}
	if len(missing) > 0 {
		ok := true
		for _, x := range missing {
			if !op.knownBefore[logBlock(x)] {
				ok = false
			}
		}
		if ok && (op.kind == 0 || op.kind == 1) {
			addKnown("C38-known-reimport-silent", "%d logs of re-adopted known block %d not announced", len(missing), logBlock(missing[0]))
		} else {
			addReal("%d logs of the new canonical chain were never announced", len(missing))
		}
	}
	if len(extra) > 0 {
		ok := true
		for _, x := range extra {
			b := logBlock(x)
			if !wasCanon(b) || w.cs.byID[b].number <= bn {
				ok = false
			}
		}
		if ok && op.kind == 3 {
			addKnown("C38-sethead-no-removed-logs", "%d logs of blocks above the new head #%d not removed", len(extra), bn)
		} else {
			addReal("%d logs of blocks no longer canonical were not removed", len(extra))
		}
	}
	// resynchronise the subscriber
	w.view = want
	return
}

func run(c Sx) Result {
	cs := parseCase(c)
	w := &world{cs: cs, db: rawdb.NewMemoryDatabase(), gspec: genesisSpec(), view: map[int64]int{}, shStale: map[int]int{}, shReported: map[int]bool{}}
	// The tx indexer runs (TxLookupLimit = 0) over a database marked as fully indexed
	// (tail 0): its background pass then has nothing to write, so every lookup entry
	// observed is one maintained synchronously by writeHeadBlock / reorg.  (With the tail
	// unset the first pass re-writes the canonical lookups concurrently with the next
	// operation and may be skipped altogether when two head events arrive back to back.)
	rawdb.WriteTxIndexTail(w.db, 0)
	w.buildBlocks()
	w.open()
	defer func() { w.bc.Stop() }()
	res := Result{}
	obs := SL{}
	var oracleReal, oracleKnown []string
	reorgs, lookups := 0, 0
	for oi, o := range cs.ops {
		f := AsList(o)
		if len(f) == 0 {
			bad("op")
		}
		before, _ := w.canonChain()
		var class int64
		kind := AsInt(f[0])
		info := opInfo{idx: oi, kind: kind, before: before, knownBefore: map[int]bool{},
			splitBefore: w.bc.CurrentBlock().Hash() != w.bc.CurrentHeader().Hash()}
		noteKnown := func(id int, b *types.Block) {
			if w.bc.HasBlockAndState(b.Hash(), b.NumberU64()) {
				info.knownBefore[id] = true
			}
		}
		switch kind {
		case 0:
			var blocks types.Blocks
			okIDs := true
			for _, x := range AsList(f[1]) {
				b := w.blocks[AsInt(x)]
				if b == nil {
					okIDs = false
					break
				}
				blocks = append(blocks, b)
				noteKnown(AsInt(x), b)
			}
			if !okIDs {
				class = 8
				break
			}
			_, err := w.bc.InsertChain(blocks)
			class = errClass(err)
			res.Tags = append(res.Tags, fmt.Sprintf("insert-len%d", min(len(blocks), 4)))
		case 1:
			b := w.blocks[AsInt(f[1])]
			if b == nil {
				class = 8
				break
			}
			noteKnown(AsInt(f[1]), b)
			_, err := w.bc.InsertBlockWithoutSetHead(nil, b, false)
			class = errClass(err)
			res.Tags = append(res.Tags, "insert-nohead")
		case 2:
			b := w.blocks[AsInt(f[1])]
			if b == nil || w.bc.GetBlockByHash(b.Hash()) == nil {
				class = 8
				break
			}
			_, err := w.bc.SetCanonical(w.bc.GetBlockByHash(b.Hash()))
			class = errClass(err)
			res.Tags = append(res.Tags, "set-canonical")
		case 3:
			err := w.bc.SetHead(AsU64(f[1]))
			class = errClass(err)
			res.Tags = append(res.Tags, "set-head")
		case 4:
			w.drain()
			w.bc.Stop()
			w.open()
			res.Tags = append(res.Tags, "restart")
		default:
			bad("op kind")
		}
		e := w.drain()
		if msg := w.waitIndexer(); msg != "" {
			oracleReal = append(oracleReal, fmt.Sprintf("op %d: %s", oi, msg))
		}
		obs = append(obs, w.observe(class, e))
		if class != 0 {
			res.Tags = append(res.Tags, fmt.Sprintf("err%d", class))
		}
		if len(e.removed) > 0 {
			res.Tags = append(res.Tags, "removed-logs")
		}
		r, k := w.oracle(e, info, &res)
		oracleReal = append(oracleReal, r...)
		oracleKnown = append(oracleKnown, k...)
		after, _ := w.canonChain()
		for n := 1; n < len(before) && n < len(after); n++ {
			if before[n] != after[n] {
				reorgs++
				break
			}
		}
	}
	for _, t := range cs.txids {
		if rawdb.ReadTxLookupEntry(w.db, txOf(t).Hash()) != nil {
			lookups++
		}
	}
	if reorgs > 0 {
		res.Tags = append(res.Tags, "reorg")
	}
	res.Obs = obs
	// failures that are not recorded deviations come first, so that a known-finding
	// prefix can never hide one of them
	// (and the rarer recorded deviations before the frequent ones, so each gets listed)
	prio := func(m string) int {
		for i, id := range []string{"C38-linked-canon", "C38-setcanonical", "C38-known-reimport", "C38-sethead-no-removed", "C38-sethead-stale"} {
			if strings.HasPrefix(m, id) {
				return i
			}
		}
		return 9
	}
	sort.SliceStable(oracleKnown, func(i, j int) bool { return prio(oracleKnown[i]) < prio(oracleKnown[j]) })
	if !cs.report || (len(os.Args) > 1 && os.Args[1] == "shrink") {
		// still visible as tags.  While shrinking, only failures that are NOT recorded deviations
		// count: otherwise a new failure can shrink into the shape of a recorded one and be
		// swallowed by its known-findings entry.
		oracleKnown = nil
	}
	res.Oracle = strings.Join(append(oracleReal, oracleKnown...), " | ")
	res.NonTrivial = reorgs > 0 && lookups > 0
	res.Tags = dedup(res.Tags)
	return res
}

func dedup(t []string) []string {
	m := map[string]bool{}
	var out []string
	for _, x := range t {
		if !m[x] {
			m[x] = true
			out = append(out, x)
		}
	}
	return out
}

func min(a, b int) int {
	if a < b {
		return a
	}
	return b
}

func main() {
	Main(Family{
		ID: "c38",
		Rule: "random block trees (3..26 blocks, depth <= 12, fork points biased to recent tips, equal-height competitors, " +
			"0..3 txs per block drawn from 48 single-use senders so the same tx can sit on several forks; tx id mod 3 = number of logs) " +
			"and histories of 4..18 operations: InsertChain of branch segments in random order (connected, re-inserted, unknown-ancestor, " +
			"non-contiguous), InsertBlockWithoutSetHead, SetCanonical, SetHead, Stop+NewBlockChain; a malformed stream names absent blocks, " +
			"heights above the head, empty segments. Non-trivial = at least one operation changed the canonical hash of an existing height " +
			"and at least one tx lookup entry exists at the end.",
		Gen:         gen,
		Run:         run,
		CaseTimeout: 60 * time.Second,
	})
}
