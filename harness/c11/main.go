// Family c11: triedb.GenerateTrie (partitioned trie generation from the flat snapshot)
// over rawdb.NewMemoryDatabase(), vs coq/Trie/Generate.v.
package main

import (
	"bytes"
	"fmt"
	"os"
	"sort"
	"strings"

	"github.com/ethereum/go-ethereum/common"
	"github.com/ethereum/go-ethereum/core/rawdb"
	"github.com/ethereum/go-ethereum/core/types"
	"github.com/ethereum/go-ethereum/crypto"
	"github.com/ethereum/go-ethereum/ethdb"
	"github.com/ethereum/go-ethereum/rlp"
	"github.com/ethereum/go-ethereum/trie"
	"github.com/ethereum/go-ethereum/triedb"
	"github.com/ethereum/go-ethereum/triedb/database"
	"github.com/holiman/uint256"
	. "gethverif/harness/hxlib"
)

type acct struct {
	hash common.Hash
	slim []byte
}
type slot struct {
	acct, slot common.Hash
	val        []byte
}
type kv struct{ k, v []byte }

func schemeName(s int64) string {
	if s == 0 {
		return rawdb.HashScheme
	}
	return rawdb.PathScheme
}

// ---------------------------------------------------------------- a raw node reader (no pathdb/hashdb in between)

type rawNodes struct {
	db     ethdb.Database
	scheme string
}

func (r *rawNodes) NodeReader(common.Hash) (database.NodeReader, error) { return r, nil }
func (r *rawNodes) Node(owner common.Hash, path []byte, hash common.Hash) ([]byte, error) {
	var blob []byte
	if r.scheme == rawdb.HashScheme {
		blob = rawdb.ReadLegacyTrieNode(r.db, hash)
	} else if owner == (common.Hash{}) {
		blob = rawdb.ReadAccountTrieNode(r.db, path)
	} else {
		blob = rawdb.ReadStorageTrieNode(r.db, owner, path)
	}
	if len(blob) == 0 {
		return nil, nil
	}
	if crypto.Keccak256Hash(blob) != hash {
		return nil, fmt.Errorf("node at %x/%x has hash %x, want %x", owner, path, crypto.Keccak256Hash(blob), hash)
	}
	return blob, nil
}

// ---------------------------------------------------------------- reference: ordinary insertion + commit

// fromScratch builds the trie of kvs by trie.Update on an empty trie, commits it and
// writes the node set with rawdb.WriteTrieNode under the given owner.
func fromScratch(out ethdb.Database, scheme string, owner common.Hash, kvs []kv) common.Hash {
	t := trie.NewEmpty(nil)
	for _, e := range kvs {
		t.MustUpdate(e.k, e.v)
	}
	root, nodes := t.Commit(false)
	if nodes != nil && out != nil {
		for path, n := range nodes.Nodes {
			if n.IsDeleted() {
				continue
			}
			rawdb.WriteTrieNode(out, owner, []byte(path), n.Hash, n.Blob, scheme)
		}
	}
	return root
}

type refState struct {
	decodeFail  bool
	emptyValue  bool
	root        common.Hash
	accounts    []kv // hash -> expected slim entry afterwards
	storage     []kv // acct++slot -> value afterwards
	full        map[common.Hash][]byte
	sroot       map[common.Hash]common.Hash
	updated     int64
	deleted     int64
	nodes       []kv // expected trie-node key space
	perAcctSlot map[common.Hash][]kv
}

func sortKV(l []kv) {
	sort.Slice(l, func(i, j int) bool { return bytes.Compare(l[i].k, l[j].k) < 0 })
}

// reference computes, directly from the case, the corrected flat state, its root and
// the node key space of tries built from scratch.
func reference(scheme string, accs []acct, slots []slot) *refState {
	rs := &refState{full: map[common.Hash][]byte{}, sroot: map[common.Hash]common.Hash{}, perAcctSlot: map[common.Hash][]kv{}}
	exists := map[common.Hash]bool{}
	for _, a := range accs {
		exists[a.hash] = true
	}
	for _, s := range slots {
		if !exists[s.acct] {
			rs.deleted++
			continue
		}
		if len(s.val) == 0 {
			rs.emptyValue = true
		}
		rs.perAcctSlot[s.acct] = append(rs.perAcctSlot[s.acct], kv{s.slot[:], s.val})
		rs.storage = append(rs.storage, kv{append(append([]byte{}, s.acct[:]...), s.slot[:]...), s.val})
	}
	sortKV(rs.storage)
	for _, a := range accs {
		if _, err := types.FullAccount(a.slim); err != nil {
			rs.decodeFail = true
		}
	}
	if rs.decodeFail || rs.emptyValue {
		return rs
	}
	out := rawdb.NewMemoryDatabase()
	var leaves []kv
	for _, a := range accs {
		acc, _ := types.FullAccount(a.slim)
		sr := fromScratch(out, scheme, a.hash, rs.perAcctSlot[a.hash])
		rs.sroot[a.hash] = sr
		entry := a.slim
		if acc.Root != sr {
			acc.Root = sr
			entry = types.SlimAccountRLP(*acc)
			rs.updated++
		}
		full, _ := rlp.EncodeToBytes(acc)
		rs.full[a.hash] = full
		rs.accounts = append(rs.accounts, kv{a.hash[:], entry})
		leaves = append(leaves, kv{a.hash[:], full})
	}
	sortKV(rs.accounts)
	rs.root = fromScratch(out, scheme, common.Hash{}, leaves)
	rs.nodes = dumpAll(out).nodes
	return rs
}

type dumps struct{ accounts, storage, nodes []kv }

func dumpAll(db ethdb.Database) dumps {
	var d dumps
	it := db.NewIterator(nil, nil)
	defer it.Release()
	for it.Next() {
		k, v := common.CopyBytes(it.Key()), common.CopyBytes(it.Value())
		switch {
		case len(k) == 33 && k[0] == 'a':
			d.accounts = append(d.accounts, kv{k[1:], v})
		case len(k) == 65 && k[0] == 'o':
			d.storage = append(d.storage, kv{k[1:], v})
		default:
			d.nodes = append(d.nodes, kv{k, v})
		}
	}
	return d
}

func dumpSx(l []kv) Sx {
	out := SL{}
	for _, e := range l {
		out = append(out, L(B(e.k), B(e.v)))
	}
	return out
}

func sameKV(a, b []kv) string {
	for i := 0; i < len(a) || i < len(b); i++ {
		if i >= len(a) {
			return fmt.Sprintf("missing key %x", b[i].k)
		}
		if i >= len(b) {
			return fmt.Sprintf("extra key %x", a[i].k)
		}
		if !bytes.Equal(a[i].k, b[i].k) {
			if bytes.Compare(a[i].k, b[i].k) < 0 {
				return fmt.Sprintf("extra key %x", a[i].k)
			}
			return fmt.Sprintf("missing key %x", b[i].k)
		}
		if !bytes.Equal(a[i].v, b[i].v) {
			return fmt.Sprintf("key %x holds %x, want %x", a[i].k, a[i].v, b[i].v)
		}
	}
	return ""
}

func iterate(t *trie.Trie) ([]kv, error) {
	nit, err := t.NodeIterator(nil)
	if err != nil {
		return nil, err
	}
	it := trie.NewIterator(nit)
	var out []kv
	for it.Next() {
		out = append(out, kv{common.CopyBytes(it.Key), common.CopyBytes(it.Value)})
	}
	return out, it.Err
}

func errClass(err error) int64 {
	s := err.Error()
	switch {
	case strings.Contains(s, "state root mismatch"):
		return 6
	case strings.Contains(s, "decode account"):
		return 1
	case strings.Contains(s, "storage stack trie update"):
		return 2
	case strings.Contains(s, "account stack trie update"):
		return 3
	case strings.Contains(s, "assemble root"):
		return 5
	}
	return 9
}

func parse(c Sx) (int64, common.Hash, []acct, []slot) {
	top := c.(SL)
	if len(top) != 4 {
		panic("hxlib: case shape")
	}
	sc := top[0].(SI).V.Int64()
	expected := common.BytesToHash(top[1].(SB))
	var accs []acct
	for _, e := range top[2].(SL) {
		p := e.(SL)
		if len(p) != 2 || len(p[0].(SB)) != 32 {
			panic("hxlib: account shape")
		}
		accs = append(accs, acct{common.BytesToHash(p[0].(SB)), []byte(p[1].(SB))})
	}
	var slots []slot
	for _, e := range top[3].(SL) {
		p := e.(SL)
		if len(p) != 3 || len(p[0].(SB)) != 32 || len(p[1].(SB)) != 32 {
			panic("hxlib: slot shape")
		}
		slots = append(slots, slot{common.BytesToHash(p[0].(SB)), common.BytesToHash(p[1].(SB)), []byte(p[2].(SB))})
	}
	// duplicates: the later write wins, as in the database
	am := map[common.Hash]int{}
	var a2 []acct
	for _, a := range accs {
		if i, ok := am[a.hash]; ok {
			a2[i] = a
		} else {
			am[a.hash] = len(a2)
			a2 = append(a2, a)
		}
	}
	sm := map[[64]byte]int{}
	var s2 []slot
	for _, s := range slots {
		var k [64]byte
		copy(k[:], s.acct[:])
		copy(k[32:], s.slot[:])
		if i, ok := sm[k]; ok {
			s2[i] = s
		} else {
			sm[k] = len(s2)
			s2 = append(s2, s)
		}
	}
	return sc, expected, a2, s2
}

func run(c Sx) Result {
	sc, expected, accs, slots := parse(c)
	scheme := schemeName(sc)
	db := rawdb.NewMemoryDatabase()
	for _, a := range accs {
		rawdb.WriteAccountSnapshot(db, a.hash, a.slim)
	}
	for _, s := range slots {
		rawdb.WriteStorageSnapshot(db, s.acct, s.slot, s.val)
	}
	stats, err := triedb.GenerateTrie(db, scheme, expected, nil)

	ref := reference(scheme, accs, slots)
	var tags []string
	tags = append(tags, "scheme="+scheme, fmt.Sprintf("accounts=%s", bucket(len(accs))), fmt.Sprintf("slots=%s", bucket(len(slots))))
	parts := map[byte]bool{}
	for _, a := range accs {
		parts[a.hash[0]>>4] = true
	}
	tags = append(tags, fmt.Sprintf("partitions=%s", bucket(len(parts))))
	if ref.deleted > 0 {
		tags = append(tags, "dangling")
	}
	if ref.updated > 0 {
		tags = append(tags, "stale-root")
	}

	var oracle []string
	fail := func(f string, a ...any) { oracle = append(oracle, fmt.Sprintf(f, a...)) }

	if err != nil {
		cl := errClass(err)
		tags = append(tags, fmt.Sprintf("err=%d", cl))
		switch cl {
		case 1:
			if !ref.decodeFail {
				fail("decode-account error but every account decodes: %v", err)
			}
		case 2:
			if !ref.emptyValue {
				fail("storage update error but no live slot has an empty value: %v", err)
			}
		case 6:
			if ref.decodeFail || ref.emptyValue {
				fail("root mismatch reported for an undecodable state")
			} else if ref.root == expected {
				fail("root mismatch reported although the expected root %x is the root of the corrected flat state: %v", expected, err)
			}
		default:
			fail("unexpected error: %v", err)
		}
		if cl != 6 {
			return Result{Obs: L(L(I(cl))), Oracle: strings.Join(oracle, "; "), Tags: tags, NonTrivial: false}
		}
	} else {
		tags = append(tags, "ok")
		if ref.decodeFail {
			fail("generation succeeded although an account does not decode")
		} else if ref.emptyValue {
			fail("generation succeeded although a live slot has an empty value")
		} else if ref.root != expected {
			fail("generation succeeded with expected root %x, but the corrected flat state has root %x", expected, ref.root)
		}
	}
	d := dumpAll(db)
	var head Sx
	if err != nil {
		head = L(I(6))
	} else {
		head = L(I(0), I(stats.Scanned), I(stats.Updated), I(stats.Deleted))
	}
	obs := L(head, dumpSx(d.accounts), dumpSx(d.storage), dumpSx(d.nodes))

	if !ref.decodeFail && !ref.emptyValue {
		// the database after generation (also after a root mismatch: everything was written)
		if m := sameKV(d.accounts, ref.accounts); m != "" {
			fail("flat accounts: %s", m)
		}
		if m := sameKV(d.storage, ref.storage); m != "" {
			fail("flat storage: %s", m)
		}
		if err == nil {
			if stats.Scanned != int64(len(accs)) || stats.Updated != ref.updated || stats.Deleted != ref.deleted {
				fail("stats %+v, want scanned=%d updated=%d deleted=%d", stats, len(accs), ref.updated, ref.deleted)
			}
		}
		// the node store opens at the root of the corrected state and yields exactly it
		rn := &rawNodes{db, scheme}
		st, e := trie.New(trie.StateTrieID(ref.root), rn)
		if e != nil {
			fail("open state trie at %x: %v", ref.root, e)
		} else {
			leaves, e := iterate(st)
			if e != nil {
				fail("iterate state trie: %v", e)
			}
			var want []kv
			for _, a := range ref.accounts {
				want = append(want, kv{a.k, ref.full[common.BytesToHash(a.k)]})
			}
			if m := sameKV(leaves, want); m != "" {
				fail("state trie content: %s", m)
			}
			for _, a := range accs {
				t, e := trie.New(trie.StorageTrieID(ref.root, a.hash, ref.sroot[a.hash]), rn)
				if e != nil {
					fail("open storage trie of %x: %v", a.hash, e)
					continue
				}
				got, e := iterate(t)
				if e != nil {
					fail("iterate storage trie of %x: %v", a.hash, e)
				}
				want := append([]kv{}, ref.perAcctSlot[a.hash]...)
				sortKV(want)
				if m := sameKV(got, want); m != "" {
					fail("storage trie of %x: %s", a.hash, m)
				}
			}
		}
		// no node outside the canonical tries, none missing
		if m := sameKV(d.nodes, ref.nodes); m != "" {
			fail("trie-node key space (%s scheme) vs from-scratch build: %s", scheme, m)
		}
	}
	nt := len(accs) >= 2 && len(slots) >= 2 && err == nil
	return Result{Obs: obs, Oracle: strings.Join(oracle, "; "), Tags: tags, NonTrivial: nt}
}

func bucket(n int) string {
	switch {
	case n == 0:
		return "0"
	case n == 1:
		return "1"
	case n <= 4:
		return "2-4"
	case n <= 16:
		return "5-16"
	case n <= 100:
		return "17-100"
	}
	return ">100"
}

// ---------------------------------------------------------------- generator

func randHash(r *Rng, style int, part byte, pool [][]byte) common.Hash {
	var h common.Hash
	copy(h[:], r.Bytes(32))
	switch style {
	case 1: // one partition
		h[0] = part<<4 | h[0]&15
	case 2: // one partition, common second nibble (short-node partition root)
		h[0] = part<<4 | 7
	case 3: // long shared prefixes
		if len(pool) > 0 && r.Chance(2, 3) {
			src := pool[r.Intn(len(pool))]
			n := r.Range(1, 31)
			copy(h[:n], src[:n])
			if r.Bool() { // share a nibble more
				h[n] = src[n]&0xf0 | h[n]&15
			}
		}
	case 4: // few partitions
		h[0] = []byte{0x00, 0x0f, 0x10, 0xf0, 0xff, 0x80}[r.Intn(6)]
		if r.Bool() {
			for i := 1; i < 32; i++ {
				h[i] = []byte{0, 0xff}[r.Intn(2)]
			}
			h[31] = byte(r.Intn(256))
		}
	}
	return h
}

func randValue(r *Rng) []byte {
	switch r.Intn(5) {
	case 0:
		return []byte{byte(r.Range(1, 127))}
	case 1:
		v, _ := rlp.EncodeToBytes(bytes.TrimLeft(r.Bytes(r.Range(1, 32)), "\x00"))
		return v
	case 2:
		v, _ := rlp.EncodeToBytes(r.Bytes(32))
		return v
	default:
		return r.Bytes(r.Range(1, 40))
	}
}

func genCase(r *Rng, big int) Sx {
	style := r.Intn(5)
	part := byte(r.Intn(16))
	var n int
	switch r.Intn(8) {
	case 0:
		n = 0
	case 1:
		n = 1
	case 2:
		n = 2
	default:
		n = r.Range(2, 14)
	}
	if big > 0 {
		n = big
		style = r.Intn(2)
	}
	errKind := 0 // 0 none, 1 undecodable account, 2 empty live value
	if big == 0 && r.Chance(1, 12) {
		errKind = r.Range(1, 2)
	}
	var pool [][]byte
	hashes := map[common.Hash]bool{}
	var order []common.Hash
	for len(order) < n {
		h := randHash(r, style, part, pool)
		if hashes[h] {
			continue
		}
		hashes[h] = true
		order = append(order, h)
		pool = append(pool, h[:])
	}
	// storage of live accounts
	perAcct := map[common.Hash][]slot{}
	var slots []slot
	for _, h := range order {
		ns := 0
		if r.Chance(3, 5) {
			ns = r.Range(1, 6)
		}
		if big > 0 {
			ns = r.Intn(3)
		}
		var spool [][]byte
		seen := map[common.Hash]bool{}
		for i := 0; i < ns; i++ {
			sh := randHash(r, []int{0, 3, 4}[r.Intn(3)], 0, spool)
			if seen[sh] {
				continue
			}
			seen[sh] = true
			spool = append(spool, sh[:])
			s := slot{h, sh, randValue(r)}
			perAcct[h] = append(perAcct[h], s)
		}
	}
	if errKind == 2 && len(order) > 0 {
		h := order[r.Intn(len(order))]
		if len(perAcct[h]) == 0 {
			perAcct[h] = append(perAcct[h], slot{h, randHash(r, 0, 0, nil), nil})
		} else {
			perAcct[h][r.Intn(len(perAcct[h]))].val = nil
		}
	}
	for _, h := range order {
		slots = append(slots, perAcct[h]...)
	}
	// dangling storage: before / between / after the accounts, at partition edges
	nd := 0
	if r.Chance(3, 5) {
		nd = r.Range(1, 5)
	}
	for i := 0; i < nd; i++ {
		var dh common.Hash
		switch r.Intn(5) {
		case 0:
			dh = randHash(r, 0, 0, nil)
		case 1:
			dh = randHash(r, 1, part, nil)
		case 2:
			dh = randHash(r, 4, 0, nil)
		case 3: // neighbour of a live account
			if len(order) > 0 {
				dh = order[r.Intn(len(order))]
				j := r.Range(20, 31)
				dh[j] ^= byte(1 << r.Intn(8))
			} else {
				dh = randHash(r, 0, 0, nil)
			}
		default:
			dh = randHash(r, 3, 0, pool)
		}
		if hashes[dh] {
			continue
		}
		for j, m := 0, r.Range(1, 3); j < m; j++ {
			slots = append(slots, slot{dh, randHash(r, 0, 0, nil), randValue(r)})
		}
	}
	if big > 0 { // many dangling slots in one partition: crosses IdealBatchSize in the deletion loops
		for i := 0; i < 2200; i++ {
			dh := randHash(r, 1, part, nil)
			if hashes[dh] {
				continue
			}
			slots = append(slots, slot{dh, randHash(r, 0, 0, nil), []byte{1}})
		}
	}
	// accounts
	var accs []acct
	for _, h := range order {
		var live []kv
		for _, s := range perAcct[h] {
			live = append(live, kv{s.slot[:], s.val})
		}
		okRoot := true
		for _, e := range live {
			if len(e.v) == 0 {
				okRoot = false
			}
		}
		sr := types.EmptyRootHash
		if okRoot {
			sr = fromScratch(nil, rawdb.HashScheme, h, live)
		}
		slim := types.SlimAccount{Nonce: uint64(r.Intn(3)), Balance: uint256.NewInt(uint64(r.Intn(1000)))}
		if r.Chance(1, 4) {
			slim.Nonce = r.U64()
			slim.Balance = new(uint256.Int).SetBytes(r.Bytes(r.Range(0, 32)))
		}
		switch r.Intn(6) {
		case 0:
			slim.CodeHash = r.Bytes(32)
		case 1:
			slim.CodeHash = types.EmptyCodeHash[:] // not the slim form
		case 2:
			slim.CodeHash = r.Bytes(r.Range(1, 40))
		}
		switch r.Intn(8) {
		case 0: // stale: random
			slim.Root = r.Bytes(32)
		case 1: // stale unless the storage is empty
			slim.Root = nil
		case 2: // the right root, never in the slim form
			slim.Root = sr[:]
		case 3: // odd length (common.BytesToHash pads / crops)
			slim.Root = r.Bytes(r.Range(1, 40))
		default:
			if sr != types.EmptyRootHash {
				slim.Root = sr[:]
			}
		}
		enc, _ := rlp.EncodeToBytes(&slim)
		accs = append(accs, acct{h, enc})
	}
	if errKind == 1 && len(accs) > 0 {
		i := r.Intn(len(accs))
		switch r.Intn(4) {
		case 0:
			accs[i].slim = r.Bytes(r.Range(0, 12))
		case 1:
			accs[i].slim = append(accs[i].slim, 0)
		case 2: // five fields
			accs[i].slim, _ = rlp.EncodeToBytes([]any{uint64(1), uint64(2), []byte{}, []byte{}, []byte{}})
		default: // non-canonical nonce
			accs[i].slim, _ = rlp.EncodeToBytes([]any{[]byte{0, 1}, uint64(2), []byte{}, []byte{}})
		}
	}
	// shuffle the write order (the database sorts)
	for i := len(accs) - 1; i > 0; i-- {
		j := r.Intn(i + 1)
		accs[i], accs[j] = accs[j], accs[i]
	}
	for i := len(slots) - 1; i > 0; i-- {
		j := r.Intn(i + 1)
		slots[i], slots[j] = slots[j], slots[i]
	}
	sc := int64(r.Intn(2))
	ref := reference(schemeName(sc), accs, slots)
	expected := ref.root
	if ref.decodeFail || ref.emptyValue || r.Chance(1, 10) {
		expected = common.BytesToHash(r.Bytes(32))
		if r.Bool() && !ref.decodeFail && !ref.emptyValue {
			expected = types.EmptyRootHash
		}
	}
	as, ss := SL{}, SL{}
	for _, a := range accs {
		as = append(as, L(B(a.hash[:]), B(a.slim)))
	}
	for _, s := range slots {
		ss = append(ss, L(B(s.acct[:]), B(s.slot[:]), B(s.val)))
	}
	return L(I(sc), B(expected[:]), as, ss)
}

func gen(r *Rng, tier string, emit func(c Sx)) {
	r = NewRng(r.U64())
	n := 600
	if tier == "thorough" {
		n = 6000
	}
	for i := 0; i < n; i++ {
		emit(genCase(r, 0))
	}
	// states large enough to cross ethdb.IdealBatchSize (batch flush + iterator reopen)
	nb := 1
	if tier == "thorough" {
		nb = 8
	}
	for i := 0; i < nb; i++ {
		emit(genCase(r, 150+i*250))
	}
}

func main() {
	_ = os.Stdout
	Main(Family{
		ID:   "C11",
		Rule: "random flat states written with rawdb.WriteAccountSnapshot/WriteStorageSnapshot into a memory database: 0..14 accounts (plus states of 150..1900 accounts and 2200 dangling slots that cross ethdb.IdealBatchSize), hash styles uniform / one partition / one partition with a common second nibble / long shared prefixes / partition edges (0x00.., 0x0f.., 0x10.., 0xff..); 0..6 slots per account; account roots right, stale, missing, in non-slim form or of odd length; code hashes empty, explicit, of odd length; dangling storage before/between/after the accounts and next to live accounts; both node schemes; expected root right or wrong; an adversarial stream with one undecodable account or one empty live slot value; non-trivial: >= 2 accounts, >= 2 slots and successful generation",
		Gen:  gen,
		Run:  run,
	})
}
