// Family c28: EVM results are independent of pooling, caching and concurrency.
//
//	kind 0  scripts on the real shared stack arena (core/vm/stack.go) vs coq/EVM/StackArena.v
//	kind 1  scripts on the real pooled Memory (core/vm/memory.go) vs coq/EVM/MemoryPool.v
//	kind 2  whole-EVM independence: programs run in random orders, nested at random call
//	        depths, with warm/cold shared caches, dirty pools and concurrently — decided by
//	        the direct Go oracle (same program => same result as its cold-pool reference run)
//	kind 3  precompile result cache vs no cache on inputs that normalise alike
package main

import (
	"bytes"
	"crypto/sha256"
	"encoding/binary"
	"errors"
	"fmt"
	"math/big"
	"os"
	"runtime"
	"runtime/pprof"
	"slices"
	"sync"
	"sync/atomic"

	. "gethverif/harness/hxlib"
	"github.com/ethereum/go-ethereum/common"
	"github.com/ethereum/go-ethereum/core"
	"github.com/ethereum/go-ethereum/core/state"
	"github.com/ethereum/go-ethereum/core/tracing"
	"github.com/ethereum/go-ethereum/core/types"
	"github.com/ethereum/go-ethereum/core/vm"
	vmrt "github.com/ethereum/go-ethereum/core/vm/runtime"
	"github.com/ethereum/go-ethereum/params"
	"github.com/holiman/uint256"
)

const stackLimit = 1024 // params.StackLimit

func shape(msg string) { panic("hxlib: " + msg) }

func wordSx(w *uint256.Int) Sx { return Big(w.ToBig()) }

func asWord(v Sx) *uint256.Int {
	b := AsBig(v)
	if b.Sign() < 0 || b.BitLen() > 256 {
		shape("word out of range")
	}
	return uint256.MustFromBig(b)
}

// ------------------------------------------------------------------ kind 0: arena scripts

// coldPools empties every sync.Pool (two GCs drop the victim caches), so that what a case
// observes depends on the case alone: earlier executions are part of the case (its dirt
// parameter, its earlier frames and programs), which keeps replays reproducible.
func coldPools() {
	runtime.GC()
	runtime.GC()
}

// drainPools is the cheap variant for the script kinds: take objects out of the memory and arena
// pools until a pristine one comes out (what an empty pool hands out), and drop them all.
func drainPools() {
	for i := 0; i < 256; i++ {
		if m := vm.NewMemory(); cap(vm.VerifC28MemBacking(m)) == 0 && vm.VerifC28MemLastGas(m) == 0 {
			break
		}
	}
	for i := 0; i < 256; i++ {
		raw := vm.VerifC28NewArena().Raw()
		pristine := len(raw) == 1025
		for j := 0; pristine && j < len(raw); j++ {
			pristine = raw[j].IsZero()
		}
		if pristine {
			break
		}
	}
}

func catchPanic(f func()) (panicked bool) {
	defer func() {
		if recover() != nil {
			panicked = true
		}
	}()
	f()
	return false
}

var op8024 = map[int]vm.OpCode{11: vm.DUPN, 12: vm.SWAPN, 13: vm.EXCHANGE}

// spec8024 is EIP-8024 written from the EIP (not from instructions.go): items needed and the
// resulting private stack. DUPN n: push the n-th item; SWAPN n: swap the top with the (n+1)-th;
// EXCHANGE n m: swap the (n+1)-th with the (m+1)-th. Immediates: n = (x+145) mod 256; pairs via x^143.
func spec8024(code, x int, p []uint256.Int) (need int, out []uint256.Int) {
	n := (x + 145) % 256
	switch code {
	case 11:
		if len(p) < n {
			return n, p
		}
		return n, append(p, p[len(p)-n])
	case 12:
		if len(p) < n+1 {
			return n + 1, p
		}
		p[len(p)-1], p[len(p)-1-n] = p[len(p)-1-n], p[len(p)-1]
		return n + 1, p
	default:
		k := x ^ 143
		q, r := k/16, k%16
		a, b := r+1, 29-q
		if q < r {
			a, b = q+1, r+1
		}
		if len(p) < max(a, b)+1 {
			return max(a, b) + 1, p
		}
		p[len(p)-1-a], p[len(p)-1-b] = p[len(p)-1-b], p[len(p)-1-a]
		return max(a, b) + 1, p
	}
}

func boundsOf(op vm.OpCode) (int, int) {
	mn, mx, _ := vm.VerifC28StackBounds(op)
	return mn, mx
}

func runArena(l SL) Result {
	if len(l) != 3 {
		shape("arena case")
	}
	dirt := AsInt(l[1])
	ops := AsList(l[2])
	res := Result{}
	var fails []string
	fail := func(f string, a ...any) {
		if len(fails) < 4 {
			fails = append(fails, fmt.Sprintf(f, a...))
		}
	}

	drainPools()
	ar := vm.VerifC28NewArena()
	if dirt > 0 { // leave values of an "earlier execution" in the arena
		var fs []*vm.Stack
		for n := dirt; n > 0; n -= stackLimit {
			s := ar.Stack()
			for i := 0; i < min(n, stackLimit); i++ {
				v := uint256.Int{0xdead0000 + uint64(i), ^uint64(0), uint64(n), ^uint64(0)}
				vm.VerifC28Push(s, &v)
			}
			fs = append(fs, s)
		}
		for i := len(fs) - 1; i >= 0; i-- {
			vm.VerifC28Release(fs[i])
		}
		res.Tags = append(res.Tags, "arena-dirty")
	}
	if ar.Top() != 0 {
		fail("arena from the pool has top=%d", ar.Top())
	}

	var frames []*vm.Stack
	var ref [][]uint256.Int // direct oracle: one private slice per frame
	var childDone []bool    // a child of this frame has been entered and released
	maxDepth, parentReads, nOK := 0, 0, 0
	obs := make(SL, 0, len(ops))
	errObs := func(c int64) Sx { return L(I(5), I(c)) }

	checkAll := func(when string) {
		want := 0
		if len(frames) > 0 {
			want, _ = vm.VerifC28Window(frames[0])
		}
		for i, s := range frames {
			b, sz := vm.VerifC28Window(s)
			if b != want || sz != len(ref[i]) {
				fail("%s: frame %d window (%d,%d), expected (%d,%d)", when, i, b, sz, want, len(ref[i]))
				return
			}
			want += sz
			var d []uint256.Int
			if catchPanic(func() { d = s.Data() }) {
				fail("%s: Data() of frame %d panicked", when, i)
				return
			}
			for j := range d {
				if d[j] != ref[i][j] {
					fail("%s: frame %d slot %d holds %s, its private stack holds %s", when, i, j, d[j].Hex(), ref[i][j].Hex())
					return
				}
			}
		}
		if len(frames) > 0 && ar.Top() != want {
			fail("%s: arena top %d, expected %d", when, ar.Top(), want)
		}
		if len(frames) > 0 {
			if b, _ := vm.VerifC28Window(frames[len(frames)-1]); len(ar.Raw()) < b+stackLimit {
				fail("%s: active frame has only %d slots", when, len(ar.Raw())-b)
			}
		}
	}

	for _, o := range ops {
		ol := AsList(o)
		if len(ol) == 0 {
			shape("empty op")
		}
		code := AsInt(ol[0])
		argn := func(i int) int {
			if len(ol) <= i {
				shape("op arity")
			}
			b := AsBig(ol[i])
			if !b.IsInt64() || b.Int64() < -4096 || b.Int64() >= 4096 {
				shape("small int out of range")
			}
			return int(b.Int64())
		}
		n := len(frames)
		switch code {
		case 0: // enter
			if len(ol) != 1 {
				shape("op arity")
			}
			frames = append(frames, ar.Stack())
			ref = append(ref, nil)
			childDone = append(childDone, false)
			maxDepth = max(maxDepth, len(frames))
			obs = append(obs, L(I(0)))
		case 1: // exit
			if len(ol) != 1 {
				shape("op arity")
			}
			if n == 0 {
				obs = append(obs, errObs(3))
				continue
			}
			b, _ := vm.VerifC28Window(frames[n-1])
			vm.VerifC28Release(frames[n-1])
			if ar.Top() != b {
				fail("release left top=%d, frame bottom was %d", ar.Top(), b)
			}
			frames, ref, childDone = frames[:n-1], ref[:n-1], childDone[:n-1]
			if n >= 2 {
				childDone[n-2] = true
			}
			obs = append(obs, L(I(0)))
		case 10: // Data() of the frame k levels below the active one
			k := argn(1)
			if len(ol) != 2 || k < 0 {
				shape("op arity")
			}
			if k >= n {
				obs = append(obs, errObs(3))
				continue
			}
			var d []uint256.Int
			if catchPanic(func() { d = frames[n-1-k].Data() }) {
				obs = append(obs, errObs(4))
				fail("Data() panicked")
				continue
			}
			ws := make(SL, len(d))
			for i := range d {
				ws[i] = wordSx(&d[i])
			}
			obs = append(obs, L(I(3), ws))
			if k > 0 {
				parentReads++
			}
		default:
			if n == 0 {
				// validate the shape anyway, as the model's decoder does
				switch code {
				case 2:
					asWord(ol[1])
				case 5, 6, 7:
					argn(1)
				case 11, 12, 13:
					if argn(1) < 0 {
						shape("immediate out of range")
					}
				case 8:
					argn(1)
					asWord(ol[2])
				case 3, 4, 9:
				default:
					shape("unknown op")
				}
				obs = append(obs, errObs(3))
				continue
			}
			s := frames[n-1]
			p := ref[n-1]
			mn, mx := 0, stackLimit
			var arg int
			var w *uint256.Int
			switch code {
			case 2:
				w = asWord(ol[1])
				mn, mx = boundsOf(vm.PUSH32)
			case 3:
				mn, mx = boundsOf(vm.POP)
			case 4:
				mn, mx = boundsOf(vm.ADD)
			case 5:
				arg = argn(1)
				if arg < 1 || arg > 16 {
					obs = append(obs, errObs(5))
					continue
				}
				mn, mx = boundsOf(vm.DUP1 + vm.OpCode(arg-1))
			case 6:
				arg = argn(1)
				if arg < 1 || arg > 16 {
					obs = append(obs, errObs(5))
					continue
				}
				mn, mx = boundsOf(vm.SWAP1 + vm.OpCode(arg-1))
			case 7, 8:
				arg = argn(1)
				if code == 8 {
					w = asWord(ol[2])
				}
				if arg < 0 {
					obs = append(obs, errObs(5))
					continue
				}
				mn, mx = arg+1, stackLimit // an operation that needs arg+1 items and neither pops nor pushes
			case 9:
			case 11, 12, 13: // EIP-8024: the jump table's bounds here, the operand's depth inside the operation
				arg = argn(1)
				if arg < 0 {
					shape("immediate out of range")
				}
				mn, mx = boundsOf(op8024[code])
			default:
				shape("unknown op")
			}
			// interpreter.go: validate stack
			if sl := vm.VerifC28Len(s); sl < mn {
				obs = append(obs, errObs(1))
				res.Tags = append(res.Tags, "underflow")
				continue
			} else if sl > mx {
				obs = append(obs, errObs(2))
				res.Tags = append(res.Tags, "overflow")
				continue
			}
			var ob Sx
			pan := catchPanic(func() {
				switch code {
				case 2:
					vm.VerifC28Push(s, w)
					ref[n-1] = append(p, *w)
					ob = L(I(0))
				case 3:
					v := vm.VerifC28Pop(s)
					if len(p) == 0 || v != p[len(p)-1] {
						fail("pop returned %s, private stack top differs", v.Hex())
					}
					ref[n-1] = p[:len(p)-1]
					ob = L(I(1), wordSx(&v))
					if childDone[n-1] {
						parentReads++
					}
				case 4:
					a, b := vm.VerifC28Pop1Peek1(s)
					if len(p) < 2 || a != p[len(p)-1] || b != p[len(p)-2] {
						fail("pop1Peek1 returned (%s,%s), private stack differs", a.Hex(), b.Hex())
					}
					ref[n-1] = p[:len(p)-1]
					ob = L(I(2), wordSx(&a), wordSx(&b))
					if childDone[n-1] {
						parentReads++
					}
				case 5:
					vm.VerifC28Dup(s, arg)
					ref[n-1] = append(p, p[len(p)-arg])
					ob = L(I(0))
				case 6:
					vm.VerifC28Swap(s, arg)
					p[len(p)-1], p[len(p)-1-arg] = p[len(p)-1-arg], p[len(p)-1]
					ob = L(I(0))
				case 7:
					v := *vm.VerifC28Back(s, arg)
					if v != p[len(p)-1-arg] {
						fail("back(%d) = %s, private stack differs", arg, v.Hex())
					}
					ob = L(I(1), wordSx(&v))
					if childDone[n-1] {
						parentReads++
					}
				case 8:
					*vm.VerifC28Back(s, arg) = *w
					p[len(p)-1-arg] = *w
					ob = L(I(0))
				case 9:
					ob = L(I(4), I(int64(vm.VerifC28Len(s))))
				case 11, 12, 13:
					if arg > 255 { // not a byte
						ob = errObs(5)
						return
					}
					err := vm.VerifC28Op8024(op8024[code], s, byte(arg))
					var su *vm.ErrStackUnderflow
					var io *vm.ErrInvalidOpCode
					switch {
					case err == nil:
						ob = L(I(0))
						// reference: EIP-8024 on the private stack; a success that needs more items
						// than the frame holds has reached below the frame base
						need, upd := spec8024(code, arg, p)
						if need > len(p) {
							fail("%s with immediate %#x succeeded on a frame of %d items, it needs %d: it reached below the frame base", op8024[code], arg, len(p), need)
						} else {
							ref[n-1] = upd
							res.Tags = append(res.Tags, "ok-"+op8024[code].String())
						}
					case errors.As(err, &su):
						ob = errObs(1)
						res.Tags = append(res.Tags, "underflow-"+op8024[code].String())
					case errors.As(err, &io):
						ob = errObs(5)
					default:
						ob = errObs(9)
						fail("unexpected error %v", err)
					}
				}
			})
			if pan {
				ob = errObs(4)
				fail("stack operation %d panicked although the interpreter's check passed", code)
			} else {
				nOK++
			}
			obs = append(obs, ob)
		}
		checkAll(fmt.Sprintf("after op %s", String(o)))
	}
	for i := len(frames) - 1; i >= 0; i-- {
		vm.VerifC28Release(frames[i])
	}
	vm.VerifC28ReturnArena(ar)
	res.Obs = obs
	if len(fails) > 0 {
		res.Oracle = fmt.Sprint(fails)
	}
	slices.Sort(res.Tags)
	res.Tags = slices.Compact(res.Tags)
	res.Tags = append(res.Tags, "arena", fmt.Sprintf("depth%d", min(maxDepth, 5)))
	if len(ar.Raw()) > 1025 {
		res.Tags = append(res.Tags, "arena-grown")
	}
	res.NonTrivial = maxDepth >= 2 && parentReads > 0 && nOK >= 4
	return res
}

// ------------------------------------------------------------------ kind 1: memory scripts

const sizeCap = 1 << 20

func within(ln, off, size uint64) bool { return size == 0 || (off+size >= off && off+size <= ln) }

func allZero(b []byte) bool {
	for _, x := range b {
		if x != 0 {
			return false
		}
	}
	return true
}

func runMem(l SL) Result {
	if len(l) != 3 {
		shape("memory case")
	}
	dirt := AsInt(l[1])
	ops := AsList(l[2])
	res := Result{}
	var fails []string
	fail := func(f string, a ...any) {
		if len(fails) < 4 {
			fails = append(fails, fmt.Sprintf(f, a...))
		}
	}
	drainPools()
	if dirt > 0 { // an "earlier frame" dirties an object and frees it into the pool
		d := vm.NewMemory()
		d.Resize(uint64(dirt))
		for i, b := 0, d.Data(); i < len(b); i++ {
			b[i] = 0xff
		}
		vm.VerifC28MemoryGasCost(d, uint64(dirt))
		d.Free()
		res.Tags = append(res.Tags, "mem-dirty")
	}
	m := vm.NewMemory()
	// direct oracle: a brand-new private byte slice per frame
	var ref []byte
	var refGas uint64
	reuses, reads := 0, 0
	invariant := func(when string) {
		if m.Len() != len(ref) {
			fail("%s: Len()=%d, a fresh memory would have %d", when, m.Len(), len(ref))
		}
		back := vm.VerifC28MemBacking(m)
		if !allZero(back[m.Len():]) {
			fail("%s: backing array beyond len (len=%d cap=%d) is not zero", when, m.Len(), len(back))
		}
		if vm.VerifC28MemLastGas(m) != refGas {
			fail("%s: lastGasCost=%d, a fresh memory would have %d", when, vm.VerifC28MemLastGas(m), refGas)
		}
	}
	invariant("NewMemory")
	u64 := func(v Sx) uint64 {
		b := AsBig(v)
		if b.Sign() < 0 || !b.IsUint64() {
			shape("uint64 out of range")
		}
		return b.Uint64()
	}
	obs := make(SL, 0, len(ops))
	unit := L(I(0))
	perr := L(I(3), I(1))
	for _, o := range ops {
		ol := AsList(o)
		if len(ol) == 0 {
			shape("empty op")
		}
		code := AsInt(ol[0])
		need := map[int]int{0: 2, 1: 4, 2: 3, 3: 4, 4: 3, 5: 1, 6: 2, 7: 1}
		if k, ok := need[code]; !ok || len(ol) != k {
			shape("memory op arity")
		}
		switch code {
		case 0:
			n := u64(ol[1])
			if n > sizeCap {
				shape("resize too large for the harness")
			}
			m.Resize(n)
			if uint64(len(ref)) < n {
				ref = append(ref, make([]byte, n-uint64(len(ref)))...)
			}
			obs = append(obs, unit)
		case 1:
			off, sz, val := u64(ol[1]), u64(ol[2]), AsBytes(ol[3])
			pan := catchPanic(func() { m.Set(off, sz, val) })
			want := sz > 0 && (off+sz > uint64(len(ref)) || off+sz < off)
			if pan != want {
				fail("Set(%d,%d) panicked=%v, expected %v", off, sz, pan, want)
			}
			if pan {
				obs = append(obs, perr)
			} else {
				if sz > 0 {
					copy(ref[off:off+sz], val)
				}
				obs = append(obs, unit)
			}
		case 2:
			off, w := u64(ol[1]), asWord(ol[2])
			pan := catchPanic(func() { m.Set32(off, w) })
			want := off+32 > uint64(len(ref)) || off+32 < off
			if pan != want {
				fail("Set32(%d) panicked=%v, expected %v", off, pan, want)
			}
			if pan {
				obs = append(obs, perr)
			} else {
				b := w.Bytes32()
				copy(ref[off:off+32], b[:])
				obs = append(obs, unit)
			}
		case 3:
			dst, src, ln := u64(ol[1]), u64(ol[2]), u64(ol[3])
			// interpreter.go resizes the memory to cover every access before the opcode runs; an
			// access beyond len is outside that contract (Go would read the spare capacity)
			if !within(uint64(m.Len()), dst, ln) || !within(uint64(m.Len()), src, ln) {
				obs = append(obs, L(I(3), I(3)))
				continue
			}
			if catchPanic(func() { m.Copy(dst, src, ln) }) {
				fail("Copy(%d,%d,%d) within len panicked", dst, src, ln)
				obs = append(obs, perr)
			} else {
				if ln > 0 {
					copy(ref[dst:], append([]byte{}, ref[src:src+ln]...))
				}
				obs = append(obs, unit)
			}
		case 4:
			off, sz := u64(ol[1]), u64(ol[2])
			if sz > sizeCap {
				shape("read too large for the harness")
			}
			if !within(uint64(m.Len()), off, sz) {
				obs = append(obs, L(I(3), I(3)))
				continue
			}
			var got []byte
			if catchPanic(func() { got = m.GetCopy(off, sz) }) {
				fail("GetCopy(%d,%d) within len panicked", off, sz)
				obs = append(obs, perr)
			} else {
				if sz > 0 && !bytes.Equal(got, ref[off:off+sz]) {
					fail("GetCopy(%d,%d) differs from what a fresh memory would hold", off, sz)
				}
				reads++
				obs = append(obs, L(I(1), B(got)))
			}
		case 5:
			obs = append(obs, L(I(2), I(int64(m.Len()))))
		case 6:
			n := u64(ol[1])
			fee, err := vm.VerifC28MemoryGasCost(m, n)
			if err != nil {
				obs = append(obs, L(I(3), I(2)))
				if n <= 0x1FFFFFFFE0 {
					fail("memoryGasCost(%d) failed", n)
				}
			} else {
				// what the yellow paper says for a memory that starts empty with no memo
				var want uint64
				if n > 0 {
					words := (n + 31) / 32
					if words*32 > uint64(len(ref)) {
						total := words*3 + words*words/512
						want = total - refGas
						refGas = total
					}
				}
				if fee != want {
					fail("memoryGasCost(%d) = %d, a fresh memory would charge %d", n, fee, want)
				}
				obs = append(obs, L(I(2), U(fee)))
			}
		case 7:
			m.Free()
			m = vm.NewMemory()
			ref, refGas = nil, 0
			reuses++
			obs = append(obs, unit)
		}
		invariant(fmt.Sprintf("after %s", String(o)))
	}
	m.Free()
	res.Obs = obs
	if len(fails) > 0 {
		res.Oracle = fmt.Sprint(fails)
	}
	res.Tags = append(res.Tags, "memory", fmt.Sprintf("reuse%d", min(reuses, 3)))
	res.NonTrivial = (reuses > 0 || dirt > 0) && reads > 0
	return res
}

// ------------------------------------------------------------------ kind 2: whole-EVM independence

var (
	addrP     = common.HexToAddress("0x1000")
	addrT0    = common.HexToAddress("0x2000")
	addrFill  = common.HexToAddress("0x3001")
	addrDeep  = common.HexToAddress("0x3002")
	addrDirty = common.HexToAddress("0x3003")
	addrEcho  = common.HexToAddress("0x3004")
)

const maxChain = 6

func trampAddr(k int) common.Address { return common.BigToAddress(big.NewInt(int64(0x2000 + k))) }

func be2(v int) []byte { return []byte{byte(v >> 8), byte(v)} }
func be4(v uint64) []byte {
	var b [4]byte
	binary.BigEndian.PutUint32(b[:], uint32(v))
	return b[:]
}

// Every trampoline keeps live SENTINEL words on its own stack across the CALL (derived from
// GASPRICE, which the harness sets per run and which generated programs never read), and hands
// them back: a callee that reads below its frame base returns run-dependent data, one that
// writes there is caught red-handed.
//
// T0: s1 = GASPRICE, s2 = ~GASPRICE, s3 = GASPRICE+1; forwards calldata to the program with exactly
// gas G; returns success || gas left || s3 || s2 || s1 || returndata
func codeT0(gas uint64) []byte {
	c := []byte{0x3a, 0x3a, 0x19, 0x3a, 0x60, 0x01, 0x01}
	c = append(c, 0x36, 0x5f, 0x5f, 0x37, 0x5f, 0x5f, 0x36, 0x5f, 0x5f, 0x61, 0x10, 0x00, 0x63)
	c = append(c, be4(gas)...)
	c = append(c, 0xf1, 0x5f, 0x52, 0x5a, 0x60, 0x20, 0x52, 0x60, 0x40, 0x52, 0x60, 0x60, 0x52, 0x60, 0x80, 0x52,
		0x3d, 0x5f, 0x60, 0xa0, 0x3e, 0x3d, 0x60, 0xa0, 0x01, 0x5f, 0xf3)
	return c
}

// Tk (k >= 1): s1 = GASPRICE, s2 = ~GASPRICE; forwards calldata to T(k-1) with exactly the given
// gas; returns returndata || s2 || s1
func codeTk(k int, gas uint64) []byte {
	c := []byte{0x3a, 0x3a, 0x19, 0x36, 0x5f, 0x5f, 0x37, 0x5f, 0x5f, 0x36, 0x5f, 0x5f, 0x61}
	c = append(c, be2(0x2000+k-1)...)
	c = append(c, 0x63)
	c = append(c, be4(gas)...)
	c = append(c, 0xf1, 0x50, 0x3d, 0x5f, 0x5f, 0x3e, 0x3d, 0x52, 0x3d, 0x60, 0x20, 0x01, 0x52, 0x3d, 0x60, 0x40, 0x01, 0x5f, 0xf3)
	return c
}

// sentinel of a run: the gas price handed to the EVM
func sentinelOf(salt uint64) *uint256.Int {
	var b [8]byte
	binary.BigEndian.PutUint64(b[:], salt)
	h := sha256.Sum256(b[:])
	return new(uint256.Int).SetBytes(h[:])
}

// stripSentinels checks and removes what the trampolines appended; "" = every caller's live
// stack items came back unchanged
func stripSentinels(ret []byte, depth int, gp *uint256.Int) ([]byte, string) {
	s1 := gp.Bytes32()
	s2 := new(uint256.Int).Not(gp).Bytes32()
	s3 := new(uint256.Int).AddUint64(gp, 1).Bytes32()
	for k := depth; k >= 1; k-- {
		if len(ret) < 64 {
			return ret, ""
		}
		tail := ret[len(ret)-64:]
		if !bytes.Equal(tail[:32], s2[:]) || !bytes.Equal(tail[32:], s1[:]) {
			return ret, fmt.Sprintf("the live stack items of trampoline T%d changed across its CALL: %x, want %x%x", k, tail, s2, s1)
		}
		ret = ret[:len(ret)-64]
	}
	if len(ret) < 0xa0 {
		return ret, ""
	}
	if !bytes.Equal(ret[0x40:0x60], s3[:]) || !bytes.Equal(ret[0x60:0x80], s2[:]) || !bytes.Equal(ret[0x80:0xa0], s1[:]) {
		return ret, fmt.Sprintf("the live stack items of the caller T0 changed across its CALL: %x, want %x%x%x", ret[0x40:0xa0], s3, s2, s1)
	}
	return append(append([]byte{}, ret[:0x40]...), ret[0xa0:]...), ""
}

func chainGas(g uint64) [maxChain + 1]uint64 {
	var out [maxChain + 1]uint64
	out[0] = 2*g + 300000
	for k := 1; k <= maxChain; k++ {
		out[k] = out[k-1] + out[k-1]/32 + g + 300000
	}
	return out
}

func codeFill() []byte {
	var c []byte
	for i := 0; i < 1024; i++ {
		c = append(c, 0x60, byte(i))
	}
	return append(c, 0x00)
}

func codeDeep() []byte {
	var c []byte
	for i := 0; i < 300; i++ {
		c = append(c, 0x60, 0x07)
	}
	// PUSH0 CALLDATALOAD DUP1 ISZERO PUSH2 end JUMPI
	c = append(c, 0x5f, 0x35, 0x80, 0x15, 0x61, 0, 0, 0x57)
	fix := len(c) - 3
	// PUSH1 1 SWAP1 SUB PUSH0 MSTORE ; CALL(GAS, ADDRESS, 0, 0, 32, 0, 0) ; STOP
	c = append(c, 0x60, 0x01, 0x90, 0x03, 0x5f, 0x52, 0x5f, 0x5f, 0x60, 0x20, 0x5f, 0x5f, 0x30, 0x5a, 0xf1, 0x00)
	end := len(c)
	c = append(c, 0x5b, 0x00)
	c[fix], c[fix+1] = byte(end>>8), byte(end)
	return c
}

func codeDirty() []byte {
	c := []byte{0x7f}
	for i := 0; i < 32; i++ {
		c = append(c, 0xff)
	}
	for off := 0; off < 0x2000; off += 32 {
		c = append(c, 0x80, 0x61, byte(off>>8), byte(off), 0x52)
	}
	return append(c, 0x61, 0x20, 0x00, 0x5f, 0xf3)
}

func codeEcho() []byte { return []byte{0x36, 0x5f, 0x5f, 0x37, 0x36, 0x5f, 0xf3} }

var helperCode = map[common.Address][]byte{
	addrFill: codeFill(), addrDeep: codeDeep(), addrDirty: codeDirty(), addrEcho: codeEcho(),
}

func u64p(v uint64) *uint64 { return &v }

// index 0 replicates the default configuration of core/vm/runtime (forks up to Cancun)
var chainConfigs = []*params.ChainConfig{{
	ChainID: big.NewInt(1), HomesteadBlock: new(big.Int), DAOForkBlock: new(big.Int), EIP150Block: new(big.Int),
	EIP155Block: new(big.Int), EIP158Block: new(big.Int), ByzantiumBlock: new(big.Int), ConstantinopleBlock: new(big.Int),
	PetersburgBlock: new(big.Int), IstanbulBlock: new(big.Int), MuirGlacierBlock: new(big.Int), BerlinBlock: new(big.Int),
	LondonBlock: new(big.Int), TerminalTotalDifficulty: big.NewInt(0), ShanghaiTime: u64p(0), CancunTime: u64p(0),
}, params.MergedTestChainConfig, params.AllDevChainProtocolChanges}

type prog struct {
	code, input []byte
	gas         uint64
	tmpl        int
	expect      []byte
	hasExpect   bool
}

type evmResult struct {
	note     string // "" or what went wrong outside the compared fields (panic, caller's stack changed)
	ret      []byte
	gasLeft  uint64
	errClass int
	logs     [32]byte
	root     common.Hash
}

func (r evmResult) String() string {
	return fmt.Sprintf("ret=%x gas=%d err=%d logs=%x root=%x", trunc(r.ret), r.gasLeft, r.errClass, r.logs[:4], r.root[:4])
}

func trunc(b []byte) []byte {
	if len(b) > 96 {
		return b[:96]
	}
	return b
}

func errClass(err error) int {
	switch {
	case err == nil:
		return 0
	case errors.Is(err, vm.ErrExecutionReverted):
		return 1
	case errors.Is(err, vm.ErrOutOfGas):
		return 2
	case errors.Is(err, vm.ErrInvalidJump):
		return 5
	case errors.Is(err, vm.ErrWriteProtection):
		return 7
	case errors.Is(err, vm.ErrDepth):
		return 8
	case errors.Is(err, vm.ErrGasUintOverflow):
		return 10
	case errors.Is(err, vm.ErrReturnDataOutOfBounds):
		return 11
	}
	var su *vm.ErrStackUnderflow
	if errors.As(err, &su) {
		return 3
	}
	var so *vm.ErrStackOverflow
	if errors.As(err, &so) {
		return 4
	}
	var io *vm.ErrInvalidOpCode
	if errors.As(err, &io) {
		return 6
	}
	return 9
}

var backingDB = sync.OnceValue(func() state.Database { return state.NewDatabaseForTesting() })

type shared struct {
	jd vm.JumpDestCache
	pc *vm.PrecompileCache
}

// one execution of a program in a brand-new state with a brand-new EVM.
// depth < 0: the program is the transaction's destination; depth >= 0: reached through
// T(depth) -> ... -> T0 -> program.
func execute(cfgsel int, p prog, depth int, sh *shared, mode int, release bool, salt uint64) (r evmResult) {
	// every run gets a brand-new StateDB over the (never written) empty backing database
	db, _ := state.New(types.EmptyRootHash, backingDB())
	cg := chainGas(p.gas)
	for a, c := range helperCode {
		db.CreateAccount(a)
		db.SetCode(a, c, tracing.CodeChangeUnspecified)
	}
	db.CreateAccount(addrP)
	db.SetCode(addrP, p.code, tracing.CodeChangeUnspecified)
	db.CreateAccount(addrT0)
	db.SetCode(addrT0, codeT0(p.gas), tracing.CodeChangeUnspecified)
	for k := 1; k <= maxChain; k++ {
		db.CreateAccount(trampAddr(k))
		db.SetCode(trampAddr(k), codeTk(k, cg[k-1]), tracing.CodeChangeUnspecified)
	}
	dest, gas := addrP, p.gas
	if depth >= 0 {
		dest, gas = trampAddr(depth), cg[depth]
	}
	cfg := &vmrt.Config{
		ChainConfig: chainConfigs[cfgsel], GasLimit: gas, State: db,
		Difficulty: new(big.Int), GasPrice: sentinelOf(salt).ToBig(), Value: new(big.Int), BlockNumber: big.NewInt(1), Time: 1,
		BaseFee: big.NewInt(params.InitialBaseFee), BlobBaseFee: big.NewInt(params.BlobTxMinBlobGasprice), Random: new(common.Hash),
		GetHashFn: func(n uint64) common.Hash { return common.BigToHash(new(big.Int).SetUint64(n + 77)) },
	}
	rules := cfg.ChainConfig.Rules(cfg.BlockNumber, true, cfg.Time)
	var (
		ret     []byte
		leftGas uint64
		err     error
	)
	defer func() {
		// a Go panic inside the interpreter (e.g. an index below the arena) is a result too
		if e := recover(); e != nil {
			r = evmResult{errClass: 99, note: fmt.Sprintf("the EVM panicked: %v", e)}
		}
	}()
	if sh == nil || mode == 0 {
		// the public entry point: a brand-new EVM with its own jumpdest map and no precompile cache
		ret, leftGas, err = vmrt.Call(dest, p.input, cfg)
	} else {
		// the same steps as runtime.Call, with the shared caches attached (as core.StateProcessor does)
		env := vmrt.NewEnv(cfg)
		env.SetJumpDestCache(sh.jd)
		if mode == 1 {
			env.SetPrecompileCache(sh.pc)
		}
		db.Prepare(rules, cfg.Origin, cfg.Coinbase, &dest, vm.ActivePrecompiles(rules), nil)
		limit := gas
		if rules.IsAmsterdam {
			limit = min(gas, params.MaxTxGas)
		}
		var left vm.GasBudget
		ret, left, err = env.Call(cfg.Origin, dest, p.input, vm.NewGasBudget(limit, gas-limit), new(uint256.Int))
		leftGas = left.ExecutionGas
		if release {
			env.Release()
		}
	}
	r = evmResult{ret: ret, gasLeft: leftGas, errClass: errClass(err)}
	if depth >= 0 && err == nil {
		r.ret, r.note = stripSentinels(ret, depth, sentinelOf(salt))
	}
	h := sha256.New()
	for _, lg := range db.Logs() {
		h.Write(lg.Address[:])
		for _, t := range lg.Topics {
			h.Write(t[:])
		}
		var n [8]byte
		binary.BigEndian.PutUint64(n[:], uint64(len(lg.Data)))
		h.Write(n[:])
		h.Write(lg.Data)
	}
	copy(r.logs[:], h.Sum(nil))
	r.root = db.IntermediateRoot(rules)
	return r
}

func sameResult(a, b evmResult, withGas bool) bool {
	return bytes.Equal(a.ret, b.ret) && a.errClass == b.errClass && a.logs == b.logs && a.root == b.root &&
		(!withGas || a.gasLeft == b.gasLeft)
}

func runEVM(l SL) Result {
	if len(l) != 6 {
		shape("evm case")
	}
	cfgsel := AsInt(l[1])
	if cfgsel < 0 || cfgsel >= len(chainConfigs) {
		shape("config selector")
	}
	var progs []prog
	for _, ps := range AsList(l[2]) {
		pl := AsList(ps)
		if len(pl) != 5 {
			shape("program")
		}
		p := prog{code: AsBytes(pl[0]), input: AsBytes(pl[1]), gas: AsU64(pl[2]), tmpl: AsInt(pl[3])}
		if p.gas < 1000 || p.gas > 2000000 {
			shape("program gas")
		}
		if e := AsList(pl[4]); len(e) == 1 {
			p.expect, p.hasExpect = AsBytes(e[0]), true
		} else if len(e) != 0 {
			shape("expectation")
		}
		progs = append(progs, p)
	}
	type run struct{ idx, depth, mode int }
	var runs []run
	for _, rs := range AsList(l[3]) {
		rl := AsList(rs)
		if len(rl) != 3 {
			shape("run")
		}
		r := run{AsInt(rl[0]), AsInt(rl[1]), AsInt(rl[2])}
		if r.idx < 0 || r.idx >= len(progs) || r.depth < -1 || r.depth > maxChain || r.mode < 0 || r.mode > 2 {
			shape("run fields")
		}
		runs = append(runs, r)
	}
	par := AsInt(l[4])
	release := AsBool(l[5])
	if par < 0 || par > 8 {
		shape("par")
	}
	res := Result{Obs: L(I(2))}
	var mu sync.Mutex
	var fails []string
	fail := func(f string, a ...any) {
		mu.Lock()
		if len(fails) < 4 {
			fails = append(fails, fmt.Sprintf(f, a...))
		}
		mu.Unlock()
	}

	// reference runs, each with cold pools (two GCs empty every sync.Pool), a brand-new EVM,
	// per-EVM caches: "the same program run first in isolation"
	refDirect := make([]evmResult, len(progs))
	refChain := make([]evmResult, len(progs))
	okRef := 0
	for i, p := range progs {
		coldPools()
		refDirect[i] = execute(cfgsel, p, -1, nil, 0, false, uint64(2*i))
		refChain[i] = execute(cfgsel, p, 0, nil, 0, false, uint64(2*i+1))
		for _, rr := range []evmResult{refDirect[i], refChain[i]} {
			if rr.note != "" {
				fail("program %d (template %d) in isolation: %s", i, p.tmpl, rr.note)
			}
		}
		if p.hasExpect {
			if refDirect[i].errClass != 0 || !bytes.Equal(refDirect[i].ret, p.expect) {
				fail("program %d (template %d) in isolation: %s, expected ret=%x", i, p.tmpl, refDirect[i], trunc(p.expect))
			}
			rc := refChain[i].ret
			if refChain[i].errClass != 0 || refChain[i].note != "" || len(rc) < 64 || rc[31] != 1 || !bytes.Equal(rc[64:], p.expect) {
				fail("program %d (template %d) below T0 in isolation: %s, expected success and ret=%x", i, p.tmpl, refChain[i], trunc(p.expect))
			}
		}
		if refDirect[i].errClass == 0 && len(refDirect[i].ret) > 0 {
			okRef++
		}
		res.Tags = append(res.Tags, fmt.Sprintf("tmpl%d", p.tmpl), fmt.Sprintf("err%d", refDirect[i].errClass))
	}
	sh := &shared{jd: core.NewJumpDestCache(), pc: vm.NewPrecompileCache()}
	var saltCtr atomic.Uint64
	saltCtr.Store(1000)
	check := func(who string, r run) {
		got := execute(cfgsel, progs[r.idx], r.depth, sh, r.mode, release, saltCtr.Add(1))
		if got.note != "" {
			fail("%s: program %d (template %d) at depth %d: %s", who, r.idx, progs[r.idx].tmpl, r.depth, got.note)
		}
		if r.depth < 0 {
			if !sameResult(got, refDirect[r.idx], true) {
				fail("%s: program %d (template %d) direct, cache mode %d: %s; in isolation: %s", who, r.idx, progs[r.idx].tmpl, r.mode, got, refDirect[r.idx])
			}
		} else if !sameResult(got, refChain[r.idx], r.depth == 0) {
			fail("%s: program %d (template %d) at depth %d, cache mode %d: %s; in isolation below T0: %s", who, r.idx, progs[r.idx].tmpl, r.depth, r.mode, got, refChain[r.idx])
		}
	}
	maxd := -1
	for _, r := range runs {
		check("sequential", r)
		maxd = max(maxd, r.depth)
	}
	if par > 0 && len(runs) > 0 {
		var wg sync.WaitGroup
		for g := 0; g < par; g++ {
			wg.Add(1)
			go func(g int) {
				defer wg.Done()
				defer func() {
					if e := recover(); e != nil {
						fail("goroutine %d panicked: %v", g, e)
					}
				}()
				for i := range runs {
					check(fmt.Sprintf("goroutine %d", g), runs[(i+g*3)%len(runs)])
				}
			}(g)
		}
		wg.Wait()
	}
	if len(fails) > 0 {
		res.Oracle = fmt.Sprint(fails)
	}
	res.Tags = append(res.Tags, "evm", fmt.Sprintf("cfg%d", cfgsel), fmt.Sprintf("par%d", par), fmt.Sprintf("maxdepth%d", maxd))
	res.NonTrivial = okRef > 0 && len(runs) >= 2 && maxd >= 1
	return res
}

// ------------------------------------------------------------------ kind 4: call histories, fresh vs shared

func histAddr(a int) common.Address { return common.BigToAddress(big.NewInt(int64(0x5000 + a))) }

type histWorld struct {
	db    *state.StateDB
	cfg   *vmrt.Config
	rules params.Rules
	evm   *vm.EVM // world C: one EVM for the whole history
}

func newHistWorld(cfgsel int) *histWorld {
	db, _ := state.New(types.EmptyRootHash, backingDB())
	for a, c := range helperCode {
		db.CreateAccount(a)
		db.SetCode(a, c, tracing.CodeChangeUnspecified)
	}
	cfg := &vmrt.Config{
		ChainConfig: chainConfigs[cfgsel], GasLimit: 30_000_000, State: db,
		Difficulty: new(big.Int), GasPrice: big.NewInt(7), Value: new(big.Int), BlockNumber: big.NewInt(1), Time: 1,
		BaseFee: big.NewInt(params.InitialBaseFee), BlobBaseFee: big.NewInt(params.BlobTxMinBlobGasprice), Random: new(common.Hash),
		GetHashFn: func(n uint64) common.Hash { return common.BigToHash(new(big.Int).SetUint64(n + 77)) },
	}
	return &histWorld{db: db, cfg: cfg, rules: cfg.ChainConfig.Rules(cfg.BlockNumber, true, cfg.Time)}
}

func (w *histWorld) setCode(a common.Address, code []byte) {
	if !w.db.Exist(a) {
		w.db.CreateAccount(a)
	}
	w.db.SetNonce(a, 1, tracing.NonceChangeUnspecified)
	w.db.SetCode(a, code, tracing.CodeChangeUnspecified)
	w.db.Finalise(w.rules)
}

// mode 0: brand-new EVM, its own caches, nothing given back to the pools
// mode 1: brand-new EVM, chain-wide shared jumpdest and precompile caches, arena released to the pool
// mode 2: ONE EVM for the whole history (its own jumpdest map, its arena reused call after call)
func (w *histWorld) call(mode int, sh *shared, dest common.Address, input []byte, gas uint64) (r evmResult) {
	defer func() {
		if e := recover(); e != nil {
			r = evmResult{errClass: 99, note: fmt.Sprintf("the EVM panicked: %v", e)}
		}
	}()
	var env *vm.EVM
	switch mode {
	case 0:
		env = vmrt.NewEnv(w.cfg)
	case 1:
		env = vmrt.NewEnv(w.cfg)
		env.SetJumpDestCache(sh.jd)
		env.SetPrecompileCache(sh.pc)
		defer env.Release()
	default:
		if w.evm == nil {
			w.evm = vmrt.NewEnv(w.cfg)
		}
		env = w.evm
		env.SetTxContext(vm.TxContext{Origin: w.cfg.Origin, GasPrice: uint256.MustFromBig(w.cfg.GasPrice)})
	}
	nlogs := len(w.db.Logs())
	w.db.Prepare(w.rules, w.cfg.Origin, w.cfg.Coinbase, &dest, vm.ActivePrecompiles(w.rules), nil)
	ret, left, err := env.Call(w.cfg.Origin, dest, input, vm.NewGasBudget(gas, 0), new(uint256.Int))
	w.db.Finalise(w.rules)
	r = evmResult{ret: ret, gasLeft: left.ExecutionGas, errClass: errClass(err)}
	h := sha256.New()
	for _, lg := range w.db.Logs()[nlogs:] {
		h.Write(lg.Address[:])
		for _, t := range lg.Topics {
			h.Write(t[:])
		}
		h.Write(lg.Data)
	}
	copy(r.logs[:], h.Sum(nil))
	return r
}

func runHistory(l SL) Result {
	if len(l) != 3 {
		shape("history case")
	}
	cfgsel := AsInt(l[1])
	if cfgsel < 0 || cfgsel >= len(chainConfigs) {
		shape("config selector")
	}
	res := Result{Obs: L(I(4))}
	var fails []string
	coldPools()
	sh := &shared{jd: core.NewJumpDestCache(), pc: vm.NewPrecompileCache()}
	worlds := []*histWorld{newHistWorld(cfgsel), newHistWorld(cfgsel), newHistWorld(cfgsel)}
	names := []string{"fresh EVM and caches per call", "shared chain-wide caches, pooled arena", "one EVM for the whole history"}
	ncalls, nok, changed, deleg := 0, 0, 0, 0
	for si, st := range AsList(l[2]) {
		sl := AsList(st)
		if len(sl) < 3 {
			shape("step")
		}
		a := AsInt(sl[1])
		if a < 0 || a >= 8 {
			shape("account index")
		}
		switch AsInt(sl[0]) {
		case 0:
			code := AsBytes(sl[2])
			for _, w := range worlds {
				w.setCode(histAddr(a), code)
			}
			if ncalls > 0 {
				changed++
			}
		case 1:
			t := AsInt(sl[2])
			if t < 0 || t >= 8 {
				shape("delegation target")
			}
			for _, w := range worlds {
				w.setCode(histAddr(a), types.AddressToDelegation(histAddr(t)))
			}
			deleg++
		case 2:
			if len(sl) != 4 {
				shape("call step")
			}
			input, gas := AsBytes(sl[2]), AsU64(sl[3])
			if gas < 1000 || gas > 5_000_000 {
				shape("call gas")
			}
			ncalls++
			var rs [3]evmResult
			for m, w := range worlds {
				rs[m] = w.call(m, sh, histAddr(a), input, gas)
				if rs[m].note != "" && len(fails) < 4 {
					fails = append(fails, fmt.Sprintf("step %d, call of account %d with %s: %s", si, a, names[m], rs[m].note))
				}
			}
			for m := 1; m < 3; m++ {
				if !(bytes.Equal(rs[m].ret, rs[0].ret) && rs[m].gasLeft == rs[0].gasLeft && rs[m].errClass == rs[0].errClass && rs[m].logs == rs[0].logs) && len(fails) < 4 {
					fails = append(fails, fmt.Sprintf("step %d, call of account %d: with %s: %s; with %s: %s", si, a, names[m], rs[m], names[0], rs[0]))
				}
			}
			if rs[0].errClass == 0 {
				nok++
			}
			res.Tags = append(res.Tags, fmt.Sprintf("herr%d", rs[0].errClass))
		default:
			shape("unknown step")
		}
	}
	root0 := worlds[0].db.IntermediateRoot(worlds[0].rules)
	for m := 1; m < 3; m++ {
		if r := worlds[m].db.IntermediateRoot(worlds[m].rules); r != root0 && len(fails) < 4 {
			fails = append(fails, fmt.Sprintf("final state root with %s: %x; with %s: %x", names[m], r[:6], names[0], root0[:6]))
		}
	}
	if worlds[2].evm != nil {
		worlds[2].evm.Release()
	}
	if len(fails) > 0 {
		res.Oracle = fmt.Sprint(fails)
	}
	slices.Sort(res.Tags)
	res.Tags = slices.Compact(res.Tags)
	res.Tags = append(res.Tags, "history", fmt.Sprintf("hcfg%d", cfgsel))
	if changed > 0 {
		res.Tags = append(res.Tags, "code-changed")
	}
	res.NonTrivial = ncalls >= 3 && nok >= 2 && changed > 0 && deleg > 0
	return res
}

// ------------------------------------------------------------------ kind 3: precompile cache

var pcRules = params.Rules{IsHomestead: true, IsEIP2929: true, IsEIP150: true, IsEIP155: true, IsEIP158: true,
	IsByzantium: true, IsConstantinople: true, IsPetersburg: true, IsIstanbul: true, IsBerlin: true, IsLondon: true,
	IsMerge: true, IsShanghai: true, IsCancun: true, IsPrague: true, IsOsaka: true}

type pcOut struct {
	out  []byte
	gas  uint64
	errs string
}

func runPC(p vm.PrecompiledContract, a common.Address, in []byte, cache *vm.PrecompileCache) pcOut {
	out, left, err := vm.RunPrecompiledContract(nil, p, a, append([]byte{}, in...), vm.NewGasBudget(50_000_000, 0), nil, pcRules, cache)
	r := pcOut{out: out, gas: left.ExecutionGas}
	if err != nil {
		r.errs = "error"
		if errors.Is(err, vm.ErrOutOfGas) {
			r.errs = "oog"
		}
		r.out = nil
	}
	return r
}

func (a pcOut) eq(b pcOut) bool {
	return bytes.Equal(a.out, b.out) && a.gas == b.gas && a.errs == b.errs
}

func runPrecompile(l SL) Result {
	if len(l) != 4 {
		shape("precompile case")
	}
	a := common.BigToAddress(AsBig(l[1]))
	in, sib := AsBytes(l[2]), AsBytes(l[3])
	res := Result{Obs: L(I(3)), Tags: []string{"precompile"}}
	p, ok := vm.ActivePrecompiledContracts(pcRules)[a]
	if !ok {
		res.Tags = append(res.Tags, "pc-none")
		return res
	}
	res.Tags = append(res.Tags, "pc-"+p.Name())
	var fails []string
	plainIn, plainSib := runPC(p, a, in, nil), runPC(p, a, sib, nil)
	for order := 0; order < 2; order++ {
		c := vm.NewPrecompileCache()
		first, second := in, sib
		pf, ps := plainIn, plainSib
		if order == 1 {
			first, second, pf, ps = sib, in, plainSib, plainIn
		}
		miss, hit := runPC(p, a, first, c), runPC(p, a, first, c)
		other := runPC(p, a, second, c)
		again := runPC(p, a, first, c.PrefetchView())
		if !miss.eq(pf) || !hit.eq(pf) || !again.eq(pf) {
			fails = append(fails, fmt.Sprintf("%s(%x): uncached %x/%s, cold cache %x/%s, warm cache %x/%s", p.Name(), trunc(first), trunc(pf.out), pf.errs, trunc(miss.out), miss.errs, trunc(hit.out), hit.errs))
		}
		if !other.eq(ps) {
			fails = append(fails, fmt.Sprintf("%s(%x) after caching %x: %x/%s, uncached %x/%s", p.Name(), trunc(second), trunc(first), trunc(other.out), other.errs, trunc(ps.out), ps.errs))
		}
	}
	if len(fails) > 0 {
		res.Oracle = fmt.Sprint(fails)
	}
	if plainIn.errs == "" {
		res.Tags = append(res.Tags, "pc-ok")
	}
	res.NonTrivial = plainIn.errs == "" && len(plainIn.out) > 0
	return res
}

func run(c Sx) Result {
	l := AsList(c)
	if len(l) == 0 {
		shape("empty case")
	}
	switch AsInt(l[0]) {
	case 0:
		return runArena(l)
	case 1:
		return runMem(l)
	case 2:
		return runEVM(l)
	case 3:
		return runPrecompile(l)
	case 4:
		return runHistory(l)
	}
	shape("unknown case kind")
	return Result{}
}

func main() {
	if pf := os.Getenv("HX_C28_PROF"); pf != "" {
		f, _ := os.Create(pf)
		pprof.StartCPUProfile(f)
		defer pprof.StopCPUProfile()
	}
	Main(Family{
		ID: "C28",
		Rule: "kind 0: random scripts of frame enter/exit and interpreter-checked push/pop/pop1Peek1/dup/swap/back/Data() on the real shared arena " +
			"(obtained from stackPool, optionally dirtied first), incl. frames filled to the 1024 limit so that children grow the arena; " +
			"kind 1: random Resize/Set/Set32/Copy/GetCopy/Len/memoryGasCost/Free+NewMemory scripts on the real pooled Memory after a dirtying frame, sizes around the 16 KiB pooling limit; " +
			"kind 2: 2-4 small programs (arena-growth-in-child then parent operands, reads of untouched memory after a dirtying program, random code, jump-heavy code, precompile calls) " +
			"each run directly and below trampolines at depths 0-6, in random order, with per-EVM or shared jumpdest/precompile caches, released or leaked arenas, then in 0-4 goroutines; " +
			"kind 3: precompile inputs and siblings that normalise alike, cached vs uncached. " +
			"Arena scripts also run the real opDupN/opSwapN/opExchange (EIP-8024) in child frames holding h items, h within 2 of what the immediate needs. " +
			"In kind 2 every trampoline keeps live sentinel words (derived from a per-run GASPRICE) on its stack across the CALL and hands them back; boundary probes execute ANY opcode byte at heights around its minStack/maxStack (EIP-8024: around the immediate's depth) directly and nested. " +
			"kind 4: call histories over 8 accounts (code, EIP-7702 delegations, forwarders holding live words) in which code changes between calls, executed three ways - fresh EVM+caches per call / shared chain-wide jumpdest+precompile caches with pooled arenas / one EVM for the whole history - and compared call by call (return data, gas, error class, logs) and by final state root. " +
			"Non-trivial: kind 0 with >= 2 nested frames and a value read in a parent after its child was released; kind 1 with a pooled-object reuse and a read; " +
			"kind 2 with a successful non-empty reference result, >= 2 runs and depth >= 1; kind 3 with a successful non-empty output; kind 4 with >= 3 calls, >= 2 successful, a code change after the first call and a delegation; distinct = distinct case line.",
		Gen: gen,
		Run: run,
	})
}
