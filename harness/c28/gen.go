package main

import (
	"encoding/binary"
	"math/big"

	. "gethverif/harness/hxlib"
	"github.com/ethereum/go-ethereum/core/vm"
)

// ------------------------------------------------------------------ arena scripts

func randWord(r *Rng) Sx {
	switch r.Intn(4) {
	case 0:
		return I(int64(r.Intn(256)))
	case 1:
		b := make([]byte, 32)
		for i := range b {
			b[i] = 0xff
		}
		return Big(new(big.Int).SetBytes(b))
	default:
		return Big(new(big.Int).SetBytes(r.Bytes(32)))
	}
}

func genArenaWalk(r *Rng) Sx {
	var ops SL
	var sizes []int
	n := r.Range(10, 80)
	wild := r.Chance(1, 6) // malformed / adversarial stream: ignore what is valid
	for len(ops) < n {
		d := len(sizes)
		x := r.Intn(100)
		top := 0
		if d > 0 {
			top = sizes[d-1]
		}
		switch {
		case x < 10:
			if d < 5 || wild {
				ops = append(ops, L(I(0)))
				sizes = append(sizes, 0)
			}
		case x < 17:
			if d > 0 {
				ops = append(ops, L(I(1)))
				sizes = sizes[:d-1]
			} else if wild {
				ops = append(ops, L(I(1)))
			}
		case x < 47:
			ops = append(ops, L(I(2), randWord(r)))
			if d > 0 {
				sizes[d-1]++
			}
		case x < 58:
			if top > 0 || wild || r.Chance(1, 10) {
				ops = append(ops, L(I(3)))
				if top > 0 {
					sizes[d-1]--
				}
			}
		case x < 63:
			if top > 1 || wild || r.Chance(1, 10) {
				ops = append(ops, L(I(4)))
				if top > 1 {
					sizes[d-1]--
				}
			}
		case x < 71:
			k := r.Range(1, 16)
			if wild && r.Chance(1, 3) {
				k = r.Range(-2, 20)
			}
			if top >= k || wild || r.Chance(1, 10) {
				ops = append(ops, L(I(5), I(int64(k))))
				if k >= 1 && k <= 16 && top >= k && d > 0 {
					sizes[d-1]++
				}
			}
		case x < 79:
			k := r.Range(1, 16)
			if wild && r.Chance(1, 3) {
				k = r.Range(-2, 20)
			}
			if top > k || wild || r.Chance(1, 10) {
				ops = append(ops, L(I(6), I(int64(k))))
			}
		case x < 84:
			k := r.Intn(max(top, 1))
			if wild && r.Chance(1, 3) {
				k = r.Range(-2, 40)
			}
			ops = append(ops, L(I(7), I(int64(k))))
		case x < 89:
			k := r.Intn(max(top, 1))
			if wild && r.Chance(1, 3) {
				k = r.Range(-2, 40)
			}
			ops = append(ops, L(I(8), I(int64(k)), randWord(r)))
		case x < 90:
			ops = append(ops, L(I(9)))
		case x < 91:
			ops = append(ops, L(I(int64(r.Range(11, 13))), I(int64(r.Intn(260)))))
		default:
			k := r.Intn(max(d, 1))
			if wild && r.Chance(1, 3) {
				k = r.Intn(8)
			}
			ops = append(ops, L(I(10), I(int64(k))))
		}
	}
	// close with observations of every frame from the top down
	for d := len(sizes); d > 0; d-- {
		ops = append(ops, L(I(10), I(0)), L(I(3)), L(I(1)))
	}
	dirt := 0
	if r.Bool() {
		dirt = r.Range(1, 3000)
	}
	return L(I(0), I(int64(dirt)), ops)
}

// frames filled to the limit: overflow checks at 1024, children that force the arena to grow
// while their parents hold values, parents reading their operands afterwards
func genArenaLimit(r *Rng) Sx {
	var ops SL
	depth := r.Range(2, 3)
	for d := 0; d < depth; d++ {
		ops = append(ops, L(I(0)))
		n := 1024
		if r.Chance(1, 3) {
			n = r.Range(1000, 1024)
		}
		for i := 0; i < n; i++ {
			ops = append(ops, L(I(2), I(int64((d+1)*4096+i))))
		}
		// at (or near) the limit
		ops = append(ops, L(I(2), I(7)), L(I(5), I(int64(r.Range(1, 16)))), L(I(6), I(16)), L(I(9)),
			L(I(8), I(int64(r.Intn(1000))), randWord(r)), L(I(3)), L(I(2), randWord(r)))
	}
	for d := depth - 1; d >= 0; d-- {
		for k := 0; k <= d; k++ {
			ops = append(ops, L(I(10), I(int64(k))))
		}
		ops = append(ops, L(I(3)), L(I(4)), L(I(7), I(int64(r.Intn(900)))), L(I(1)))
	}
	dirt := 0
	if r.Bool() {
		dirt = r.Range(1, 5000)
	}
	return L(I(0), I(int64(dirt)), ops)
}

// EIP-8024 at the frame boundary: a child frame holding h items, h around what DUPN / SWAPN /
// EXCHANGE with a given immediate need, above a parent that holds live items
func pairOf(x int) (int, int) {
	k := x ^ 143
	q, r := k/16, k%16
	if q < r {
		return q + 1, r + 1
	}
	return r + 1, 29 - q
}

func genArena8024(r *Rng) Sx {
	var ops SL
	ops = append(ops, L(I(0)))
	for i, n := 0, r.Range(1, 4); i < n; i++ {
		ops = append(ops, L(I(2), randWord(r)))
	}
	if r.Bool() { // one more level: the boundary is not at arena index 0
		ops = append(ops, L(I(0)), L(I(2), randWord(r)), L(I(2), randWord(r)))
	}
	ops = append(ops, L(I(0)))
	code := r.Range(11, 13)
	x := r.Intn(256)
	if r.Chance(1, 12) {
		x = r.Range(80, 130) // around the forbidden ranges
	}
	need := (x + 145) % 256
	if code == 12 {
		need++
	}
	if code == 13 {
		a, b := pairOf(x)
		need = max(a, b) + 1
	}
	if r.Chance(2, 3) && need > 40 { // mostly shallow depths: shorter scripts
		x = 128 + r.Intn(24) // n = 17 .. 40
		need = (x+145)%256 + code - 11
		if code == 13 {
			x = r.Intn(256)
			a, b := pairOf(x)
			need = max(a, b) + 1
		}
	}
	h := max(need+r.Range(-2, 2), 0)
	for i := 0; i < h; i++ {
		ops = append(ops, L(I(2), I(int64(1000+i))))
	}
	ops = append(ops, L(I(int64(code)), I(int64(x))))
	for i, n := 0, r.Intn(3); i < n; i++ { // a few more around the same boundary
		ops = append(ops, L(I(int64(r.Range(11, 13))), I(int64(x+r.Range(-1, 1)&255))))
		if r.Bool() {
			ops = append(ops, L(I(2), I(7)))
		}
	}
	ops = append(ops, L(I(10), I(1)), L(I(10), I(0)), L(I(1)), L(I(10), I(0)), L(I(3)), L(I(1)))
	dirt := 0
	if r.Bool() {
		dirt = r.Range(1, 3000)
	}
	return L(I(0), I(int64(dirt)), ops)
}

// ------------------------------------------------------------------ memory scripts

func genMem(r *Rng) Sx {
	var ops SL
	ln := 0
	big := r.Chance(1, 8) // sizes around the 16 KiB pooling limit (costly for the list model: fewer, shorter)
	size := func() int {
		if !big {
			if r.Chance(1, 4) {
				return 32 * r.Intn(40)
			}
			return r.Intn(2049)
		}
		switch x := r.Intn(20); {
		case x < 8:
			return r.Intn(2049)
		case x < 17:
			return 16384 + r.Range(-96, 96)
		case x < 19:
			return 32 * r.Range(500, 520)
		default:
			return r.Intn(40000)
		}
	}
	n := r.Range(5, 40)
	if big {
		n = r.Range(4, 14)
	}
	for i := 0; i < n; i++ {
		switch x := r.Intn(100); {
		case x < 18:
			s := size()
			ops = append(ops, L(I(0), I(int64(s))))
			ln = max(ln, s)
		case x < 33:
			sz := r.Intn(80)
			off := r.Intn(max(ln-sz+1, 1))
			switch r.Intn(12) {
			case 0:
				off = ln - sz + r.Range(1, 40) // beyond len: panic
			case 1:
				ops = append(ops, L(I(1), U(^uint64(0)-uint64(r.Intn(4))), U(uint64(r.Range(1, 64))), B(r.Bytes(4)))) // offset+size wraps
				continue
			}
			vl := sz
			if r.Chance(1, 4) {
				vl = r.Intn(100)
			}
			ops = append(ops, L(I(1), I(int64(max(off, 0))), I(int64(sz)), B(r.Bytes(vl))))
		case x < 45:
			off := r.Intn(max(ln-31, 1))
			if r.Chance(1, 8) {
				off = max(ln-r.Range(0, 40), 0)
			}
			if r.Chance(1, 30) {
				ops = append(ops, L(I(2), U(^uint64(0)-uint64(r.Intn(40))), randWord(r)))
				continue
			}
			ops = append(ops, L(I(2), I(int64(off)), randWord(r)))
		case x < 53:
			l := r.Intn(100)
			src := r.Intn(max(ln-l+1, 1))
			dst := r.Intn(max(ln-l+1, 1))
			if r.Chance(1, 6) {
				dst = r.Intn(ln + 2) // copy truncated at len / dst beyond len
			}
			if r.Chance(1, 10) {
				src = ln - l + r.Range(1, 9)
			}
			ops = append(ops, L(I(3), I(int64(max(dst, 0))), I(int64(max(src, 0))), I(int64(l))))
		case x < 75:
			sz := r.Intn(200)
			if r.Chance(1, 5) {
				sz = ln
			}
			off := r.Intn(max(ln-sz+1, 1))
			if r.Chance(1, 10) {
				off = ln - sz + r.Range(1, 33)
			}
			if r.Chance(1, 20) {
				ops = append(ops, L(I(4), U(uint64(1)<<40), I(0)))
				continue
			}
			ops = append(ops, L(I(4), I(int64(max(off, 0))), I(int64(sz))))
		case x < 79:
			ops = append(ops, L(I(5)))
		case x < 90:
			var v uint64
			switch r.Intn(8) {
			case 0:
				v = 0x1FFFFFFFE0 + uint64(r.Intn(3)) - 1
			case 1:
				v = r.U64()
			case 2:
				v = 0
			default:
				v = uint64(size())
			}
			ops = append(ops, L(I(6), U(v)))
		default:
			ops = append(ops, L(I(7)))
			// the next frame reads what it never wrote
			s := size()
			ops = append(ops, L(I(0), I(int64(s))), L(I(4), I(0), I(int64(s))))
			ln = s
		}
	}
	dirt := 0
	switch r.Intn(6) {
	case 0, 1, 2:
		dirt = r.Range(32, 16384)
	case 3:
		dirt = 16384
	case 4:
		dirt = 20000
	}
	return L(I(1), I(int64(dirt)), ops)
}

// ------------------------------------------------------------------ EVM programs

type asm struct{ b []byte }

func (a *asm) op(ops ...byte) { a.b = append(a.b, ops...) }
func (a *asm) push(v uint64) {
	var buf [8]byte
	binary.BigEndian.PutUint64(buf[:], v)
	i := 0
	for i < 7 && buf[i] == 0 {
		i++
	}
	a.b = append(a.b, byte(0x60+7-i))
	a.b = append(a.b, buf[i:]...)
}
func (a *asm) push2(v int)     { a.b = append(a.b, 0x61, byte(v>>8), byte(v)) }
func (a *asm) push32(w []byte) { a.b = append(append(a.b, 0x7f), w...) }
func (a *asm) call(addr int)   { a.push2(addr); a.op(0x5a, 0xf1) } // PUSH2 addr GAS CALL
func progSx(code, input []byte, gas uint64, tmpl int, expect []byte, has bool) Sx {
	e := L()
	if has {
		e = L(B(expect))
	}
	return L(B(code), B(input), U(gas), I(int64(tmpl)), e)
}

// template 1: operands pushed, a child frame (or a chain of them) grows the arena, then the
// parent consumes its operands
func progArena(r *Rng) Sx {
	var a asm
	k := r.Range(1, 14)
	if r.Chance(1, 8) {
		k = r.Range(600, 1000)
	}
	vals := make([][]byte, k)
	for i := range vals {
		vals[i] = r.Bytes(32)
		a.push32(vals[i])
	}
	if r.Bool() {
		a.push(0)
		a.push(0)
		a.push(0)
		a.push(0)
		a.push(0)
		a.call(0x3001)
	} else {
		a.push(uint64(r.Range(1, 5)))
		a.push(0)
		a.op(0x52)
		a.push(0)
		a.push(0)
		a.push(32)
		a.push(0)
		a.push(0)
		a.call(0x3002)
	}
	a.push2(32 * k)
	a.op(0x52)
	var expect []byte
	for i := 0; i < k; i++ {
		a.push2(32 * i)
		a.op(0x52)
		expect = append(expect, vals[k-1-i]...)
	}
	one := make([]byte, 32)
	one[31] = 1
	expect = append(expect, one...)
	a.push2(32 * (k + 1))
	a.push(0)
	a.op(0xf3)
	return progSx(a.b, nil, 400000, 1, expect, true)
}

// template 2: reads of memory the program never wrote (MLOAD at high offsets, MSIZE, RETURN
// of untouched regions), with the expected answer computed here
func progMemory(r *Rng) Sx {
	var a asm
	var mem []byte
	grow := func(end int) {
		end = (end + 31) / 32 * 32
		if end > len(mem) {
			mem = append(mem, make([]byte, end-len(mem))...)
		}
	}
	lim := []int{256, 4096, 17000, 24000}[r.Intn(4)]
	for i, n := 0, r.Intn(7); i < n; i++ {
		off := r.Intn(lim)
		switch r.Intn(3) {
		case 0:
			v := r.Bytes(32)
			a.push32(v)
			a.push2(off)
			a.op(0x52)
			grow(off + 32)
			copy(mem[off:], v)
		case 1:
			b := byte(r.Range(1, 255))
			a.push(uint64(b))
			a.push2(off)
			a.op(0x53)
			grow(off + 1)
			mem[off] = b
		default:
			a.push2(off)
			a.op(0x51, 0x50)
			grow(off + 32)
		}
	}
	if r.Bool() { // MSIZE stored somewhere
		off := r.Intn(lim)
		a.op(0x59)
		a.push2(off)
		a.op(0x52)
		ms := len(mem)
		grow(off + 32)
		var w [32]byte
		binary.BigEndian.PutUint64(w[24:], uint64(ms))
		copy(mem[off:], w[:])
	}
	size := r.Intn(lim)
	off := r.Intn(lim)
	if r.Chance(1, 3) {
		off, size = len(mem), r.Range(1, 2048) // entirely beyond anything touched
	}
	a.push2(size)
	a.push2(off)
	a.op(0xf3)
	var expect []byte
	if size > 0 {
		grow(off + size)
		expect = append(expect, mem[off:off+size]...)
	}
	return progSx(a.b, nil, 300000, 2, expect, true)
}

// template 3: dirties its own memory and a child's memory (both small enough to be pooled)
func progDirty(r *Rng) Sx {
	var a asm
	a.push(0x2000)
	a.push(0)
	a.push(0)
	a.push(0)
	a.push(0)
	a.call(0x3003)
	a.op(0x50)
	ff := make([]byte, 32)
	for i := range ff {
		ff[i] = 0xff
	}
	for i, n := 0, r.Range(1, 6); i < n; i++ {
		a.push32(ff)
		a.push2(r.Intn(12000))
		a.op(0x52)
	}
	a.push(32)
	a.push(0)
	a.op(0xf3)
	return progSx(a.b, nil, 400000, 3, nil, false)
}

// template 4: random structured code
func progRandom(r *Rng) Sx {
	var a asm
	h := 0
	n := r.Range(5, 60)
	bin := []byte{0x01, 0x02, 0x03, 0x04, 0x05, 0x06, 0x07, 0x0a, 0x0b, 0x10, 0x11, 0x12, 0x13, 0x14, 0x16, 0x17, 0x18, 0x1a, 0x1b, 0x1c, 0x1d}
	env := []byte{0x30, 0x32, 0x33, 0x34, 0x36, 0x38, 0x3d, 0x41, 0x42, 0x43, 0x44, 0x46, 0x47, 0x48, 0x58, 0x59, 0x5a}
	for i := 0; i < n && h < 900; i++ {
		switch x := r.Intn(100); {
		case x < 22:
			if r.Bool() {
				a.push(uint64(r.Intn(5000)))
			} else {
				a.push32(r.Bytes(32))
			}
			h++
		case x < 36:
			if h >= 2 {
				a.op(bin[r.Intn(len(bin))])
				h--
			}
		case x < 42:
			a.op(env[r.Intn(len(env))])
			h++
		case x < 52:
			if h >= 1 {
				a.push(uint64(r.Intn(3000)))
				a.op(0x52)
				h--
			}
		case x < 58:
			a.push(uint64(r.Intn(20000)))
			a.op(0x51)
			h++
		case x < 63:
			if h >= 1 {
				a.push(uint64(r.Intn(6)))
				a.op(0x55)
				h--
			}
		case x < 67:
			a.push(uint64(r.Intn(6)))
			a.op(0x54)
			h++
		case x < 71:
			a.push(uint64(r.Intn(64)))
			a.push(uint64(r.Intn(3000)))
			a.op(0x20)
			h++
		case x < 75:
			if h >= 1 {
				a.push(uint64(r.Intn(64)))
				a.push(uint64(r.Intn(3000)))
				a.op(0xa1)
				h--
			}
		case x < 80:
			k := r.Range(1, 16)
			if h >= k {
				a.op(byte(0x80 + k - 1))
				h++
			}
		case x < 85:
			k := r.Range(1, 16)
			if h > k {
				a.op(byte(0x90 + k - 1))
			}
		case x < 88:
			a.push(uint64(r.Intn(40)))
			a.op(0x35)
			h++
		case x < 91:
			a.push(uint64(r.Intn(64)))
			a.push(uint64(r.Intn(40)))
			a.push(uint64(r.Intn(3000)))
			a.op(0x37)
		case x < 95: // call a helper
			a.push(uint64(r.Intn(64)))
			a.push(uint64(r.Intn(512)))
			a.push(uint64(r.Intn(64)))
			a.push(uint64(r.Intn(512)))
			a.push(0)
			a.call([]int{0x3001, 0x3002, 0x3003, 0x3004, 0x4, 0x2}[r.Intn(6)])
			h++
		case x < 97:
			if h >= 1 {
				a.op(0x50)
				h--
			}
		default:
			b := byte(r.U64())          // anything, also undefined opcodes and truncated PUSH data
			if b == 0x45 || b == 0x3a { // (GASPRICE carries the callers' sentinel words)
				b = 0x44 // GASLIMIT is the block gas limit, which core/vm/runtime ties to the call's gas: depth-dependent by construction
			}
			a.op(b)
			h = max(h-1, 0)
		}
	}
	switch r.Intn(5) {
	case 0:
	case 1:
		a.push(uint64(r.Intn(64)))
		a.push(uint64(r.Intn(3000)))
		a.op(0xfd)
	default:
		a.push(uint64(r.Intn(600)))
		a.push(uint64(r.Intn(30000)))
		a.op(0xf3)
	}
	return progSx(a.b, r.Bytes(r.Intn(70)), uint64(r.Range(20000, 300000)), 4, nil, false)
}

// template 5: jump-heavy code with JUMPDEST bytes inside PUSH data of varying length.
// [foreign] are JUMPDEST positions of ANOTHER program of the same case: jumping there is valid
// only according to the other code's analysis.
func jumpLayout(ks []int) (pos []int, total int) {
	for _, k := range ks {
		pos = append(pos, total)
		total += 10 + 1 + k // JUMPDEST PUSH1 PUSH1 MSTORE8 PUSH2 JUMP | PUSHk junk
	}
	return pos, total
}

func progJumps(r *Rng, ks []int, foreign []int) Sx {
	n := len(ks)
	pos, total := jumpLayout(ks)
	var code []byte
	for i := 0; i < n; i++ {
		t := total // the final block
		if i+1 < n {
			t = pos[r.Range(i+1, n-1)]
		}
		switch r.Intn(16) {
		case 0:
			j := r.Intn(n)
			t = pos[j] + 11 + r.Intn(ks[j]) // a 0x5b inside PUSH data
		case 1:
			t = pos[r.Intn(n)] + 1 // not a JUMPDEST
		case 2:
			t = total + 5 + r.Intn(50) // beyond the code
		case 3, 4:
			if len(foreign) > 0 {
				t = foreign[r.Intn(len(foreign))]
			}
		}
		code = append(code, 0x5b, 0x60, byte(i+1), 0x60, byte(i), 0x53, 0x61, byte(t>>8), byte(t), 0x56, byte(0x60+ks[i]-1))
		for k := 0; k < ks[i]; k++ {
			code = append(code, 0x5b)
		}
	}
	code = append(code, 0x5b, 0x60, 0x20, 0x5f, 0xf3)
	return progSx(code, nil, 100000, 5, nil, false)
}

func jumpShape(r *Rng) []int {
	ks := make([]int, r.Range(3, 12))
	for i := range ks {
		ks[i] = r.Range(1, 8)
	}
	return ks
}

// template 6: forwards calldata to a precompile, returns success || output
func progPrecompile(r *Rng, addr int, input []byte) Sx {
	c := []byte{0x36, 0x5f, 0x5f, 0x37, 0x5f, 0x5f, 0x36, 0x5f, 0x5f, 0x61, byte(addr >> 8), byte(addr), 0x5a, 0xf1,
		0x5f, 0x52, 0x3d, 0x5f, 0x60, 0x20, 0x3e, 0x3d, 0x60, 0x20, 0x01, 0x5f, 0xf3}
	return progSx(c, input, 1500000, 6, nil, false)
}

// template 7: boundary probe — ANY opcode byte executed at a stack height around what it needs
// (jump table minStack / maxStack; for the EIP-8024 opcodes around what their immediate asks
// for), then the top of the stack is returned. Run directly and below callers with live stack
// items: the answer may not depend on where the frame sits in the arena.
func progProbe(r *Rng) Sx {
	op := byte(r.U64())
	if r.Chance(1, 3) {
		op = []byte{0xe6, 0xe7, 0xe8}[r.Intn(3)]
	}
	for op == 0x3a || op == 0x45 { // see progRandom
		op = byte(r.U64())
	}
	mn, mx, _ := vm.VerifC28StackBounds(vm.OpCode(op))
	h := max(mn+r.Range(-1, 1), 0)
	if r.Chance(1, 25) {
		h = mx + r.Range(-1, 1)
	}
	var imm []byte
	switch op {
	case 0xe6, 0xe7:
		x := byte(r.U64())
		if r.Chance(2, 3) {
			x = byte(128 + r.Intn(30))
		}
		imm = []byte{x}
		h = max(vm.VerifC28DecodeSingle(x)+r.Range(-2, 2), 0)
	case 0xe8:
		x := byte(r.U64())
		imm = []byte{x}
		a, b := vm.VerifC28DecodePair(x)
		h = max(max(a, b)+r.Range(-1, 3), 0)
	default:
		if op >= 0x60 && op <= 0x7f {
			imm = r.Bytes(int(op) - 0x5f)
		}
	}
	h = min(h, 1025)
	var a asm
	for i := 0; i < h; i++ {
		a.op(0x60, byte(i%250+1))
	}
	a.op(op)
	a.op(imm...)
	a.op(0x5f, 0x52, 0x60, 0x20, 0x5f, 0xf3) // PUSH0 MSTORE PUSH1 32 PUSH0 RETURN: the top of the stack
	return progSx(a.b, r.Bytes(r.Intn(40)), 200000, 7, nil, false)
}

var pcAddrs = []int{1, 2, 3, 4, 5, 6, 7, 8, 9, 0xa, 0xb, 0xc, 0xd, 0xe, 0xf, 0x10, 0x11, 0x100}

func pcInput(r *Rng, addr int) []byte {
	word := func(v int) []byte { b := make([]byte, 32); binary.BigEndian.PutUint32(b[28:], uint32(v)); return b }
	switch addr {
	case 1:
		in := r.Bytes(128)
		if r.Chance(3, 4) {
			copy(in[32:64], word(27+r.Intn(2)))
		}
		if r.Bool() {
			return in
		}
		return in[:r.Range(100, 128)]
	case 5:
		bl, el, ml := r.Intn(40), r.Intn(12), r.Intn(40)
		in := append(append(word(bl), word(el)...), word(ml)...)
		body := r.Bytes(bl + el + ml)
		if r.Chance(1, 3) {
			body = body[:r.Intn(len(body)+1)]
		}
		return append(in, body...)
	case 6:
		in := make([]byte, 128)
		if r.Bool() {
			in[31], in[63] = 1, 2
		}
		if r.Bool() {
			in[95], in[127] = 1, 2
		}
		if r.Bool() {
			return in
		}
		return in[:r.Range(60, 128)]
	case 7:
		in := make([]byte, 96)
		in[31], in[63] = 1, 2
		copy(in[64:], r.Bytes(32))
		if r.Bool() {
			return in
		}
		return in[:r.Range(64, 96)]
	case 8:
		return make([]byte, 192*r.Intn(3))
	case 9:
		in := r.Bytes(213)
		binary.BigEndian.PutUint32(in[0:4], uint32(r.Intn(20)))
		in[212] = byte(r.Intn(2))
		return in
	case 0x100:
		return r.Bytes(160)
	case 0xa:
		return r.Bytes(192)
	case 2, 3, 4:
		return r.Bytes(r.Intn(200))
	default:
		return r.Bytes([]int{0, 64, 128, 160, 256, 288, 384}[r.Intn(7)])
	}
}

func pcSibling(r *Rng, in []byte) []byte {
	out := append([]byte{}, in...)
	switch r.Intn(8) {
	case 6, 7: // differ only in the last byte(s) a fixed-length precompile reads (96, 128, 160, 192, 213)
		for _, n := range []int{96, 128, 160, 192, 213} {
			if len(out) <= n && len(out) > n-40 {
				out = append(out, make([]byte, n-len(out))...)
				out[n-1-r.Intn(2)] ^= byte(1 + r.Intn(255))
				break
			}
		}
		return out
	case 0:
		return append(out, r.Bytes(r.Range(1, 40))...)
	case 1:
		for len(out) > 0 && out[len(out)-1] == 0 {
			out = out[:len(out)-1]
		}
		return out
	case 2:
		return append(out, make([]byte, r.Range(1, 70))...)
	case 3:
		return out[:max(len(out)-r.Range(1, 8), 0)]
	case 4:
		if len(out) > 0 {
			out[r.Intn(len(out))] ^= byte(1 << r.Intn(8))
		}
		return out
	}
	return out
}

func genEVM(r *Rng) Sx {
	var progs SL
	np := r.Range(2, 4)
	for i := 0; i < np; i++ {
		switch x := r.Intn(20); {
		case x < 5:
			progs = append(progs, progArena(r))
		case x < 10:
			if r.Bool() {
				progs = append(progs, progDirty(r)) // a dirtying program first, then the reader
			}
			progs = append(progs, progMemory(r))
		case x < 12:
			progs = append(progs, progRandom(r))
		case x < 14:
			progs = append(progs, progProbe(r), progProbe(r))
		case x < 17:
			// two codes whose JUMPDESTs sit where the other one has PUSH data
			ks1, ks2 := jumpShape(r), jumpShape(r)
			p1, _ := jumpLayout(ks1)
			p2, _ := jumpLayout(ks2)
			progs = append(progs, progJumps(r, ks1, p2), progJumps(r, ks2, p1))
		default:
			addr := pcAddrs[r.Intn(len(pcAddrs))]
			in := pcInput(r, addr)
			progs = append(progs, progPrecompile(r, addr, in))
			if r.Bool() { // the same call again (warm result cache), or a sibling input
				if r.Bool() {
					in = pcSibling(r, in)
				}
				progs = append(progs, progPrecompile(r, addr, in))
			}
		}
	}
	var runs SL
	for i := range progs {
		for j, n := 0, r.Range(2, 4); j < n; j++ {
			depth := r.Range(-1, 6)
			if r.Chance(1, 3) {
				depth = r.Range(-1, 1)
			}
			runs = append(runs, L(I(int64(i)), I(int64(depth)), I(int64(r.Intn(3)))))
		}
	}
	for i := len(runs) - 1; i > 0; i-- {
		j := r.Intn(i + 1)
		runs[i], runs[j] = runs[j], runs[i]
	}
	par := []int{0, 0, 2, 4}[r.Intn(4)]
	return L(I(2), I(int64(r.Intn(3))), progs, runs, I(int64(par)), Bool(r.Chance(2, 3)))
}

func genPrecompile(r *Rng) Sx {
	addr := pcAddrs[r.Intn(len(pcAddrs))]
	in := pcInput(r, addr)
	return L(I(3), I(int64(addr)), B(in), B(pcSibling(r, in)))
}

func gen(r *Rng, tier string, emit func(Sx)) {
	mul := 1
	if tier == "thorough" {
		mul = 20
	}
	// hand-made edge cases first
	emit(L(I(0), I(0), L(L(I(1)), L(I(3)), L(I(10), I(0)), L(I(0)), L(I(3)), L(I(5), I(0)), L(I(5), I(17)), L(I(6), I(0)), L(I(7), I(-1)),
		L(I(2), I(5)), L(I(5), I(1)), L(I(6), I(1)), L(I(4)), L(I(0)), L(I(3)), L(I(10), I(1)), L(I(1)), L(I(3)), L(I(1)), L(I(1)))))
	emit(L(I(1), I(64), L(L(I(0), I(64)), L(I(4), I(0), I(64)), L(I(6), I(64)), L(I(7)), L(I(5)), L(I(6), I(64)), L(I(0), I(32)), L(I(4), I(0), I(32)))))
	for i := 0; i < 900*mul; i++ {
		emit(genArenaWalk(r.Fork()))
	}
	for i := 0; i < 6*mul; i++ {
		emit(genArenaLimit(r.Fork()))
	}
	for i := 0; i < 300*mul; i++ {
		emit(genArena8024(r.Fork()))
	}
	for i := 0; i < 900*mul; i++ {
		emit(genMem(r.Fork()))
	}
	for i := 0; i < 110*mul; i++ {
		emit(genEVM(r.Fork()))
	}
	for i := 0; i < 300*mul; i++ {
		emit(genPrecompile(r.Fork()))
	}
	for i := 0; i < 70*mul; i++ {
		emit(genProbes(r.Fork()))
	}
	for i := 0; i < 120*mul; i++ {
		emit(genHistory(r.Fork()))
	}
}

// a kind-2 case made of boundary probes only, on the newest rule set mostly, each run directly
// and at two depths
func genProbes(r *Rng) Sx {
	var progs, runs SL
	for i := 0; i < 4; i++ {
		progs = append(progs, progProbe(r))
		runs = append(runs, L(I(int64(i)), I(-1), I(0)), L(I(int64(i)), I(int64(r.Range(0, 1))), I(int64(r.Intn(3)))),
			L(I(int64(i)), I(int64(r.Range(2, 6))), I(int64(r.Intn(3)))))
	}
	cfg := 2
	if r.Chance(1, 5) {
		cfg = r.Intn(2)
	}
	return L(I(2), I(int64(cfg)), progs, runs, I(0), Bool(r.Bool()))
}

// ------------------------------------------------------------------ kind 4: call histories
//
// (4 cfg (step ...))   step ::= (0 a x<code>)      code of account a changes
//                             | (1 a t)            account a becomes an EIP-7702 delegation to account t
//                             | (2 a x<input> gas) a message call to account a
// Accounts are 0x5000+a, a < 8. The SAME history is executed with everything fresh per call and
// with shared / reused caches, EVM, arena and pools.

func codeOf(p Sx) []byte { return AsBytes(AsList(p)[0]) }

// forwarder: keeps two live words, calls account t with its calldata, returns the callee's
// return data followed by the two words
func codeForward(t int, w1, w2 []byte) []byte {
	var a asm
	a.push32(w1)
	a.push32(w2)
	a.op(0x36, 0x5f, 0x5f, 0x37, 0x5f, 0x5f, 0x36, 0x5f, 0x5f)
	a.call(0x5000 + t)
	a.op(0x50, 0x3d, 0x5f, 0x5f, 0x3e, 0x3d, 0x52, 0x3d, 0x60, 0x20, 0x01, 0x52, 0x3d, 0x60, 0x40, 0x01, 0x5f, 0xf3)
	return a.b
}

// the code behind an address changes between two calls that reach it the same way (directly,
// through an EIP-7702 delegation, through a forwarder to the delegation) while the caches stay warm
func genHistoryRecode(r *Rng) Sx {
	shapes := [][]int{jumpShape(r), jumpShape(r)}
	l0, _ := jumpLayout(shapes[0])
	l1, _ := jumpLayout(shapes[1])
	codes := [][]byte{codeOf(progJumps(r, shapes[0], l1)), codeOf(progJumps(r, shapes[1], l0))}
	if r.Chance(1, 4) { // the demo shape: same length, a JUMPDEST where the other code has PUSH data
		codes = [][]byte{{0x60, 0x08, 0x56, 0x63, 0x5b, 0x00, 0x00, 0x00, 0x5b, 0x00, 0x00, 0x00, 0x00, 0x00, 0x00},
			{0x60, 0x04, 0x56, 0x00, 0x5b, 0x60, 0x2a, 0x60, 0x00, 0x52, 0x60, 0x20, 0x60, 0x00, 0xf3}}
	}
	t := r.Intn(3)
	steps := SL{L(I(0), I(int64(t)), B(codes[0])), L(I(1), I(3), I(int64(t))),
		L(I(0), I(5), B(codeForward(3, r.Bytes(32), r.Bytes(32))))}
	via := func() Sx { return L(I(2), I(int64([]int{t, 3, 3, 5}[r.Intn(4)])), B(r.Bytes(r.Intn(8))), U(200000)) }
	cur := 0
	for i, n := 0, r.Range(3, 8); i < n; i++ {
		steps = append(steps, via())
		if r.Chance(2, 3) {
			cur = 1 - cur
			steps = append(steps, L(I(0), I(int64(t)), B(codes[cur])))
		}
		if r.Chance(1, 6) { // retarget the delegation to another account holding the other code
			o := (t + 1) % 3
			steps = append(steps, L(I(0), I(int64(o)), B(codes[1-cur])), L(I(1), I(3), I(int64(o))))
			t = o
			cur = 1 - cur
		}
	}
	steps = append(steps, via(), via())
	return L(I(4), I(int64(r.Range(1, 2))), steps)
}

func genHistory(r *Rng) Sx {
	if r.Chance(2, 5) {
		return genHistoryRecode(r)
	}
	const nacc = 8
	shapes := [][]int{jumpShape(r), jumpShape(r), jumpShape(r)}
	var layouts [][]int
	for _, ks := range shapes {
		p, _ := jumpLayout(ks)
		layouts = append(layouts, p)
	}
	someCode := func() []byte {
		switch x := r.Intn(20); {
		case x < 11: // jump-heavy code; targets may be JUMPDESTs of one of the other layouts
			i := r.Intn(3)
			return codeOf(progJumps(r, shapes[i], layouts[(i+1+r.Intn(2))%3]))
		case x < 14:
			return codeOf(progRandom(r))
		case x < 16:
			return codeOf(progMemory(r))
		case x < 18:
			return codeOf(progProbe(r))
		default:
			return codeOf(progArena(r))
		}
	}
	var steps SL
	// accounts 0-2: code; 3-4: delegations; 5-6: forwarders; 7: code
	for a := 0; a < 3; a++ {
		steps = append(steps, L(I(0), I(int64(a)), B(someCode())))
	}
	steps = append(steps, L(I(1), I(3), I(int64(r.Intn(3)))), L(I(1), I(4), I(int64(r.Intn(3)))))
	steps = append(steps, L(I(0), I(5), B(codeForward(r.Range(0, 4), r.Bytes(32), r.Bytes(32)))),
		L(I(0), I(6), B(codeForward(r.Range(3, 5), r.Bytes(32), r.Bytes(32)))), L(I(0), I(7), B(someCode())))
	for i, n := 0, r.Range(5, 14); i < n; i++ {
		switch x := r.Intn(20); {
		case x < 13:
			steps = append(steps, L(I(2), I(int64(r.Intn(nacc))), B(r.Bytes(r.Intn(40))), U(uint64(r.Range(60000, 400000)))))
		case x < 17: // the code behind an address (possibly behind a delegation) changes, then it is called again
			a := r.Intn(3)
			steps = append(steps, L(I(0), I(int64(a)), B(someCode())))
			if r.Bool() {
				steps = append(steps, L(I(2), I(int64(r.Range(3, 6))), B(nil), U(300000)))
			}
		case x < 19:
			steps = append(steps, L(I(1), I(int64(r.Range(3, 4))), I(int64(r.Intn(3)))))
		default:
			steps = append(steps, L(I(0), I(int64(r.Range(3, 7))), B(someCode())))
		}
	}
	cfg := r.Range(1, 2)
	if r.Chance(1, 8) {
		cfg = 0
	}
	return L(I(4), I(int64(cfg)), steps)
}
