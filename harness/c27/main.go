// Family c27: core/vm interpreter (runtime.Call / runtime.Create) vs the EVM specification
// coq/EVM/{Word256,Memory,Gas,State,Instr,Step,Interp}.v, plus a model-independent resource
// oracle run under every rule set Frontier .. Bogota.
package main

import (
	"errors"
	"fmt"
	"math/big"
	"sort"
	"time"

	. "gethverif/harness/hxlib"
	"github.com/ethereum/go-ethereum/common"
	"github.com/ethereum/go-ethereum/core/state"
	"github.com/ethereum/go-ethereum/core/tracing"
	"github.com/ethereum/go-ethereum/core/types"
	"github.com/ethereum/go-ethereum/core/vm"
	"github.com/ethereum/go-ethereum/core/vm/runtime"
	"github.com/ethereum/go-ethereum/crypto"
	"github.com/ethereum/go-ethereum/params"
	"github.com/holiman/uint256"
)

// ---------------------------------------------------------------------------
// rule sets

type ruleSet struct {
	name  string
	level int // index in the fork order below
}

var forkNames = []string{"Frontier", "Homestead", "TangerineWhistle", "SpuriousDragon", "Byzantium",
	"Constantinople", "Petersburg", "Istanbul", "Berlin", "London", "Shanghai", "Cancun", "Prague",
	"Osaka", "Amsterdam", "Bogota"}

const (
	lvCancun = 11
	lvPrague = 12
	lvOsaka  = 13
)

// chainConfig activates the first level+1 forks at genesis. (With runtime's defaults Random is
// non-nil, so a London configuration selects the Merge table: London == Merge here.)
func chainConfig(level int) *params.ChainConfig {
	z := func() *big.Int { return new(big.Int) }
	t := func() *uint64 { v := uint64(0); return &v }
	c := &params.ChainConfig{ChainID: big.NewInt(1)}
	if level >= 1 {
		c.HomesteadBlock = z()
	}
	if level >= 2 {
		c.EIP150Block = z()
	}
	if level >= 3 {
		c.EIP155Block, c.EIP158Block = z(), z()
	}
	if level >= 4 {
		c.ByzantiumBlock = z()
	}
	if level >= 5 {
		c.ConstantinopleBlock = z()
		if level == 5 {
			c.PetersburgBlock = big.NewInt(1 << 40) // Constantinople proper (EIP-1283 metering)
		}
	}
	if level >= 6 {
		c.PetersburgBlock = z()
	}
	if level >= 7 {
		c.IstanbulBlock, c.MuirGlacierBlock = z(), z()
	}
	if level >= 8 {
		c.BerlinBlock = z()
	}
	if level >= 9 {
		c.LondonBlock = z()
		c.TerminalTotalDifficulty = z()
	}
	if level >= 10 {
		c.ShanghaiTime = t()
	}
	if level >= 11 {
		c.CancunTime = t()
		c.BlobScheduleConfig = &params.BlobScheduleConfig{Cancun: params.DefaultCancunBlobConfig, Prague: params.DefaultPragueBlobConfig}
	}
	if level >= 12 {
		c.PragueTime = t()
	}
	if level >= 13 {
		c.OsakaTime = t()
	}
	if level >= 14 {
		c.AmsterdamTime = t()
	}
	if level >= 15 {
		c.BogotaTime = t()
	}
	return c
}

// ---------------------------------------------------------------------------
// case

type acct struct {
	addr    *big.Int
	balance *big.Int
	nonce   uint64
	code    []byte
	slots   [][2]*big.Int
}

type tcase struct {
	kind  int // 0 call, 1 create
	fork  int // 0 Cancun 1 Prague 2 Osaka (rule set of the model comparison)
	env   []*big.Int
	blobs []*big.Int
	pre   []acct
	to    *big.Int
	value *big.Int
	data  []byte
	gas   uint64
	probe *probeSpec // optional annotation: stack-boundary probe (see probe.go)
}

func bi(s Sx) *big.Int { return AsBig(s) }

func parseCase(c Sx) tcase {
	l := AsList(c)
	var t tcase
	t.kind = int(AsInt(l[0]))
	t.fork = int(AsInt(l[1]))
	ev := AsList(l[2])
	for i := 0; i < 9; i++ {
		t.env = append(t.env, bi(ev[i]))
	}
	for _, b := range AsList(ev[9]) {
		t.blobs = append(t.blobs, bi(b))
	}
	for _, a := range AsList(l[3]) {
		al := AsList(a)
		x := acct{addr: bi(al[0]), balance: bi(al[1]), nonce: bi(al[2]).Uint64(), code: AsBytes(al[3])}
		for _, s := range AsList(al[4]) {
			sl := AsList(s)
			x.slots = append(x.slots, [2]*big.Int{bi(sl[0]), bi(sl[1])})
		}
		t.pre = append(t.pre, x)
	}
	tx := AsList(l[4])
	if t.kind == 0 {
		t.to, t.value, t.data, t.gas = bi(tx[0]), bi(tx[1]), AsBytes(tx[2]), bi(tx[3]).Uint64()
	} else {
		t.value, t.data, t.gas = bi(tx[0]), AsBytes(tx[1]), bi(tx[2]).Uint64()
	}
	if len(l) > 5 {
		t.probe = parseProbe(l[5])
	}
	if t.gas == 0 || t.gas > 1<<36 {
		// runtime.setDefaults turns a zero GasLimit into MaxUint64; huge limits make runs unbounded
		panic("hxlib: gas limit outside the generated range [1, 2^36]")
	}
	return t
}

func (t tcase) sx() Sx {
	var ev SL
	for _, e := range t.env {
		ev = append(ev, Big(e))
	}
	var bl SL
	for _, b := range t.blobs {
		bl = append(bl, Big(b))
	}
	ev = append(ev, bl)
	var pre SL
	for _, a := range t.pre {
		var sl SL
		for _, s := range a.slots {
			sl = append(sl, L(Big(s[0]), Big(s[1])))
		}
		pre = append(pre, L(Big(a.addr), Big(a.balance), U(a.nonce), B(a.code), sl))
	}
	var tx Sx
	if t.kind == 0 {
		tx = L(Big(t.to), Big(t.value), B(t.data), U(t.gas))
	} else {
		tx = L(Big(t.value), B(t.data), U(t.gas))
	}
	if t.probe != nil {
		return L(I(int64(t.kind)), I(int64(t.fork)), ev, pre, tx, t.probe.sx())
	}
	return L(I(int64(t.kind)), I(int64(t.fork)), ev, pre, tx)
}

func addrOf(b *big.Int) common.Address { return common.BigToAddress(b) }

// ---------------------------------------------------------------------------
// running the implementation

func errClass(err error) int64 {
	var su *vm.ErrStackUnderflow
	var so *vm.ErrStackOverflow
	var io *vm.ErrInvalidOpCode
	switch {
	case err == nil:
		return 0
	case errors.Is(err, vm.ErrExecutionReverted):
		return 1
	case errors.Is(err, vm.ErrOutOfGas), errors.Is(err, vm.ErrGasUintOverflow):
		return 2
	case errors.As(err, &su):
		return 3
	case errors.As(err, &so):
		return 4
	case errors.Is(err, vm.ErrInvalidJump):
		return 5
	case errors.As(err, &io):
		return 6
	case errors.Is(err, vm.ErrWriteProtection):
		return 7
	case errors.Is(err, vm.ErrReturnDataOutOfBounds):
		return 8
	case errors.Is(err, vm.ErrDepth):
		return 9
	case errors.Is(err, vm.ErrInsufficientBalance):
		return 10
	case errors.Is(err, vm.ErrContractAddressCollision):
		return 11
	case errors.Is(err, vm.ErrMaxCodeSizeExceeded):
		return 12
	case errors.Is(err, vm.ErrInvalidCode):
		return 13
	case errors.Is(err, vm.ErrCodeStoreOutOfGas):
		return 14
	case errors.Is(err, vm.ErrNonceUintOverflow):
		return 15
	}
	return 16
}

var backing = state.NewDatabaseForTesting()

func buildState(t tcase) *state.StateDB {
	st, err := state.New(types.EmptyRootHash, backing)
	if err != nil {
		panic("hxlib: state.New: " + err.Error())
	}
	for _, a := range t.pre {
		ad := addrOf(a.addr)
		st.CreateAccount(ad)
		st.SetNonce(ad, a.nonce, tracing.NonceChangeUnspecified)
		st.SetBalance(ad, uint256.MustFromBig(a.balance), tracing.BalanceChangeUnspecified)
		if len(a.code) > 0 {
			st.SetCode(ad, a.code, tracing.CodeChangeUnspecified)
		}
		for _, s := range a.slots {
			st.SetState(ad, common.BigToHash(s[0]), common.BigToHash(s[1]))
		}
	}
	root, err := st.Commit(params.Rules{}, 0)
	if err != nil {
		panic("hxlib: commit: " + err.Error())
	}
	st2, err := state.New(root, backing)
	if err != nil {
		panic("hxlib: reopen: " + err.Error())
	}
	return st2
}

func memFee(words uint64) *big.Int {
	w := new(big.Int).SetUint64(words)
	sq := new(big.Int).Mul(w, w)
	sq.Div(sq, big.NewInt(512))
	return sq.Add(sq, new(big.Int).Mul(w, big.NewInt(3)))
}

type runOut struct {
	ret      []byte
	gasLeft  uint64
	err      error
	created  common.Address
	st       *state.StateDB
	addrs    map[common.Address]bool
	keys     map[common.Address]map[common.Hash]bool
	viol     []string // resource-oracle violations seen by the tracer
	maxStack int
	maxMem   int
	maxDepth int
	steps    int
	ops      map[byte]bool
	panicked string
	budget   *vm.GasBudget // direct mode: what evm.Call / evm.Create returned
	exitErr  map[int]error // error of the last frame that exited at each tracer depth
	exits    int
	overrun  bool // step budget exceeded (only shrink candidates do that)
}

const stepBudget = 20000000

type budgetExceeded struct{}

// execute runs the case under the rule set [level] with a tracer that (a) collects the
// addresses / storage keys touched (for the post-state projection) and (b) checks the resource
// bounds directly: operand stack <= 1024, memory size a multiple of 32 and never larger than what
// the gas spent so far in this frame can have paid for.
// With direct = true the body of runtime.Call / runtime.Create is replayed on runtime.NewEnv so that
// the whole GasBudget of the outermost frame (not only its ExecutionGas) can be inspected.
func executeMode(t tcase, level int, direct bool, eip8024 bool) (out runOut) {
	out.exitErr = map[int]error{}
	pend := map[int]uint64{} // account-creation state gas charged by the instruction in progress, per open frame
	creationGas := uint64(params.AccountCreationSize * params.CostPerStateByte)
	out.addrs = map[common.Address]bool{}
	out.keys = map[common.Address]map[common.Hash]bool{}
	out.ops = map[byte]bool{}
	st := buildState(t)
	out.st = st
	start := map[int]uint64{}
	var enterGas []uint64
	bad := func(s string) {
		if len(out.viol) < 4 {
			out.viol = append(out.viol, s)
		}
	}
	hooks := &tracing.Hooks{
		OnEnter: func(depth int, typ byte, from, to common.Address, input []byte, gas uint64, value *big.Int) {
			out.addrs[to] = true
			out.addrs[from] = true
			enterGas = append(enterGas, gas)
			if vm.OpCode(typ) != vm.SELFDESTRUCT {
				start[depth+1] = gas
			}
		},
		OnExit: func(depth int, output []byte, gasUsed uint64, err error, reverted bool) {
			if len(enterGas) == 0 {
				bad("OnExit without OnEnter")
				return
			}
			given := enterGas[len(enterGas)-1]
			enterGas = enterGas[:len(enterGas)-1]
			out.exitErr[depth] = err
			out.exits++
			delete(pend, len(enterGas)+1)
			if gasUsed > given {
				bad(fmt.Sprintf("frame at depth %d used %d gas > %d given", depth, gasUsed, given))
			}
			// an exceptional halt consumes all the gas of its frame (the failed prechecks of
			// evm.Call/evm.create hand the gas back; pre-Homestead code-store OOG keeps it)
			switch cl := errClass(err); cl {
			case 0, 1, 9, 10, 15:
			default:
				if cl == 14 && level == 0 {
					break
				}
				if gasUsed != given {
					bad(fmt.Sprintf("exceptional halt (class %d) at depth %d returned %d of %d gas", cl, depth, given-gasUsed, given))
				}
			}
		},
		OnGasChangeV2: func(old, new tracing.Gas, reason tracing.GasChangeReason) {
			switch reason {
			case tracing.GasChangeAccountCreation: // CREATE / CREATE2 destination (charged inside the opcode)
				pend[len(enterGas)] += creationGas
			case tracing.GasChangeRefundAccountCreation:
				if pend[len(enterGas)] < creationGas {
					bad(fmt.Sprintf("account-creation state gas refilled (%d -> %d state, %d -> %d execution) to a frame whose current instruction was not charged for one (open frames %d)",
						old.State, new.State, old.Execution, new.Execution, len(enterGas)))
				} else {
					pend[len(enterGas)] -= creationGas
				}
			}
		},
		OnOpcode: func(pc uint64, op byte, gas, cost uint64, scope tracing.OpContext, rData []byte, depth int, err error) {
			out.steps++
			if out.steps > stepBudget {
				panic(budgetExceeded{})
			}
			out.ops[op] = true
			sl := len(scope.StackData())
			ml := len(scope.MemoryData())
			if sl > out.maxStack {
				out.maxStack = sl
			}
			if ml > out.maxMem {
				out.maxMem = ml
			}
			if depth > out.maxDepth {
				out.maxDepth = depth
			}
			if sl > 1024 {
				bad(fmt.Sprintf("stack depth %d > 1024 at pc %d op %#x depth %d", sl, pc, op, depth))
			}
			if ml%32 != 0 {
				bad(fmt.Sprintf("memory size %d not a multiple of 32 at pc %d", ml, pc))
			}
			s0, ok := start[depth]
			if !ok {
				bad(fmt.Sprintf("no frame start recorded for depth %d", depth))
			} else if gas > s0 {
				bad(fmt.Sprintf("frame gas %d exceeds the gas it was given %d (depth %d pc %d)", gas, s0, depth, pc))
			} else if memFee(uint64(ml)/32).Cmp(new(big.Int).SetUint64(s0-gas)) > 0 {
				bad(fmt.Sprintf("memory of %d bytes not paid for: fee %v > gas spent in frame %d (depth %d pc %d)", ml, memFee(uint64(ml)/32), s0-gas, depth, pc))
			}
			// EIP-8037: the only state gas an instruction may get refilled is the account-creation
			// charge it paid itself. A CALL pays it iff it transfers value to an empty account.
			pend[len(enterGas)] = 0
			if level >= 14 && vm.OpCode(op) == vm.CALL && sl >= 7 && err == nil {
				sd := scope.StackData()
				if !sd[sl-3].IsZero() && st.Empty(common.Address(sd[sl-2].Bytes20())) {
					pend[len(enterGas)] = creationGas
				}
			}
			// gascosts.go accumulators: in every frame, at every instruction,
			// ExecutionGas + UsedExecutionGas + Spilled = execution gas the frame was given
			if sc, isScope := scope.(*vm.ScopeContext); isScope && ok && sc.Contract != nil {
				g := sc.Contract.Gas
				if g.ExecutionGas+g.UsedExecutionGas+g.Spilled != s0 {
					bad(fmt.Sprintf("frame accumulators: left %d + used %d + spilled %d != given %d (depth %d pc %d op %#x)",
						g.ExecutionGas, g.UsedExecutionGas, g.Spilled, s0, depth, pc, op))
				}
			}
			if vm.OpCode(op) == vm.SSTORE && sl >= 1 {
				a := scope.Address()
				if out.keys[a] == nil {
					out.keys[a] = map[common.Hash]bool{}
				}
				sd := scope.StackData()
				out.keys[a][common.Hash(sd[sl-1].Bytes32())] = true
			}
		},
	}
	var blobs []common.Hash
	for _, b := range t.blobs {
		blobs = append(blobs, common.BigToHash(b))
	}
	rnd := common.BigToHash(t.env[5])
	cfg := &runtime.Config{
		ChainConfig: chainConfig(level),
		Origin:      addrOf(t.env[0]),
		GasPrice:    t.env[1],
		Coinbase:    addrOf(t.env[2]),
		Time:        t.env[3].Uint64(),
		BlockNumber: t.env[4],
		Random:      &rnd,
		Difficulty:  new(big.Int),
		BaseFee:     t.env[7],
		BlobBaseFee: t.env[8],
		BlobHashes:  blobs,
		GasLimit:    t.gas,
		Value:       t.value,
		State:       st,
		EVMConfig:   vm.Config{Tracer: hooks},

		GetHashFn: func(n uint64) common.Hash {
			return crypto.Keccak256Hash(common.BigToHash(new(big.Int).SetUint64(n)).Bytes())
		},
	}
	if eip8024 {
		cfg.EVMConfig.ExtraEips = []int{8024}
	}
	defer func() {
		if e := recover(); e != nil {
			if _, ok := e.(budgetExceeded); ok {
				out.overrun = true
				return
			}
			out.panicked = fmt.Sprint(e)
		}
	}()
	if !direct {
		if t.kind == 0 {
			out.ret, out.gasLeft, out.err = runtime.Call(addrOf(t.to), t.data, cfg)
		} else {
			out.ret, out.created, out.gasLeft, out.err = runtime.Create(t.data, cfg)
		}
		return
	}
	// the body of runtime.Call / runtime.Create (every default of setDefaults is already set above)
	env := runtime.NewEnv(cfg)
	rules := cfg.ChainConfig.Rules(cfg.BlockNumber, cfg.Random != nil, cfg.Time)
	limit := cfg.GasLimit
	if rules.IsAmsterdam && limit > params.MaxTxGas {
		limit = params.MaxTxGas
	}
	var res vm.GasBudget
	if t.kind == 0 {
		to := addrOf(t.to)
		st.Prepare(rules, cfg.Origin, cfg.Coinbase, &to, vm.ActivePrecompiles(rules), nil)
		out.ret, res, out.err = env.Call(cfg.Origin, to, t.data, vm.NewGasBudget(limit, cfg.GasLimit-limit), uint256.MustFromBig(cfg.Value))
	} else {
		st.Prepare(rules, cfg.Origin, cfg.Coinbase, nil, vm.ActivePrecompiles(rules), nil)
		out.ret, out.created, res, out.err = env.Create(cfg.Origin, t.data, vm.NewGasBudget(limit, cfg.GasLimit-limit), uint256.MustFromBig(cfg.Value))
	}
	out.gasLeft = res.ExecutionGas
	out.budget = &res
	return
}

func execute(t tcase, level int) runOut { return executeMode(t, level, false, false) }

// observables of one run, in the model's canonical form
func observe(t tcase, o runOut) Sx {
	st := o.st
	cand := map[common.Address]bool{addrOf(t.env[0]): true, addrOf(t.env[2]): true}
	for a := range o.addrs {
		cand[a] = true
	}
	keys := map[common.Address]map[common.Hash]bool{}
	addKey := func(a common.Address, k common.Hash) {
		if keys[a] == nil {
			keys[a] = map[common.Hash]bool{}
		}
		keys[a][k] = true
	}
	for a, m := range o.keys {
		cand[a] = true
		for k := range m {
			addKey(a, k)
		}
	}
	for _, a := range t.pre {
		cand[addrOf(a.addr)] = true
		for _, s := range a.slots {
			addKey(addrOf(a.addr), common.BigToHash(s[0]))
		}
	}
	var as []common.Address
	for a := range cand {
		as = append(as, a)
	}
	sort.Slice(as, func(i, j int) bool { return as[i].Cmp(as[j]) < 0 })
	var accts SL
	for _, a := range as {
		if st.HasSelfDestructed(a) {
			continue // removed when the transaction is finalised
		}
		var ks []common.Hash
		for k := range keys[a] {
			ks = append(ks, k)
		}
		sort.Slice(ks, func(i, j int) bool { return ks[i].Cmp(ks[j]) < 0 })
		var slots SL
		for _, k := range ks {
			v := st.GetState(a, k)
			if v != (common.Hash{}) {
				slots = append(slots, L(Big(k.Big()), Big(v.Big())))
			}
		}
		bal, nonce, code := st.GetBalance(a), st.GetNonce(a), st.GetCode(a)
		if bal.IsZero() && nonce == 0 && len(code) == 0 && len(slots) == 0 {
			continue
		}
		accts = append(accts, L(Big(new(big.Int).SetBytes(a.Bytes())), Big(bal.ToBig()), U(nonce), B(code), slots))
	}
	var logs SL
	for _, l := range st.Logs() {
		var tp SL
		for _, x := range l.Topics {
			tp = append(tp, Big(x.Big()))
		}
		logs = append(logs, L(Big(new(big.Int).SetBytes(l.Address.Bytes())), tp, B(l.Data)))
	}
	created := addrOf(new(big.Int))
	if t.kind == 0 {
		created = addrOf(t.to)
	} else {
		// the model reports the address it derived; geth reports the zero address on a failed precheck
		created = crypto.CreateAddress(addrOf(t.env[0]), nonceOf(t, addrOf(t.env[0])))
	}
	return L(I(errClass(o.err)), B(o.ret), U(o.gasLeft), Big(new(big.Int).SetBytes(created.Bytes())),
		U(st.GetRefund()), logs, accts)
}

func nonceOf(t tcase, a common.Address) uint64 {
	for _, x := range t.pre {
		if addrOf(x.addr) == a {
			return x.nonce
		}
	}
	return 0
}

var modelFork = []int{lvCancun, lvPrague, lvOsaka, lvOsaka} // fork 3 = Osaka + ExtraEips 8024

func run(c Sx) Result {
	t := parseCase(c)
	res := Result{}
	var fails []string
	mainLevel, main8024 := modelFork[t.fork%4], t.fork%4 == 3
	mainName := forkNames[mainLevel]
	if main8024 {
		mainName += "+8024"
	}
	main := executeMode(t, mainLevel, false, main8024)
	if main.overrun {
		panic("hxlib: step budget exceeded")
	}
	if main.panicked != "" {
		res.Obs = L(I(-2))
		fails = append(fails, "panic under "+mainName+": "+main.panicked)
	} else {
		res.Obs = observe(t, main)
	}
	// resource oracle under every rule set
	check := func(level int, nm string, has8024 bool, o runOut) {
		if o.panicked != "" {
			fails = append(fails, "panic under "+nm+": "+o.panicked)
			return
		}
		given := t.gas
		if level >= 14 && given > params.MaxTxGas {
			given = params.MaxTxGas
		}
		if o.gasLeft > given {
			fails = append(fails, fmt.Sprintf("%s: leftover gas %d > gas given %d", nm, o.gasLeft, given))
		}
		for _, v := range o.viol {
			fails = append(fails, nm+": "+v)
		}
		if b := o.budget; b != nil {
			// used + left = given on the accumulators of gascosts.go, execution and state dimension
			if b.ExecutionGas+b.UsedExecutionGas+b.Spilled != given {
				fails = append(fails, fmt.Sprintf("%s: accumulators: left %d + used %d + spilled %d != execution gas given %d",
					nm, b.ExecutionGas, b.UsedExecutionGas, b.Spilled, given))
			}
			if int64(b.StateGas)+b.UsedStateGas-int64(b.Spilled) != int64(t.gas-given) {
				fails = append(fails, fmt.Sprintf("%s: state accumulators: reservoir %d + used %d - spilled %d != state gas given %d",
					nm, b.StateGas, b.UsedStateGas, b.Spilled, t.gas-given))
			}
			// neither dimension nor the total may come back larger than it went in; the outermost
			// frame cannot have used a negative amount of state gas (GasBudget.Used must not underflow)
			if b.StateGas > t.gas-given {
				fails = append(fails, fmt.Sprintf("%s: state reservoir grew: %d returned > %d given", nm, b.StateGas, t.gas-given))
			}
			if b.ExecutionGas+b.StateGas > t.gas {
				fails = append(fails, fmt.Sprintf("%s: total gas returned %d > %d given", nm, b.ExecutionGas+b.StateGas, t.gas))
			}
			if b.UsedStateGas < 0 {
				fails = append(fails, fmt.Sprintf("%s: negative state gas usage %d of the outermost frame", nm, b.UsedStateGas))
			}
			if level < 14 && (b.StateGas != 0 || b.UsedStateGas != 0 || b.Spilled != 0) {
				fails = append(fails, fmt.Sprintf("%s: state-gas dimension used before Amsterdam: %v", nm, *b))
			}
			// EIP-8037: the state gas used pays at least for the state growth that survived
			if level >= 14 && o.err == nil {
				if lb := stateGrowthGas(t, o); b.UsedStateGas < int64(lb) {
					fails = append(fails, fmt.Sprintf("%s: state gas used %d < %d owed for the surviving state growth", nm, b.UsedStateGas, lb))
				}
			}
		}
		if t.probe != nil {
			fails = append(fails, t.probe.check(t, level, nm, has8024, o)...)
		}
	}
	check(mainLevel, mainName, main8024 || mainLevel >= 14, main)
	for level := range forkNames {
		if t.probe != nil && t.probe.mask&(1<<uint(level)) == 0 {
			continue
		}
		o := executeMode(t, level, true, false)
		if o.overrun {
			panic("hxlib: step budget exceeded")
		}
		check(level, forkNames[level], level >= 14, o)
	}
	if main8024 {
		o := executeMode(t, mainLevel, true, true)
		if o.overrun {
			panic("hxlib: step budget exceeded")
		}
		check(mainLevel, mainName, true, o)
	}
	if len(fails) > 0 {
		if len(fails) > 3 {
			fails = fails[:3]
		}
		res.Oracle = fmt.Sprint(fails)
	}
	// tags
	res.Tags = append(res.Tags, fmt.Sprintf("status%d", errClass(main.err)), []string{"call", "create"}[t.kind],
		"fork"+mainName)
	if main.maxDepth >= 2 {
		res.Tags = append(res.Tags, "nested")
	}
	if main.maxDepth >= 1025 {
		res.Tags = append(res.Tags, "depth1025")
	}
	if main.maxStack >= 1024 {
		res.Tags = append(res.Tags, "stack1024")
	}
	if main.maxMem > 0 {
		res.Tags = append(res.Tags, "mem")
	}
	if main.maxMem >= 4096 {
		res.Tags = append(res.Tags, "mem4k")
	}
	for _, a := range t.pre {
		if len(a.code) == 23 && a.code[0] == 0xef && a.code[1] == 1 && a.code[2] == 0 && main.addrs[addrOf(a.addr)] {
			if t.fork%4 >= 1 {
				res.Tags = append(res.Tags, "delegation_resolved")
			} else {
				res.Tags = append(res.Tags, "designator_called_cancun")
			}
			break
		}
	}
	if len(main.st.Logs()) > 0 {
		res.Tags = append(res.Tags, "logs")
	}
	for op := range main.ops {
		res.Tags = append(res.Tags, fmt.Sprintf("op%02x", op))
	}
	if t.probe != nil {
		res.Tags = append(res.Tags, t.probe.tags()...)
	}
	res.NonTrivial = main.steps >= 3
	return res
}

func main() {
	Main(Family{
		ID: "C27",
		Rule: "pre-states of 3-6 accounts (origin, coinbase, 2-4 contracts with grammar-generated code, balances, nonces, storage) and one runtime.Call or runtime.Create; " +
			"bytecode from a grammar covering every opcode of the modelled set (operand values: small, memory offsets near 2^32 / 2^64, addresses of the pre-state, identity precompile, -1, random), " +
			"if/else and counted loops with valid jump tables, nested CALL/CALLCODE/DELEGATECALL/STATICCALL/CREATE/CREATE2 to other generated contracts, reverts, selfdestructs, logs, " +
			"templates for self-recursion to depth 1025, operand-stack growth to 1024/1025, memory growth, plus an adversarial stream of raw random bytes and mutated programs; " +
			"gas limits random and, for a third of the cases, exactly the gas used by a generous run and that value +-1. Each case is compared with the model under Cancun / Prague / Osaka " +
			"and run under all 16 rule sets Frontier..Bogota for the resource oracle. Stack-boundary probes: every opcode byte at heights need-1, need (and around the overflow bound) and every DUPN/SWAPN/EXCHANGE immediate at heights around its depth, in the outermost frame or in a callee below a caller holding sentinel stack items, checked against the harness's own pops/pushes table under the rule sets in the case's mask and compared with the model under 'Osaka + EIP-8024'. Call trees of depth 2-4 with storage writes, value transfers to accounts that do not exist yet, creations and every kind of exit at every level (Amsterdam state gas). Non-trivial: the outermost frame or its callees executed at least 3 instructions; distinct = distinct case line.",
		Gen:         gen,
		CaseTimeout: 40 * time.Second,
		Run:         run,
	})
}
