package main

import (
	"math/big"

	. "gethverif/harness/hxlib"
)

// ---------------------------------------------------------------------------
// a tiny assembler with labels

type asm struct {
	code   []byte
	fix    map[int]int // position of a PUSH2 immediate -> label
	labels map[int]int
	nlab   int
}

func newAsm() *asm { return &asm{fix: map[int]int{}, labels: map[int]int{}} }

func (a *asm) op(b ...byte)  { a.code = append(a.code, b...) }
func (a *asm) newLabel() int { a.nlab++; return a.nlab }
func (a *asm) pushLabel(l int) {
	a.code = append(a.code, 0x61, 0, 0)
	a.fix[len(a.code)-2] = l
}
func (a *asm) label(l int) { a.labels[l] = len(a.code); a.op(0x5b) }
func (a *asm) push(v *big.Int) {
	b := v.Bytes()
	if len(b) > 32 {
		b = b[len(b)-32:]
	}
	if len(b) == 0 {
		a.op(0x60, 0)
		return
	}
	a.op(byte(0x5f + len(b)))
	a.op(b...)
}
func (a *asm) pushU(v uint64) { a.push(new(big.Int).SetUint64(v)) }
func (a *asm) bytes() []byte {
	out := append([]byte{}, a.code...)
	for pos, l := range a.fix {
		t := a.labels[l]
		out[pos], out[pos+1] = byte(t>>8), byte(t)
	}
	return out
}

var two = big.NewInt(2)

func pow2(k uint) *big.Int { return new(big.Int).Lsh(big.NewInt(1), k) }

// ---------------------------------------------------------------------------
// program generator

type world struct {
	addrs    []*big.Int // addresses worth mentioning: contracts, origin, coinbase, identity precompile, a stranger
	lastInit []byte
}

type pgen struct {
	r     *Rng
	a     *asm
	w     *world
	h     int // tracked operand-stack height (best effort)
	depth int // nesting of generated sub-programs (initcode)
	wild  bool
}

func (g *pgen) word() *big.Int {
	r := g.r
	switch r.Intn(12) {
	case 0:
		return new(big.Int)
	case 1, 2, 3:
		return big.NewInt(int64(r.Intn(40)))
	case 4:
		return new(big.Int).Sub(pow2(256), big.NewInt(int64(1+r.Intn(3))))
	case 5:
		return pow2(255)
	case 6:
		return new(big.Int).Add(pow2(uint(r.Intn(257))%256), big.NewInt(int64(r.Intn(3)-1+1)))
	case 7:
		return g.addr()
	case 8:
		return big.NewInt(int64(r.Intn(300)))
	default:
		return new(big.Int).SetBytes(r.Bytes(1 + r.Intn(32)))
	}
}

func (g *pgen) addr() *big.Int {
	if g.r.Chance(1, 12) {
		return new(big.Int).SetBytes(g.r.Bytes(20))
	}
	return g.w.addrs[g.r.Intn(len(g.w.addrs))]
}

// memory offset: usually small, sometimes near 2^32 / 2^64 / huge
func (g *pgen) moff() *big.Int {
	r := g.r
	switch r.Intn(40) {
	case 0:
		return new(big.Int).Add(pow2(32), big.NewInt(int64(r.Intn(64)-32)))
	case 1:
		return new(big.Int).Add(pow2(64), big.NewInt(int64(r.Intn(64)-33)))
	case 2:
		return new(big.Int).Sub(pow2(256), big.NewInt(int64(1+r.Intn(40))))
	case 3:
		return big.NewInt(int64(r.Intn(70000)))
	case 4, 5:
		return big.NewInt(int64(r.Intn(2000)))
	default:
		return big.NewInt(int64(r.Intn(200)))
	}
}

func (g *pgen) msize() *big.Int {
	r := g.r
	switch r.Intn(40) {
	case 0:
		return new(big.Int).Add(pow2(32), big.NewInt(int64(r.Intn(8)-4)))
	case 1:
		return new(big.Int).Add(pow2(64), big.NewInt(int64(r.Intn(8)-5)))
	case 2:
		return new(big.Int).Sub(pow2(256), big.NewInt(int64(1+r.Intn(40))))
	case 3, 4:
		return big.NewInt(int64(r.Intn(3000)))
	case 5, 6, 7:
		return new(big.Int)
	default:
		return big.NewInt(int64(r.Intn(100)))
	}
}

func (g *pgen) key() *big.Int { return big.NewInt(int64(g.r.Intn(4))) }
func (g *pgen) sval() *big.Int {
	if g.r.Chance(2, 5) {
		return new(big.Int)
	}
	return big.NewInt(int64(1 + g.r.Intn(3)))
}

// pops the result of an expression statement most of the time
func (g *pgen) settle(pushed int) {
	for i := 0; i < pushed; i++ {
		if g.h < 12 && g.r.Chance(1, 4) {
			g.h++
		} else {
			g.a.op(0x50)
		}
	}
}

func (g *pgen) gasArg() {
	r := g.r
	switch r.Intn(8) {
	case 0:
		g.a.pushU(0)
	case 1:
		g.a.pushU(uint64(r.Intn(3000)))
	case 2:
		g.a.pushU(uint64(r.Intn(100000)))
	case 3:
		g.a.push(new(big.Int).Sub(pow2(256), big.NewInt(1)))
	default:
		g.a.op(0x5a) // GAS
	}
}

func (g *pgen) value() *big.Int {
	if g.r.Chance(3, 5) {
		return new(big.Int)
	}
	if g.r.Chance(1, 8) {
		return pow2(uint(60 + g.r.Intn(100)))
	}
	return big.NewInt(int64(g.r.Intn(50)))
}

// code that writes [blob] to memory at 0 (32-byte chunks)
func (g *pgen) storeBlob(blob []byte) {
	for off := 0; off < len(blob); off += 32 {
		chunk := make([]byte, 32)
		copy(chunk, blob[off:])
		g.a.op(0x7f)
		g.a.op(chunk...)
		g.a.pushU(uint64(off))
		g.a.op(0x52)
	}
}

// initcode: either deploys a small runtime, or is an arbitrary generated program
func (g *pgen) initcode() []byte {
	r := g.r
	sub := &pgen{r: r, a: newAsm(), w: g.w, depth: g.depth + 1, wild: g.wild}
	if g.w.lastInit != nil && r.Chance(1, 4) {
		return g.w.lastInit // same initcode again: CREATE2 address collisions
	}
	defer func() { g.w.lastInit = sub.a.bytes() }()
	if r.Chance(1, 14) { // code at / just above the size limit (24576)
		sub.a.pushU(uint64(24575 + r.Intn(3)))
		sub.a.pushU(0)
		sub.a.op(0xf3)
		return sub.a.bytes()
	}
	switch r.Intn(6) {
	case 0: // arbitrary program
		sub.program(2 + r.Intn(5))
		return sub.a.bytes()
	case 1: // empty
		return nil
	case 2: // returns code starting with 0xEF
		sub.a.pushU(0xef)
		sub.a.pushU(0)
		sub.a.op(0x53)
		sub.a.pushU(uint64(1 + r.Intn(3)))
		sub.a.pushU(0)
		sub.a.op(0xf3)
		return sub.a.bytes()
	default:
		rt := &pgen{r: r, a: newAsm(), w: g.w, depth: g.depth + 1, wild: g.wild}
		rt.program(1 + r.Intn(4))
		code := rt.a.bytes()
		if len(code) > 90 {
			code = code[:90]
		}
		if r.Chance(1, 8) {
			sub.program(1 + r.Intn(2)) // constructor side effects
			for ; sub.h > 0; sub.h-- {
				sub.a.op(0x50)
			}
		}
		sub.storeBlob(code)
		sub.a.pushU(uint64(len(code)))
		sub.a.pushU(0)
		sub.a.op(0xf3)
		return sub.a.bytes()
	}
}

var binops = []byte{0x01, 0x02, 0x03, 0x04, 0x05, 0x06, 0x07, 0x0a, 0x0b, 0x10, 0x11, 0x12, 0x13, 0x14, 0x16, 0x17, 0x18, 0x1a, 0x1b, 0x1c, 0x1d}
var env0ops = []byte{0x30, 0x32, 0x33, 0x34, 0x36, 0x38, 0x3a, 0x3d, 0x41, 0x42, 0x43, 0x44, 0x45, 0x46, 0x47, 0x48, 0x4a, 0x58, 0x59, 0x5a, 0x5f}

func (g *pgen) stmt() {
	r, a := g.r, g.a
	switch x := r.Intn(100); {
	case x < 14: // binary arithmetic / comparison / bitwise
		op := binops[r.Intn(len(binops))]
		a.push(g.word())
		if op == 0x0b || op == 0x1a || (op >= 0x1b && op <= 0x1d) { // small first operand is the interesting one
			a.pushU(uint64(r.Intn(300)))
		} else if op == 0x0a && r.Chance(1, 2) { // EXP base on top
			a.pushU(uint64(r.Intn(5)))
		} else {
			a.push(g.word())
		}
		a.op(op)
		g.settle(1)
	case x < 17: // unary
		a.push(g.word())
		a.op([]byte{0x15, 0x19, 0x1e}[r.Intn(3)])
		g.settle(1)
	case x < 20: // ternary
		a.push(g.word())
		a.push(g.word())
		a.push(g.word())
		a.op(byte(0x08 + r.Intn(2)))
		g.settle(1)
	case x < 25: // environment
		a.op(env0ops[r.Intn(len(env0ops))])
		g.settle(1)
	case x < 29: // env1 / account reads
		switch r.Intn(7) {
		case 0:
			a.push(g.moff())
			a.op(0x35)
		case 1:
			a.pushU(uint64(r.Intn(400)))
			a.op(0x40)
		case 2:
			a.pushU(uint64(r.Intn(4)))
			a.op(0x49)
		case 3:
			a.push(g.key())
			a.op(0x5c)
		case 4:
			a.push(g.addr())
			a.op(0x31)
		case 5:
			a.push(g.addr())
			a.op(0x3b)
		default:
			a.push(g.addr())
			a.op(0x3f)
		}
		g.settle(1)
	case x < 37: // memory
		switch r.Intn(6) {
		case 0:
			a.push(g.moff())
			a.op(0x51)
			g.settle(1)
		case 1, 2:
			a.push(g.word())
			a.push(g.moff())
			a.op(0x52)
		case 3:
			a.push(g.word())
			a.push(g.moff())
			a.op(0x53)
		case 4:
			a.push(g.msize())
			a.push(g.moff())
			a.push(g.moff())
			a.op(0x5e)
		default:
			a.push(g.msize())
			a.push(g.moff())
			a.op(0x20)
			g.settle(1)
		}
	case x < 42: // copies
		switch r.Intn(4) {
		case 0, 1, 2:
			a.push(g.msize())
			a.push(g.moff())
			a.push(g.moff())
			a.op([]byte{0x37, 0x39, 0x37, 0x39, 0x3e}[r.Intn(5)])
		default:
			a.push(g.msize())
			a.push(g.moff())
			a.push(g.moff())
			a.push(g.addr())
			a.op(0x3c)
		}
	case x < 50: // storage
		switch r.Intn(5) {
		case 0, 1:
			a.push(g.sval())
			a.push(g.key())
			a.op(0x55)
		case 2:
			a.push(g.key())
			a.op(0x54)
			g.settle(1)
		case 3:
			a.push(g.sval())
			a.push(g.key())
			a.op(0x5d)
		default:
			a.push(g.key())
			a.op(0x5c)
			g.settle(1)
		}
	case x < 54: // log
		n := r.Intn(5)
		for i := 0; i < n; i++ {
			a.push(g.word())
		}
		a.push(g.msize())
		a.push(g.moff())
		a.op(byte(0xa0 + n))
	case x < 58: // dup / swap
		n := 1 + r.Intn(16)
		if g.h >= n || g.wild || r.Chance(1, 30) {
			if r.Bool() {
				a.op(byte(0x80 + n - 1))
				if g.h >= n {
					g.h++
					g.settle(1)
					g.h--
				}
			} else if g.h >= n+1 || g.wild || r.Chance(1, 30) {
				a.op(byte(0x90 + n - 1))
			}
		}
	case x < 64: // if / else
		if g.depth > 3 {
			return
		}
		lElse, lEnd := a.newLabel(), a.newLabel()
		a.push(g.word())
		if r.Bool() {
			a.op(0x15)
		}
		a.pushLabel(lElse)
		a.op(0x57)
		h0 := g.h
		g.depth++
		g.block(1 + r.Intn(3))
		g.fixHeight(h0)
		a.pushLabel(lEnd)
		a.op(0x56)
		a.label(lElse)
		g.block(r.Intn(3))
		g.fixHeight(h0)
		g.depth--
		a.label(lEnd)
	case x < 68: // counted loop
		if g.depth > 2 {
			return
		}
		n := 1 + r.Intn(5)
		if r.Chance(1, 12) {
			n = 20 + r.Intn(200)
		}
		lTop := a.newLabel()
		a.pushU(uint64(n))
		g.h++
		a.label(lTop)
		h0 := g.h
		g.depth += 2
		g.block(1 + r.Intn(3))
		g.fixHeight(h0)
		g.depth -= 2
		a.pushU(1)
		a.op(0x90, 0x03) // SWAP1 SUB: counter-1
		a.op(0x80)       // DUP1
		a.pushLabel(lTop)
		a.op(0x57)
		a.op(0x50)
		g.h--
	case x < 80: // call family
		kind := []byte{0xf1, 0xf1, 0xf2, 0xf4, 0xfa}[r.Intn(5)]
		if r.Chance(1, 3) { // calldata for the callee
			a.push(g.word())
			a.pushU(0)
			a.op(0x52)
		}
		a.push(g.msize()) // retSize
		a.push(g.moff())  // retOffset
		a.push(g.msize()) // inSize
		a.push(g.moff())  // inOffset
		if kind == 0xf1 || kind == 0xf2 {
			a.push(g.value())
		}
		if r.Chance(1, 10) {
			a.op(0x30) // self
		} else {
			a.push(g.addr())
		}
		g.gasArg()
		a.op(kind)
		g.settle(1)
		if r.Chance(1, 3) {
			a.op(0x3d)
			g.settle(1)
		}
		if r.Chance(1, 4) {
			a.pushU(uint64(r.Intn(34)))
			a.pushU(uint64(r.Intn(3)))
			a.push(g.moff())
			a.op(0x3e)
		}
	case x < 86: // create / create2
		if g.depth > 1 {
			return
		}
		init := g.initcode()
		g.storeBlob(init)
		ln := uint64(len(init))
		if r.Chance(1, 12) {
			ln = uint64(r.Intn(60000))
		}
		if r.Bool() {
			a.pushU(ln)
			a.pushU(0)
			a.push(g.value())
			a.op(0xf0)
		} else {
			a.pushU(uint64(r.Intn(3)))
			a.pushU(ln)
			a.pushU(0)
			a.push(g.value())
			a.op(0xf5)
		}
		if r.Chance(1, 2) { // call what was created
			a.op(0x80)
			a.pushU(0)
			a.pushU(0)
			a.pushU(0)
			a.pushU(0)
			a.pushU(0)
			a.op(0x85) // DUP6: the address
			a.op(0x5a, 0xf1)
			a.op(0x50)
		}
		g.settle(1)
	case x < 88: // pc-relative oddities, jumpdest, raw push widths
		switch r.Intn(3) {
		case 0:
			a.op(0x5b)
		case 1:
			n := 1 + r.Intn(32)
			a.op(byte(0x5f + n))
			a.op(r.Bytes(n)...)
			g.settle(1)
		default:
			a.push(g.word())
			a.op(0x56) // wild jump
		}
	case x < 93: // terminators
		if g.depth == 0 && !r.Chance(1, 4) {
			return
		}
		switch r.Intn(7) {
		case 0, 1:
			a.push(g.msize())
			a.push(g.moff())
			a.op(0xf3)
		case 2, 3:
			a.push(g.msize())
			a.push(g.moff())
			a.op(0xfd)
		case 4:
			a.op(0x00)
		case 5:
			a.op(0xfe)
		default:
			a.push(g.addr())
			a.op(0xff)
		}
	case x < 95: // raw bytes
		if g.wild || r.Chance(1, 3) {
			a.op(r.Bytes(1 + r.Intn(4))...)
		}
	default:
		a.push(g.word())
		g.settle(1)
	}
}

func (g *pgen) fixHeight(h0 int) {
	for g.h > h0 {
		g.a.op(0x50)
		g.h--
	}
	for g.h < h0 {
		g.a.pushU(0)
		g.h++
	}
}

func (g *pgen) block(n int) {
	for i := 0; i < n; i++ {
		g.stmt()
	}
}

func (g *pgen) program(n int) {
	g.block(n)
	if g.r.Chance(1, 2) {
		g.a.push(g.msize())
		g.a.push(g.moff())
		g.a.op([]byte{0xf3, 0xf3, 0xfd}[g.r.Intn(3)])
	}
}

// ---------------------------------------------------------------------------
// templates

func tmplRecurse(kind byte) []byte { // calls itself with all gas until the depth limit
	a := newAsm()
	a.pushU(0)
	a.pushU(0)
	a.pushU(0)
	a.pushU(0)
	if kind == 0xf1 || kind == 0xf2 {
		a.pushU(0)
	}
	a.op(0x30, 0x5a, kind)
	a.pushU(0)
	a.op(0x52)
	a.pushU(32)
	a.pushU(0)
	a.op(0xf3)
	return a.bytes()
}

func tmplStackGrow(op byte, n int) []byte { // grows the operand stack by one item per iteration until the limit
	a := newAsm()
	for i := 0; i < n; i++ {
		a.pushU(uint64(i))
	}
	l := a.newLabel()
	a.label(l)
	a.op(op) // PUSH0 / GAS / ADDRESS
	if n == 2 {
		a.op(0x80, 0x80, 0x50) // DUP1 DUP1 POP: the limit is hit by a DUP
	}
	a.pushLabel(l)
	a.op(0x56)
	return a.bytes()
}

func tmplMemGrow(step uint64) []byte { // touches memory further and further until out of gas
	a := newAsm()
	l := a.newLabel()
	a.pushU(0)
	a.label(l)
	a.pushU(step)
	a.op(0x01)       // ADD
	a.op(0x80, 0x51) // DUP1 MLOAD
	a.op(0x50)
	a.pushLabel(l)
	a.op(0x56)
	return a.bytes()
}

// ---------------------------------------------------------------------------
// cases

func big64(v uint64) *big.Int { return new(big.Int).SetUint64(v) }

func genCase(r *Rng, wild bool) tcase {
	var t tcase
	origin := big.NewInt(0xee01)
	coinbase := big.NewInt(0xcb01)
	ncon := 2 + r.Intn(3)
	w := &world{}
	var caddrs []*big.Int
	for i := 0; i < ncon; i++ {
		caddrs = append(caddrs, big.NewInt(int64(0x1000+i)))
	}
	w.addrs = append(w.addrs, caddrs...)
	w.addrs = append(w.addrs, caddrs...)
	w.addrs = append(w.addrs, origin, coinbase, big.NewInt(4), big.NewInt(0x2222), big.NewInt(0x3333))
	delAddrs := []*big.Int{big.NewInt(0x1100), big.NewInt(0x1101)}
	w.addrs = append(w.addrs, delAddrs...)
	w.addrs = append(w.addrs, delAddrs...)
	t.fork = []int{0, 0, 0, 1, 1, 2}[r.Intn(6)]
	t.env = []*big.Int{origin, big.NewInt(int64(r.Intn(100))), coinbase, big.NewInt(int64(1000 + r.Intn(1000))),
		big.NewInt(int64(r.Intn(600))), new(big.Int).SetBytes(r.Bytes(32)), big.NewInt(1),
		big.NewInt(int64(r.Intn(1000))), big.NewInt(int64(1 + r.Intn(50)))}
	for i := r.Intn(3); i > 0; i-- {
		t.blobs = append(t.blobs, new(big.Int).SetBytes(r.Bytes(32)))
	}
	t.pre = append(t.pre, acct{addr: origin, balance: new(big.Int).Add(pow2(70), big.NewInt(int64(r.Intn(1000)))), nonce: uint64(r.Intn(3))})
	if r.Chance(1, 200) {
		t.pre[0].nonce = ^uint64(0)
	}
	memGrow := false
	for i := 0; i < ncon; i++ {
		g := &pgen{r: r, a: newAsm(), w: w, wild: wild}
		var code []byte
		switch {
		case wild && r.Chance(1, 3):
			code = r.Bytes(1 + r.Intn(60))
		case r.Chance(1, 40):
			code = tmplRecurse([]byte{0xf1, 0xf2, 0xf4, 0xfa}[r.Intn(4)])
		case r.Chance(1, 40):
			code = tmplStackGrow([]byte{0x5f, 0x5a, 0x30}[r.Intn(3)], r.Intn(3))
		case r.Chance(1, 60):
			code = tmplMemGrow(uint64(1024 + 32*r.Intn(64)))
			memGrow = true
		default:
			g.program(2 + r.Intn(10))
			code = g.a.bytes()
			if wild && r.Chance(1, 2) && len(code) > 0 { // mutate
				for k := 1 + r.Intn(3); k > 0; k-- {
					code[r.Intn(len(code))] = byte(r.U64())
				}
			}
		}
		ac := acct{addr: caddrs[i], balance: big.NewInt(int64(r.Intn(200))), nonce: 1, code: code}
		if r.Chance(1, 6) {
			ac.balance = new(big.Int)
		}
		for k := 0; k < 4; k++ {
			if r.Chance(1, 3) {
				ac.slots = append(ac.slots, [2]*big.Int{big.NewInt(int64(k)), big.NewInt(int64(1 + r.Intn(3)))})
			}
		}
		t.pre = append(t.pre, ac)
	}
	if r.Chance(1, 3) {
		t.pre = append(t.pre, acct{addr: big.NewInt(0x2222), balance: big.NewInt(int64(r.Intn(5))), nonce: uint64(r.Intn(2))})
	}
	// EIP-7702 delegation designators (0xef0100 ++ address) as account code: resolved by the CALL
	// family since Prague (one level), plain undefined code 0xEF before
	ndel := 0
	if r.Chance(2, 5) {
		ndel = 1 + r.Intn(2)
	}
	if ndel > 0 && r.Chance(3, 4) {
		t.fork = 1 + r.Intn(2) // mostly exercised where delegations are resolved
	}
	for i := 0; i < ndel; i++ {
		var target *big.Int
		switch r.Intn(8) {
		case 0:
			target = big.NewInt(4) // identity precompile: its account code is empty
		case 1:
			target = big.NewInt(0x3333) // no such account
		case 2:
			target = big.NewInt(int64(0x1100 + r.Intn(2))) // itself / another designator: only one level is followed
		case 3:
			target = origin
		default:
			target = caddrs[r.Intn(ncon)]
		}
		code := append([]byte{0xef, 0x01, 0x00}, addrOf(target).Bytes()...)
		if r.Chance(1, 12) {
			code = code[:22] // malformed designator
		}
		t.pre = append(t.pre, acct{addr: delAddrs[i], balance: big.NewInt(int64(r.Intn(30))), nonce: 1, code: code})
	}
	if r.Chance(1, 5) {
		t.pre = append(t.pre, acct{addr: coinbase, balance: big.NewInt(7)})
	}
	t.value = new(big.Int)
	if r.Chance(1, 4) {
		t.value = big.NewInt(int64(r.Intn(1000)))
	}
	if r.Chance(1, 60) {
		t.value = pow2(80)
	}
	switch r.Intn(12) {
	case 0:
		t.gas = uint64(r.Intn(3000))
	case 1:
		t.gas = uint64(r.Intn(60000))
	case 2:
		t.gas = 1 << 32
	default:
		t.gas = uint64(100000 + r.Intn(3000000))
	}
	if t.gas == 0 {
		t.gas = 1 // runtime.setDefaults turns a zero GasLimit into MaxUint64
	}
	if r.Chance(1, 10) {
		t.gas = uint64(5000000 + r.Intn(3000000)) // enough for a 24 kB code deposit
	}
	if memGrow && t.gas > 30000 {
		t.gas = uint64(21000 + r.Intn(9000)) // keeps the model's list-based memory small
	}
	if r.Chance(1, 6) {
		t.kind = 1
		g := &pgen{r: r, a: newAsm(), w: w, wild: wild}
		t.data = g.initcode()
	} else {
		t.to = caddrs[r.Intn(ncon)]
		if r.Chance(1, 25) {
			t.to = w.addrs[r.Intn(len(w.addrs))]
		}
		if ndel > 0 && r.Chance(1, 4) {
			t.to = delAddrs[r.Intn(ndel)]
		}
		t.data = r.Bytes(r.Intn(70))
	}
	return t
}

func gen(r *Rng, tier string, emit func(Sx)) {
	n := 170
	if tier == "thorough" {
		n = 4000
	}
	// the depth-1025 recursion and stack-limit templates, once each per kind
	for _, k := range []byte{0xf1, 0xf4, 0xfa, 0xf2} {
		t := genCase(r.Fork(), false)
		t.kind, t.fork = 0, 0
		t.pre[1].code = tmplRecurse(k)
		t.to, t.value, t.gas = t.pre[1].addr, new(big.Int), 1<<36
		emit(t.sx())
		if tier != "thorough" {
			break
		}
	}
	for _, op := range []byte{0x5f, 0x5a} {
		t := genCase(r.Fork(), false)
		t.kind = 0
		t.pre[1].code = tmplStackGrow(op, 0)
		t.to, t.value, t.gas = t.pre[1].addr, new(big.Int), 400000
		emit(t.sx())
	}
	// stack-boundary probes: every opcode byte and every EIP-8024 immediate at exact heights
	genProbes(r.Fork(), tier, emit)
	// call trees exercising Amsterdam's state-gas charge / refill / hand-back at every level
	ntree := 60
	if tier == "thorough" {
		ntree = 2500
	}
	for i := 0; i < ntree; i++ {
		emit(genTree(r.Fork()).sx())
	}
	for i := 0; i < n; i++ {
		t := genCase(r.Fork(), i%5 == 4)
		if i%7 == 3 {
			t.fork = 3 // Osaka + EIP-8024: raw 0xe6..0xe8 bytes become DUPN/SWAPN/EXCHANGE
		}
		// the generator runs the implementation once: cases that execute more than 300000
		// instructions (cheap endless loops under a huge gas limit) are dropped, they only cost time
		o := executeMode(t, modelFork[t.fork%4], false, t.fork%4 == 3)
		if o.overrun || o.steps > 300000 {
			continue
		}
		emit(t.sx())
		if i%3 == 0 {
			// exact gas +-1: measure the gas used by this run and re-emit at the boundary
			if o.panicked == "" && o.gasLeft <= t.gas {
				used := t.gas - o.gasLeft
				for _, d := range []int64{0, -1, 1} {
					g := int64(used) + d
					if g >= 1 {
						t2 := t
						t2.gas = uint64(g)
						emit(t2.sx())
					}
				}
			}
		}
	}
}
