package main

// Stack-boundary probes and call-tree templates.
//
// A probe case runs ONE opcode (with its immediate byte, if any) on an operand stack of an exact
// height, either in the outermost frame or in a callee whose caller keeps sentinel values on its
// own operand stack (the frames share one arena in geth). The case carries an annotation
// (1 op imm height nested mask) from which the harness regenerates the two contracts; the oracle
// derives what must happen from its OWN opcode table (below), independent of geth's jump table:
//   height < what the opcode touches          -> the frame ends with ErrStackUnderflow
//   height > 1024 + pops - pushes             -> ErrStackOverflow
//   otherwise                                 -> neither of the two
//   opcode not defined in the rule set        -> ErrInvalidOpCode
// and, nested, the caller's sentinels come back unchanged and the caller succeeds.

import (
	"bytes"
	"fmt"
	"math/big"

	. "gethverif/harness/hxlib"
	"github.com/ethereum/go-ethereum/common"
	"github.com/ethereum/go-ethereum/params"
)

// ---------------------------------------------------------------------------
// the oracle's opcode table: (pops, pushes, first rule set), written from the Yellow Paper / EIPs

type opInfo struct{ pops, pushes, since int }

var opTable = func() map[byte]opInfo {
	m := map[byte]opInfo{}
	set := func(lo, hi byte, pops, pushes, since int) {
		for o := int(lo); o <= int(hi); o++ {
			m[byte(o)] = opInfo{pops, pushes, since}
		}
	}
	set(0x00, 0x00, 0, 0, 0)
	set(0x01, 0x07, 2, 1, 0)
	set(0x08, 0x09, 3, 1, 0)
	set(0x0a, 0x0b, 2, 1, 0)
	set(0x10, 0x14, 2, 1, 0)
	set(0x15, 0x15, 1, 1, 0)
	set(0x16, 0x18, 2, 1, 0)
	set(0x19, 0x19, 1, 1, 0)
	set(0x1a, 0x1a, 2, 1, 0)
	set(0x1b, 0x1d, 2, 1, 5)  // SHL SHR SAR: Constantinople
	set(0x1e, 0x1e, 1, 1, 13) // CLZ: Osaka
	set(0x20, 0x20, 2, 1, 0)
	set(0x30, 0x30, 0, 1, 0)
	set(0x31, 0x31, 1, 1, 0)
	set(0x32, 0x34, 0, 1, 0)
	set(0x35, 0x35, 1, 1, 0)
	set(0x36, 0x36, 0, 1, 0)
	set(0x37, 0x37, 3, 0, 0)
	set(0x38, 0x38, 0, 1, 0)
	set(0x39, 0x39, 3, 0, 0)
	set(0x3a, 0x3a, 0, 1, 0)
	set(0x3b, 0x3b, 1, 1, 0)
	set(0x3c, 0x3c, 4, 0, 0)
	set(0x3d, 0x3d, 0, 1, 4) // RETURNDATASIZE: Byzantium
	set(0x3e, 0x3e, 3, 0, 4)
	set(0x3f, 0x3f, 1, 1, 5) // EXTCODEHASH: Constantinople
	set(0x40, 0x40, 1, 1, 0)
	set(0x41, 0x45, 0, 1, 0)
	set(0x46, 0x47, 0, 1, 7)  // CHAINID SELFBALANCE: Istanbul
	set(0x48, 0x48, 0, 1, 9)  // BASEFEE: London
	set(0x49, 0x49, 1, 1, 11) // BLOBHASH: Cancun
	set(0x4a, 0x4a, 0, 1, 11) // BLOBBASEFEE
	set(0x4b, 0x4b, 0, 1, 14) // SLOTNUM: Amsterdam
	set(0x50, 0x50, 1, 0, 0)
	set(0x51, 0x51, 1, 1, 0)
	set(0x52, 0x53, 2, 0, 0)
	set(0x54, 0x54, 1, 1, 0)
	set(0x55, 0x55, 2, 0, 0)
	set(0x56, 0x56, 1, 0, 0)
	set(0x57, 0x57, 2, 0, 0)
	set(0x58, 0x5a, 0, 1, 0)
	set(0x5b, 0x5b, 0, 0, 0)
	set(0x5c, 0x5c, 1, 1, 11) // TLOAD
	set(0x5d, 0x5d, 2, 0, 11) // TSTORE
	set(0x5e, 0x5e, 3, 0, 11) // MCOPY
	set(0x5f, 0x5f, 0, 1, 10) // PUSH0: Shanghai
	set(0x60, 0x7f, 0, 1, 0)
	for n := 1; n <= 16; n++ {
		m[byte(0x80+n-1)] = opInfo{n, n + 1, 0}
		m[byte(0x90+n-1)] = opInfo{n + 1, n + 1, 0}
	}
	for n := 0; n <= 4; n++ {
		m[byte(0xa0+n)] = opInfo{n + 2, 0, 0}
	}
	set(0xf0, 0xf0, 3, 1, 0)
	set(0xf1, 0xf2, 7, 1, 0)
	set(0xf3, 0xf3, 2, 0, 0)
	set(0xf4, 0xf4, 6, 1, 1) // DELEGATECALL: Homestead
	set(0xf5, 0xf5, 4, 1, 5) // CREATE2
	set(0xfa, 0xfa, 6, 1, 4) // STATICCALL
	set(0xfd, 0xfd, 2, 0, 4) // REVERT
	set(0xff, 0xff, 1, 0, 0)
	return m
}()

// what one opcode needs under a rule set: defined?, forbidden immediate?, items it touches, the
// largest height it may start from
func opSpec(op, imm byte, level int, has8024 bool) (defined, immBad bool, need, maxBefore int) {
	switch op {
	case 0xe6, 0xe7: // DUPN / SWAPN (EIP-8024)
		if !has8024 {
			return false, false, 0, 1024
		}
		if imm > 90 && imm < 128 {
			return true, true, 0, 1024
		}
		n := (int(imm) + 145) % 256
		if op == 0xe6 {
			return true, false, n, 1023
		}
		return true, false, n + 1, 1024
	case 0xe8: // EXCHANGE
		if !has8024 {
			return false, false, 0, 1024
		}
		if imm > 81 && imm < 128 {
			return true, true, 0, 1024
		}
		k := int(imm ^ 143)
		q, r := k/16, k%16
		n, mm := r+1, 29-q
		if q < r {
			n, mm = q+1, r+1
		}
		if mm > n {
			n = mm
		}
		return true, false, n + 1, 1024
	}
	info, ok := opTable[op]
	if !ok || level < info.since {
		return false, false, 0, 1024
	}
	return true, false, info.pops, 1024 + info.pops - info.pushes
}

// ---------------------------------------------------------------------------

type probeSpec struct {
	op, imm byte
	height  int
	nested  bool
	mask    uint32 // rule sets (bit = level) the oracle runs for this case
}

func (p *probeSpec) sx() Sx {
	return L(I(1), I(int64(p.op)), I(int64(p.imm)), I(int64(p.height)), Bool(p.nested), U(uint64(p.mask)))
}

func parseProbe(s Sx) *probeSpec {
	l := AsList(s)
	if len(l) != 6 || AsInt(l[0]) != 1 {
		panic("hxlib: unknown annotation")
	}
	p := &probeSpec{op: byte(AsInt(l[1])), imm: byte(AsInt(l[2])), height: AsInt(l[3]), nested: AsBool(l[4]), mask: uint32(AsU64(l[5]))}
	if p.height < 0 || p.height > 1030 {
		panic("hxlib: probe height out of range")
	}
	return p
}

var (
	probeCaller = big.NewInt(0x1000)
	probeCallee = big.NewInt(0x1001)
	sentinels   = [][]byte{
		bytes.Repeat([]byte{0xa1}, 32), bytes.Repeat([]byte{0xa2}, 32), bytes.Repeat([]byte{0xa3}, 32),
	}
)

// the probed contract: [height] pushes of small distinct-ish values, the opcode (+ immediate), STOP
func (p *probeSpec) calleeCode() []byte {
	var c []byte
	for i := 0; i < p.height; i++ {
		c = append(c, 0x60, byte(0xb0+i%0x30))
	}
	c = append(c, p.op)
	if p.op >= 0xe6 && p.op <= 0xe8 {
		c = append(c, p.imm)
	}
	return append(c, 0x00)
}

// the caller: three sentinels stay on its stack across the CALL and are returned afterwards
func (p *probeSpec) callerCode() []byte {
	var c []byte
	for _, s := range sentinels {
		c = append(c, 0x7f)
		c = append(c, s...)
	}
	c = append(c, 0x60, 0, 0x60, 0, 0x60, 0, 0x60, 0, 0x60, 0) // retSize retOff inSize inOff value
	c = append(c, 0x61, 0x10, 0x01)                            // callee
	c = append(c, 0x62, 0x0f, 0x00, 0x00, 0xf1, 0x50)          // gas, CALL, POP
	for i := range sentinels {
		c = append(c, 0x60, byte(32*i), 0x52)
	}
	return append(c, 0x60, byte(32*len(sentinels)), 0x60, 0, 0xf3)
}

func (p *probeSpec) build(r *Rng, fork int) tcase {
	origin := big.NewInt(0xee01)
	t := tcase{kind: 0, fork: fork, value: new(big.Int), gas: 3000000, probe: p}
	t.env = []*big.Int{origin, big.NewInt(1), big.NewInt(0xcb01), big.NewInt(1000), big.NewInt(300),
		big.NewInt(0x1234), big.NewInt(1), big.NewInt(7), big.NewInt(1)}
	t.pre = []acct{{addr: origin, balance: pow2(70)}}
	if p.nested {
		t.pre = append(t.pre, acct{addr: probeCaller, balance: new(big.Int), nonce: 1, code: p.callerCode()})
		t.to = probeCaller
	} else {
		t.to = probeCallee
	}
	t.pre = append(t.pre, acct{addr: probeCallee, balance: new(big.Int), nonce: 1, code: p.calleeCode()})
	return t
}

// the case must be exactly what the annotation describes (a shrink candidate that is not is no case)
func (p *probeSpec) validate(t tcase) {
	var callee, caller []byte
	for _, a := range t.pre {
		if a.addr.Cmp(probeCallee) == 0 {
			callee = a.code
		}
		if a.addr.Cmp(probeCaller) == 0 {
			caller = a.code
		}
	}
	want := probeCallee
	if p.nested {
		want = probeCaller
	}
	if t.kind != 0 || t.to == nil || t.to.Cmp(want) != 0 || !bytes.Equal(callee, p.calleeCode()) ||
		(p.nested && !bytes.Equal(caller, p.callerCode())) || t.gas != 3000000 || t.value.Sign() != 0 {
		panic("hxlib: probe annotation does not describe this case")
	}
}

func (p *probeSpec) check(t tcase, level int, nm string, has8024 bool, o runOut) (fails []string) {
	p.validate(t)
	if o.panicked != "" {
		return nil // already reported
	}
	var qerr error
	if p.nested {
		if o.exits < 2 {
			return []string{fmt.Sprintf("%s: probe: the callee frame never ran", nm)}
		}
		qerr = o.exitErr[1]
	} else {
		qerr = o.err
	}
	cl := errClass(qerr)
	defined, immBad, need, maxBefore := opSpec(p.op, p.imm, level, has8024)
	desc := fmt.Sprintf("%s: probe op %#02x imm %#02x height %d nested %v", nm, p.op, p.imm, p.height, p.nested)
	switch {
	case p.height > 1024:
		if cl != 4 {
			fails = append(fails, fmt.Sprintf("%s: pushing item 1025 must overflow, got class %d (%v)", desc, cl, qerr))
		}
	case !defined:
		if cl != 6 {
			fails = append(fails, fmt.Sprintf("%s: undefined opcode must be an invalid-opcode halt, got class %d (%v)", desc, cl, qerr))
		}
	case immBad:
		if cl != 3 && cl != 4 && cl != 6 {
			fails = append(fails, fmt.Sprintf("%s: forbidden immediate must halt exceptionally, got class %d (%v)", desc, cl, qerr))
		}
	case p.height < need:
		if cl != 3 {
			fails = append(fails, fmt.Sprintf("%s: touches %d items, must be a stack underflow, got class %d (%v)", desc, need, cl, qerr))
		}
	case p.height > maxBefore:
		if cl != 4 {
			fails = append(fails, fmt.Sprintf("%s: may start from at most %d items, must be a stack overflow, got class %d (%v)", desc, maxBefore, cl, qerr))
		}
	default:
		if cl == 3 || cl == 4 {
			fails = append(fails, fmt.Sprintf("%s: needs %d..%d items, must not fail on the stack, got %v", desc, need, maxBefore, qerr))
		}
	}
	if p.nested {
		var want []byte
		for i := len(sentinels) - 1; i >= 0; i-- {
			want = append(want, sentinels[i]...)
		}
		if o.err != nil {
			fails = append(fails, fmt.Sprintf("%s: the caller itself failed: %v", desc, o.err))
		} else if !bytes.Equal(o.ret, want) {
			fails = append(fails, fmt.Sprintf("%s: the caller's operand stack was changed by the callee: %x", desc, o.ret))
		}
	}
	return fails
}

func (p *probeSpec) tags() []string {
	tg := []string{"probe"}
	if p.nested {
		tg = append(tg, "probe_nested")
	}
	if p.op >= 0xe6 && p.op <= 0xe8 {
		tg = append(tg, fmt.Sprintf("probe_%02x", p.op))
	}
	return tg
}

// ---------------------------------------------------------------------------
// EIP-8037: state gas owed for the state growth that survived a successful outermost frame
// (new accounts other than the transaction's own destination, new storage slots, deployed code)

func stateGrowthGas(t tcase, o runOut) uint64 {
	st := o.st
	pre := map[common.Address]acct{}
	for _, a := range t.pre {
		pre[addrOf(a.addr)] = a
	}
	skip := map[common.Address]bool{addrOf(t.env[0]): true, addrOf(t.env[2]): true}
	if t.kind == 0 {
		skip[addrOf(t.to)] = true
	} else {
		skip[o.created] = true
	}
	cand := map[common.Address]bool{}
	for a := range o.addrs {
		cand[a] = true
	}
	for a := range o.keys {
		cand[a] = true
	}
	var bytesGrown uint64
	for a := range cand {
		if st.HasSelfDestructed(a) {
			continue
		}
		p, had := pre[a]
		preEmpty := !had || (p.balance.Sign() == 0 && p.nonce == 0 && len(p.code) == 0)
		postEmpty := st.GetBalance(a).IsZero() && st.GetNonce(a) == 0 && len(st.GetCode(a)) == 0
		if preEmpty && !postEmpty && !skip[a] {
			bytesGrown += params.AccountCreationSize
		}
		if (!had || len(p.code) == 0) && len(st.GetCode(a)) > 0 {
			bytesGrown += uint64(len(st.GetCode(a)))
		}
		for k := range o.keys[a] {
			was := false
			for _, s := range p.slots {
				if common.BigToHash(s[0]) == k && s[1].Sign() != 0 {
					was = true
				}
			}
			if !was && st.GetState(a, k) != (common.Hash{}) {
				bytesGrown += params.StorageCreationSize
			}
		}
	}
	return bytesGrown * params.CostPerStateByte
}

// ---------------------------------------------------------------------------
// generators

func maskOf(levels ...int) uint32 {
	var m uint32
	for _, l := range levels {
		if l >= 0 && l < len(forkNames) {
			m |= 1 << uint(l)
		}
	}
	return m
}

const allLevels = uint32(1<<16 - 1)

// every opcode byte at the heights around what it needs; every EIP-8024 immediate around its depth
func genProbes(r *Rng, tier string, emit func(Sx)) {
	thorough := tier == "thorough"
	salt := r.Intn(1 << 20)
	for o := 0; o < 256; o++ {
		op := byte(o)
		if op >= 0xe6 && op <= 0xe8 {
			continue
		}
		_, _, need, maxBefore := opSpec(op, 0, 15, true)
		since := 0
		if info, ok := opTable[op]; ok {
			since = info.since
		}
		heights := []int{need - 1, need}
		if thorough {
			heights = append(heights, need+1, maxBefore, maxBefore+1)
		} else if (o+salt)%8 == 0 {
			heights = append(heights, maxBefore, maxBefore+1)
		}
		mask := maskOf(0, 4, 9, 11, 14, since, since-1)
		if thorough {
			mask = allLevels
		}
		for hi, h := range heights {
			if h < 0 || h > 1025 {
				continue
			}
			modes := []bool{(o+hi+salt)%2 == 0}
			if thorough {
				modes = []bool{false, true}
			}
			for _, nested := range modes {
				p := &probeSpec{op: op, height: h, nested: nested, mask: mask}
				emit(p.build(r, (o+hi)%4).sx())
			}
		}
	}
	for _, op := range []byte{0xe6, 0xe7, 0xe8} {
		for im := 0; im < 256; im++ {
			_, bad, need, _ := opSpec(op, byte(im), 15, true)
			var heights []int
			switch {
			case bad:
				heights = []int{im % 3}
			case thorough:
				heights = []int{need - 2, need - 1, need, need + 1}
			case (im+salt)%2 == 0:
				heights = []int{need - 1}
			default:
				heights = []int{need}
			}
			for _, h := range heights {
				if h < 0 {
					continue
				}
				modes := []bool{(im+salt)%4 < 2}
				if thorough {
					modes = []bool{false, true}
				}
				for _, nested := range modes {
					p := &probeSpec{op: op, imm: byte(im), height: h, nested: nested, mask: maskOf(13, 14, 15)}
					emit(p.build(r, 3).sx())
				}
			}
		}
	}
}

// call trees of depth 2..4: every level may write storage, send value to an account that does not
// exist yet, create a contract, call the next level (any call kind, with or without value), send
// value to a fresh account AFTER the child returned, and leave by STOP / RETURN / REVERT / INVALID /
// a bad jump — the shapes in which Amsterdam's state gas is charged, refilled and handed back
func genTree(r *Rng) tcase {
	origin := big.NewInt(0xee01)
	depth := 2 + r.Intn(3)
	t := tcase{kind: 0, fork: r.Intn(3), value: new(big.Int)}
	t.env = []*big.Int{origin, big.NewInt(1), big.NewInt(0xcb01), big.NewInt(1000), big.NewInt(300),
		big.NewInt(0x77), big.NewInt(1), big.NewInt(7), big.NewInt(1)}
	t.pre = []acct{{addr: origin, balance: pow2(70), nonce: uint64(r.Intn(2))}}
	fresh := 0
	valueCallFresh := func(a *asm) {
		fresh++
		a.pushU(0)
		a.pushU(0)
		a.pushU(0)
		a.pushU(0)
		a.pushU(uint64(1 + r.Intn(3)))
		a.pushU(uint64(0x5000 + fresh%6)) // sometimes the same account again: then it exists
		a.op(0x5a, 0xf1, 0x50)
	}
	for i := 0; i < depth; i++ {
		a := newAsm()
		if r.Chance(1, 2) {
			a.pushU(uint64(r.Intn(3)))
			a.pushU(uint64(r.Intn(2)))
			a.op(0x55)
		}
		if r.Chance(1, 2) {
			valueCallFresh(a)
		}
		if r.Chance(1, 4) { // CREATE of a one-byte contract
			a.op(0x7f)
			a.op(append([]byte{0x60, 0x00, 0x60, 0x00, 0x53, 0x60, 0x01, 0x60, 0x00, 0xf3}, make([]byte, 22)...)...)
			a.pushU(0)
			a.op(0x52)
			a.pushU(10)
			a.pushU(0)
			a.pushU(uint64(r.Intn(2)))
			a.op(0xf0, 0x50)
		}
		if i+1 < depth {
			kind := []byte{0xf1, 0xf1, 0xf1, 0xf2, 0xf4, 0xfa}[r.Intn(6)]
			a.pushU(0)
			a.pushU(0)
			a.pushU(0)
			a.pushU(0)
			if kind == 0xf1 || kind == 0xf2 {
				a.pushU(uint64(r.Intn(2)))
			}
			a.pushU(uint64(0x1000 + i + 1))
			if r.Chance(1, 5) {
				a.pushU(uint64(30000 + r.Intn(400000)))
			} else {
				a.op(0x5a)
			}
			a.op(kind, 0x50)
		}
		if r.Chance(1, 2) {
			valueCallFresh(a)
		}
		if r.Chance(1, 3) {
			a.pushU(uint64(r.Intn(3)))
			a.pushU(uint64(r.Intn(2)))
			a.op(0x55)
		}
		switch r.Intn(7) {
		case 0, 1:
			a.op(0x00)
		case 2:
			a.pushU(0)
			a.pushU(0)
			a.op(0xf3)
		case 3, 4:
			a.pushU(0)
			a.pushU(0)
			a.op(0xfd)
		case 5:
			a.op(0xfe)
		default:
			a.pushU(3)
			a.op(0x56)
		}
		ac := acct{addr: big.NewInt(int64(0x1000 + i)), balance: big.NewInt(100), nonce: 1, code: a.bytes()}
		if r.Chance(1, 3) {
			ac.slots = append(ac.slots, [2]*big.Int{big.NewInt(int64(r.Intn(2))), big.NewInt(1)})
		}
		t.pre = append(t.pre, ac)
	}
	if r.Chance(1, 4) {
		t.pre = append(t.pre, acct{addr: big.NewInt(0x5001), balance: big.NewInt(5)})
	}
	t.to = big.NewInt(0x1000)
	t.gas = uint64(2000000 + r.Intn(4000000))
	if r.Chance(1, 4) {
		t.gas = uint64(20000000 + r.Intn(4000000)) // above MaxTxGas: Amsterdam starts with a state reservoir
	}
	if r.Chance(1, 8) {
		t.gas = uint64(150000 + r.Intn(300000)) // state gas hardly affordable
	}
	t.data = nil
	return t
}
