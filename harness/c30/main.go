// Family c30: core/vm JUMPDEST analysis (analysis_legacy.go, contract.go
// validJumpdest/isCode, jumpdests.go) vs coq/EVM/Jumpdest.v.
package main

import (
	"fmt"
	"math/big"

	. "gethverif/harness/hxlib"
	"github.com/ethereum/go-ethereum/common"
	"github.com/ethereum/go-ethereum/core/vm"
	"github.com/ethereum/go-ethereum/crypto"
	"github.com/holiman/uint256"
)

func cp(b []byte) []byte { return append([]byte{}, b...) }

// ---- independent oracle: straightforward walk over opcode boundaries ----

// isCodeRef[i] == true iff position i is reached as an opcode when walking
// the code from position 0 (PUSH1..PUSH32 = 0x60..0x7f skip 1..32 bytes).
func isCodeRef(code []byte) []bool {
	out := make([]bool, len(code))
	for pc := 0; pc < len(code); {
		out[pc] = true
		op := code[pc]
		if op >= 0x60 && op <= 0x7f {
			pc += int(op-0x60) + 2
		} else {
			pc++
		}
	}
	return out
}

func validRef(code []byte, ref []bool, dest *big.Int) bool {
	if dest.Sign() < 0 || !dest.IsUint64() || dest.Uint64() >= uint64(len(code)) {
		return false
	}
	d := dest.Uint64()
	return code[d] == 0x5b && ref[d]
}

// ---- calling the implementation, panics mapped to an observable ----

// 1 = true, 0 = false, 2 = panic
func tri(f func() bool) (r byte) {
	defer func() {
		if recover() != nil {
			r = 2
		}
	}()
	if f() {
		return 1
	}
	return 0
}

func obBits(f func() []byte) (out Sx) {
	defer func() {
		if recover() != nil {
			out = L()
		}
	}()
	return L(B(f()))
}

func newContract(code []byte, hash common.Hash, jd vm.JumpDestCache) *vm.Contract {
	c := vm.NewContract(common.Address{}, common.Address{}, new(uint256.Int), vm.GasBudget{}, jd)
	c.SetCallCode(hash, cp(code))
	return c
}

func u256(d *big.Int) *uint256.Int {
	if d.Sign() < 0 || d.BitLen() > 256 {
		panic("hxlib: destination is not a uint256")
	}
	v, _ := uint256.FromBig(d)
	return v
}

func hashOf(v Sx) common.Hash {
	b := AsBig(v)
	if b.Sign() < 0 || b.BitLen() > 256 {
		panic("hxlib: hash is not 256 bits")
	}
	return common.BigToHash(b)
}

func vjAll(c *vm.Contract, n int) []byte {
	out := make([]byte, n)
	for p := 0; p < n; p++ {
		d := uint256.NewInt(uint64(p))
		out[p] = tri(func() bool { return vm.VerifValidJumpdest(c, d) })
	}
	return out
}

func bit(bits []byte, i int) bool {
	if i/8 >= len(bits) {
		return false
	}
	return bits[i/8]>>(i%8)&1 == 1
}

func run(c Sx) Result {
	l := AsList(c)
	res := Result{}
	var fails []string
	fail := func(f string, a ...any) {
		if len(fails) < 4 {
			fails = append(fails, fmt.Sprintf(f, a...))
		}
	}
	switch AsInt(l[0]) {
	case 0:
		code := AsBytes(l[1])
		extras := AsList(l[2])
		ref := isCodeRef(code)
		var bm []byte
		bmOb := obBits(func() []byte { bm = vm.VerifCodeBitmap(cp(code)); return bm })
		var seg []byte
		if bm == nil {
			fail("codeBitmap panicked")
		} else {
			if len(bm) != len(code)/8+5 {
				fail("bitmap length %d != len/8+5", len(bm))
			}
			for p := 0; p < 8*len(bm)+8; p++ {
				pp := uint64(p)
				s := tri(func() bool { return vm.VerifCodeSegment(bm, pp) })
				seg = append(seg, s)
				if p < len(code) {
					want := byte(0)
					if ref[p] {
						want = 1
					}
					if s != want {
						fail("codeSegment(%d)=%d, walker says %d", p, s, want)
					}
				}
			}
		}
		// one fresh contract without code hash: local analysis path
		ct := newContract(code, common.Hash{}, nil)
		vj := vjAll(ct, len(code))
		njd := 0
		for p := range code {
			want := byte(0)
			if code[p] == 0x5b && ref[p] {
				want = 1
				njd++
			}
			if vj[p] != want {
				fail("validJumpdest(%d)=%d, definition says %d", p, vj[p], want)
			}
		}
		var vjx []byte
		for _, e := range extras {
			d := AsBig(e)
			ud := u256(d)
			r := tri(func() bool { return vm.VerifValidJumpdest(ct, ud) })
			vjx = append(vjx, r)
			want := byte(0)
			if validRef(code, ref, d) {
				want = 1
			}
			if r != want {
				fail("validJumpdest(%s)=%d, definition says %d", d.Text(16), r, want)
			}
		}
		// cached path: honest Keccak code hash, one shared cache, miss then hit; must equal fresh
		h := crypto.Keccak256Hash(code)
		jd := vm.VerifNewMapJumpDests()
		for round := 0; round < 2; round++ {
			cc := newContract(code, h, jd)
			// query in reverse order the second time so the first query is not position 0
			for q := 0; q < len(code); q++ {
				p := q
				if round == 1 {
					p = len(code) - 1 - q
				}
				d := uint256.NewInt(uint64(p))
				r := tri(func() bool { return vm.VerifValidJumpdest(cc, d) })
				if r != vj[p] {
					fail("cached (round %d) validJumpdest(%d)=%d != fresh %d", round, p, r, vj[p])
				}
			}
			if _, ok := jd.Load(h); len(code) > 0 && njd > 0 && !ok {
				fail("analysis was not stored in the cache")
			}
		}
		res.Obs = L(bmOb, B(seg), B(vj), B(vjx))
		npush, ndata5b := 0, 0
		trunc := false
		for p := range code {
			if ref[p] && code[p] >= 0x60 && code[p] <= 0x7f {
				npush++
				if p+int(code[p]-0x5f) >= len(code) {
					trunc = true
				}
			}
			if !ref[p] && code[p] == 0x5b {
				ndata5b++
			}
		}
		res.Tags = append(res.Tags, "analysis", fmt.Sprintf("len<%d", bucket(len(code))))
		if trunc {
			res.Tags = append(res.Tags, "truncated-push")
		}
		if ndata5b > 0 {
			res.Tags = append(res.Tags, "jumpdest-in-data")
		}
		if njd > 0 {
			res.Tags = append(res.Tags, "valid-jumpdest")
		}
		res.NonTrivial = npush > 0 && (ndata5b > 0 || njd > 0)
	case 1:
		cs := AsList(l[1])
		jd := vm.VerifNewMapJumpDests()
		// honest = equal hashes <=> equal codes, among the non-zero hashes of this case
		honest := true
		byHash := map[common.Hash]string{}
		var obs []Sx
		type rec struct {
			code []byte
			vj   []byte
		}
		var recs []rec
		hits := 0
		for _, e := range cs {
			el := AsList(e)
			code := AsBytes(el[0])
			h := hashOf(el[1])
			if h != (common.Hash{}) {
				if prev, ok := byHash[h]; ok {
					if prev != string(code) {
						honest = false
					} else {
						hits++
					}
				}
				byHash[h] = string(code)
			}
			ct := newContract(code, h, jd)
			vj := vjAll(ct, len(code))
			obs = append(obs, B(vj))
			recs = append(recs, rec{code, vj})
		}
		if honest {
			for i, r := range recs {
				ref := isCodeRef(r.code)
				for p := range r.code {
					want := byte(0)
					if r.code[p] == 0x5b && ref[p] {
						want = 1
					}
					if r.vj[p] != want {
						fail("contract %d: cached validJumpdest(%d)=%d, fresh definition says %d", i, p, r.vj[p], want)
					}
				}
			}
			res.Tags = append(res.Tags, "cache-honest")
		} else {
			res.Tags = append(res.Tags, "cache-colliding-hash")
		}
		if hits > 0 {
			res.Tags = append(res.Tags, "cache-hit")
		}
		res.Obs = SL(obs)
		res.NonTrivial = hits > 0 && len(recs) >= 2
	case 2:
		which := AsInt(l[1])
		flag := AsU64(l[2])
		pos := AsU64(l[3])
		bits := AsBytes(l[4])
		if flag > 0xffff || pos > 1<<20 || (which != 0 && which != 1 && which != 8 && which != 16) {
			panic("hxlib: setter arguments out of range")
		}
		var after []byte
		res.Obs = obBits(func() []byte {
			w := cp(bits)
			switch which {
			case 1:
				vm.VerifSet1(w, pos)
			case 0:
				vm.VerifSetN(w, uint16(flag), pos)
			case 8:
				vm.VerifSet8(w, pos)
			default:
				vm.VerifSet16(w, pos)
			}
			after = w
			return w
		})
		// sub-property: if all bits >= pos are clear, the setter sets exactly [pos, pos+n)
		n := which
		if which == 0 {
			n = 0
			for _, m := range []uint64{3, 7, 15, 31, 63, 127} {
				if flag == m {
					n = big.NewInt(int64(m)).BitLen()
				}
			}
		}
		clear := true
		for i := int(pos); i < 8*len(bits); i++ {
			if bit(bits, i) {
				clear = false
			}
		}
		if n > 0 && clear && (int(pos)+n+7)/8 < len(bits) {
			res.Tags = append(res.Tags, "setter-pre")
			if after == nil {
				fail("setter panicked although the vector has room")
			} else {
				for i := 0; i < 8*len(bits); i++ {
					want := bit(bits, i) || (i >= int(pos) && i < int(pos)+n)
					if bit(after, i) != want {
						fail("set%d(%d): bit %d is %v", n, pos, i, bit(after, i))
					}
				}
			}
			res.NonTrivial = true
		}
		res.Tags = append(res.Tags, fmt.Sprintf("setter%d", which))
		if after == nil {
			res.Tags = append(res.Tags, "setter-panic")
		}
	case 3:
		code := AsBytes(l[1])
		bits := AsBytes(l[2])
		var after []byte
		res.Obs = obBits(func() []byte { after = vm.VerifCodeBitmapInternal(cp(code), cp(bits)); return after })
		zero := true
		for _, b := range bits {
			if b != 0 {
				zero = false
			}
		}
		if zero && len(bits) >= len(code)/8+5 {
			ref := isCodeRef(code)
			if after == nil {
				fail("codeBitmapInternal panicked on a large enough zero vector")
			} else {
				for p := range code {
					if bit(after, p) == ref[p] {
						fail("internal: bit %d = %v but walker isCode = %v", p, bit(after, p), ref[p])
					}
				}
			}
			res.NonTrivial = len(code) > 2
		}
		res.Tags = append(res.Tags, "internal")
		if after == nil {
			res.Tags = append(res.Tags, "internal-panic")
		}
	case 4:
		return runEVM(l)
	default:
		panic("hxlib: unknown case kind")
	}
	if len(fails) > 0 {
		res.Oracle = fmt.Sprint(fails)
	}
	return res
}

func bucket(n int) int {
	for _, b := range []int{1, 4, 9, 17, 33, 65, 129, 301} {
		if n < b {
			return b
		}
	}
	return 1 << 20
}

// ---- generators ----

var two64 = new(big.Int).Lsh(big.NewInt(1), 64)

func extras(r *Rng, code []byte) Sx {
	n := int64(len(code))
	out := []Sx{I(n), I(n + 1), I(n + 8), Big(new(big.Int).Sub(two64, big.NewInt(1))), Big(two64)}
	// 2^64 + p, 2^128 + p, 2^255 + p for positions p (truncation to 64 bits would accept them)
	for k := 0; k < 3 && len(code) > 0; k++ {
		p := big.NewInt(int64(r.Intn(len(code))))
		for i, c := range code { // prefer a real JUMPDEST
			if c == 0x5b && r.Chance(1, 2) {
				p = big.NewInt(int64(i))
				break
			}
		}
		sh := []uint{64, 128, 255}[k]
		out = append(out, Big(new(big.Int).Add(new(big.Int).Lsh(big.NewInt(1), sh), p)))
	}
	out = append(out, Big(new(big.Int).Sub(new(big.Int).Lsh(big.NewInt(1), 256), big.NewInt(1))))
	out = append(out, Big(new(big.Int).Lsh(big.NewInt(1), 63)))
	return SL(out)
}

func hsx(h common.Hash) Sx { return Big(h.Big()) }

// dense-PUSH random code
func randCode(r *Rng, n int) []byte {
	code := make([]byte, 0, n)
	for len(code) < n {
		switch r.Intn(10) {
		case 0, 1, 2, 3: // a PUSH, data biased to JUMPDEST / PUSH opcodes
			w := r.Range(1, 32)
			if r.Chance(1, 3) {
				w = []int{1, 7, 8, 9, 15, 16, 17, 23, 24, 25, 31, 32}[r.Intn(12)]
			}
			code = append(code, byte(0x5f+w))
			k := w
			if r.Chance(1, 4) {
				k = r.Intn(w + 1) // fewer data bytes: the following bytes are read as data anyway
			}
			for j := 0; j < k; j++ {
				switch r.Intn(4) {
				case 0:
					code = append(code, 0x5b)
				case 1:
					code = append(code, byte(0x60+r.Intn(32)))
				default:
					code = append(code, byte(r.U64()))
				}
			}
		case 4, 5, 6:
			code = append(code, 0x5b)
		case 7:
			code = append(code, byte(r.U64()))
		default:
			code = append(code, []byte{0x00, 0x01, 0x56, 0x57, 0x5f, 0x80, 0xff, 0x5a, 0x5c}[r.Intn(9)])
		}
	}
	return code[:n] // cutting here produces truncated trailing pushes
}

func gen(r *Rng, tier string, emit func(Sx)) {
	thorough := tier == "thorough"
	// 1. exhaustive small bytecodes
	alpha := []byte{0x60, 0x67, 0x68, 0x6f, 0x70, 0x7f, 0x5b, 0x00}
	maxLen := 3
	if thorough {
		maxLen = 4
	}
	var rec func(cur []byte)
	rec = func(cur []byte) {
		emit(L(I(0), B(cur), extras(r, cur)))
		if len(cur) == maxLen {
			return
		}
		for _, a := range alpha {
			rec(append(cp(cur), a))
		}
	}
	rec(nil)
	// 2. alignment sweep: j filler bytes, PUSHn, then JUMPDESTs (every width at every bit alignment),
	//    complete and truncated
	for j := 0; j < 17; j++ {
		for n := 1; n <= 32; n++ {
			code := make([]byte, j)
			for i := range code {
				code[i] = 0x5b
			}
			code = append(code, byte(0x5f+n))
			tail := n + 3
			if (j+n)%3 == 0 {
				tail = r.Intn(n + 1) // truncated
			}
			for i := 0; i < tail; i++ {
				code = append(code, 0x5b)
			}
			emit(L(I(0), B(code), extras(r, code)))
		}
	}
	// 3. random
	n := 1200
	if thorough {
		n = 40000
	}
	for i := 0; i < n; i++ {
		switch r.Intn(12) {
		case 0, 1, 2, 3, 4: // dense-PUSH code up to 300 bytes
			ln := r.Intn(40)
			if r.Chance(1, 3) {
				ln = r.Intn(301)
			}
			code := randCode(r, ln)
			emit(L(I(0), B(code), extras(r, code)))
		case 5: // arbitrary bytes
			code := r.Bytes(r.Intn(64))
			emit(L(I(0), B(code), extras(r, code)))
		case 6, 7: // shared cache, honest hashes, repeated codes
			k := r.Range(2, 5)
			pool := [][]byte{randCode(r, r.Intn(80)), randCode(r, r.Intn(80)), randCode(r, r.Intn(300))}
			var cs []Sx
			for j := 0; j < k; j++ {
				code := pool[r.Intn(len(pool))]
				h := crypto.Keccak256Hash(code)
				if r.Chance(1, 6) {
					h = common.Hash{} // initcode: no hash, never cached
				}
				cs = append(cs, L(B(code), hsx(h)))
			}
			emit(L(I(1), SL(cs)))
		case 8: // adversarial: different codes under one hash (stale / too short analysis from the cache)
			k := r.Range(2, 4)
			h := common.BigToHash(big.NewInt(int64(r.Range(1, 3))))
			var cs []Sx
			for j := 0; j < k; j++ {
				code := randCode(r, r.Intn(120))
				hh := h
				if r.Chance(1, 4) {
					hh = common.BigToHash(big.NewInt(int64(r.Range(0, 3))))
				}
				cs = append(cs, L(B(code), hsx(hh)))
			}
			emit(L(I(1), SL(cs)))
		case 9, 10: // one setter on a given vector
			ln := r.Range(1, 7)
			pos := r.Intn(8*ln + 9)
			pre := r.Chance(1, 2)
			if pre && r.Chance(3, 4) { // leave room for the widest setter
				ln = r.Range(3, 8)
				pos = r.Intn(8*ln - 15)
			}
			bits := make([]byte, ln)
			if pre { // junk below pos only (the precondition of the analysis), else junk everywhere
				for b := 0; b < pos && b < 8*ln; b++ {
					if r.Bool() {
						bits[b/8] |= 1 << (b % 8)
					}
				}
			} else {
				bits = r.Bytes(ln)
			}
			which := []int64{1, 0, 0, 8, 16}[r.Intn(5)]
			flag := int64([]int{3, 7, 15, 31, 63, 127}[r.Intn(6)])
			if r.Chance(1, 8) {
				flag = int64(r.Intn(65536))
			}
			emit(L(I(2), I(which), I(flag), I(int64(pos)), B(bits)))
		default: // codeBitmapInternal on a given vector: right size, too short, junk
			code := randCode(r, r.Intn(60))
			sz := len(code)/8 + 5
			var bits []byte
			switch r.Intn(4) {
			case 0:
				bits = make([]byte, r.Intn(sz+1))
			case 1:
				bits = r.Bytes(sz)
			default:
				bits = make([]byte, sz+r.Intn(3))
			}
			emit(L(I(3), B(code), B(bits)))
		}
	}
	// 4. EVM-level histories: real calls sharing one jumpdest cache, code changing between calls
	genEVM(r, tier, emit)
}

func main() {
	Main(Family{
		ID:   "C30",
		Rule: "kind 0: every bytecode of length <= 3 (quick) / <= 4 (thorough) over {PUSH1,PUSH8,PUSH9,PUSH16,PUSH17,PUSH32,JUMPDEST,STOP}; an alignment sweep (0..16 JUMPDEST filler bytes, then PUSHn for every n=1..32, then JUMPDEST data, one third truncated); random dense-PUSH code up to 300 bytes cut at a random point (truncated trailing pushes) and arbitrary bytes; observed: raw bitmap, codeSegment at every bit position of the vector (+8 out of range), validJumpdest at every position of one synthetic Contract plus out-of-range and >= 2^64 destinations; the oracle additionally runs the Keccak-hashed cached path (miss, then hit) against the fresh one. kind 1: 2-5 contracts sharing one jumpdest cache, honest Keccak hashes with repeated codes, or (adversarial) different codes under one hash. kind 2: one BitVec setter on a given vector (junk only below pos, or junk everywhere; arbitrary 16-bit flags). kind 3: codeBitmapInternal on a given vector (right size / too short -> panic / junk). Non-trivial: kind 0 with at least one PUSH opcode and a JUMPDEST inside push data or a valid JUMPDEST; kind 1 with a cache hit; kind 2 when the clear-above-pos precondition holds and the vector has room; kind 3 on a large-enough zero vector with more than 2 code bytes. kind 4 (EVM level): histories of StateDB.SetCode at plain and EIP-7702 delegating addresses, Call/CallCode/DelegateCall/StaticCall and Create/Create2 through vm.EVM (Prague+ rules, 1/6 pre-Prague), one brand-new EVM per call but ONE jumpdest cache (vm map or core.NewJumpDestCache) shared by the whole history; contracts are generated jump programs (PUSH target; JUMP/JUMPI) whose targets are valid JUMPDESTs, 0x5b bytes inside PUSH data, junk or >= 2^64, and mutants of the installed program (a PUSH width changed / a JUMPDEST flipped) re-installed at the same address, half of the histories following the template 'D delegates to P; call D; P's code changes; call D'; observed: per call the outcome class (ok / ErrInvalidJump / panic / underflow / other) and the CodeHash of the executing frame; oracles: outcome = definition-based interpreter on the code that must execute, every frame's CodeHash is zero or Keccak(frame code), every cache entry stored or handed out equals the fresh analysis of the code its key is the hash of. Non-trivial kind 4: a call whose executed code differs from that of an earlier call to the same address and which evaluates a jump. distinct = distinct case line.",
		Gen:  gen,
		Run:  run,
	})
}
