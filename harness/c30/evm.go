// Family c30, EVM-level stream (case kind 4): real calls through vm.EVM with ONE
// jumpdest cache shared by all calls of a case and code at addresses changing
// between calls.  See coq/EVM/JumpdestCalls.v for the model.
package main

import (
	"bytes"
	"errors"
	"fmt"
	"math/big"
	"sync"

	. "gethverif/harness/hxlib"
	"github.com/ethereum/go-ethereum/common"
	"github.com/ethereum/go-ethereum/core"
	"github.com/ethereum/go-ethereum/core/state"
	"github.com/ethereum/go-ethereum/core/tracing"
	"github.com/ethereum/go-ethereum/core/types"
	"github.com/ethereum/go-ethereum/core/vm"
	vmrt "github.com/ethereum/go-ethereum/core/vm/runtime"
	"github.com/ethereum/go-ethereum/crypto"
	"github.com/ethereum/go-ethereum/params"
	"github.com/holiman/uint256"
)

// ---- definition-based reference interpreter for jump programs ----

const (
	oStop = iota
	oInvalidJump
	oPanic
	oUnderflow
	oOther
	oFuel
)

func frameFuel(code []byte) int { return 2*len(code) + 8 }

// refExec runs the subset {STOP, JUMPDEST, PUSH0, PUSH1..32, JUMP, JUMPI}; a jump is
// valid iff its destination is in range, holds 0x5b and is an opcode position of the
// walk from 0 (isCodeRef).  jumps = number of JUMP/taken JUMPI evaluated.
func refExec(code []byte) (outcome int, jumps int) { return refExecWith(code, isCodeRef(code)) }

// refExecWith decides jumps with the given opcode-position map (the code's own map for
// the definition; the map of ANOTHER code to predict what a stale analysis would do —
// used by the generator only, to pick code changes a stale cache entry gets wrong).
func refExecWith(code []byte, ref []bool) (outcome int, jumps int) {
	o, tr := refExecTrace(code, ref)
	return o, len(tr)
}

type jumpRec struct {
	site   int // pc of the JUMP/JUMPI
	target *big.Int
}

func refExecTrace(code []byte, ref []bool) (outcome int, trace []jumpRec) {
	jumps := 0
	defer func() { _ = jumps }()
	var stack []*big.Int
	pc := 0
	for fuel := frameFuel(code); fuel > 0; fuel-- {
		op := byte(0)
		if pc < len(code) {
			op = code[pc]
		}
		jump := func(pos *big.Int) bool {
			jumps++
			trace = append(trace, jumpRec{pc, pos})
			if pos.IsUint64() && pos.Uint64() < uint64(len(code)) && pos.Uint64() >= uint64(len(ref)) {
				return false // a stale, shorter map: the implementation would index out of range
			}
			if !validRef(code, ref, pos) {
				return false
			}
			pc = int(pos.Uint64())
			return true
		}
		switch {
		case op == 0x00:
			return oStop, trace
		case op == 0x5b:
			pc++
		case op == 0x5f || (op >= 0x60 && op <= 0x7f):
			if len(stack) > 1023 {
				return oOther, trace
			}
			n := int(op) - 0x5f
			start := min(len(code), pc+1)
			end := min(len(code), start+n)
			v := new(big.Int).SetBytes(code[start:end])
			v.Lsh(v, uint(8*(n-(end-start))))
			stack = append(stack, v)
			pc += 1 + n
		case op == 0x56:
			if len(stack) < 1 {
				return oUnderflow, trace
			}
			pos := stack[len(stack)-1]
			stack = stack[:len(stack)-1]
			if !jump(pos) {
				return oInvalidJump, trace
			}
		case op == 0x57:
			if len(stack) < 2 {
				return oUnderflow, trace
			}
			pos, cond := stack[len(stack)-1], stack[len(stack)-2]
			stack = stack[:len(stack)-2]
			if cond.Sign() == 0 {
				pc++
			} else if !jump(pos) {
				return oInvalidJump, trace
			}
		default:
			return oOther, trace
		}
	}
	return oFuel, trace
}

func errOutcome(err error) int {
	var su *vm.ErrStackUnderflow
	switch {
	case err == nil:
		return oStop
	case errors.Is(err, vm.ErrInvalidJump):
		return oInvalidJump
	case errors.As(err, &su):
		return oUnderflow
	case errors.Is(err, vm.ErrOutOfGas):
		return oFuel
	}
	return oOther
}

// ---- recording cache: every entry that goes in or comes out ----

type cacheEntry struct {
	h   common.Hash
	vec []byte
	hit bool
}

type recCache struct {
	inner vm.JumpDestCache
	log   []cacheEntry
}

func (c *recCache) Load(h common.Hash) (vm.BitVec, bool) {
	v, ok := c.inner.Load(h)
	if ok {
		c.log = append(c.log, cacheEntry{h, cp(v), true})
	}
	return v, ok
}

func (c *recCache) Store(h common.Hash, v vm.BitVec) {
	c.log = append(c.log, cacheEntry{h, cp(v), false})
	c.inner.Store(h, v)
}

// ---- the world of one case ----

var backingDB = sync.OnceValue(func() state.Database { return state.NewDatabaseForTesting() })

var prePrague = sync.OnceValue(func() *params.ChainConfig {
	c := *params.MergedTestChainConfig
	c.PragueTime, c.OsakaTime = nil, nil
	return &c
})

var senderAddr = common.HexToAddress("0x00000000000000000000000000000000000f00d5")

func parseDelegationRef(code []byte) (common.Address, bool) {
	if len(code) == 23 && code[0] == 0xef && code[1] == 0x01 && code[2] == 0x00 {
		return common.BytesToAddress(code[3:]), true
	}
	return common.Address{}, false
}

type frameObs struct {
	code []byte
	hash common.Hash
}

func addrOf(v Sx) common.Address {
	b := AsBig(v)
	if b.Sign() < 0 || b.BitLen() > 160 {
		panic("hxlib: address is not 160 bits")
	}
	return common.BigToAddress(b)
}

func runEVM(l SL) Result {
	res := Result{}
	var fails []string
	fail := func(f string, a ...any) {
		if len(fails) < 4 {
			fails = append(fails, fmt.Sprintf(f, a...))
		}
	}
	prague := AsBool(l[1])
	cacheKind := AsInt(l[2])
	ops := AsList(l[3])

	chain := params.MergedTestChainConfig
	if !prague {
		chain = prePrague()
	}
	db, _ := state.New(types.EmptyRootHash, backingDB())
	rc := &recCache{}
	if cacheKind == 1 {
		rc.inner = core.NewJumpDestCache() // what BlockChain shares across blocks
	} else {
		rc.inner = vm.VerifNewMapJumpDests()
	}
	mirror := map[common.Address][]byte{}   // our own view of the code at each address
	known := map[common.Hash][]byte{}       // every code in play, by its Keccak hash
	lastExec := map[common.Address]string{} // executed code of the previous call to an address
	know := func(code []byte) { known[crypto.Keccak256Hash(code)] = cp(code) }
	know(nil)

	var obs []Sx
	tagset := map[string]bool{"evm": true}
	if !prague {
		tagset["evm-preprague"] = true
	}

	for i, e := range ops {
		o := AsList(e)
		switch AsInt(o[0]) {
		case 0: // SetCode
			addr, code := addrOf(o[1]), AsBytes(o[2])
			if hashOf(o[3]) != crypto.Keccak256Hash(code) {
				panic("hxlib: the hash given with a SetCode op is not the Keccak hash of its code")
			}
			db.SetCode(addr, cp(code), tracing.CodeChangeUnspecified)
			mirror[addr] = cp(code)
			know(code)
			continue
		case 1, 2:
		default:
			panic("hxlib: unknown evm op")
		}
		// a call or a creation: one transaction with a brand-new EVM sharing the cache
		var (
			frames []frameObs
			last   *vm.Contract
		)
		hooks := &tracing.Hooks{
			OnOpcode: func(pc uint64, op byte, gas, cost uint64, scope tracing.OpContext, rData []byte, depth int, err error) {
				sc, ok := scope.(*vm.ScopeContext)
				if !ok || sc.Contract == last {
					return
				}
				last = sc.Contract
				frames = append(frames, frameObs{cp(sc.Contract.Code), sc.Contract.CodeHash})
			},
		}
		cfg := &vmrt.Config{
			ChainConfig: chain, GasLimit: 5_000_000, State: db, Origin: senderAddr,
			Difficulty: new(big.Int), GasPrice: new(big.Int), Value: new(big.Int), BlockNumber: big.NewInt(1), Time: 1,
			BaseFee: big.NewInt(params.InitialBaseFee), BlobBaseFee: big.NewInt(params.BlobTxMinBlobGasprice), Random: new(common.Hash),
			GetHashFn: func(n uint64) common.Hash { return common.Hash{} },
			EVMConfig: vm.Config{Tracer: hooks},
		}
		rules := chain.Rules(cfg.BlockNumber, true, cfg.Time)
		if rules.IsPrague != prague {
			panic("hxlib: chain config does not give the requested rules")
		}
		env := vmrt.NewEnv(cfg)
		env.SetJumpDestCache(rc)
		logStart := len(rc.log)
		gas := vm.NewGasBudget(5_000_000, 0)

		var (
			executed []byte // the code this op must execute, by the definition
			outcome  int
			target   common.Address
			isCall   bool
		)
		call := func(f func() error) {
			defer func() {
				if recover() != nil {
					outcome = oPanic
				}
			}()
			outcome = errOutcome(f())
		}
		if AsInt(o[0]) == 1 {
			kind := AsInt(o[1])
			target, isCall = addrOf(o[2]), true
			executed = mirror[target]
			if prague {
				if t, ok := parseDelegationRef(executed); ok {
					executed = mirror[t]
					tagset["evm-delegated-call"] = true
				}
			}
			db.Prepare(rules, senderAddr, cfg.Coinbase, &target, vm.ActivePrecompiles(rules), nil)
			zero := new(uint256.Int)
			switch kind {
			case 0:
				call(func() error { _, _, err := env.Call(senderAddr, target, nil, gas, zero); return err })
			case 1:
				call(func() error { _, _, err := env.CallCode(senderAddr, target, nil, gas, zero); return err })
			case 2:
				call(func() error {
					_, _, err := env.DelegateCall(senderAddr, senderAddr, target, nil, gas, zero)
					return err
				})
			case 3:
				call(func() error { _, _, err := env.StaticCall(senderAddr, target, nil, gas); return err })
			default:
				panic("hxlib: unknown call kind")
			}
			tagset[fmt.Sprintf("evm-call%d", kind)] = true
		} else {
			executed = AsBytes(o[1])
			know(executed)
			db.Prepare(rules, senderAddr, cfg.Coinbase, nil, vm.ActivePrecompiles(rules), nil)
			zero := new(uint256.Int)
			if i%2 == 0 {
				call(func() error { _, _, _, err := env.Create(senderAddr, cp(executed), gas, zero); return err })
			} else {
				salt := uint256.NewInt(uint64(i))
				call(func() error { _, _, _, err := env.Create2(senderAddr, cp(executed), gas, zero, salt); return err })
			}
			tagset["evm-create"] = true
		}

		// --- direct oracles ---
		want, jumps := refExec(executed)
		if outcome != want {
			fail("op %d: outcome %d, the definition on the executed code %x says %d", i, outcome, executed, want)
		}
		if len(frames) > 1 {
			fail("op %d: %d frames executed code, jump programs make no calls", i, len(frames))
		}
		for _, f := range frames {
			know(f.code)
			// the pairing obligation: zero hash (never cached) or the hash of exactly this code
			if f.hash != (common.Hash{}) && f.hash != crypto.Keccak256Hash(f.code) {
				fail("op %d: frame runs code %x with CodeHash %x which is not its Keccak hash", i, f.code, f.hash[:6])
			}
			if !bytes.Equal(f.code, executed) {
				fail("op %d: frame runs code %x, expected %x", i, f.code, executed)
			}
		}
		// the cache invariant: every entry stored or handed out is the analysis of the code its key identifies
		for _, ce := range rc.log[logStart:] {
			code, ok := known[ce.h]
			if !ok {
				fail("op %d: cache entry under %x which is the hash of no code in play", i, ce.h[:6])
				continue
			}
			if fresh := vm.VerifCodeBitmap(cp(code)); !bytes.Equal(fresh, ce.vec) {
				fail("op %d: cache entry under %x (code %x) is %x, fresh analysis is %x", i, ce.h[:6], code, ce.vec, fresh)
			}
			if ce.hit {
				tagset["evm-cache-hit"] = true
			}
		}
		fr := L()
		if len(frames) > 0 {
			fr = L(Big(frames[0].hash.Big()))
		}
		obs = append(obs, L(I(int64(outcome)), fr))
		if want == oInvalidJump {
			tagset["evm-invalid-jump"] = true
		}
		if isCall {
			if prev, ok := lastExec[target]; ok && prev != string(executed) && jumps > 0 {
				tagset["evm-code-changed-between-calls"] = true
				res.NonTrivial = true
			}
			lastExec[target] = string(executed)
		}
	}
	res.Obs = SL(obs)
	for t := range tagset {
		res.Tags = append(res.Tags, t)
	}
	if len(fails) > 0 {
		res.Oracle = fmt.Sprint(fails)
	}
	return res
}

// ---- generators ----

// bytes used as PUSH data: only opcodes of the subset, so that any re-alignment of the
// code still decodes to a jump program
var dataAlphabet = []byte{0x5b, 0x5b, 0x5b, 0x00, 0x56, 0x57, 0x5f, 0x60, 0x61, 0x62, 0x67, 0x6f, 0x7f, 0x5b}

// genProg lays out blocks that start with a JUMPDEST and end in STOP / JUMP / JUMPI /
// fall-through; jump targets are valid JUMPDESTs further on, 0x5b bytes inside PUSH
// data, or junk (not 0x5b, out of range, >= 2^64).
func genProg(r *Rng) []byte {
	for try := 0; ; try++ {
		var code []byte
		type fix struct{ at, site int }
		var fixes []fix
		k := r.Range(1, 6)
		for b := 0; b < k; b++ {
			if b > 0 || r.Chance(1, 3) {
				code = append(code, 0x5b)
			}
			for j := r.Intn(3); j > 0; j-- { // pushes whose data contains 0x5b
				w := r.Range(1, 32)
				if r.Chance(1, 2) {
					w = []int{1, 2, 3, 8, 9, 16, 17, 32}[r.Intn(8)]
				}
				code = append(code, byte(0x5f+w))
				for x := 0; x < w; x++ {
					code = append(code, dataAlphabet[r.Intn(len(dataAlphabet))])
				}
			}
			pushTarget := func() {
				if r.Chance(1, 12) { // 2^64 + target: truncation to 64 bits would accept it
					code = append(code, 0x68, 0x01, 0, 0, 0, 0, 0, 0)
				} else {
					code = append(code, 0x61)
				}
				fixes = append(fixes, fix{len(code), len(code)})
				code = append(code, 0, 0)
			}
			switch r.Intn(7) {
			case 0:
				code = append(code, 0x00)
			case 1, 2, 3:
				pushTarget()
				code = append(code, 0x56)
			case 4, 5:
				code = append(code, 0x60, byte(r.Intn(2)))
				pushTarget()
				code = append(code, 0x57)
			}
		}
		if r.Chance(1, 2) {
			code = append(code, 0x00)
		}
		ref := isCodeRef(code)
		var data5b []int
		for p, c := range code {
			if c == 0x5b && !ref[p] {
				data5b = append(data5b, p)
			}
		}
		for _, f := range fixes {
			var fwd []int
			for p := f.site; p < len(code); p++ {
				if code[p] == 0x5b && ref[p] {
					fwd = append(fwd, p)
				}
			}
			t := 0
			switch c := r.Intn(20); {
			case c < 11 && len(fwd) > 0:
				t = fwd[r.Intn(len(fwd))]
			case c < 17 && len(data5b) > 0:
				t = data5b[r.Intn(len(data5b))]
			case c < 18:
				t = len(code) + r.Intn(3)
			default:
				t = r.Intn(len(code) + 1)
				if t < len(code) && code[t] == 0x5b && ref[t] && t < f.site {
					t = f.site // no backward valid jumps: programs must terminate
				}
			}
			code[f.at], code[f.at+1] = byte(t>>8), byte(t)
		}
		o, _ := refExec(code)
		if (o == oStop || o == oInvalidJump || o == oUnderflow) && len(code) <= 300 {
			return code
		}
		if try > 50 {
			return []byte{0x00}
		}
	}
}

// mutateProg returns a code of the same length in which opcode boundaries moved (a PUSH
// width changed) or a byte flipped between JUMPDEST and something else, and which is
// still a terminating jump program.
func mutateProg(r *Rng, code []byte) []byte {
	if len(code) == 0 {
		return genProg(r)
	}
	oldRef := isCodeRef(code)
	wantSensitive := r.Chance(4, 5)
	var fallback []byte
	okOutcome := func(o int) bool { return o == oStop || o == oInvalidJump || o == oUnderflow }
	if wantSensitive {
		// directed: flip the code/data status of a destination the program actually jumps to,
		// by touching only bytes that lie after the jump site
		_, tr := refExecTrace(code, oldRef)
		for _, k := range perm(r, len(tr)) {
			j := tr[k]
			if !j.target.IsUint64() || j.target.Uint64() >= uint64(len(code)) {
				continue
			}
			t := int(j.target.Uint64())
			if code[t] != 0x5b || t-1 <= j.site {
				continue
			}
			y := cp(code)
			q := t - 1 // the opcode whose immediate data ends at (or the one-byte opcode at) t-1
			for !oldRef[q] {
				q--
			}
			if q <= j.site {
				continue
			}
			if oldRef[t] { // a valid destination: swallow it into PUSH data
				if q == t-1 && !(code[q] >= 0x60 && code[q] <= 0x7f) {
					y[q] = 0x60
				} else if code[q] >= 0x60 && code[q] < 0x7f {
					y[q] = code[q] + 1
				} else {
					continue
				}
			} else { // a 0x5b inside PUSH data: end the data right before it
				w := t - q - 1
				if w < 1 {
					y[q] = 0x5b
				} else {
					y[q] = byte(0x5f + w)
				}
			}
			o, _ := refExec(y)
			if stale, _ := refExecWith(y, oldRef); okOutcome(o) && stale != o {
				return y
			}
		}
	}
	for try := 0; try < 150; try++ {
		y := cp(code)
		ref := isCodeRef(y)
		var pushes []int
		for p, c := range y {
			if ref[p] && c >= 0x60 && c <= 0x7f {
				pushes = append(pushes, p)
			}
		}
		if len(pushes) > 0 && r.Chance(1, 2) {
			p := pushes[r.Intn(len(pushes))]
			w := int(y[p]) - 0x5f + []int{-2, -1, 1, 1, 2}[r.Intn(5)]
			if w < 1 || w > 32 {
				continue
			}
			y[p] = byte(0x5f + w)
		} else {
			p := r.Intn(len(y))
			y[p] = []byte{0x5b, 0x5b, 0x00, 0x60, 0x61, 0x62, 0x5f}[r.Intn(7)]
		}
		if bytes.Equal(y, code) {
			continue
		}
		o, _ := refExec(y)
		if o != oStop && o != oInvalidJump && o != oUnderflow {
			continue
		}
		if stale, _ := refExecWith(y, oldRef); stale != o || !wantSensitive {
			return y // the analysis of the old code gives a different answer on the new code
		}
		if fallback == nil {
			fallback = y
		}
	}
	if fallback != nil {
		return fallback
	}
	return genProg(r)
}

func perm(r *Rng, n int) []int {
	p := make([]int, n)
	for i := range p {
		p[i] = i
	}
	for i := n - 1; i > 0; i-- {
		j := r.Intn(i + 1)
		p[i], p[j] = p[j], p[i]
	}
	return p
}

func setCodeOp(addr int64, code []byte) Sx {
	return L(I(0), I(addr), B(code), hsx(crypto.Keccak256Hash(code)))
}

func designator(addr int64) []byte {
	return types.AddressToDelegation(common.BigToAddress(big.NewInt(addr)))
}

func genEVM(r *Rng, tier string, emit func(Sx)) {
	n := 500
	if tier == "thorough" {
		n = 12000
	}
	plain := []int64{0x1000, 0x1001, 0x1002}
	deleg := []int64{0x2000, 0x2001}
	all := append(append([]int64{}, plain...), append(deleg, 0x3000)...)
	for i := 0; i < n; i++ {
		prague := !r.Chance(1, 6)
		cur := map[int64][]byte{}
		var ops []Sx
		install := func(a int64, code []byte) {
			cur[a] = code
			ops = append(ops, setCodeOp(a, code))
		}
		callOp := func(a int64) { ops = append(ops, L(I(1), I(int64(r.Intn(4))), I(a))) }
		if r.Chance(1, 2) {
			// the delegation template: D -> P; call D; P's code changes; call D again
			p, d := plain[r.Intn(len(plain))], deleg[r.Intn(len(deleg))]
			x := genProg(r)
			for t := 0; t < 40; t++ { // prefer a program that takes a valid jump and, half the time, ends in STOP
				xr := isCodeRef(x)
				xo, tr := refExecTrace(x, xr)
				taken := xo == oStop || t%2 == 1
				if !taken {
					x = genProg(r)
					continue
				}
				taken = false
				for _, j := range tr {
					taken = taken || validRef(x, xr, j.target)
				}
				if taken {
					break
				}
				x = genProg(r)
			}
			install(p, x)
			install(d, designator(p))
			if r.Chance(4, 5) {
				callOp(d)
			}
			if r.Chance(1, 3) {
				callOp(p)
			}
			install(p, mutateProg(r, cur[p]))
			callOp(d)
			if r.Chance(1, 2) {
				callOp(p)
			}
		}
		for k := r.Range(2, 9); k > 0; k-- {
			switch r.Intn(10) {
			case 0, 1: // new or mutated program at a plain address
				p := plain[r.Intn(len(plain))]
				if c, ok := cur[p]; ok && len(c) > 0 && r.Chance(2, 3) {
					install(p, mutateProg(r, c))
				} else {
					install(p, genProg(r))
				}
			case 2: // (re)point a delegating account: plain, another delegator, or nothing
				d := deleg[r.Intn(len(deleg))]
				install(d, designator(all[r.Intn(len(all))]))
			case 3:
				if r.Chance(1, 3) {
					install(all[r.Intn(len(all))], nil) // code removed
				} else { // the same program at a second address: a legitimate cache hit
					p, q := plain[r.Intn(len(plain))], plain[r.Intn(len(plain))]
					if c, ok := cur[p]; ok {
						install(q, c)
					}
				}
			case 4:
				ops = append(ops, L(I(2), B(genProg(r))))
			default:
				callOp(all[r.Intn(len(all))])
			}
		}
		emit(L(I(4), Bool(prague), I(int64(r.Intn(2))), SL(ops)))
	}
}
