// Family c50: event.Feed / event.FeedOf[int] (event/feed.go, feedof.go) vs coq/Event/Feed.v.
//
//	kind 0: the pure caseList functions find/delete/deactivate (via event/verif_export_c50.go)
//	        on lists of ints, compared exactly with the Coq functions;
//	kind 1: a history recorded (at generation time) from the real feed under concurrent
//	        senders/subscribers/unsubscribers; the Coq model checks it as an acceptor, the
//	        expected observation is "all six verdict bits set"; Run re-executes the same
//	        configuration on the current tree and applies the direct Go oracle to the fresh history;
//	kind 2: a recorded history with a deliberate corruption; the Go acceptor's verdict bits
//	        are compared with the Coq acceptor's (both must reject the same clauses).
package main

import (
	"fmt"
	"reflect"
	"runtime"
	"sync"
	"sync/atomic"
	"time"

	"github.com/ethereum/go-ethereum/event"
	. "gethverif/harness/hxlib"
)

// ---------------------------------------------------------------------------
// kind 0: caseList on ints

const poolSize = 16

var chanPool = func() []chan int {
	p := make([]chan int, poolSize)
	for i := range p {
		p[i] = make(chan int, 1)
	}
	return p
}()

func mkCases(xs []int) []reflect.SelectCase {
	cs := make([]reflect.SelectCase, len(xs))
	for i, x := range xs {
		cs[i] = reflect.SelectCase{Dir: reflect.SelectSend, Chan: reflect.ValueOf(chanPool[x])}
	}
	return cs
}

func caseInts(cs []reflect.SelectCase) Sx {
	out := SL{}
	for _, c := range cs {
		ch := c.Chan.Interface()
		idx := -1
		for i, p := range chanPool {
			if ch == interface{}(p) {
				idx = i
			}
		}
		out = append(out, I(int64(idx)))
	}
	return out
}

func intsOf(v Sx) []int {
	l := AsList(v)
	out := make([]int, len(l))
	for i, x := range l {
		out[i] = AsInt(x)
		if out[i] < 0 || out[i] >= poolSize {
			panic("hxlib: caseList element out of pool range")
		}
	}
	return out
}

func catch(f func()) (ok bool) {
	defer func() {
		if recover() != nil {
			ok = false
		}
	}()
	f()
	return true
}

func runPure(l SL) Result {
	op := AsInt(l[1])
	xs := intsOf(l[2])
	x := AsInt(l[3])
	res := Result{Tags: []string{fmt.Sprintf("pure-op%d", op), fmt.Sprintf("len%d", len(xs))}}
	var fails []string
	switch op {
	case 0: // find
		var idx int
		if x < 0 || x >= poolSize {
			panic("hxlib: find argument out of pool range")
		}
		idx = event.VerifCaseListFind(mkCases(xs), chanPool[x])
		res.Obs = I(int64(idx))
		// oracle: first index holding x, -1 if absent
		want := -1
		for i, y := range xs {
			if y == x {
				want = i
				break
			}
		}
		if idx != want {
			fails = append(fails, fmt.Sprintf("find=%d want %d", idx, want))
		}
		res.NonTrivial = len(xs) >= 2
	case 1: // delete
		var out []reflect.SelectCase
		ok := catch(func() { out = event.VerifCaseListDelete(mkCases(xs), x) })
		if !ok {
			res.Obs = L()
			res.Tags = append(res.Tags, "panic")
			if x >= 0 && x < len(xs) {
				fails = append(fails, "delete panicked on a valid index")
			}
		} else {
			res.Obs = L(caseInts(out))
			if x < 0 || x >= len(xs) {
				fails = append(fails, "delete did not panic on an invalid index")
			} else {
				want := append(append([]int{}, xs[:x]...), xs[x+1:]...)
				if String(caseInts(out)) != String(caseInts(mkCases(want))) {
					fails = append(fails, "delete result is not the list without element index")
				}
			}
		}
		res.NonTrivial = len(xs) >= 2 && ok
	case 2: // deactivate
		cs := mkCases(xs)
		var out []reflect.SelectCase
		ok := catch(func() { out = event.VerifCaseListDeactivate(cs, x) })
		if !ok {
			res.Obs = L()
			res.Tags = append(res.Tags, "panic")
			if x >= 0 && x < len(xs) {
				fails = append(fails, "deactivate panicked on a valid index")
			}
		} else {
			res.Obs = L(L(caseInts(out), caseInts(cs)))
			if x < 0 || x >= len(xs) {
				fails = append(fails, "deactivate did not panic on an invalid index")
			} else {
				// oracle: result ++ [xs[x]] is the backing array, a permutation of xs; |result| = n-1
				after := intsOf(caseInts(cs))
				res1 := intsOf(caseInts(out))
				if len(res1) != len(xs)-1 || after[len(xs)-1] != xs[x] {
					fails = append(fails, "deactivated case is not at the end / wrong length")
				}
				cnt := map[int]int{}
				for _, y := range xs {
					cnt[y]++
				}
				for _, y := range after {
					cnt[y]--
				}
				for _, c := range cnt {
					if c != 0 {
						fails = append(fails, "deactivate lost or duplicated a case")
						break
					}
				}
				for i := range res1 {
					if res1[i] != after[i] {
						fails = append(fails, "returned slice is not a prefix of the backing array")
						break
					}
				}
			}
		}
		res.NonTrivial = len(xs) >= 2 && ok
	default:
		panic("hxlib: unknown caseList op")
	}
	if len(fails) > 0 {
		res.Oracle = fmt.Sprint(fails)
	}
	return res
}

// ---------------------------------------------------------------------------
// concurrent runs of the real feed

const (
	evSubInv = iota
	evSubRet
	evSendInv
	evSendRet
	evUnsubInv
	evUnsubRet
	evRecv
)

type ev struct{ tag, a, b, c int }

type recorder struct {
	mu  sync.Mutex
	evs []ev
}

func (r *recorder) add(e ev) {
	r.mu.Lock()
	r.evs = append(r.evs, e)
	r.mu.Unlock()
}

type feedAPI interface {
	Subscribe(ch chan int) event.Subscription
	Send(v int) int
}

type reflFeed struct{ f event.Feed }

func (f *reflFeed) Subscribe(ch chan int) event.Subscription { return f.f.Subscribe(ch) }
func (f *reflFeed) Send(v int) int                           { return f.f.Send(v) }

type genFeed struct{ f event.FeedOf[int] }

func (f *genFeed) Subscribe(ch chan int) event.Subscription { return f.f.Subscribe(ch) }
func (f *genFeed) Send(v int) int                           { return f.f.Send(v) }

func perturb(r *Rng) {
	switch r.Intn(8) {
	case 0, 1, 2:
	case 3, 4:
		runtime.Gosched()
	case 5:
		for i := r.Intn(4); i >= 0; i-- {
			runtime.Gosched()
		}
	case 6:
		time.Sleep(time.Duration(1+r.Intn(20)) * time.Microsecond)
	case 7:
		time.Sleep(time.Duration(1+r.Intn(150)) * time.Microsecond)
	}
}

type cfg struct {
	variant  int // 0 = Feed, 1 = FeedOf[int]
	seed     uint64
	nSenders int
	sendsPer int
	nSubs    int
}

type runInfo struct {
	panicMsg   string
	timeout    bool
	rendezvous bool
	lateSub    bool
	asyncUnsub bool
	nUnsub     int
}

// 20 s is far beyond any correct run (milliseconds); once one scenario has hung in this
// process the tree is already known to be broken and later scenarios wait 2 s only.
var sawTimeout atomic.Bool

func watchdog() time.Duration {
	if sawTimeout.Load() {
		return 2 * time.Second
	}
	return 20 * time.Second
}

// runFeed executes one concurrent scenario on the real implementation and returns the
// globally ordered log. All scenario choices derive from c.seed; the schedule itself is
// up to the Go runtime (perturbed by seeded yields/sleeps).
func runFeed(c cfg) ([]ev, runInfo) {
	root := NewRng(c.seed)
	var feed feedAPI
	if c.variant == 0 {
		feed = &reflFeed{}
	} else {
		feed = &genFeed{}
	}
	rec := &recorder{}
	info := runInfo{}
	done := make(chan struct{})
	var sendWG, subWG sync.WaitGroup
	start := make(chan struct{})
	// a panic inside the implementation (on any goroutine) is recorded, not fatal
	panicCh := make(chan string, 64)
	guard := func(what string) {
		if e := recover(); e != nil {
			select {
			case panicCh <- fmt.Sprintf("panic in %s: %v", what, e):
			default:
			}
		}
	}

	type subSt struct {
		ch       chan int
		unsubbed bool
	}
	subs := make([]*subSt, c.nSubs)
	for s := 0; s < c.nSubs; s++ {
		capacity := root.Intn(4) // 0 = rendezvous
		if root.Chance(1, 6) {
			capacity = 8 + root.Intn(40)
		}
		if capacity == 0 {
			info.rendezvous = true
		}
		st := &subSt{ch: make(chan int, capacity)}
		subs[s] = st
		mode := root.Intn(4) // 0 never unsubscribes, 1 self after r receives, 2 async racing, 3 immediately
		after := root.Intn(c.nSenders*c.sendsPer + 1)
		late := root.Chance(1, 3)
		if late {
			info.lateSub = true
		}
		if mode == 2 {
			info.asyncUnsub = true
		}
		if mode != 0 {
			info.nUnsub++
		}
		r := root.Fork()
		sid := s
		subWG.Add(1)
		go func() {
			defer subWG.Done()
			defer guard("Subscribe/Unsubscribe")
			<-start
			if late {
				for i := r.Intn(6); i >= 0; i-- {
					perturb(r)
				}
			}
			rec.add(ev{evSubInv, sid, 0, 0})
			sub := feed.Subscribe(st.ch)
			rec.add(ev{evSubRet, sid, 0, 0})
			drain := func() {
				for {
					select {
					case v := <-st.ch:
						rec.add(ev{evRecv, sid, v, 0})
					default:
						return
					}
				}
			}
			unsub := func(rr *Rng) {
				perturb(rr)
				rec.add(ev{evUnsubInv, sid, 0, 0})
				sub.Unsubscribe()
				rec.add(ev{evUnsubRet, sid, 0, 0})
			}
			stop := make(chan struct{}) // closed when an async Unsubscribe has returned
			switch mode {
			case 3:
				unsub(r)
				st.unsubbed = true
				drain()
				return
			case 2:
				r2 := r.Fork()
				subWG.Add(1)
				go func() {
					defer subWG.Done()
					defer guard("Unsubscribe")
					for i := r2.Intn(10); i >= 0; i-- {
						perturb(r2)
					}
					unsub(r2)
					close(stop)
				}()
			}
			received := 0
			for {
				if mode == 1 && received >= after {
					unsub(r)
					st.unsubbed = true
					drain()
					return
				}
				select {
				case v := <-st.ch:
					rec.add(ev{evRecv, sid, v, 0})
					received++
					perturb(r)
				case <-stop:
					st.unsubbed = true
					drain()
					return
				case <-done:
					if mode == 2 {
						<-stop // the racing Unsubscribe always completes
						st.unsubbed = true
					}
					drain()
					return
				}
			}
		}()
	}
	for p := 0; p < c.nSenders; p++ {
		r := root.Fork()
		pid := p
		sendWG.Add(1)
		go func() {
			defer sendWG.Done()
			defer guard("Send")
			<-start
			for j := 0; j < c.sendsPer; j++ {
				perturb(r)
				v := pid*100 + j + 1
				rec.add(ev{evSendInv, v, 0, 0})
				n := feed.Send(v)
				rec.add(ev{evSendRet, v, n, 0})
			}
		}()
	}
	close(start)
	finished := make(chan struct{})
	go func() {
		sendWG.Wait()
		close(done)
		subWG.Wait()
		close(finished)
	}()
	snapshot := func() []ev {
		rec.mu.Lock()
		defer rec.mu.Unlock()
		return append([]ev{}, rec.evs...)
	}
	select {
	case <-finished:
		select {
		case info.panicMsg = <-panicCh:
			return snapshot(), info
		default:
		}
	case info.panicMsg = <-panicCh:
		// the feed is left in an undefined state (sendLock may never be released)
		return snapshot(), info
	case <-time.After(watchdog()):
		info.timeout = true
		sawTimeout.Store(true)
		return snapshot(), info
	}
	// late drain: anything still sitting in the channel of an unsubscribed subscription now
	// was delivered after its Unsubscribe returned (it drained the channel right after)
	for s, st := range subs {
		for more := true; more; {
			select {
			case v := <-st.ch:
				late := 0
				if st.unsubbed {
					late = 1
				}
				rec.add(ev{evRecv, s, v, late})
			default:
				more = false
			}
		}
	}
	return rec.evs, info
}

// ---------------------------------------------------------------------------
// the acceptor / direct oracle in Go (same clauses as Event/Feed.v accept_bits)

func firstPos(h []ev, tag, a int) int {
	for i, e := range h {
		if e.tag == tag && e.a == a {
			return i
		}
	}
	return -1
}
func count(h []ev, tag, a int) int {
	n := 0
	for _, e := range h {
		if e.tag == tag && e.a == a {
			n++
		}
	}
	return n
}
func countRecv(h []ev, s, v int) int {
	n := 0
	for _, e := range h {
		if e.tag == evRecv && e.a == s && e.b == v {
			n++
		}
	}
	return n
}
func countRecvVal(h []ev, v int) int {
	n := 0
	for _, e := range h {
		if e.tag == evRecv && e.b == v {
			n++
		}
	}
	return n
}
func lt(a, b int) bool { return a >= 0 && b >= 0 && a < b }

var clauseNames = []string{"well-formed", "count=deliveries", "at-most-once", "exactly-once-if-active", "single-send-order", "subscription-window"}

func checkHistory(h []ev) (bits [6]bool, why string) {
	for i := range bits {
		bits[i] = true
	}
	note := func(i int, format string, args ...interface{}) {
		if bits[i] && why == "" {
			why = clauseNames[i] + ": " + fmt.Sprintf(format, args...)
		}
		bits[i] = false
	}
	var subsL, valsL []int
	for i, e := range h {
		switch e.tag {
		case evSubInv:
			subsL = append(subsL, e.a)
			if count(h, evSubInv, e.a) != 1 {
				note(0, "Subscribe %d invoked twice", e.a)
			}
		case evSubRet:
			if count(h, evSubRet, e.a) != 1 || !lt(firstPos(h, evSubInv, e.a), i) {
				note(0, "Subscribe %d return", e.a)
			}
		case evSendInv:
			valsL = append(valsL, e.a)
			if count(h, evSendInv, e.a) != 1 || count(h, evSendRet, e.a) != 1 {
				note(0, "Send %d not invoked/returned exactly once", e.a)
			}
		case evSendRet:
			if count(h, evSendRet, e.a) != 1 || !lt(firstPos(h, evSendInv, e.a), i) {
				note(0, "Send %d return", e.a)
			}
			if n := countRecvVal(h, e.a); n != e.b {
				note(1, "Send(%d) returned %d but %d copies were received", e.a, e.b, n)
			}
		case evUnsubInv:
			if count(h, evUnsubInv, e.a) != 1 || !lt(firstPos(h, evSubRet, e.a), i) {
				note(0, "Unsubscribe %d invoke", e.a)
			}
		case evUnsubRet:
			if count(h, evUnsubRet, e.a) != 1 || !lt(firstPos(h, evUnsubInv, e.a), i) {
				note(0, "Unsubscribe %d return", e.a)
			}
		case evRecv:
			if countRecv(h, e.a, e.b) != 1 {
				note(2, "subscription %d received value %d more than once", e.a, e.b)
			}
			if !lt(firstPos(h, evSubInv, e.a), firstPos(h, evSendRet, e.b)) {
				note(5, "subscription %d received %d although that Send returned before Subscribe was invoked (or was never sent)", e.a, e.b)
			}
			if u := firstPos(h, evUnsubRet, e.a); u >= 0 {
				if e.c != 0 {
					note(5, "value %d was delivered to subscription %d after its Unsubscribe returned (found in the channel at the end)", e.b, e.a)
				}
				if !lt(firstPos(h, evSendInv, e.b), u) {
					note(5, "subscription %d received %d whose Send was invoked after Unsubscribe returned", e.a, e.b)
				}
			}
		}
	}
	// exactly once when active for the whole Send
	for _, s := range subsL {
		for _, v := range valsL {
			active := lt(firstPos(h, evSubRet, s), firstPos(h, evSendInv, v))
			if active {
				r := firstPos(h, evSendRet, v)
				if u := firstPos(h, evUnsubInv, s); u >= 0 {
					active = lt(r, u)
				} else {
					active = r >= 0
				}
			}
			if active && countRecv(h, s, v) != 1 {
				note(3, "subscription %d was active during Send(%d) but received it %d times", s, v, countRecv(h, s, v))
			}
		}
	}
	// one global order of Sends
	type edge struct{ a, b int }
	var edges []edge
	for _, s := range subsL {
		prev, has := 0, false
		for _, e := range h {
			if e.tag == evRecv && e.a == s {
				if has {
					edges = append(edges, edge{prev, e.b})
				}
				prev, has = e.b, true
			}
		}
	}
	for _, v := range valsL {
		for _, w := range valsL {
			if v != w && lt(firstPos(h, evSendRet, v), firstPos(h, evSendInv, w)) {
				edges = append(edges, edge{v, w})
			}
		}
	}
	nodeSet := map[int]bool{}
	var nodes []int
	add := func(v int) {
		if !nodeSet[v] {
			nodeSet[v] = true
			nodes = append(nodes, v)
		}
	}
	for _, v := range valsL {
		add(v)
	}
	for _, e := range h {
		if e.tag == evRecv {
			add(e.b)
		}
	}
	for len(nodes) > 0 {
		var rest []int
		for _, n := range nodes {
			in := false
			for _, e := range edges {
				if e.b == n {
					in = true
					break
				}
			}
			if in {
				rest = append(rest, n)
			}
		}
		if len(rest) == len(nodes) {
			note(4, "no single order of Sends explains the receive orders (cycle among values %v)", rest)
			break
		}
		keep := map[int]bool{}
		for _, n := range rest {
			keep[n] = true
		}
		var e2 []edge
		for _, e := range edges {
			if keep[e.a] {
				e2 = append(e2, e)
			}
		}
		nodes, edges = rest, e2
	}
	return
}

func bitsSx(b [6]bool) Sx {
	out := SL{}
	for _, x := range b {
		out = append(out, Bool(x))
	}
	return out
}

func evsSx(h []ev) Sx {
	out := SL{}
	for _, e := range h {
		switch e.tag {
		case evSendRet:
			out = append(out, L(I(int64(e.tag)), I(int64(e.a)), I(int64(e.b))))
		case evRecv:
			out = append(out, L(I(int64(e.tag)), I(int64(e.a)), I(int64(e.b)), I(int64(e.c))))
		default:
			out = append(out, L(I(int64(e.tag)), I(int64(e.a))))
		}
	}
	return out
}

func sxEvs(v Sx) []ev {
	l := AsList(v)
	out := make([]ev, 0, len(l))
	for _, x := range l {
		f := AsList(x)
		if len(f) < 2 {
			panic("hxlib: short event")
		}
		e := ev{tag: AsInt(f[0]), a: AsInt(f[1])}
		switch e.tag {
		case evSendRet:
			e.b = AsInt(f[2])
		case evRecv:
			e.b = AsInt(f[2])
			e.c = AsInt(f[3])
		}
		out = append(out, e)
	}
	return out
}

func cfgSx(c cfg) Sx {
	return L(I(int64(c.variant)), U(c.seed), I(int64(c.nSenders)), I(int64(c.sendsPer)), I(int64(c.nSubs)))
}

func sxCfg(v Sx) cfg {
	l := AsList(v)
	c := cfg{variant: AsInt(l[0]), seed: AsU64(l[1]), nSenders: AsInt(l[2]), sendsPer: AsInt(l[3]), nSubs: AsInt(l[4])}
	if c.variant < 0 || c.variant > 1 || c.nSenders < 0 || c.nSenders > 8 || c.sendsPer < 0 || c.sendsPer > 32 || c.nSubs < 0 || c.nSubs > 12 {
		panic("hxlib: configuration out of range")
	}
	return c
}

func unsubRacing(h []ev) bool {
	open := 0
	for _, e := range h {
		switch e.tag {
		case evSendInv:
			open++
		case evSendRet:
			open--
		case evUnsubInv:
			if open > 0 {
				return true
			}
		}
	}
	return false
}

func run(c Sx) Result {
	l := AsList(c)
	switch AsInt(l[0]) {
	case 0:
		return runPure(l)
	case 1:
		cf := sxCfg(l[1])
		_ = sxEvs(l[2]) // shape check of the recorded history (it is the model's input)
		h, info := runFeed(cf)
		bits, why := checkHistory(h)
		res := Result{Obs: bitsSx([6]bool{true, true, true, true, true, true})}
		if info.panicMsg != "" {
			res.Oracle = info.panicMsg
		} else if info.timeout {
			res.Oracle = "the scenario did not finish within the watchdog time (a Send or Unsubscribe is blocked forever)"
		} else if why != "" {
			res.Oracle = why
		}
		_ = bits
		res.Tags = []string{"history", []string{"feed", "feedof"}[cf.variant],
			fmt.Sprintf("senders%d", cf.nSenders), fmt.Sprintf("subs%d", cf.nSubs)}
		if info.rendezvous {
			res.Tags = append(res.Tags, "rendezvous-chan")
		}
		if info.lateSub {
			res.Tags = append(res.Tags, "late-subscribe")
		}
		if info.asyncUnsub {
			res.Tags = append(res.Tags, "async-unsubscribe")
		}
		racing := unsubRacing(h)
		if racing {
			res.Tags = append(res.Tags, "unsub-racing-send")
		}
		res.NonTrivial = cf.nSenders >= 2 && cf.nSubs >= 2 && info.nUnsub >= 1
		return res
	case 2:
		h := sxEvs(l[2])
		bits, _ := checkHistory(h)
		res := Result{Obs: bitsSx(bits), Tags: []string{"corrupted-history", fmt.Sprintf("mut%d", AsInt(AsList(l[1])[0]))}}
		rejected := false
		for _, b := range bits {
			if !b {
				rejected = true
			}
		}
		if rejected {
			res.Tags = append(res.Tags, "rejected")
		} else {
			res.Tags = append(res.Tags, "accepted")
		}
		res.NonTrivial = rejected
		return res
	}
	panic("hxlib: unknown case kind")
}

// ---------------------------------------------------------------------------
// generation

func mutate(r *Rng, h0 []ev) (int, []ev) {
	h := append([]ev{}, h0...)
	idxOf := func(tag int) []int {
		var out []int
		for i, e := range h {
			if e.tag == tag {
				out = append(out, i)
			}
		}
		return out
	}
	m := r.Intn(9)
	recvs := idxOf(evRecv)
	rets := idxOf(evSendRet)
	switch m {
	case 0: // untouched
	case 1: // a receive duplicated
		if len(recvs) > 0 {
			i := recvs[r.Intn(len(recvs))]
			h = append(h[:i+1], append([]ev{h[i]}, h[i+1:]...)...)
		}
	case 2: // a receive lost
		if len(recvs) > 0 {
			i := recvs[r.Intn(len(recvs))]
			h = append(h[:i], h[i+1:]...)
		}
	case 3: // wrong return count
		if len(rets) > 0 {
			i := rets[r.Intn(len(rets))]
			if h[i].b > 0 && r.Bool() {
				h[i].b--
			} else {
				h[i].b++
			}
		}
	case 4: // two receives of one subscriber swapped
		if len(recvs) > 1 {
			i := recvs[r.Intn(len(recvs))]
			for _, j := range recvs {
				if j > i && h[j].a == h[i].a {
					h[i].b, h[j].b = h[j].b, h[i].b
					break
				}
			}
		}
	case 5: // a receive moved to another subscriber
		if len(recvs) > 0 {
			i := recvs[r.Intn(len(recvs))]
			h[i].a = r.Intn(7)
		}
	case 6: // flagged as found in the channel after the run
		if len(recvs) > 0 {
			i := recvs[r.Intn(len(recvs))]
			h[i].c = 1
		}
	case 7: // a Send that never returns / an operation event dropped
		if len(h) > 0 {
			i := r.Intn(len(h))
			h = append(h[:i], h[i+1:]...)
		}
	case 8: // a received value replaced by another sent value
		if len(recvs) > 0 && len(rets) > 0 {
			i := recvs[r.Intn(len(recvs))]
			h[i].b = h[rets[r.Intn(len(rets))]].a
		}
	}
	return m, h
}

func gen(r *Rng, tier string, emit func(Sx)) {
	// (a) caseList: find is parametric except for which elements equal the argument, so binary
	// lists are exhaustive up to renaming; delete/deactivate are parametric: distinct elements
	// plus all binary lists (duplicates), every index from -1 to len+1.
	maxLen := 6
	var rec func(cur []int, alpha int, f func([]int))
	rec = func(cur []int, alpha int, f func([]int)) {
		f(cur)
		if len(cur) == maxLen {
			return
		}
		for a := 0; a < alpha; a++ {
			rec(append(append([]int{}, cur...), a), alpha, f)
		}
	}
	ints := func(xs []int) Sx {
		out := SL{}
		for _, x := range xs {
			out = append(out, I(int64(x)))
		}
		return out
	}
	rec(nil, 2, func(xs []int) {
		for x := 0; x <= 2; x++ {
			emit(L(I(0), I(0), ints(xs), I(int64(x))))
		}
		for idx := -1; idx <= len(xs)+1; idx++ {
			emit(L(I(0), I(1), ints(xs), I(int64(idx))))
			emit(L(I(0), I(2), ints(xs), I(int64(idx))))
		}
	})
	for n := 0; n <= maxLen; n++ {
		xs := make([]int, n)
		for i := range xs {
			xs[i] = (i*5 + 3) % 11 // distinct
		}
		for idx := -1; idx <= n+1; idx++ {
			emit(L(I(0), I(1), ints(xs), I(int64(idx))))
			emit(L(I(0), I(2), ints(xs), I(int64(idx))))
		}
		for x := 0; x < 12; x++ {
			emit(L(I(0), I(0), ints(xs), I(int64(x))))
		}
	}
	// (b) histories of the real feed
	nHist := 120
	if tier == "thorough" {
		nHist = 3000
	}
	hung := 0
	for i := 0; i < nHist; i++ {
		c := cfg{variant: i % 2, seed: r.U64() >> 1, nSenders: r.Range(2, 4), sendsPer: r.Range(2, 7), nSubs: r.Range(2, 6)}
		mr := r.Fork() // history-dependent draws must not perturb the scenario stream
		h, info := runFeed(c)
		emit(L(I(1), cfgSx(c), evsSx(h)))
		if info.timeout || info.panicMsg != "" {
			// the implementation hangs or panics: the cases emitted so far reproduce it
			if hung++; hung >= 3 {
				break
			}
			continue
		}
		if i%2 == 1 || mr.Chance(1, 2) {
			m, hm := mutate(mr, h)
			emit(L(I(2), L(I(int64(m))), evsSx(hm)))
		}
	}
}

func main() {
	Main(Family{
		ID: "C50",
		Rule: "(a) caseList find/delete/deactivate via the verif hook: all binary lists up to length 6 (exhaustive up to renaming for find; duplicates for delete/deactivate) and distinct-element lists up to length 6, every index from -1 to len+1, every find argument incl. absent; " +
			"(b) 120 (quick) / 3000 (thorough) scenarios alternating event.Feed and event.FeedOf[int]: 2-4 sender goroutines x 2-7 Sends, 2-6 subscribers with channel capacity 0-3 (sometimes 8-47), subscribing late or at once, unsubscribing never / after r receives / from a racing goroutine / immediately, seeded Gosched/sleep perturbation; the history recorded at generation time is checked by the Coq acceptor, Run re-executes the scenario and applies the Go oracle; " +
			"(c) corrupted copies of recorded histories (duplicate/lost/moved/swapped receive, wrong count, late flag, dropped event) on which the Go and Coq acceptors must agree clause by clause. " +
			"Non-trivial: a caseList case of length >= 2 that did not panic; a scenario with >= 2 senders, >= 2 subscribers and >= 1 unsubscribe; a corrupted history that is rejected. distinct = distinct case line.",
		Gen: gen,
		Run: run,
	})
}
