// Family c52: accounts/keystore (passphrase.go, key.go, keystore.go) vs coq/Crypto/Keystore.v.
//
// The model cannot compute scrypt / PBKDF2 / AES / secp256k1: Gen computes, with
// golang.org/x/crypto and crypto/aes, the derived keys, keystreams, raw CBC plaintexts and
// addresses a case needs and ships them as tables (see coq/Run/C52.v); the model computes the
// MAC (Keccak) and takes every accept/reject decision itself.
package main

import (
	"bytes"
	"crypto/aes"
	"crypto/cipher"
	crand "crypto/rand"
	"crypto/sha256"
	"encoding/hex"
	"encoding/json"
	"errors"
	"fmt"
	"io"
	"math/big"
	"os"
	"path/filepath"
	"regexp"
	"strconv"
	"strings"
	"time"

	"github.com/ethereum/go-ethereum/accounts"
	"github.com/ethereum/go-ethereum/accounts/keystore"
	"github.com/ethereum/go-ethereum/common"
	"github.com/ethereum/go-ethereum/crypto"
	"github.com/google/uuid"
	"golang.org/x/crypto/pbkdf2"
	"golang.org/x/crypto/scrypt"

	. "gethverif/harness/hxlib"
)

// ---------------------------------------------------------------- rigged crypto/rand

// EncryptDataV3 reads salt (32) then iv (16) from crypto/rand.Reader; the harness queues the
// bytes of the case there so that the real EncryptKey is a deterministic function of the case.
type rigged struct {
	q    []byte
	real io.Reader
}

func (r *rigged) Read(p []byte) (int, error) {
	if len(r.q) == 0 {
		return r.real.Read(p)
	}
	n := copy(p, r.q)
	r.q = r.q[n:]
	return n, nil
}

var rig = &rigged{real: crand.Reader}

func queue(bs ...[]byte) {
	rig.q = nil
	for _, b := range bs {
		rig.q = append(rig.q, b...)
	}
}

// ---------------------------------------------------------------- JSON trees

type jnode struct {
	kind int // 0 null 1 bool 2 num 3 str 4 arr 5 obj 6 invalid
	b    bool
	num  string // literal
	s    string
	kvs  []jkv
}
type jkv struct {
	k string
	v *jnode
}

var intLit = regexp.MustCompile(`^-?[0-9]+$`)

var errBadNum = errors.New("number out of float64 range")

func readValue(dec *json.Decoder) (*jnode, error) {
	t, err := dec.Token()
	if err != nil {
		return nil, err
	}
	switch v := t.(type) {
	case nil:
		return &jnode{kind: 0}, nil
	case bool:
		return &jnode{kind: 1, b: v}, nil
	case json.Number:
		if _, err := strconv.ParseFloat(string(v), 64); err != nil {
			return nil, errBadNum
		}
		return &jnode{kind: 2, num: string(v)}, nil
	case string:
		return &jnode{kind: 3, s: v}, nil
	case json.Delim:
		if v == '[' {
			for dec.More() {
				if _, err := readValue(dec); err != nil {
					return nil, err
				}
			}
			if _, err := dec.Token(); err != nil {
				return nil, err
			}
			return &jnode{kind: 4}, nil
		}
		if v == '{' {
			n := &jnode{kind: 5}
			for dec.More() {
				kt, err := dec.Token()
				if err != nil {
					return nil, err
				}
				k, ok := kt.(string)
				if !ok {
					return nil, errors.New("non-string key")
				}
				val, err := readValue(dec)
				if err != nil {
					return nil, err
				}
				n.kvs = append(n.kvs, jkv{k, val})
			}
			if _, err := dec.Token(); err != nil {
				return nil, err
			}
			return n, nil
		}
	}
	return nil, errors.New("unexpected token")
}

// parseTree: the JSON value tree encoding/json sees in text (key order and duplicates kept,
// strings decoded); kind 6 when encoding/json rejects the text (syntax, or a number that does
// not fit float64, which fails the first Unmarshal into map[string]interface{}).
func parseTree(text []byte) *jnode {
	if !json.Valid(text) {
		return &jnode{kind: 6}
	}
	dec := json.NewDecoder(bytes.NewReader(text))
	dec.UseNumber()
	n, err := readValue(dec)
	if err != nil {
		return &jnode{kind: 6}
	}
	return n
}

func truncInt(lit string) int64 {
	f, _ := strconv.ParseFloat(lit, 64)
	return int64(int(f)) // exactly what ensureInt computes
}

func (n *jnode) sx() Sx {
	switch n.kind {
	case 0:
		return L(I(0))
	case 1:
		return L(I(1), Bool(n.b))
	case 2:
		if intLit.MatchString(n.num) {
			z, _ := new(big.Int).SetString(n.num, 10)
			return L(I(2), I(1), Big(z), I(truncInt(n.num)))
		}
		return L(I(2), I(0), I(0), I(truncInt(n.num)))
	case 3:
		return L(I(3), B([]byte(n.s)))
	case 4:
		return L(I(4))
	case 5:
		items := SL{}
		for _, kv := range n.kvs {
			items = append(items, L(B([]byte(kv.k)), kv.v.sx()))
		}
		return L(I(5), items)
	}
	return L(I(6))
}

func (n *jnode) render(sb *strings.Builder) {
	switch n.kind {
	case 0:
		sb.WriteString("null")
	case 1:
		if n.b {
			sb.WriteString("true")
		} else {
			sb.WriteString("false")
		}
	case 2:
		sb.WriteString(n.num)
	case 3:
		b, _ := json.Marshal(n.s)
		sb.Write(b)
	case 4:
		sb.WriteString("[1,\"x\"]")
	case 5:
		sb.WriteByte('{')
		for i, kv := range n.kvs {
			if i > 0 {
				sb.WriteByte(',')
			}
			b, _ := json.Marshal(kv.k)
			sb.Write(b)
			sb.WriteByte(':')
			kv.v.render(sb)
		}
		sb.WriteByte('}')
	default:
		sb.WriteString("{")
	}
}
func (n *jnode) text() []byte {
	var sb strings.Builder
	n.render(&sb)
	return []byte(sb.String())
}

func (n *jnode) get(k string) *jnode {
	if n == nil || n.kind != 5 {
		return nil
	}
	for i := len(n.kvs) - 1; i >= 0; i-- {
		if n.kvs[i].k == k {
			return n.kvs[i].v
		}
	}
	return nil
}
func (n *jnode) set(k string, v *jnode) {
	for i := range n.kvs {
		if n.kvs[i].k == k {
			n.kvs[i].v = v
			return
		}
	}
	n.kvs = append(n.kvs, jkv{k, v})
}
func (n *jnode) del(k string) {
	out := n.kvs[:0:0]
	for _, kv := range n.kvs {
		if kv.k != k {
			out = append(out, kv)
		}
	}
	n.kvs = out
}
func (n *jnode) rename(k, k2 string) {
	for i := range n.kvs {
		if n.kvs[i].k == k {
			n.kvs[i].k = k2
		}
	}
}
func jstr(s string) *jnode { return &jnode{kind: 3, s: s} }
func jnum(s string) *jnode { return &jnode{kind: 2, num: s} }

// ---------------------------------------------------------------- tables (Section data)

type tables struct {
	kdf, ctr, cbc, addr SL
	seen                map[string]bool
}

func newTables() *tables { return &tables{seen: map[string]bool{}} }
func (t *tables) sx() Sx {
	return L(orEmpty(t.kdf), orEmpty(t.ctr), orEmpty(t.cbc), orEmpty(t.addr))
}
func orEmpty(l SL) Sx {
	if l == nil {
		return SL{}
	}
	return l
}

const (
	maxN     = 1 << 14
	maxRP    = 16
	maxC     = 200000
	maxDkLen = 1 << 16
)

// scrypt parameters the harness is willing to run (valid for scrypt.Key and cheap)
func scryptSafe(n, r, p int) bool {
	return n > 1 && n&(n-1) == 0 && n <= maxN && r > 0 && r <= maxRP && p > 0 && p <= maxRP
}

func (t *tables) addScrypt(pass, salt []byte, n, r, p int) []byte {
	if !scryptSafe(n, r, p) {
		return nil
	}
	dk, err := scrypt.Key(pass, salt, n, r, p, 32)
	if err != nil {
		return nil
	}
	key := fmt.Sprintf("s%x|%x|%d|%d|%d", pass, salt, n, r, p)
	if !t.seen[key] {
		t.seen[key] = true
		t.kdf = append(t.kdf, L(B(pass), B(salt), B(dk), I(0), I(int64(n)), I(int64(r)), I(int64(p))))
	}
	return dk
}
func (t *tables) addPbkdf2(pass, salt []byte, c int) []byte {
	if c > maxC {
		return nil
	}
	dk := pbkdf2.Key(pass, salt, c, 32, sha256.New)
	key := fmt.Sprintf("p%x|%x|%d", pass, salt, c)
	if !t.seen[key] {
		t.seen[key] = true
		t.kdf = append(t.kdf, L(B(pass), B(salt), B(dk), I(1), I(int64(c))))
	}
	return dk
}
func ctrStream(key, iv []byte, n int) []byte {
	blk, _ := aes.NewCipher(key)
	out := make([]byte, n)
	cipher.NewCTR(blk, iv).XORKeyStream(out, out)
	return out
}
func (t *tables) addCtr(key16, iv []byte, n int) []byte {
	if len(iv) != 16 || len(key16) != 16 {
		return nil
	}
	ks := ctrStream(key16, iv, n)
	t.ctr = append(t.ctr, L(B(key16), B(iv), B(ks)))
	return ks
}
func (t *tables) addCbc(key16, iv, ct []byte) []byte {
	if len(iv) != 16 || len(ct)%16 != 0 {
		return nil
	}
	blk, _ := aes.NewCipher(key16)
	out := make([]byte, len(ct))
	cipher.NewCBCDecrypter(blk, iv).CryptBlocks(out, ct)
	t.cbc = append(t.cbc, L(B(key16), B(iv), B(ct), B(out)))
	return out
}
func (t *tables) addAddr(key32 []byte) {
	if len(key32) != 32 {
		return
	}
	k, err := crypto.ToECDSA(key32)
	if err != nil {
		return
	}
	a := crypto.PubkeyToAddress(k.PublicKey)
	t.addr = append(t.addr, L(B(key32), B(a[:])))
}

func xor(a, b []byte) []byte {
	out := make([]byte, len(a))
	for i := range a {
		out[i] = a[i] ^ b[i]
	}
	return out
}

// mirror of key.go's structs, used only to find out (best effort, errors ignored) which
// primitive computations a mutated file can possibly need
type mCrypto struct {
	Cipher       string                 `json:"cipher"`
	CipherText   string                 `json:"ciphertext"`
	CipherParams struct{ IV string }    `json:"cipherparams"`
	KDF          string                 `json:"kdf"`
	KDFParams    map[string]interface{} `json:"kdfparams"`
	MAC          string                 `json:"mac"`
}
type mKey struct {
	Crypto mCrypto `json:"crypto"`
}

func num(x interface{}) (int, bool) {
	f, ok := x.(float64)
	if !ok {
		return 0, false
	}
	return int(f), true
}

// collect supplies every table entry the decryption of text with pass can need; ok=false when
// the file asks for a computation the harness refuses to run (resource guard).
func (t *tables) collect(text []byte, pass []byte) (ok bool) {
	var k mKey
	_ = json.Unmarshal(text, &k)
	return t.collectCrypto(k.Crypto, pass)
}

func (t *tables) collectCrypto(cj mCrypto, pass []byte) bool {
	saltHex, isStr := cj.KDFParams["salt"].(string)
	if !isStr {
		return true
	}
	salt, err := hex.DecodeString(saltHex)
	if err != nil {
		return true
	}
	if dl, ok := num(cj.KDFParams["dklen"]); ok && dl > maxDkLen {
		return false
	}
	var dk []byte
	switch cj.KDF {
	case "scrypt":
		n, ok1 := num(cj.KDFParams["n"])
		r, ok2 := num(cj.KDFParams["r"])
		p, ok3 := num(cj.KDFParams["p"])
		if !ok1 || !ok2 || !ok3 {
			return true
		}
		if _, e := scryptCheck(n, r, p); e != nil {
			return true // scrypt.Key rejects the parameters without computing
		}
		if !scryptSafe(n, r, p) {
			return false
		}
		dk = t.addScrypt(pass, salt, n, r, p)
	case "pbkdf2":
		c, ok := num(cj.KDFParams["c"])
		if !ok {
			return true
		}
		if c > maxC {
			return false
		}
		dk = t.addPbkdf2(pass, salt, c)
	default:
		return true
	}
	if dk == nil {
		return true
	}
	iv, err1 := hex.DecodeString(cj.CipherParams.IV)
	ct, err2 := hex.DecodeString(cj.CipherText)
	if err1 != nil || err2 != nil {
		return true
	}
	if ks := t.addCtr(dk[:16], iv, len(ct)); ks != nil {
		t.addAddr(xor(ct, ks))
	}
	if raw := t.addCbc(crypto.Keccak256(dk[:16])[:16], iv, ct); raw != nil {
		if n := len(raw); n > 0 {
			pad := int(raw[n-1])
			if pad > 0 && pad <= n {
				t.addAddr(raw[:n-pad])
			}
		}
	}
	return true
}

// scryptCheck reproduces only the argument validation of scrypt.Key by calling it with N=2
// semantics avoided: we call the real function when cheap, else decide by its documented rule.
func scryptCheck(n, r, p int) ([]byte, error) {
	if n <= 1 || n&(n-1) != 0 || r <= 0 || p <= 0 {
		return nil, errors.New("invalid")
	}
	const maxInt = int(^uint(0) >> 1)
	if uint64(r)*uint64(p) >= 1<<30 || r > maxInt/128/p || r > maxInt/256 || n > maxInt/128/r {
		return nil, errors.New("too large")
	}
	return nil, nil
}

// ---------------------------------------------------------------- error classes

func classify(err error) int64 {
	var se *json.SyntaxError
	var te *json.UnmarshalTypeError
	var hb hex.InvalidByteError
	msg := err.Error()
	switch {
	case errors.Is(err, keystore.ErrDecrypt):
		return 7
	case errors.As(err, &se), errors.As(err, &te), strings.HasPrefix(msg, "json:"), errors.Is(err, io.ErrUnexpectedEOF):
		return 1
	case errors.As(err, &hb), errors.Is(err, hex.ErrLength):
		return 5
	case strings.HasPrefix(msg, "version not supported"):
		return 2
	case strings.HasPrefix(msg, "invalid UUID"), strings.HasPrefix(msg, "invalid urn prefix"):
		return 3
	case strings.HasPrefix(msg, "cipher not supported"):
		return 4
	case strings.HasPrefix(msg, "unsupported KDF"), strings.HasPrefix(msg, "unsupported PBKDF2 PRF"),
		strings.HasPrefix(msg, "scrypt:"), strings.HasPrefix(msg, "invalid KDF parameter"):
		return 6
	case strings.HasPrefix(msg, "invalid key:"):
		return 8
	case strings.HasPrefix(msg, "key content mismatch"):
		return 9
	case strings.HasPrefix(msg, "invalid IV length"), strings.HasPrefix(msg, "invalid ciphertext length"):
		return 12
	}
	return 99
}

type decRes struct {
	key   *keystore.Key
	err   error
	panic string
}

func safeDecryptKey(text []byte, pass string) (r decRes) {
	defer func() {
		if e := recover(); e != nil {
			r = decRes{panic: fmt.Sprint(e)}
		}
	}()
	k, err := keystore.DecryptKey(text, pass)
	return decRes{key: k, err: err}
}

func (r decRes) class() int64 {
	if r.panic != "" {
		return 10
	}
	if r.err != nil {
		return classify(r.err)
	}
	return 0
}
func (r decRes) sx(withID bool) Sx {
	if c := r.class(); c != 0 {
		return L(I(1), I(c))
	}
	kb := crypto.FromECDSA(r.key.PrivateKey)
	if withID {
		return L(I(0), B(kb), B(r.key.Address[:]), B(r.key.Id[:]))
	}
	return L(I(0), B(kb), B(r.key.Address[:]))
}

func vfpass(meta SL) []byte {
	if len(meta) >= 5 {
		return AsBytes(meta[4])
	}
	return nil
}

func errSx(err error) Sx { return L(I(1), I(classify(err))) }

// ---------------------------------------------------------------- Run

func mkKey(d *big.Int, addr, id []byte) *keystore.Key {
	kb := make([]byte, 32)
	d.FillBytes(kb)
	priv, err := crypto.ToECDSA(kb)
	if err != nil {
		panic("hxlib: case key is not a valid secp256k1 scalar")
	}
	var u uuid.UUID
	if len(id) != 16 || len(addr) != 20 {
		panic("hxlib: bad id/address length")
	}
	copy(u[:], id)
	return &keystore.Key{Id: u, Address: common.BytesToAddress(addr), PrivateKey: priv}
}

func bytesList(v Sx) [][]byte {
	var out [][]byte
	for _, x := range AsList(v) {
		out = append(out, AsBytes(x))
	}
	return out
}

func scratchDir() string {
	base := ""
	if st, err := os.Stat("/dev/shm"); err == nil && st.IsDir() {
		base = "/dev/shm"
	}
	d, err := os.MkdirTemp(base, "c52ks")
	if err != nil {
		panic("hxlib: cannot create scratch dir: " + err.Error())
	}
	return d
}

func run(c Sx) Result {
	l := AsList(c)
	if len(l) < 2 {
		panic("hxlib: short case")
	}
	var fails []string
	res := Result{}
	switch AsInt(l[0]) {
	case 0: // EncryptKey, DecryptKey right / wrong passphrases
		if len(l) != 11 {
			panic("hxlib: case 0 shape")
		}
		d, addr, id, pass := AsBig(l[2]), AsBytes(l[3]), AsBytes(l[4]), AsBytes(l[5])
		n, p, salt, iv := AsInt(l[6]), AsInt(l[7]), AsBytes(l[8]), AsBytes(l[9])
		wrong := bytesList(l[10])
		if len(salt) != 32 || len(iv) != 16 || !scryptSafe(n, 8, p) {
			panic("hxlib: case 0 parameters")
		}
		key := mkKey(d, addr, id)
		queue(salt, iv)
		text, err := keystore.EncryptKey(key, string(pass), n, p)
		queue()
		if err != nil {
			res.Obs = errSx(err)
			fails = append(fails, "EncryptKey failed on valid parameters: "+err.Error())
			break
		}
		right := safeDecryptKey(text, string(pass))
		var ws SL
		for _, w := range wrong {
			r := safeDecryptKey(text, string(w))
			ws = append(ws, r.sx(true))
			if samePass(w, pass) {
				res.Tags = append(res.Tags, "hmac-equivalent-pass")
				if r.class() != 0 || r.key.PrivateKey.D.Cmp(d) != 0 {
					fails = append(fails, "HMAC-equivalent passphrase spelling rejected")
				}
			} else if !(r.err != nil && errors.Is(r.err, keystore.ErrDecrypt)) {
				fails = append(fails, fmt.Sprintf("wrong passphrase %x did not give ErrDecrypt (class %d %v %s)", w, r.class(), r.err, r.panic))
			}
		}
		res.Obs = L(I(0), parseTree(text).sx(), right.sx(true), orEmpty(ws))
		if right.class() != 0 {
			fails = append(fails, fmt.Sprintf("right passphrase failed: class %d %v %s", right.class(), right.err, right.panic))
		} else {
			want := crypto.PubkeyToAddress(key.PrivateKey.PublicKey)
			if right.key.PrivateKey.D.Cmp(d) != 0 || right.key.Address != want || right.key.Id != key.Id {
				fails = append(fails, "decrypt(encrypt(k)) returned a different key / address / id")
			}
		}
		res.Tags = append(res.Tags, "enc", fmt.Sprintf("n%d", n), fmt.Sprintf("p%d", p), fmt.Sprintf("passlen%d", min(len(pass), 40)/8*8))
		res.NonTrivial = len(wrong) > 0
	case 1: // DecryptKey on a (mutated) file
		if len(l) != 6 {
			panic("hxlib: case 1 shape")
		}
		pass, text, meta := AsBytes(l[3]), AsBytes(l[4]), AsList(l[5])
		if String(parseTree(text).sx()) != String(l[2]) {
			panic("hxlib: case tree does not match case text")
		}
		if !resourceOK(text) {
			panic("hxlib: case exceeds the resource guard")
		}
		r := safeDecryptKey(text, string(pass))
		res.Obs = r.sx(true)
		if r.panic != "" {
			fails = append(fails, "keyfile-panic: DecryptKey panicked: "+r.panic)
		}
		if r.class() == 99 {
			fails = append(fails, "unclassified error: "+r.err.Error())
		}
		if r.class() == 0 { // version_and_cipher_checked, directly on the implementation
			var hdr struct {
				Version interface{} `json:"version"`
				Crypto  struct {
					Cipher string `json:"cipher"`
				} `json:"crypto"`
			}
			_ = json.Unmarshal(text, &hdr)
			if v, isStr := hdr.Version.(string); !(isStr && v == "1") {
				if f, isNum := hdr.Version.(float64); !isNum || f != 3 {
					fails = append(fails, fmt.Sprintf("file with version %v accepted", hdr.Version))
				}
				if hdr.Crypto.Cipher != "aes-128-ctr" {
					fails = append(fails, "file with cipher "+hdr.Crypto.Cipher+" accepted")
				}
			}
		}
		kind := int64(0)
		var okey, oaddr []byte
		mut := "none"
		if len(meta) >= 4 {
			kind, okey, oaddr, mut = AsBig(meta[0]).Int64(), AsBytes(meta[1]), AsBytes(meta[2]), string(AsBytes(meta[3]))
		}
		same := r.class() == 0 && bytes.Equal(crypto.FromECDSA(r.key.PrivateKey), okey) && bytes.Equal(r.key.Address[:], oaddr)
		switch kind {
		case 1: // valid file, right passphrase
			if !same {
				fails = append(fails, fmt.Sprintf("valid file + right passphrase did not return the key (class %d)", r.class()))
			}
		case 2: // valid file, wrong passphrase
			if samePass(pass, vfpass(meta)) {
				res.Tags = append(res.Tags, "hmac-equivalent-pass")
				if !same {
					fails = append(fails, "HMAC-equivalent passphrase spelling rejected")
				}
			} else if !(r.err != nil && errors.Is(r.err, keystore.ErrDecrypt)) {
				fails = append(fails, fmt.Sprintf("wrong passphrase did not give ErrDecrypt (class %d)", r.class()))
			}
		case 3: // ciphertext or MAC bytes changed, right passphrase: must be an error
			if r.class() == 0 {
				fails = append(fails, "corrupted ciphertext/MAC accepted")
			}
		case 4: // any other mutation, right passphrase: an error, the original key, or (IV only) a
			// different key whose address differs from the original (caught by GetKey)
			if r.class() == 0 && !same && bytes.Equal(r.key.Address[:], oaddr) {
				fails = append(fails, "mutated file decrypted to a different key with the original address")
			}
		}
		res.Tags = append(res.Tags, "dec", "mut:"+mut, fmt.Sprintf("class%d", r.class()))
		res.NonTrivial = kind != 0
	case 2: // EncryptDataV3 / DecryptDataV3
		if len(l) != 9 {
			panic("hxlib: case 2 shape")
		}
		data, pass := AsBytes(l[2]), AsBytes(l[3])
		n, p, salt, iv := AsInt(l[4]), AsInt(l[5]), AsBytes(l[6]), AsBytes(l[7])
		wrong := bytesList(l[8])
		if len(salt) != 32 || len(iv) != 16 || !scryptSafe(n, 8, p) {
			panic("hxlib: case 2 parameters")
		}
		queue(salt, iv)
		cj, err := keystore.EncryptDataV3(data, pass, n, p)
		queue()
		if err != nil {
			res.Obs = errSx(err)
			fails = append(fails, "EncryptDataV3 failed: "+err.Error())
			break
		}
		ddec := func(pw []byte) (Sx, []byte, error) {
			var out []byte
			var err error
			pan := ""
			func() {
				defer func() {
					if e := recover(); e != nil {
						pan = fmt.Sprint(e)
					}
				}()
				out, err = keystore.DecryptDataV3(cj, string(pw))
			}()
			if pan != "" {
				fails = append(fails, "keyfile-panic: DecryptDataV3 panicked: "+pan)
				return L(I(1), I(10)), nil, errors.New("panic")
			}
			if err != nil {
				return errSx(err), nil, err
			}
			return L(I(0), B(out)), out, nil
		}
		txt, _ := json.Marshal(cj)
		o1, pt, err1 := ddec(pass)
		if err1 != nil || !bytes.Equal(pt, data) {
			fails = append(fails, "DecryptDataV3(EncryptDataV3(data)) != data")
		}
		var ws SL
		for _, w := range wrong {
			o, _, e := ddec(w)
			ws = append(ws, o)
			if samePass(w, pass) {
				res.Tags = append(res.Tags, "hmac-equivalent-pass")
			} else if !errors.Is(e, keystore.ErrDecrypt) {
				fails = append(fails, "DecryptDataV3 with a wrong passphrase did not give ErrDecrypt")
			}
		}
		res.Obs = L(I(0), parseTree(txt).sx(), o1, orEmpty(ws))
		res.Tags = append(res.Tags, "data", fmt.Sprintf("datalen%d", min(len(data), 96)/16*16))
		res.NonTrivial = len(data) > 0
	case 4: // KeyStore: import, reload from disk, export, tampered address field
		if len(l) != 13 {
			panic("hxlib: case 4 shape")
		}
		d, pass := AsBig(l[2]), AsBytes(l[3])
		n, p, salt, iv := AsInt(l[4]), AsInt(l[5]), AsBytes(l[6]), AsBytes(l[7])
		newpass, salt2, iv2, wrong, other := AsBytes(l[8]), AsBytes(l[9]), AsBytes(l[10]), AsBytes(l[11]), AsBytes(l[12])
		if len(salt) != 32 || len(iv) != 16 || len(salt2) != 32 || len(iv2) != 16 || len(other) != 20 || !scryptSafe(n, 8, p) {
			panic("hxlib: case 4 parameters")
		}
		key := mkKey(d, make([]byte, 20), make([]byte, 16))
		dir := scratchDir()
		defer os.RemoveAll(dir)
		ks := keystore.NewKeyStore(filepath.Join(dir, "a"), n, p)
		queue(salt, iv)
		acct, err := ks.ImportECDSA(key.PrivateKey, string(pass))
		queue()
		if err != nil {
			res.Obs = errSx(err)
			fails = append(fails, "ImportECDSA failed: "+err.Error())
			break
		}
		wantAddr := crypto.PubkeyToAddress(key.PrivateKey.PublicKey)
		// a fresh KeyStore on the same directory: the key is loaded from disk
		ks2 := keystore.NewKeyStore(filepath.Join(dir, "a"), n, p)
		accs := ks2.Accounts()
		if len(accs) != 1 || accs[0].Address != wantAddr || acct.Address != wantAddr {
			fails = append(fails, "reloaded keystore does not list exactly the imported account")
			res.Obs = L()
			break
		}
		export := func(k *keystore.KeyStore, a accounts.Account, pw, npw []byte) ([]byte, Sx, error) {
			queue(salt2, iv2)
			defer queue()
			js, err := k.Export(a, string(pw), string(npw))
			if err != nil {
				return nil, errSx(err), err
			}
			return js, nil, nil
		}
		// getkey (right passphrase): Export decrypts with GetKey and re-encrypts; decrypt the export
		var o1, o3 Sx
		js, e1, err := export(ks2, accs[0], pass, newpass)
		if err != nil {
			o1, o3 = e1, e1
			fails = append(fails, "stored key does not load with its passphrase: "+err.Error())
		} else {
			r := safeDecryptKey(js, string(newpass))
			o3 = r.sx(false)
			if r.class() != 0 || r.key.PrivateKey.D.Cmp(d) != 0 || r.key.Address != wantAddr {
				fails = append(fails, "store/load/export round trip lost the key")
			}
			o1 = L(I(0), B(crypto.FromECDSA(key.PrivateKey)), B(wantAddr[:]))
			if r.class() != 0 {
				o1 = o3
			}
		}
		js2, o2, err2 := export(ks2, accs[0], wrong, newpass)
		if err2 == nil {
			o2 = safeDecryptKey(js2, string(newpass)).sx(false)
		}
		if samePass(wrong, pass) {
			res.Tags = append(res.Tags, "hmac-equivalent-pass")
		} else if !errors.Is(err2, keystore.ErrDecrypt) {
			fails = append(fails, "keystore accepted a wrong passphrase")
		}
		// tampered address field: same file, address replaced, in a second directory
		var o4 Sx = L(I(0))
		raw, _ := os.ReadFile(accs[0].URL.Path)
		tree := parseTree(raw)
		tree.set("address", jstr(hex.EncodeToString(other)))
		dirB := filepath.Join(dir, "b")
		os.MkdirAll(dirB, 0700)
		os.WriteFile(filepath.Join(dirB, "UTC--tampered"), tree.text(), 0600)
		ks3 := keystore.NewKeyStore(dirB, n, p)
		if accs3 := ks3.Accounts(); len(accs3) == 1 && accs3[0].Address == common.BytesToAddress(other) {
			js3, e3, err3 := export(ks3, accs3[0], pass, newpass)
			if err3 != nil {
				o4 = e3
			} else {
				r := safeDecryptKey(js3, string(newpass))
				o4 = r.sx(false)
			}
			if common.BytesToAddress(other) != wantAddr && err3 == nil {
				fails = append(fails, "keystore returned a key for an account whose address it does not match")
			}
		} else {
			fails = append(fails, "tampered file not listed under its claimed address")
		}
		res.Obs = L(o1, o2, o3, o4)
		res.Tags = append(res.Tags, "store")
		res.NonTrivial = true
	default:
		panic("hxlib: unknown case kind")
	}
	if len(fails) > 0 {
		res.Oracle = strings.Join(fails, "; ")
	}
	return res
}

func resourceOK(text []byte) bool {
	t := newTables()
	var k mKey
	_ = json.Unmarshal(text, &k)
	cj := k.Crypto
	if dl, ok := num(cj.KDFParams["dklen"]); ok && dl > maxDkLen {
		return false
	}
	_ = t
	switch cj.KDF {
	case "scrypt":
		n, ok1 := num(cj.KDFParams["n"])
		r, ok2 := num(cj.KDFParams["r"])
		p, ok3 := num(cj.KDFParams["p"])
		if ok1 && ok2 && ok3 {
			if _, e := scryptCheck(n, r, p); e == nil && !scryptSafe(n, r, p) {
				return false
			}
		}
	case "pbkdf2":
		if c, ok := num(cj.KDFParams["c"]); ok && c > maxC {
			return false
		}
	}
	return true
}

// ---------------------------------------------------------------- Gen

var secpN, _ = new(big.Int).SetString("FFFFFFFFFFFFFFFFFFFFFFFFFFFFFFFEBAAEDCE6AF48A03BBFD25E8CD0364141", 16)

func genD(r *Rng) *big.Int {
	switch r.Intn(12) {
	case 0:
		return big.NewInt(int64(1 + r.Intn(3)))
	case 1:
		return new(big.Int).Sub(secpN, big.NewInt(int64(1+r.Intn(3))))
	case 2: // leading zero bytes
		return new(big.Int).SetBytes(r.Bytes(1 + r.Intn(20)))
	}
	for {
		d := new(big.Int).SetBytes(r.Bytes(32))
		if d.Sign() > 0 && d.Cmp(secpN) < 0 {
			return d
		}
	}
}

func genPass(r *Rng) []byte {
	switch r.Intn(10) {
	case 0:
		return []byte{}
	case 1:
		return []byte("пароль-密码-🔑")
	case 2:
		return []byte(strings.Repeat("long passphrase ", 8+r.Intn(40)))
	case 3:
		return r.Bytes(1 + r.Intn(20)) // arbitrary bytes, possibly invalid UTF-8
	case 4:
		return []byte("é́ \x00 tab\t")
	}
	const al = "abcdefghijklmnopqrstuvwxyzABCDEFGHIJKLMNOPQRSTUVWXYZ0123456789 !#"
	n := 1 + r.Intn(16)
	b := make([]byte, n)
	for i := range b {
		b[i] = al[r.Intn(len(al))]
	}
	return b
}

// hmacKey is the 64-byte HMAC-SHA256 key block a passphrase turns into: scrypt and PBKDF2 see
// the passphrase only through it, so two passphrases with the same block (p and p||0x00.., or a
// passphrase longer than 64 bytes and its SHA-256 digest) are THE SAME passphrase to the KDF.
func hmacKey(p []byte) [64]byte {
	var k [64]byte
	if len(p) > 64 {
		h := sha256.Sum256(p)
		copy(k[:], h[:])
	} else {
		copy(k[:], p)
	}
	return k
}
func samePass(a, b []byte) bool { return hmacKey(a) == hmacKey(b) }

func wrongOf(r *Rng, pass []byte) []byte {
	if r.Chance(1, 12) { // HMAC-equivalent spelling: must be ACCEPTED
		if len(pass) > 64 {
			h := sha256.Sum256(pass)
			return h[:]
		}
		if len(pass) < 64 {
			return append(append([]byte{}, pass...), make([]byte, 1+r.Intn(64-len(pass)))...)
		}
	}
	switch r.Intn(5) {
	case 0:
		return append(append([]byte{}, pass...), ' ')
	case 1:
		if len(pass) > 0 {
			return append([]byte{}, pass[:len(pass)-1]...)
		}
		return []byte("x")
	case 2:
		if len(pass) > 0 {
			w := append([]byte{}, pass...)
			w[r.Intn(len(w))] ^= 1 << uint(r.Intn(7))
			return w
		}
		return []byte{0}
	case 3:
		return bytes.ToUpper(append([]byte("a"), pass...))
	}
	for {
		w := genPass(r)
		if !bytes.Equal(w, pass) {
			return w
		}
	}
}

func genNP(r *Rng) (int, int) {
	if r.Chance(1, 30) {
		return keystore.LightScryptN, keystore.LightScryptP
	}
	ns := []int{2, 2, 4, 8, 16, 64, 256, 1024}
	ps := []int{1, 1, 2, 3, 6}
	return ns[r.Intn(len(ns))], ps[r.Intn(len(ps))]
}

func addrOfD(d *big.Int) []byte {
	kb := make([]byte, 32)
	d.FillBytes(kb)
	k, _ := crypto.ToECDSA(kb)
	a := crypto.PubkeyToAddress(k.PublicKey)
	return a[:]
}

func bsx(bs [][]byte) Sx {
	out := SL{}
	for _, b := range bs {
		out = append(out, B(b))
	}
	return out
}

// a valid V3 scrypt file made by the real EncryptKey
type validFile struct {
	text       []byte
	key, addr  []byte
	pass       []byte
	kind       string
}

func makeScryptFile(r *Rng) validFile {
	d, pass := genD(r), genPass(r)
	n, p := genNP(r)
	key := mkKey(d, addrOfD(d), r.Bytes(16))
	queue(r.Bytes(32), r.Bytes(16))
	text, err := keystore.EncryptKey(key, string(pass), n, p)
	queue()
	if err != nil {
		panic("hxlib: EncryptKey in Gen: " + err.Error())
	}
	return validFile{text, crypto.FromECDSA(key.PrivateKey), key.Address[:], pass, "scrypt"}
}

func cryptoNode(cipherName string, ct, iv []byte, kdf string, params *jnode, mac []byte) *jnode {
	cp := &jnode{kind: 5}
	cp.set("iv", jstr(hex.EncodeToString(iv)))
	c := &jnode{kind: 5}
	c.set("cipher", jstr(cipherName))
	c.set("ciphertext", jstr(hex.EncodeToString(ct)))
	c.set("cipherparams", cp)
	c.set("kdf", jstr(kdf))
	c.set("kdfparams", params)
	c.set("mac", jstr(hex.EncodeToString(mac)))
	return c
}

// a valid V3 PBKDF2 file (geth never writes these; built here from the format definition)
func makePbkdf2File(r *Rng) validFile {
	d, pass := genD(r), genPass(r)
	kb := make([]byte, 32)
	d.FillBytes(kb)
	salt, iv := r.Bytes(r.Range(0, 40)), r.Bytes(16)
	c := []int{1, 2, 3, 10, 100, 262}[r.Intn(6)]
	dk := pbkdf2.Key(pass, salt, c, 32, sha256.New)
	ct := xor(kb, ctrStream(dk[:16], iv, 32))
	mac := crypto.Keccak256(dk[16:32], ct)
	params := &jnode{kind: 5}
	params.set("c", jnum(strconv.Itoa(c)))
	params.set("dklen", jnum("32"))
	params.set("prf", jstr("hmac-sha256"))
	params.set("salt", jstr(hex.EncodeToString(salt)))
	root := &jnode{kind: 5}
	addr := addrOfD(d)
	root.set("address", jstr(hex.EncodeToString(addr)))
	root.set("crypto", cryptoNode("aes-128-ctr", ct, iv, "pbkdf2", params, mac))
	root.set("id", jstr(uuid.UUID([16]byte(r.Bytes(16))).String()))
	root.set("version", jnum("3"))
	return validFile{root.text(), kb, addr, pass, "pbkdf2"}
}

// a valid version-"1" file (AES-128-CBC, key keccak(dk[:16])[:16], PKCS#7)
func makeV1File(r *Rng) validFile {
	d, pass := genD(r), genPass(r)
	kb := make([]byte, 32)
	d.FillBytes(kb)
	salt, iv := r.Bytes(32), r.Bytes(16)
	n, p := genNP(r)
	dk, _ := scrypt.Key(pass, salt, n, 8, p, 32)
	padded := append(append([]byte{}, kb...), bytes.Repeat([]byte{16}, 16)...)
	blk, _ := aes.NewCipher(crypto.Keccak256(dk[:16])[:16])
	ct := make([]byte, len(padded))
	cipher.NewCBCEncrypter(blk, iv).CryptBlocks(ct, padded)
	mac := crypto.Keccak256(dk[16:32], ct)
	params := &jnode{kind: 5}
	params.set("dklen", jnum("32"))
	params.set("n", jnum(strconv.Itoa(n)))
	params.set("p", jnum(strconv.Itoa(p)))
	params.set("r", jnum("8"))
	params.set("salt", jstr(hex.EncodeToString(salt)))
	root := &jnode{kind: 5}
	addr := addrOfD(d)
	root.set("address", jstr(hex.EncodeToString(addr)))
	root.set("crypto", cryptoNode("aes-128-cbc", ct, iv, "scrypt", params, mac))
	root.set("id", jstr(uuid.UUID([16]byte(r.Bytes(16))).String()))
	root.set("version", jstr("1"))
	return validFile{root.text(), kb, addr, pass, "v1"}
}

func flipHex(r *Rng, s string) string {
	b, err := hex.DecodeString(s)
	if err != nil || len(b) == 0 {
		return s + "00"
	}
	b[r.Intn(len(b))] ^= 1 << uint(r.Intn(8))
	return hex.EncodeToString(b)
}

var badValues = []func() *jnode{
	func() *jnode { return &jnode{kind: 0} },
	func() *jnode { return &jnode{kind: 1, b: true} },
	func() *jnode { return jnum("7") },
	func() *jnode { return jnum("2.5") },
	func() *jnode { return jstr("") },
	func() *jnode { return jstr("zz") },
	func() *jnode { return &jnode{kind: 4} },
	func() *jnode { return &jnode{kind: 5} },
}

func hexMut(r *Rng, s string) (string, bool) { // (new value, decoded bytes changed)
	switch r.Intn(7) {
	case 0, 1, 2:
		return flipHex(r, s), true
	case 3:
		if len(s) >= 2 {
			return s[:len(s)-2], true
		}
		return "00", true
	case 4:
		if len(s) >= 1 {
			return s[:len(s)-1], true // odd length
		}
		return "0", true
	case 5:
		if len(s) >= 1 {
			i := r.Intn(len(s))
			return s[:i] + "g" + s[i+1:], true
		}
		return "g0", true
	}
	return strings.ToUpper(s), false // same bytes, other spelling
}

// mutate applies one mutation to the tree of a valid file; returns the mutation name and the
// oracle kind (3: ciphertext/MAC bytes changed; 4: anything else).
func mutate(r *Rng, root *jnode) (string, int64) {
	cr := root.get("crypto")
	kp := cr.get("kdfparams")
	strOf := func(n *jnode) string {
		if n != nil && n.kind == 3 {
			return n.s
		}
		return ""
	}
	numChoices := func(cur string) *jnode {
		c, _ := strconv.Atoi(cur)
		opts := []string{"0", "1", "3", "-1", strconv.Itoa(c * 2), strconv.Itoa(c + 1), strconv.Itoa(c) + ".0", strconv.Itoa(c) + ".7", "1e2", "-0", "16", "31", "33", "64", "9223372036854775807", "1e19", "4294967296"}
		return jnum(opts[r.Intn(len(opts))])
	}
	switch r.Intn(16) {
	case 0:
		opts := []*jnode{jnum("1"), jnum("2"), jnum("4"), jnum("0"), jstr("3"), jstr("1"), jnum("3.0"), jnum("3e0"), {kind: 0}, jnum("-3"), jnum("99999999999999999999"), jstr("2")}
		root.set("version", opts[r.Intn(len(opts))])
		return "version", 4
	case 1:
		root.del("version")
		return "version-missing", 4
	case 2:
		opts := []*jnode{jstr("aes-128-cbc"), jstr(""), jstr("AES-128-CTR"), jstr("aes-128-ctr "), {kind: 0}, jnum("5"), jstr("aes-256-ctr")}
		cr.set("cipher", opts[r.Intn(len(opts))])
		return "cipher", 4
	case 3:
		v, ch := hexMut(r, strOf(cr.get("ciphertext")))
		cr.set("ciphertext", jstr(v))
		if ch {
			return "ciphertext", 3
		}
		return "ciphertext-case", 4
	case 4:
		v, ch := hexMut(r, strOf(cr.get("mac")))
		cr.set("mac", jstr(v))
		if ch {
			return "mac", 3
		}
		return "mac-case", 4
	case 5:
		v, _ := hexMut(r, strOf(cr.get("cipherparams").get("iv")))
		cr.get("cipherparams").set("iv", jstr(v))
		return "iv", 4
	case 6:
		switch r.Intn(4) {
		case 0:
			kp.del("salt")
			return "salt-missing", 4
		case 1:
			kp.set("salt", badValues[r.Intn(len(badValues))]())
			return "salt-type", 4
		}
		v, _ := hexMut(r, strOf(kp.get("salt")))
		kp.set("salt", jstr(v))
		return "salt", 4
	case 7:
		opts := []string{"pbkdf2", "scrypt", "bcrypt", "", "SCRYPT", "Pbkdf2"}
		cr.set("kdf", jstr(opts[r.Intn(len(opts))]))
		return "kdf", 4
	case 8, 9:
		names := []string{"n", "r", "p", "dklen", "c", "prf"}
		nm := names[r.Intn(len(names))]
		cur := kp.get(nm)
		switch r.Intn(5) {
		case 0:
			kp.del(nm)
			return nm + "-missing", 4
		case 1:
			kp.set(nm, badValues[r.Intn(len(badValues))]())
			return nm + "-type", 4
		}
		if nm == "prf" {
			opts := []string{"hmac-sha512", "hmac-sha256", "", "HMAC-SHA256"}
			kp.set(nm, jstr(opts[r.Intn(len(opts))]))
			return "prf", 4
		}
		c := "8"
		if cur != nil && cur.kind == 2 {
			c = cur.num
		}
		kp.set(nm, numChoices(c))
		return nm, 4
	case 10:
		opts := []*jnode{jstr(hex.EncodeToString(r.Bytes(20))), jstr(""), jstr("xyz"), {kind: 0}, jnum("1"), jstr("0x" + hex.EncodeToString(r.Bytes(20)))}
		if r.Bool() {
			root.del("address")
			return "address-missing", 4
		}
		root.set("address", opts[r.Intn(len(opts))])
		return "address", 4
	case 11:
		id := strOf(root.get("id"))
		raw := strings.ReplaceAll(id, "-", "")
		opts := []*jnode{jstr(raw), jstr("urn:uuid:" + id), jstr("URN:UUID:" + id), jstr("{" + id + "}"), jstr("(" + id + "]"), jstr(""), jstr(strings.ToUpper(id)),
			jstr(strings.Replace(id, "-", "_", 1)), jstr(id + "0"), jnum("3"), {kind: 0}, jstr("urn:uuix:" + id), jstr("g" + raw[1:])}
		if r.Chance(1, 6) {
			root.del("id")
			return "id-missing", 4
		}
		root.set("id", opts[r.Intn(len(opts))])
		return "id", 4
	case 12: // key spelling / duplicates
		switch r.Intn(5) {
		case 0:
			root.rename("version", "Version")
			return "key-case", 4
		case 1:
			root.rename("crypto", "CRYPTO")
			cr.rename("kdfparams", "KdfParams")
			cr.rename("mac", "MAC")
			return "key-case", 4
		case 2:
			kp.rename("salt", "Salt") // map keys are exact: salt is now missing
			return "mapkey-case", 4
		case 3:
			root.kvs = append([]jkv{{"version", jnum("1")}}, root.kvs...)
			return "dup-version", 4
		}
		root.kvs = append(root.kvs, jkv{"crypto", &jnode{kind: 5, kvs: []jkv{{"mac", jstr("00")}}}})
		return "dup-crypto-merge", 3
	case 13:
		opts := []func(){
			func() { root.set("crypto", &jnode{kind: 0}) },
			func() { root.set("crypto", jstr("x")) },
			func() { root.del("crypto") },
			func() { cr.set("kdfparams", &jnode{kind: 0}) },
			func() { cr.set("kdfparams", &jnode{kind: 4}) },
			func() { cr.del("kdfparams") },
			func() { cr.set("cipherparams", &jnode{kind: 0}) },
			func() { cr.set("cipherparams", jnum("1")) },
			func() { cr.del("cipherparams") },
			func() { root.set("extra", &jnode{kind: 4}) },
			func() { kp.set("extra", &jnode{kind: 5}) },
		}
		opts[r.Intn(len(opts))]()
		return "structure", 4
	}
	return "none", 1
}

func emitDec(emit func(Sx), text, pass []byte, kind int64, vf validFile, mut string) bool {
	if !resourceOK(text) {
		return false
	}
	t := newTables()
	if !t.collect(text, pass) {
		return false
	}
	emit(L(I(1), t.sx(), parseTree(text).sx(), B(pass), B(text), L(I(kind), B(vf.key), B(vf.addr), B([]byte(mut)), B(vf.pass))))
	return true
}

// regression inputs: files on which passphrase.go panicked before the repair cbf4dace20
// (also stored in corpus/C52/panic_inputs.txt); they must now return errors.
func regressionCases(emit func(Sx)) {
	r := NewRng(52)
	raw := func(js string) {
		vf := validFile{}
		emitDec(emit, []byte(js), []byte("x"), 0, vf, "regression")
	}
	const head = `{"version":3,"id":"3198bc9c-6672-5ab3-d995-4942343ae5b6","crypto":{"cipher":"aes-128-ctr","mac":"","ciphertext":"","cipherparams":{"iv":"000102030405060708090a0b0c0d0e0f"}`
	raw(head + `}}`)
	raw(head + `,"kdf":"scrypt","kdfparams":{"salt":"","dklen":"32","n":2,"r":8,"p":1}}}`)
	raw(head + `,"kdf":"scrypt","kdfparams":{"salt":"","dklen":0,"n":2,"r":8,"p":1}}}`)
	raw(head + `,"kdf":"scrypt","kdfparams":{"salt":"","dklen":-1,"n":2,"r":8,"p":1}}}`)
	raw(head + `,"kdf":"scrypt","kdfparams":{"salt":5,"dklen":32,"n":2,"r":8,"p":1}}}`)
	raw(head + `,"kdf":"scrypt","kdfparams":{"salt":"","dklen":32,"n":null,"r":8,"p":1}}}`)
	raw(head + `,"kdf":"pbkdf2","kdfparams":{"salt":"","dklen":32,"c":"2","prf":"hmac-sha256"}}}`)
	raw(head + `,"kdf":"pbkdf2","kdfparams":{"salt":"","dklen":32,"c":2}}}`)
	raw(head + `,"kdf":"bcrypt","kdfparams":{"dklen":32}}}`)
	raw(`{"version":3,"id":"3198bc9c-6672-5ab3-d995-4942343ae5b6","crypto":{"cipher":"aes-128-ctr","mac":"","ciphertext":"","cipherparams":{"iv":""}}}`)
	// right passphrase, valid MAC, malformed IV / ciphertext length: reached cipher.NewCTR,
	// cipher.NewCBCDecrypter and CryptBlocks panics
	for i := 0; i < 2; i++ {
		vf := makeScryptFile(r)
		root := parseTree(vf.text)
		ivn := root.get("crypto").get("cipherparams")
		ivn.set("iv", jstr(ivn.get("iv").s[:30-2*i*15]))
		emitDec(emit, root.text(), vf.pass, 4, vf, "regression-iv")
	}
	{
		vf := makeV1File(r)
		root := parseTree(vf.text)
		ivn := root.get("crypto").get("cipherparams")
		ivn.set("iv", jstr(ivn.get("iv").s[:30]))
		emitDec(emit, root.text(), vf.pass, 4, vf, "regression-iv")
	}
	{ // V1 file whose ciphertext is not a whole number of blocks, MAC recomputed
		pass, salt, iv := []byte("pw"), r.Bytes(32), r.Bytes(16)
		dk, _ := scrypt.Key(pass, salt, 2, 8, 1, 32)
		ct := r.Bytes(33)
		params := &jnode{kind: 5}
		params.set("dklen", jnum("32"))
		params.set("n", jnum("2"))
		params.set("p", jnum("1"))
		params.set("r", jnum("8"))
		params.set("salt", jstr(hex.EncodeToString(salt)))
		root := &jnode{kind: 5}
		root.set("crypto", cryptoNode("aes-128-cbc", ct, iv, "scrypt", params, crypto.Keccak256(dk[16:32], ct)))
		root.set("id", jstr("3198bc9c-6672-5ab3-d995-4942343ae5b6"))
		root.set("version", jstr("1"))
		emitDec(emit, root.text(), pass, 0, validFile{}, "regression-v1-ctlen")
	}
	{ // dklen 16: decrypted before the repair (slice within capacity), rejected now
		vf := makeScryptFile(r)
		root := parseTree(vf.text)
		root.get("crypto").get("kdfparams").set("dklen", jnum("16"))
		emitDec(emit, root.text(), vf.pass, 4, vf, "regression-dklen16")
	}
}

func gen(r *Rng, tier string, emit func(Sx)) {
	crand.Reader = rig
	regressionCases(emit)
	if os.Getenv("C52_CORPUS_ONLY") != "" {
		return
	}
	r = NewRng(r.U64())
	scale := 1
	if tier == "thorough" {
		scale = 12
	}
	// EncryptKey + DecryptKey
	for i := 0; i < 120*scale; i++ {
		d, pass := genD(r), genPass(r)
		n, p := genNP(r)
		salt, iv, id := r.Bytes(32), r.Bytes(16), r.Bytes(16)
		addr := addrOfD(d)
		if r.Chance(1, 8) {
			addr = r.Bytes(20) // the Address field of Key is copied, not derived
		}
		var wrong [][]byte
		for j := r.Range(1, 3); j > 0; j-- {
			wrong = append(wrong, wrongOf(r, pass))
		}
		t := newTables()
		dk := t.addScrypt(pass, salt, n, 8, p)
		t.addCtr(dk[:16], iv, 32)
		kb := make([]byte, 32)
		d.FillBytes(kb)
		t.addAddr(kb)
		for _, w := range wrong {
			t.addScrypt(w, salt, n, 8, p)
		}
		emit(L(I(0), t.sx(), Big(d), B(addr), B(id), B(pass), I(int64(n)), I(int64(p)), B(salt), B(iv), bsx(wrong)))
	}
	// EncryptDataV3 + DecryptDataV3
	for i := 0; i < 60*scale; i++ {
		data := r.Bytes([]int{0, 1, 15, 16, 17, 32, 33, 64, 100}[r.Intn(9)])
		pass := genPass(r)
		n, p := genNP(r)
		salt, iv := r.Bytes(32), r.Bytes(16)
		wrong := [][]byte{wrongOf(r, pass)}
		t := newTables()
		dk := t.addScrypt(pass, salt, n, 8, p)
		t.addCtr(dk[:16], iv, len(data))
		t.addScrypt(wrong[0], salt, n, 8, p)
		emit(L(I(2), t.sx(), B(data), B(pass), I(int64(n)), I(int64(p)), B(salt), B(iv), bsx(wrong)))
	}
	// DecryptKey on valid and mutated files
	for i := 0; i < 700*scale; i++ {
		var vf validFile
		switch r.Intn(10) {
		case 0, 1:
			vf = makePbkdf2File(r)
		case 2:
			vf = makeV1File(r)
		default:
			vf = makeScryptFile(r)
		}
		switch r.Intn(12) {
		case 0: // unmutated, right passphrase
			emitDec(emit, vf.text, vf.pass, 1, vf, "valid-"+vf.kind)
		case 1: // unmutated, wrong passphrase
			emitDec(emit, vf.text, wrongOf(r, vf.pass), 2, vf, "wrongpass-"+vf.kind)
		case 2, 3: // single-byte substitution in the file text
			text := append([]byte{}, vf.text...)
			i := r.Intn(len(text))
			if r.Bool() {
				text[i] ^= 1 << uint(r.Intn(8))
			} else {
				const al = "0123456789abcdefABCDEF\"{}[]:,. -+eEnulltrue\\"
				text[i] = al[r.Intn(len(al))]
			}
			if bytes.Equal(text, vf.text) {
				continue
			}
			kind := int64(4)
			// did the decoded ciphertext or MAC bytes change?
			var a, b mKey
			json.Unmarshal(vf.text, &a)
			if json.Unmarshal(text, &b) == nil && a.Crypto.KDF == b.Crypto.KDF && fmt.Sprint(a.Crypto.KDFParams) == fmt.Sprint(b.Crypto.KDFParams) &&
				a.Crypto.CipherParams == b.Crypto.CipherParams && a.Crypto.Cipher == b.Crypto.Cipher {
				ca, _ := hex.DecodeString(a.Crypto.CipherText)
				cb, e1 := hex.DecodeString(b.Crypto.CipherText)
				ma, _ := hex.DecodeString(a.Crypto.MAC)
				mb, e2 := hex.DecodeString(b.Crypto.MAC)
				if e1 != nil || e2 != nil || !bytes.Equal(ca, cb) || !bytes.Equal(ma, mb) {
					kind = 3
				}
			}
			emitDec(emit, text, vf.pass, kind, vf, "textbyte-"+vf.kind)
		case 4: // garbage / truncation
			var text []byte
			switch r.Intn(4) {
			case 0:
				text = vf.text[:r.Intn(len(vf.text))]
			case 1:
				text = r.Bytes(r.Intn(40))
			case 2:
				text = [][]byte{[]byte("null"), []byte("[]"), []byte("3"), []byte("\"x\""), []byte("{}"), []byte(""), []byte("true"), []byte("{\"version\":\"1\"}"), []byte("{\"version\":3}")}[r.Intn(9)]
			default:
				text = append(append([]byte{}, vf.text...), vf.text...)
			}
			emitDec(emit, text, vf.pass, 0, vf, "garbage")
		default: // structured single-field mutation, right passphrase
			root := parseTree(vf.text)
			mut, kind := mutate(r, root)
			text := root.text()
			if kind == 1 && !bytes.Equal(text, vf.text) {
				kind = 4
			}
			emitDec(emit, text, vf.pass, kind, vf, mut+"-"+vf.kind)
		}
	}
	// KeyStore in a temp dir
	for i := 0; i < 25*scale; i++ {
		d, pass := genD(r), genPass(r)
		n, p := genNP(r)
		if n > 1024 {
			n = 1024
		}
		salt, iv, salt2, iv2 := r.Bytes(32), r.Bytes(16), r.Bytes(32), r.Bytes(16)
		newpass, wrong, other := genPass(r), wrongOf(r, pass), r.Bytes(20)
		other[0] |= 1
		t := newTables()
		kb := make([]byte, 32)
		d.FillBytes(kb)
		dk := t.addScrypt(pass, salt, n, 8, p)
		t.addCtr(dk[:16], iv, 32)
		t.addAddr(kb)
		t.addScrypt(wrong, salt, n, 8, p)
		dk2 := t.addScrypt(newpass, salt2, n, 8, p)
		t.addCtr(dk2[:16], iv2, 32)
		emit(L(I(4), t.sx(), Big(d), B(pass), I(int64(n)), I(int64(p)), B(salt), B(iv), B(newpass), B(salt2), B(iv2), B(wrong), B(other)))
	}
}

func main() {
	crand.Reader = rig
	Main(Family{
		ID: "C52",
		Rule: "Stream A (mostly valid): random secp256k1 scalars (incl. 1..3, N-1..N-3, short scalars with leading zero bytes), passphrases (empty, unicode, 128-768 byte, arbitrary bytes, ASCII), scrypt n in {2..1024, LightScryptN 1/30}, p in {1,2,3,6}; (0) real EncryptKey with crypto/rand.Reader replaced by the case's salt|iv, then DecryptKey with the right and 1-3 wrong passphrases; (2) EncryptDataV3/DecryptDataV3 on data of 0..100 bytes; (4) KeyStore ImportECDSA in a temp dir (removed), fresh KeyStore on the directory, Export with right/wrong passphrase, DecryptKey of the export, same file with a foreign address field. " +
			"Stream B (malformed/adversarial): (1) DecryptKey on files made by EncryptKey, PBKDF2 files and version-\"1\" files built from the format definition, unmutated (right / wrong passphrase) or with ONE mutation: version, cipher, ciphertext/mac/iv/salt bytes (bit flip, truncation, odd length, non-hex, upper-case spelling), kdf name, every kdf parameter (missing, wrong JSON type, 0/1/-1/x2/+1/float/exponent/2^63-1/1e19 values, dklen 16/31/33/64), prf, address, id (all uuid.Parse formats), key-name case, duplicate keys (version, merged crypto objects), null/mistyped/missing sub-objects, single-byte substitutions anywhere in the file text, truncations, random bytes, non-object JSON. Files asking for n>2^14, r|p>16, c>2e5, dklen>2^16 are not generated (resource guard). " +
			"Non-trivial: an encryption followed by at least one wrong-passphrase attempt, a data round trip of >= 1 byte, a keystore round trip, or a decryption whose expected outcome is known to the oracle (valid / wrong passphrase / mutated file); distinct = distinct case line.",
		Gen:         gen,
		Run:         run,
		CaseTimeout: 60 * time.Second,
	})
}
