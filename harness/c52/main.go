package main

import (
	"fmt"

	"github.com/ethereum/go-ethereum/accounts/keystore"
)

func try(name, js, pass string) {
	defer func() {
		if e := recover(); e != nil {
			fmt.Println(name, "PANIC:", e)
		}
	}()
	k, err := keystore.DecryptKey([]byte(js), pass)
	fmt.Println(name, k != nil, err)
}

func main() {
	try("nokdfparams", `{"version":3,"id":"3198bc9c-6672-5ab3-d995-4942343ae5b6","crypto":{"cipher":"aes-128-ctr","mac":"","ciphertext":"","cipherparams":{"iv":""}}}`, "x")
	try("dklen-string", `{"version":3,"id":"3198bc9c-6672-5ab3-d995-4942343ae5b6","crypto":{"cipher":"aes-128-ctr","mac":"","ciphertext":"","cipherparams":{"iv":""},"kdf":"scrypt","kdfparams":{"salt":"","dklen":"32","n":2,"r":8,"p":1}}}`, "x")
	try("dklen0", `{"version":3,"id":"3198bc9c-6672-5ab3-d995-4942343ae5b6","crypto":{"cipher":"aes-128-ctr","mac":"","ciphertext":"","cipherparams":{"iv":""},"kdf":"scrypt","kdfparams":{"salt":"","dklen":0,"n":2,"r":8,"p":1}}}`, "x")
	try("null", `null`, "x")
	try("dklen16", `{"version":3,"id":"3198bc9c-6672-5ab3-d995-4942343ae5b6","crypto":{"cipher":"aes-128-ctr","mac":"","ciphertext":"","cipherparams":{"iv":""},"kdf":"scrypt","kdfparams":{"salt":"","dklen":16,"n":2,"r":8,"p":1}}}`, "x")
}
