// Family c49: rpc server response bookkeeping (rpc/handler.go, json.go, subscription.go)
// vs coq/Rpc/Batch.v.  Raw JSON in, raw JSON out, through rpc.Server.ServeCodec on an
// in-memory connection (mode 0) or rpc.Server.ServeHTTP with a request timeout (mode 1).
//
// case    (mode item_limit resp_limit inv_size (message ...))     | probe (9 n timeout_us) | (8 n deadline_us)
// message (0 entry fire) | (1 (entry ...) fire)
// entry   (vsn idkind idtok method params result error out size sub late behav)
// See coq/Run/C49.v for the meaning of the fields shared with the model; behav selects the
// test method: 0 quick 1 fail 2 nosuch 3 big 4 badparams 5 block 6 subscribe.
package main

import (
	"bytes"
	"context"
	"encoding/json"
	"errors"
	"fmt"
	"io"
	"net/http"
	"net/http/httptest"
	"strconv"
	"strings"
	"sync"
	"sync/atomic"
	"time"

	. "gethverif/harness/hxlib"
	"github.com/ethereum/go-ethereum/rpc"
)

// ---------------------------------------------------------------- test service

type caseState struct {
	blockEntered atomic.Bool   // t_block was entered before the context was cancelled
	written      chan struct{} // closed at the first byte written to the client
	writtenOnce  sync.Once
	late         sync.WaitGroup // goroutines issuing Notify after the subscribe call returned
}

func (cs *caseState) markWritten() { cs.writtenOnce.Do(func() { close(cs.written) }) }

type svc struct{ cs *caseState }

func (s *svc) Quick(ctx context.Context) int         { return 1 }
func (s *svc) Fail(ctx context.Context) (int, error) { return 0, errors.New("boom") }
func (s *svc) Big(ctx context.Context, n int) string { return strings.Repeat("x", n) }

// Block returns only after the request context was cancelled by the timeout timer AND the
// timeout response reached the client (or 30 ms passed, for batches with nothing to answer).
func (s *svc) Block(ctx context.Context) int {
	if ctx.Err() == nil {
		s.cs.blockEntered.Store(true)
	}
	<-ctx.Done()
	select {
	case <-s.cs.written:
	case <-time.After(30 * time.Millisecond):
	}
	return 1
}

// Ev is the subscription "ev": k notifications before returning, j after.
func (s *svc) Ev(ctx context.Context, k, j int) (*rpc.Subscription, error) {
	n, ok := rpc.NotifierFromContext(ctx)
	if !ok {
		return nil, rpc.ErrNotificationsUnsupported
	}
	sub := n.CreateSubscription()
	for i := 0; i < k; i++ {
		n.Notify(sub.ID, i)
	}
	s.cs.late.Add(1)
	go func() {
		defer s.cs.late.Done()
		for i := k; i < k+j; i++ {
			n.Notify(sub.ID, i)
		}
	}()
	return sub, nil
}

// ---------------------------------------------------------------- case decoding

type entry struct {
	vsn                   bool
	idkind, idtok         int
	method                int
	params, result, error bool
	out, size             int
	sub, late             int
	behav                 int
}

func decEntry(x Sx) entry {
	l := AsList(x)
	if len(l) < 12 {
		panic("hxlib: entry needs 12 fields")
	}
	return entry{AsBool(l[0]), AsInt(l[1]), AsInt(l[2]), AsInt(l[3]), AsBool(l[4]), AsBool(l[5]), AsBool(l[6]),
		AsInt(l[7]), AsInt(l[8]), AsInt(l[9]), AsInt(l[10]), AsInt(l[11])}
}

func (e entry) sx() Sx {
	return L(Bool(e.vsn), I(int64(e.idkind)), I(int64(e.idtok)), I(int64(e.method)), Bool(e.params), Bool(e.result),
		Bool(e.error), I(int64(e.out)), I(int64(e.size)), I(int64(e.sub)), I(int64(e.late)), I(int64(e.behav)))
}

// the JSON-RPC 2.0 reading of an entry (the oracle's own classification, from the
// generator's features, independent of rpc/json.go)
func (e entry) validID() bool        { return e.idkind == 1 }
func (e entry) isCall() bool         { return e.vsn && e.validID() && e.method != 0 }
func (e entry) isNotification() bool { return e.vsn && e.idkind == 0 && e.method != 0 }
func (e entry) isResponse() bool {
	return e.vsn && e.validID() && e.method == 0 && !e.params && (e.result || e.error)
}

// entries the server neither executes nor answers: responses, and *_subscription notifications
func (e entry) dropped() bool { return e.isResponse() || (e.isNotification() && e.method == 2) }

func idText(kind, tok int) string {
	switch kind {
	case 1:
		if tok == 0 {
			return "null"
		}
		if tok%2 == 1 {
			return strconv.Itoa(tok)
		}
		return `"s` + strconv.Itoa(tok) + `"`
	case 2:
		if tok%2 == 1 {
			return `{"a":` + strconv.Itoa(tok) + `}`
		}
		return `[` + strconv.Itoa(tok) + `]`
	}
	return ""
}

var methodNames = []string{"t_quick", "t_fail", "t_nosuch", "t_big", "t_quick", "t_block", "t_subscribe"}

func (e entry) json() string {
	if !e.vsn && e.idkind == 0 && e.method == 0 && !e.params && !e.result && !e.error {
		switch e.idtok { // entries that are not objects at all decode to the zero message
		case 7:
			return "null"
		case 8:
			return "1"
		case 9:
			return `"str"`
		}
	}
	var parts []string
	if e.vsn {
		parts = append(parts, `"jsonrpc":"2.0"`)
	} else if e.idtok%2 == 1 {
		parts = append(parts, `"jsonrpc":"1.0"`)
	}
	if e.idkind != 0 {
		parts = append(parts, `"id":`+idText(e.idkind, e.idtok))
	}
	switch e.method {
	case 1:
		b := e.behav
		if b < 0 || b >= len(methodNames) {
			b = 0
		}
		parts = append(parts, `"method":"`+methodNames[b]+`"`)
		if e.params {
			switch b {
			case 3:
				parts = append(parts, `"params":[`+strconv.Itoa(e.size-2)+`]`)
			case 6:
				parts = append(parts, fmt.Sprintf(`"params":["ev",%d,%d]`, e.sub, e.late))
			default:
				parts = append(parts, `"params":[1]`)
			}
		}
	case 2:
		parts = append(parts, `"method":"t_subscription"`)
		if e.params {
			parts = append(parts, `"params":{"subscription":"0x1","result":1}`)
		}
	default:
		if e.params {
			parts = append(parts, `"params":[1]`)
		}
	}
	if e.result {
		parts = append(parts, `"result":7`)
	}
	if e.error {
		parts = append(parts, `"error":{"code":1,"message":"x"}`)
	}
	return "{" + strings.Join(parts, ",") + "}"
}

type message struct {
	batch   bool
	entries []entry
	fire    int
}

func decMessage(x Sx) message {
	l := AsList(x)
	if len(l) != 3 {
		panic("hxlib: message needs 3 fields")
	}
	m := message{fire: AsInt(l[2])}
	if AsInt(l[0]) == 1 {
		m.batch = true
		for _, e := range AsList(l[1]) {
			m.entries = append(m.entries, decEntry(e))
		}
	} else {
		m.entries = []entry{decEntry(l[1])}
	}
	return m
}

func (m message) json() string {
	if !m.batch {
		return m.entries[0].json()
	}
	var sb strings.Builder
	sb.WriteByte('[')
	for i, e := range m.entries {
		if i > 0 {
			sb.WriteByte(',')
		}
		sb.WriteString(e.json())
	}
	sb.WriteByte(']')
	return sb.String()
}

// ---------------------------------------------------------------- wire events

type reply struct {
	hasID bool
	tok   int
	kind  int
	subID string // result, when it is a string (a subscription id)
}

type event struct {
	kind    int // 0 single reply, 1 batch reply, 2 notification, 3 unparsable
	replies []reply
	subID   string
	seq     int
	epoch   int
}

func tokOf(raw json.RawMessage) int {
	s := strings.TrimSpace(string(raw))
	if s == "null" {
		return 0
	}
	s = strings.Trim(s, `{}[]"`)
	s = strings.TrimPrefix(s, `a":`)
	s = strings.TrimPrefix(s, "s")
	n, err := strconv.Atoi(s)
	if err != nil {
		return 999
	}
	return n
}

func classOf(code int) int {
	switch code {
	case -32600:
		return 1
	case -32601:
		return 2
	case -32602:
		return 3
	case -32000:
		return 4
	case -32002:
		return 5
	case -32003:
		return 6
	}
	return 7
}

func parseReply(obj map[string]json.RawMessage) reply {
	var r reply
	if id, ok := obj["id"]; ok {
		r.hasID = true
		r.tok = tokOf(id)
	}
	if e, ok := obj["error"]; ok {
		var je struct {
			Code int `json:"code"`
		}
		json.Unmarshal(e, &je)
		r.kind = classOf(je.Code)
	} else if res, ok := obj["result"]; ok {
		r.kind = 0
		var s string
		if json.Unmarshal(res, &s) == nil && strings.HasPrefix(s, "0x") {
			r.subID = s
		}
	} else {
		r.kind = 7
	}
	return r
}

func parseEvent(b []byte) event {
	t := bytes.TrimSpace(b)
	if len(t) > 0 && t[0] == '[' {
		var arr []map[string]json.RawMessage
		if json.Unmarshal(t, &arr) != nil {
			return event{kind: 3}
		}
		ev := event{kind: 1}
		for _, o := range arr {
			ev.replies = append(ev.replies, parseReply(o))
		}
		return ev
	}
	var obj map[string]json.RawMessage
	if json.Unmarshal(t, &obj) != nil {
		return event{kind: 3}
	}
	if _, ok := obj["method"]; ok {
		var p struct {
			ID     string `json:"subscription"`
			Result int    `json:"result"`
		}
		json.Unmarshal(obj["params"], &p)
		return event{kind: 2, subID: p.ID, seq: p.Result}
	}
	return event{kind: 0, replies: []reply{parseReply(obj)}}
}

type recorder struct {
	mu      sync.Mutex
	events  []event
	epoch   int
	replyCh chan struct{}
	cs      *caseState
}

func (r *recorder) record(b []byte) {
	ev := parseEvent(b)
	r.mu.Lock()
	ev.epoch = r.epoch
	r.events = append(r.events, ev)
	r.mu.Unlock()
	r.cs.markWritten()
	if ev.kind != 2 {
		select {
		case r.replyCh <- struct{}{}:
		default:
		}
	}
}

// in-memory rpc.Conn: requests come from a pipe, every Write is one wire event
type memConn struct {
	r   *io.PipeReader
	rec *recorder
}

func (c *memConn) Read(p []byte) (int, error)       { return c.r.Read(p) }
func (c *memConn) Write(p []byte) (int, error)      { c.rec.record(p); return len(p), nil }
func (c *memConn) Close() error                     { return c.r.CloseWithError(io.EOF) }
func (c *memConn) SetWriteDeadline(time.Time) error { return nil }

type httpRecorder struct {
	hdr http.Header
	rec *recorder
}

func (w *httpRecorder) Header() http.Header         { return w.hdr }
func (w *httpRecorder) WriteHeader(int)             {}
func (w *httpRecorder) Write(p []byte) (int, error) { w.rec.record(p); return len(p), nil }
func (w *httpRecorder) Flush()                      {}

// ---------------------------------------------------------------- running

func newServer(cs *caseState, il, rl int) *rpc.Server {
	srv := rpc.NewServer()
	if err := srv.RegisterName("t", &svc{cs}); err != nil {
		panic(err)
	}
	srv.SetBatchLimits(il, rl)
	return srv
}

func (m message) kept() []entry {
	var out []entry
	for _, e := range m.entries {
		if !e.dropped() {
			out = append(out, e)
		}
	}
	return out
}

// does the JSON-RPC reading of the message call for a reply?
func (m message) expectReply(il int) bool {
	if m.batch {
		if len(m.entries) == 0 || (il != 0 && len(m.entries) > il) {
			return true
		}
	}
	for _, e := range m.kept() {
		if !e.isNotification() {
			return true
		}
	}
	return false
}

func runCodec(msgs []message, il, rl int) []event {
	cs := &caseState{written: make(chan struct{})}
	rec := &recorder{replyCh: make(chan struct{}, 64), cs: cs}
	srv := newServer(cs, il, rl)
	pr, pw := io.Pipe()
	done := make(chan struct{})
	go func() {
		srv.ServeCodec(rpc.NewCodec(&memConn{pr, rec}), 0)
		close(done)
	}()
	for i, m := range msgs {
		rec.mu.Lock()
		rec.epoch = i
		rec.mu.Unlock()
		for len(rec.replyCh) > 0 {
			<-rec.replyCh
		}
		pw.Write([]byte(m.json() + "\n"))
		if m.expectReply(il) {
			select {
			case <-rec.replyCh:
			case <-time.After(3 * time.Second):
			}
		}
	}
	waitWG(&cs.late, 3*time.Second)
	pw.Close() // EOF: the server waits for all handler goroutines (and their activations), then closes
	select {
	case <-done:
	case <-time.After(5 * time.Second):
	}
	srv.Stop()
	rec.mu.Lock()
	defer rec.mu.Unlock()
	return append([]event{}, rec.events...)
}

func waitWG(wg *sync.WaitGroup, d time.Duration) {
	ch := make(chan struct{})
	go func() { wg.Wait(); close(ch) }()
	select {
	case <-ch:
	case <-time.After(d):
	}
}

func runHTTP(body string, il, rl int, timeout time.Duration) ([]event, bool) {
	return runHTTPCtx(body, il, rl, timeout, false)
}

// ownDeadline: instead of the server's WriteTimeout the request context itself carries a
// deadline (a caller-supplied context); ContextRequestTimeout then arms the timer for the
// same instant at which the context cancels itself
func runHTTPCtx(body string, il, rl int, timeout time.Duration, ownDeadline bool) ([]event, bool) {
	cs := &caseState{written: make(chan struct{})}
	rec := &recorder{replyCh: make(chan struct{}, 64), cs: cs}
	srv := newServer(cs, il, rl)
	req := httptest.NewRequest("POST", "/", strings.NewReader(body))
	req.Header.Set("content-type", "application/json")
	// the production HTTP path: ContextRequestTimeout derives the timeout from the
	// http.Server's WriteTimeout (minus 100 ms) found in the request context
	ctx := context.WithValue(req.Context(), http.ServerContextKey, &http.Server{WriteTimeout: 100*time.Millisecond + timeout})
	if ownDeadline {
		var cancel context.CancelFunc
		ctx, cancel = context.WithTimeout(req.Context(), timeout)
		defer cancel()
	}
	srv.ServeHTTP(&httpRecorder{http.Header{}, rec}, req.WithContext(ctx))
	srv.Stop()
	return rec.events, cs.blockEntered.Load()
}

// ---------------------------------------------------------------- observation + oracle

func replySx(r reply) Sx {
	id := L()
	if r.hasID {
		id = L(I(int64(r.tok)))
	}
	return L(id, I(int64(r.kind)))
}

// events of one message -> observable (replies in arrival order, then one notification
// group per created subscription, in entry order) and direct-oracle failures
func observe(m message, evs []event, il int, allEvents []event) (Sx, []string) {
	var fails []string
	obs := SL{}
	subOwner := map[string]int{} // subscription id -> id token of the subscribe call
	var batchReplies, singleReplies [][]reply
	for _, ev := range evs {
		switch ev.kind {
		case 0:
			obs = append(obs, L(I(0), replySx(ev.replies[0])))
			singleReplies = append(singleReplies, ev.replies)
		case 1:
			rs := SL{}
			for _, r := range ev.replies {
				rs = append(rs, replySx(r))
			}
			obs = append(obs, L(I(1), rs))
			batchReplies = append(batchReplies, ev.replies)
		case 3:
			obs = append(obs, L(I(3)))
			fails = append(fails, "unparsable bytes written")
		}
	}
	isSub := map[int]entry{}
	for _, e := range m.kept() {
		if e.behav == 6 && e.method == 1 && e.isCall() {
			isSub[e.idtok] = e
		}
	}
	for _, rs := range append(append([][]reply{}, batchReplies...), singleReplies...) {
		for _, r := range rs {
			if _, ok := isSub[r.tok]; ok && r.hasID && r.kind == 0 && r.subID != "" {
				subOwner[r.subID] = r.tok
			}
		}
	}
	for _, e := range m.kept() {
		if !(e.behav == 6 && e.method == 1 && e.isCall()) {
			continue
		}
		var sid string
		for s, t := range subOwner {
			if t == e.idtok {
				sid = s
			}
		}
		if sid == "" {
			continue
		}
		seqs := SL{}
		n := 0
		for _, ev := range allEvents {
			if ev.kind == 2 && ev.subID == sid {
				seqs = append(seqs, I(int64(ev.seq)))
				if ev.seq != n {
					fails = append(fails, fmt.Sprintf("notification %d of subscription of call %d arrived at position %d", ev.seq, e.idtok, n))
				}
				n++
			}
		}
		if n != e.sub+e.late {
			fails = append(fails, fmt.Sprintf("subscription of call %d delivered %d of %d notifications", e.idtok, n, e.sub+e.late))
		}
		obs = append(obs, L(I(2), I(int64(e.idtok)), seqs))
	}

	// the property, on the wire
	kept := m.kept()
	var answerable []entry
	for _, e := range kept {
		if !e.isNotification() {
			answerable = append(answerable, e)
		}
	}
	switch {
	case m.batch && len(m.entries) == 0:
		if len(singleReplies) != 1 || len(batchReplies) != 0 || singleReplies[0][0].kind != 1 {
			fails = append(fails, "empty batch not answered by exactly one invalid-request error")
		}
	case m.batch && il != 0 && len(m.entries) > il:
		if len(batchReplies) != 1 || len(singleReplies) != 0 || len(batchReplies[0]) != 1 || batchReplies[0][0].kind != 1 {
			fails = append(fails, "over-limit batch not answered by exactly one error")
		}
	case m.batch:
		if len(singleReplies) != 0 {
			fails = append(fails, "single reply written for a batch")
		}
		if len(batchReplies) > 1 {
			fails = append(fails, fmt.Sprintf("batch reply written %d times", len(batchReplies)))
		}
		if len(answerable) == 0 {
			if len(batchReplies) != 0 {
				fails = append(fails, "reply to a batch with nothing to answer (notifications/responses only)")
			}
		} else if len(batchReplies) == 0 {
			fails = append(fails, fmt.Sprintf("no reply for a batch with %d calls/invalid entries", len(answerable)))
		} else {
			rs := batchReplies[0]
			if len(rs) != len(answerable) {
				fails = append(fails, fmt.Sprintf("batch reply has %d responses for %d calls/invalid entries", len(rs), len(answerable)))
			}
			for i := 0; i < len(rs) && i < len(answerable); i++ {
				e := answerable[i]
				if e.isCall() {
					if !rs[i].hasID || rs[i].tok != e.idtok {
						fails = append(fails, fmt.Sprintf("response %d does not carry the id of call %d", i, e.idtok))
					}
				} else if rs[i].kind == 0 {
					fails = append(fails, fmt.Sprintf("invalid entry %d answered with a result", i))
				}
			}
		}
	default:
		if len(batchReplies) != 0 {
			fails = append(fails, "batch reply written for a single message")
		}
		e := m.entries[0]
		switch {
		case e.dropped() || e.isNotification():
			if len(singleReplies) != 0 {
				fails = append(fails, "reply written for a notification/response")
			}
		default:
			if len(singleReplies) != 1 {
				fails = append(fails, fmt.Sprintf("single message answered %d times", len(singleReplies)))
			} else if r := singleReplies[0][0]; e.isCall() && (!r.hasID || r.tok != e.idtok) {
				fails = append(fails, "single reply does not carry the call's id")
			} else if !e.isCall() && r.kind == 0 {
				fails = append(fails, "invalid single message answered with a result")
			}
		}
	}
	return obs, fails
}

// subscription notifications only after the reply that carries the subscription id
func notifOrder(all []event) []string {
	seen := map[string]bool{}
	var fails []string
	for _, ev := range all {
		switch ev.kind {
		case 0, 1:
			for _, r := range ev.replies {
				if r.subID != "" {
					seen[r.subID] = true
				}
			}
		case 2:
			if !seen[ev.subID] {
				fails = append(fails, "notification written before the subscribe response")
			}
		}
	}
	return fails
}

func runProbe(n, us int, ownDeadline bool) Result {
	if n < 1 || n > 50000 || us < 0 {
		panic("hxlib: probe needs 1 <= n <= 50000 and a non-negative timeout")
	}
	var sb strings.Builder
	sb.WriteByte('[')
	for i := 1; i <= n; i++ {
		if i > 1 {
			sb.WriteByte(',')
		}
		fmt.Fprintf(&sb, `{"jsonrpc":"2.0","id":%d,"method":"t_quick"}`, i)
	}
	sb.WriteByte(']')
	evs, _ := runHTTPCtx(sb.String(), 0, 0, time.Duration(us)*time.Microsecond, ownDeadline)
	res := Result{Tags: []string{"probe"}, NonTrivial: true}
	count, ok := 0, false
	timeouts := 0
	if len(evs) == 1 && evs[0].kind == 1 {
		rs := evs[0].replies
		count, ok = len(rs), true
		for i, r := range rs {
			if !r.hasID || r.tok != i+1 || (r.kind != 0 && r.kind != 5) {
				ok = false
			}
			if r.kind == 5 {
				timeouts++
			}
		}
	}
	res.Obs = L(I(int64(count)), Bool(ok))
	if (count != n || !ok) && ownDeadline {
		res.Oracle = fmt.Sprintf("C49-ctx-deadline: batch of %d calls, request context with its own %dus deadline: %d wire events, reply answers %d calls", n, us, len(evs), count)
	} else if count != n || !ok {
		res.Oracle = fmt.Sprintf("C49-timeout-race: batch of %d calls under a %dus timeout: %d wire events, reply answers %d calls", n, us, len(evs), count)
	}
	if timeouts > 0 && timeouts < n {
		res.Tags = append(res.Tags, "probe-timeout-midbatch")
	}
	return res
}

func run(c Sx) Result {
	top := AsList(c)
	if len(top) == 3 && AsInt(top[0]) == 9 {
		return runProbe(AsInt(top[1]), AsInt(top[2]), false)
	}
	if len(top) == 3 && AsInt(top[0]) == 8 {
		return runProbe(AsInt(top[1]), AsInt(top[2]), true)
	}
	if len(top) != 5 {
		panic("hxlib: case needs 5 fields")
	}
	mode, il, rl := AsInt(top[0]), AsInt(top[1]), AsInt(top[2])
	var msgs []message
	for _, x := range AsList(top[4]) {
		msgs = append(msgs, decMessage(x))
	}
	validate(mode, msgs)
	res := Result{}
	var all []event
	if mode == 0 {
		all = runCodec(msgs, il, rl)
		res.Tags = append(res.Tags, "codec")
	} else {
		if len(msgs) != 1 {
			panic("hxlib: HTTP case needs exactly one message")
		}
		res.Tags = append(res.Tags, "http")
		m := msgs[0]
		if m.fire < 0 {
			all, _ = runHTTP(m.json(), il, rl, 30*time.Second)
		} else {
			res.Tags = append(res.Tags, "timeout-fires")
			// the scripted schedule needs the timer to fire while t_block runs; if the
			// machine stalled before t_block was entered, retry with a longer timeout
			for _, d := range []time.Duration{20, 80, 320} {
				var entered bool
				all, entered = runHTTP(m.json(), il, rl, d*time.Millisecond)
				if entered {
					break
				}
			}
		}
	}
	obs := SL{}
	var fails []string
	classes := map[string]bool{}
	for i, m := range msgs {
		var evs []event
		for _, ev := range all {
			if ev.epoch == i && ev.kind != 2 {
				evs = append(evs, ev)
			}
		}
		o, f := observe(m, evs, il, all)
		obs = append(obs, o)
		fails = append(fails, f...)
		if m.batch {
			res.Tags = append(res.Tags, "batch")
			if len(m.entries) == 0 {
				res.Tags = append(res.Tags, "empty-batch")
			} else if il != 0 && len(m.entries) > il {
				res.Tags = append(res.Tags, "over-item-limit")
			}
		} else {
			res.Tags = append(res.Tags, "single")
		}
		for _, e := range m.entries {
			switch {
			case e.isResponse():
				classes["response"] = true
			case e.isNotification():
				classes["notification"] = true
			case e.isCall():
				classes["call"] = true
				if e.behav == 6 {
					classes["subscribe"] = true
				}
			default:
				classes["invalid"] = true
			}
		}
		for _, ev := range evs {
			for _, r := range ev.replies {
				if r.kind == 6 {
					classes["resp-too-large"] = true
				}
				if r.kind == 5 {
					classes["timeout-error"] = true
				}
			}
		}
	}
	fails = append(fails, notifOrder(all)...)
	for k := range classes {
		res.Tags = append(res.Tags, k)
	}
	res.Obs = obs
	if len(fails) > 0 {
		res.Oracle = "C49: " + strings.Join(fails, "; ")
	}
	res.NonTrivial = len(classes) >= 2
	return res
}

// ---------------------------------------------------------------- generator

func errSize(code int, msg string) int {
	b, _ := json.Marshal(struct {
		Code    int    `json:"code"`
		Message string `json:"message"`
	}{code, msg})
	return len(b)
}

var (
	subNotifSize = errSize(-32601, "the method t_subscription does not exist/is not available")
	invSize      = errSize(-32600, "invalid request")
	failSize     = errSize(-32000, "boom")
	nosuchSize   = errSize(-32601, "the method t_nosuch does not exist/is not available")
	badParSize   = errSize(-32602, "too many arguments, want at most 0")
)

// a well-formed call or notification of the given behaviour
func mkExec(r *Rng, behav int, tok int, notification bool) entry {
	e := entry{vsn: true, idkind: 1, idtok: tok, method: 1, sub: -1, behav: behav}
	if notification {
		e.idkind = 0
	}
	switch behav {
	case 0:
		e.out, e.size = 0, 1
	case 1:
		e.out, e.size = 4, failSize
	case 2:
		e.out, e.size = 2, nosuchSize
	case 3:
		n := r.Range(0, 60)
		e.out, e.size, e.params = 0, n+2, true
	case 4:
		e.out, e.size, e.params = 3, badParSize, true
	case 5:
		e.out, e.size = 0, 1
	case 6:
		e.out, e.size, e.params = 0, 0, true
		e.sub, e.late = r.Range(0, 3), r.Range(0, 3)
	}
	return e
}

// fixup restores the generator's conventions after feature flips: the service-behaviour
// fields follow from behav, and a subscribe entry is always a well-formed call
func fixup(e *entry) {
	if e.method != 1 {
		e.behav, e.sub, e.late, e.out, e.size = 0, -1, 0, 0, 0
		if e.method == 2 { // executed only when it carries an id: no such method
			e.out, e.size = 2, subNotifSize
		}
		return
	}
	if e.behav == 6 && !(e.vsn && e.idkind == 1) {
		e.behav = 0
	}
	switch e.behav {
	case 0:
		e.out, e.size, e.params, e.sub, e.late = 0, 1, false, -1, 0
	case 1:
		e.out, e.size, e.params, e.sub, e.late = 4, failSize, false, -1, 0
	case 2:
		e.out, e.size, e.params, e.sub, e.late = 2, nosuchSize, false, -1, 0
	case 3:
		if e.size < 2 {
			e.size = 2
		}
		e.out, e.params, e.sub, e.late = 0, true, -1, 0
	case 4:
		e.out, e.size, e.params, e.sub, e.late = 3, badParSize, true, -1, 0
	case 5:
		e.out, e.size, e.params, e.sub, e.late = 0, 1, false, -1, 0
	case 6:
		e.out, e.size, e.params = 0, 0, true
		if e.sub < 0 {
			e.sub = 0
		}
		if e.late < 0 {
			e.late = 0
		}
	default:
		e.behav = 0
		e.out, e.size, e.params, e.sub, e.late = 0, 1, false, -1, 0
	}
}

// validate rejects (as a harness shape error, never as an observation) cases outside the
// generator's conventions, which the shrinker can otherwise wander into
func validate(mode int, msgs []message) {
	bad := func(why string) { panic("hxlib: case outside the generator's conventions: " + why) }
	if mode == 1 && len(msgs) != 1 {
		bad("HTTP case needs exactly one message")
	}
	subToks := map[int]int{}
	toks := map[int]int{}
	for _, m := range msgs {
		if len(m.entries) == 0 && !m.batch {
			bad("single without entry")
		}
		blocks := 0
		keptBefore := 0
		for _, e := range m.entries {
			f := e
			fixup(&f)
			if f != e {
				bad("service-behaviour fields do not follow from behav")
			}
			if e.idkind != 0 {
				toks[e.idtok]++
			}
			if e.method == 1 && e.behav == 6 {
				if mode == 1 || e.sub > 8 || e.late > 8 {
					bad("subscribe entry")
				}
				subToks[e.idtok]++
			}
			if e.method == 1 && e.behav == 5 {
				blocks++
				if mode != 1 || m.fire != keptBefore || !(e.isCall() || e.isNotification()) {
					bad("blocking entry must be the executed entry at which the timer fires")
				}
			}
			if !e.dropped() {
				keptBefore++
			}
		}
		if (m.fire >= 0) != (blocks == 1) || blocks > 1 {
			bad("fire without exactly one blocking entry")
		}
	}
	for t, n := range subToks {
		if n > 1 || toks[t] > 1 {
			bad("subscribe call with a duplicated id")
		}
	}
}

func genEntry(r *Rng, nextTok *int, usedToks []int, allowSub bool, adversarial bool) entry {
	tok := *nextTok
	*nextTok++
	dup := false
	if len(usedToks) > 0 && r.Chance(1, 8) {
		tok = usedToks[r.Intn(len(usedToks))] // duplicate id
		dup = true
	}
	if r.Chance(1, 25) {
		tok = 0 // "id": null
		dup = true
	}
	behaviours := []int{0, 0, 0, 1, 2, 3, 3, 4}
	if allowSub && !dup {
		behaviours = append(behaviours, 6, 6)
	}
	var e entry
	switch x := r.Intn(20); {
	case x < 10: // call
		e = mkExec(r, behaviours[r.Intn(len(behaviours))], tok, false)
	case x < 14: // notification
		b := behaviours[r.Intn(len(behaviours))]
		if b == 6 {
			b = 0
		}
		e = mkExec(r, b, tok, true)
	case x < 16: // response (to a request we never sent)
		e = entry{vsn: true, idkind: 1, idtok: tok, sub: -1, result: r.Bool()}
		e.error = !e.result || r.Chance(1, 4)
	case x < 17: // subscription notification addressed to a client
		e = entry{vsn: true, idkind: 0, idtok: tok, method: 2, params: r.Bool(), sub: -1}
	default: // invalid request
		e = entry{vsn: r.Bool(), idkind: r.Intn(3), idtok: tok, method: r.Intn(2), params: r.Bool(), result: r.Chance(1, 4), error: r.Chance(1, 4), sub: -1}
		if e.isCall() || e.isNotification() || e.isResponse() {
			e.vsn = false
		}
		if r.Chance(1, 5) {
			e = entry{idtok: 7 + r.Intn(3), sub: -1} // null, 1, "str"
		}
		if e.method == 1 {
			e.out, e.size = 0, 1
		}
	}
	if adversarial && r.Chance(1, 2) {
		switch r.Intn(6) {
		case 0:
			e.vsn = !e.vsn
		case 1:
			e.idkind = r.Intn(3)
		case 2:
			e.method = r.Intn(3)
		case 3:
			e.result = !e.result
		case 4:
			e.error = !e.error
		case 5:
			if e.method != 1 {
				e.params = !e.params
			}
		}
	}
	fixup(&e)
	return e
}

func genMessage(r *Rng, nextTok *int, allowSub, adversarial bool) (message, bool) {
	hasSub := false
	var used []int
	if r.Chance(1, 4) {
		e := genEntry(r, nextTok, nil, allowSub, adversarial)
		return message{entries: []entry{e}, fire: -1}, e.behav == 6
	}
	n := r.Range(0, 7)
	if r.Chance(1, 12) {
		n = r.Range(8, 14)
	}
	m := message{batch: true, fire: -1}
	for i := 0; i < n; i++ {
		e := genEntry(r, nextTok, used, allowSub, adversarial)
		if e.behav == 6 {
			hasSub = true
		} else if e.idkind != 0 {
			used = append(used, e.idtok) // ids that may be duplicated by later entries
		}
		m.entries = append(m.entries, e)
	}
	return m, hasSub
}

// sum of response sizes of the answerable kept entries, to place the response limit
func respSizes(m message) []int {
	var out []int
	for _, e := range m.kept() {
		if e.isNotification() {
			continue
		}
		if e.isCall() {
			out = append(out, e.size)
		} else {
			out = append(out, invSize)
		}
	}
	return out
}

func emitCase(emit func(Sx), mode, il, rl int, msgs []message) {
	ms := SL{}
	for _, m := range msgs {
		if m.batch {
			es := SL{}
			for _, e := range m.entries {
				es = append(es, e.sx())
			}
			ms = append(ms, L(I(1), es, I(int64(m.fire))))
		} else {
			ms = append(ms, L(I(0), m.entries[0].sx(), I(int64(m.fire))))
		}
	}
	emit(L(I(int64(mode)), I(int64(il)), I(int64(rl)), I(int64(invSize)), ms))
}

func pickLimits(r *Rng, msgs []message, hasSub bool) (il, rl int) {
	m := msgs[r.Intn(len(msgs))]
	if r.Chance(1, 3) && m.batch {
		il = len(m.entries) + r.Range(-1, 1)
		if il < 0 {
			il = 0
		}
	} else if r.Chance(1, 6) {
		il = r.Range(1, 4)
	}
	if !hasSub && r.Chance(1, 3) {
		sizes := respSizes(m)
		sum := 0
		var sums []int
		for _, s := range sizes {
			sum += s
			sums = append(sums, sum)
		}
		if len(sums) > 0 {
			rl = sums[r.Intn(len(sums))] + r.Range(-1, 1)
			if rl < 0 {
				rl = 0
			}
		}
	}
	return
}

func gen(r *Rng, tier string, emit func(Sx)) {
	scale := 1
	if tier == "thorough" {
		scale = 10
	}
	// race probes first: a batch of trivial calls whose timeout fires between calls
	for i := 0; i < 60*scale; i++ {
		emit(L(I(9), I(int64(r.Range(800, 2000))), I(int64(r.Range(100, 1000)))))
	}
	// the same batches under a request context that carries its own deadline
	for i := 0; i < 40*scale; i++ {
		emit(L(I(8), I(int64(r.Range(800, 2000))), I(int64(r.Range(100, 1000)))))
	}
	// connections served by ServeCodec: sequences of singles and batches, no timeouts
	for i := 0; i < 1200*scale; i++ {
		adversarial := i%3 == 2
		nextTok := 1
		var msgs []message
		hasSub := false
		for k := r.Range(1, 3); k > 0; k-- {
			m, s := genMessage(r, &nextTok, true, adversarial)
			msgs = append(msgs, m)
			hasSub = hasSub || s
		}
		il, rl := pickLimits(r, msgs, hasSub)
		emitCase(emit, 0, il, rl, msgs)
	}
	// HTTP requests with a configured timeout that does not fire
	for i := 0; i < 300*scale; i++ {
		nextTok := 1
		m, _ := genMessage(r, &nextTok, false, i%3 == 2)
		il, rl := pickLimits(r, []message{m}, false)
		emitCase(emit, 1, il, rl, []message{m})
	}
	// HTTP requests whose timeout fires while a blocking call executes
	for i := 0; i < 100*scale; i++ {
		nextTok := 1
		m, _ := genMessage(r, &nextTok, false, i%3 == 2)
		il := 0
		if m.batch && r.Chance(1, 4) {
			il = len(m.entries) + 1 + r.Intn(2)
		}
		if !m.batch {
			// single: a blocking call, or a blocking notification (which must stay unanswered
			// even though its request times out)
			tok := nextTok
			m.entries = []entry{mkExec(r, 5, tok, r.Chance(1, 3))}
			m.fire = 0
		} else {
			pos := r.Intn(len(m.entries) + 1)
			blk := mkExec(r, 5, nextTok, r.Chance(1, 5))
			es := append([]entry{}, m.entries[:pos]...)
			es = append(es, blk)
			es = append(es, m.entries[pos:]...)
			m.entries = es
			m.fire = 0
			for _, e := range m.entries[:pos] {
				if !e.dropped() {
					m.fire++
				}
			}
		}
		emitCase(emit, 1, il, 0, []message{m})
	}
}

func main() {
	Main(Family{
		ID: "C49",
		Rule: "probes: 60 batches of 800-2000 trivial calls under a 0.1-1 ms HTTP timeout (all ids must be answered exactly once), 40 more where the request context carries its own 0.1-1 ms deadline; " +
			"connections (ServeCodec, in-memory) carrying 1-3 messages, each a single entry or a batch of 0-14 entries drawn from " +
			"calls (quick/failing/unknown method/large result/bad params/subscribe with buffered+late notifications), notifications, " +
			"responses, *_subscription notifications, invalid requests (bad version, object/array id, no method, non-object), duplicate and null ids, " +
			"item limit around the batch length and response-size limit around the cumulative sizes; every third case feature-flipped; " +
			"HTTP requests with a timeout that does not fire, and with a timeout that fires while a blocking call (any position) executes. " +
			"Non-trivial: the case mixes at least two entry classes or is a probe.",
		Gen: gen,
		Run: run,
	})
}
