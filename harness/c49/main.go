package main

import (
	"context"
	"encoding/json"
	"fmt"
	"net/http"
	"net/http/httptest"
	"os"
	"strings"
	"time"

	"github.com/ethereum/go-ethereum/rpc"
)

type svc struct{}

func (svc) Quick(ctx context.Context) int { return 1 }
func (svc) Spin(ctx context.Context, us int) int {
	t := time.Now()
	for time.Since(t) < time.Duration(us)*time.Microsecond {
	}
	return 1
}
func (svc) Wait(ctx context.Context) int { <-ctx.Done(); return 2 }

func main() {
	mode := os.Args[1]
	srv := rpc.NewServer()
	srv.RegisterName("t", svc{})
	srv.SetBatchLimits(0, 0)
	n := 20000
	var sb strings.Builder
	sb.WriteString("[")
	for i := 0; i < n; i++ {
		if i > 0 {
			sb.WriteString(",")
		}
		if mode == "wait" && i == 5 {
			fmt.Fprintf(&sb, `{"jsonrpc":"2.0","id":%d,"method":"t_wait"}`, i)
		} else {
			fmt.Fprintf(&sb, `{"jsonrpc":"2.0","id":%d,"method":"t_quick"}`, i)
		}
	}
	sb.WriteString("]")
	body := sb.String()
	bad, empty, full, timeouts := 0, 0, 0, 0
	for it := 0; it < 300; it++ {
		req := httptest.NewRequest("POST", "/", strings.NewReader(body))
		req.Header.Set("content-type", "application/json")
		ctx := req.Context()
		d := time.Duration(500+it*37%3000) * time.Microsecond
		var cancel context.CancelFunc = func() {}
		if mode == "deadline" {
			ctx, cancel = context.WithTimeout(ctx, d)
		} else {
			ctx = context.WithValue(ctx, http.ServerContextKey, &http.Server{WriteTimeout: 100*time.Millisecond + d})
		}
		req = req.WithContext(ctx)
		w := httptest.NewRecorder()
		srv.ServeHTTP(w, req)
		cancel()
		out := w.Body.Bytes()
		if len(out) == 0 {
			empty++
			continue
		}
		var resp []json.RawMessage
		if err := json.Unmarshal(out, &resp); err != nil {
			fmt.Println("unparsable", err, len(out))
			continue
		}
		if strings.Contains(string(out), "timed out") {
			timeouts++
		}
		if len(resp) != n {
			bad++
			if bad < 5 {
				fmt.Println("partial batch:", len(resp), "of", n, "timeout", d)
			}
		} else {
			full++
		}
	}
	fmt.Println("mode", mode, "empty", empty, "partial", bad, "full", full, "withTimeoutErr", timeouts)
}
