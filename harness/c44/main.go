// Family c44: p2p/rlpx (Conn.Read/Write, readFrame/writeFrame, hashMAC, readBuffer,
// handshake) vs coq/Net/Rlpx.v.
//
//	kind 0  framing session with fixed secrets (rlpx.InitWithSecrets): a real sender Conn and a
//	        real receiver Conn over net.Pipe()s through a proxy that records the wire, optionally
//	        tampers (xor a byte, cut, swap/drop/replay frames) and re-chunks it arbitrarily.
//	        Compared with the model: the exact wire bytes of every frame (the model computes AES-CTR,
//	        the AES/Keccak MAC and the framing itself from the secrets), every delivered
//	        (code, data, wireSize) and the class of the terminating error.
//	kind 1  full handshake between two random keys through a streaming two-way proxy (random
//	        re-chunking incl. coalescing authResp with frames, one modified byte in a handshake
//	        packet or in the frame stream), then messages both ways.  Compared with the model:
//	        handshake outcome, number of messages delivered per direction, MAC error class
//	        (the model predicts them from the frame layout).
//	kind 2  crafted handshake packets carrying an off-curve / out-of-range public key
//	        (InitiatorPubkey in auth, RandomPubkey in authResp, ECIES ephemeral key).
//	        Compared with the model: accept / invalid-public-key / decrypt-error class
//	        (the model evaluates the secp256k1 curve equation).
//	kind 3  messages around the 2^24 limit (real 16 MiB writes): size decision, frame size,
//	        wire length and decrypted header bytes.
package main

import (
	"bytes"
	"crypto/aes"
	"crypto/cipher"
	"crypto/ecdsa"
	"crypto/rand"
	"encoding/binary"
	"errors"
	"fmt"
	"hash"
	"io"
	"math/big"
	"net"
	"strings"
	"sync"
	"time"

	"github.com/ethereum/go-ethereum/crypto"
	"github.com/ethereum/go-ethereum/crypto/ecies"
	"github.com/ethereum/go-ethereum/crypto/keccak"
	"github.com/ethereum/go-ethereum/p2p/rlpx"
	"github.com/ethereum/go-ethereum/rlp"
	"github.com/golang/snappy"
	. "gethverif/harness/hxlib"
)

const maxU24 = 1<<24 - 1

func intSize(c uint64) int {
	if c < 128 {
		return 1
	}
	n := 0
	for ; c > 0; c >>= 8 {
		n++
	}
	return 1 + n
}
func roundup16(n int) int {
	if n%16 != 0 {
		n += 16 - n%16
	}
	return n
}
func frameLen(fsize int) int { return 32 + roundup16(fsize) + 16 }

func errClass(err error) int {
	switch {
	case err == nil:
		return 0
	case errors.Is(err, io.EOF), errors.Is(err, io.ErrClosedPipe):
		return 1
	case errors.Is(err, io.ErrUnexpectedEOF):
		return 2
	case errors.Is(err, io.ErrShortBuffer):
		return 3
	case errors.Is(err, snappy.ErrCorrupt), errors.Is(err, snappy.ErrTooLarge), errors.Is(err, snappy.ErrUnsupported):
		return 8
	case errors.Is(err, ecies.ErrInvalidPublicKey):
		return 12
	case errors.Is(err, ecies.ErrInvalidMessage):
		return 10
	}
	s := err.Error()
	switch {
	case s == "bad header MAC":
		return 4
	case s == "bad frame MAC":
		return 5
	case strings.HasPrefix(s, "invalid message code"):
		return 6
	case s == "message length >= 16MB":
		return 7
	case s == "message too big":
		return 9
	case s == "invalid secp256k1 public key":
		return 12
	case strings.HasPrefix(s, "ecies:"):
		return 10
	case strings.HasPrefix(s, "rlp:"):
		return 11
	}
	return 99
}

type msg struct {
	code uint64
	data []byte
}
type rmsg struct {
	code uint64
	data []byte
	wsz  int
}
type wres struct {
	sz  uint32
	err error
}

func parseMsgs(v Sx) []msg {
	var out []msg
	for _, m := range AsList(v) {
		ml := AsList(m)
		out = append(out, msg{AsU64(ml[0]), AsBytes(ml[1])})
	}
	return out
}

func macHash(init []byte) hash.Hash {
	h := keccak.NewLegacyKeccak256()
	h.Write(init)
	return h
}

// ---------------------------------------------------------------- kind 0

func runSession(l SL) Result {
	flags := AsInt(l[1])
	aesK, macK, macInit := AsBytes(l[2]), AsBytes(l[3]), AsBytes(l[4])
	msgs := parseMsgs(l[5])
	var chunks []int
	for _, c := range AsList(l[8]) {
		chunks = append(chunks, AsInt(c))
	}
	tl := AsList(l[9])
	op, ta, tb := AsInt(tl[0]), AsInt(tl[1]), AsInt(tl[2])
	okLen := func(n int) bool { return n == 16 || n == 24 || n == 32 }
	if !okLen(len(aesK)) || !okLen(len(macK)) {
		panic("hxlib: AES/MAC secret of invalid length (not a session InitWithSecrets accepts)")
	}

	sEnd, pIn := net.Pipe()
	pOut, rEnd := net.Pipe()
	sc := rlpx.NewConn(sEnd, nil)
	sc.InitWithSecrets(rlpx.Secrets{AES: aesK, MAC: macK, EgressMAC: macHash(macInit), IngressMAC: macHash(nil)})
	sc.SetSnappy(flags&1 != 0)
	rc := rlpx.NewConn(rEnd, nil)
	rc.InitWithSecrets(rlpx.Secrets{AES: aesK, MAC: macK, EgressMAC: macHash(nil), IngressMAC: macHash(macInit)})
	rc.SetSnappy(flags&2 != 0)

	// sender -> proxy: the proxy records the complete wire
	wr := make([]wres, len(msgs))
	var panicked interface{}
	go func() {
		defer sEnd.Close()
		defer func() { panicked = recover() }()
		for i, m := range msgs {
			sz, err := sc.Write(m.code, append([]byte{}, m.data...))
			wr[i] = wres{sz, err}
		}
	}()
	wire, _ := io.ReadAll(pIn)
	if panicked != nil {
		panic(panicked)
	}

	// frame boundaries from the sizes the writer reported
	var fails []string
	var frames [][]byte
	var sent []msg
	var sentSz []int
	off := 0
	for i, m := range msgs {
		if wr[i].err != nil {
			continue
		}
		fl := frameLen(intSize(m.code) + int(wr[i].sz))
		if off+fl > len(wire) {
			fails = append(fails, "wire shorter than the frames written")
			break
		}
		frames = append(frames, wire[off:off+fl])
		off += fl
		sent = append(sent, m)
		sentSz = append(sentSz, int(wr[i].sz))
	}
	if off != len(wire) {
		fails = append(fails, fmt.Sprintf("wire length %d != sum of frame lengths %d", len(wire), off))
	}

	// tamper
	cat := func(fs [][]byte) []byte { return bytes.Join(fs, nil) }
	var w2 []byte
	intact := len(frames) // number of leading frames that must still be delivered
	wantErr := []int{1}   // admissible terminal error classes
	switch op {
	case 1:
		if tb&0xff == 0 || ta >= len(wire) {
			panic("hxlib: tamper modifies nothing")
		}
		w2 = append([]byte{}, wire...)
		if ta < len(w2) {
			w2[ta] ^= byte(tb)
			p := 0
			for i, f := range frames {
				if ta < p+len(f) {
					intact = i
					break
				}
				p += len(f)
			}
			wantErr = []int{4, 5}
		}
	case 2:
		if ta > len(wire) {
			ta = len(wire)
		}
		w2 = wire[:ta]
		p := 0
		intact = 0
		for _, f := range frames {
			if p+len(f) <= ta {
				intact++
			}
			p += len(f)
		}
		wantErr = []int{1, 2}
	case 3:
		if ta >= len(frames) || tb >= len(frames) {
			panic("hxlib: frame index out of range")
		}
		fs := append([][]byte{}, frames...)
		fs[ta], fs[tb] = fs[tb], fs[ta]
		w2 = cat(fs)
		if ta != tb {
			intact = min(ta, tb)
			wantErr = []int{4, 5}
		}
	case 4:
		if ta >= len(frames) {
			panic("hxlib: frame index out of range")
		}
		fs := append(append([][]byte{}, frames[:ta]...), frames[ta+1:]...)
		w2 = cat(fs)
		intact = ta
		if ta != len(frames)-1 {
			wantErr = []int{4, 5}
		}
	case 5:
		if ta >= len(frames) {
			panic("hxlib: frame index out of range")
		}
		fs := append(append(append([][]byte{}, frames[:ta+1]...), frames[ta]), frames[ta+1:]...)
		w2 = cat(fs)
		intact = ta + 1
		wantErr = []int{4, 5}
	default:
		w2 = wire
	}

	// proxy -> receiver in the prescribed fragments
	done := make(chan struct{})
	go func() {
		defer close(done)
		defer pOut.Close()
		rest := w2
		for _, n := range chunks {
			if n > len(rest) {
				n = len(rest)
			}
			if _, err := pOut.Write(rest[:n]); err != nil {
				return
			}
			rest = rest[n:]
		}
		pOut.Write(rest)
	}()
	var got []rmsg
	var rerr error
	for i := 0; i < len(msgs)+2; i++ {
		code, data, wsz, err := rc.Read()
		if err != nil {
			rerr = err
			break
		}
		got = append(got, rmsg{code, append([]byte{}, data...), wsz})
	}
	rEnd.Close()
	<-done

	// observables
	var wobs, robs []Sx
	k := 0
	for i := range msgs {
		if wr[i].err != nil {
			wobs = append(wobs, L(I(1), I(int64(errClass(wr[i].err)))))
			continue
		}
		if k < len(frames) {
			wobs = append(wobs, L(I(0), I(int64(wr[i].sz)), B(frames[k])))
		}
		k++
	}
	for _, g := range got {
		robs = append(robs, L(U(g.code), B(g.data), I(int64(g.wsz))))
	}
	// io.EOF / io.ErrUnexpectedEOF depend on how much an earlier read buffered (capacity chosen by
	// Go's append in readBuffer.grow): one observable class
	ecObs := errClass(rerr)
	if ecObs == 2 {
		ecObs = 1
	}
	res := Result{Obs: L(SL(wobs), SL(robs), I(int64(ecObs)))}

	// direct oracle (only for matching compression settings; a mismatch is an adversarial peer)
	matched := (flags&1 != 0) == (flags&2 != 0)
	if matched {
		if len(got) != intact {
			fails = append(fails, fmt.Sprintf("delivered %d messages, expected exactly the %d intact leading ones", len(got), intact))
		}
		for i, g := range got {
			if i >= len(sent) {
				fails = append(fails, "delivered more messages than were sent")
				break
			}
			if g.code != sent[i].code || !bytes.Equal(g.data, sent[i].data) || g.wsz != sentSz[i] {
				fails = append(fails, fmt.Sprintf("message %d delivered altered (code %d vs %d, %d vs %d bytes)", i, g.code, sent[i].code, len(g.data), len(sent[i].data)))
			}
		}
		ec := errClass(rerr)
		ok := false
		for _, w := range wantErr {
			ok = ok || ec == w
		}
		if !ok {
			fails = append(fails, fmt.Sprintf("terminal error class %d (%v), expected one of %v", ec, rerr, wantErr))
		}
		for i := range msgs {
			if wr[i].err != nil {
				fails = append(fails, fmt.Sprintf("write %d of an in-limit message failed: %v", i, wr[i].err))
			}
		}
	}
	if len(fails) > 0 {
		res.Oracle = strings.Join(fails, "; ")
	}
	res.Tags = append(res.Tags, fmt.Sprintf("k0-op%d", op), fmt.Sprintf("k0-msgs%d", min(len(msgs), 5)), fmt.Sprintf("k0-flags%d", flags), fmt.Sprintf("k0-err%d", errClass(rerr)))
	for _, m := range msgs {
		switch n := len(m.data) + intSize(m.code); {
		case n%16 == 0:
			res.Tags = append(res.Tags, "k0-pad0")
		case n%16 == 1:
			res.Tags = append(res.Tags, "k0-pad15")
		case n%16 == 15:
			res.Tags = append(res.Tags, "k0-pad1")
		}
		if m.code >= 128 {
			res.Tags = append(res.Tags, "k0-bigcode")
		}
		if len(m.data) >= 1024 {
			res.Tags = append(res.Tags, "k0-1k")
		}
	}
	if len(chunks) > 8 {
		res.Tags = append(res.Tags, "k0-manychunks")
	}
	res.NonTrivial = len(got) > 0 || (op != 0 && rerr != nil)
	return res
}

// ---------------------------------------------------------------- kind 1

// halfConn is a net.Conn made of two net.Pipe ends used in one direction each, so that the
// write side can be closed (like TCP CloseWrite) without ending the read side.
type halfConn struct {
	rd, wr net.Conn
}

func (h *halfConn) Read(p []byte) (int, error)       { return h.rd.Read(p) }
func (h *halfConn) Write(p []byte) (int, error)      { return h.wr.Write(p) }
func (h *halfConn) Close() error                     { h.rd.Close(); return h.wr.Close() }
func (h *halfConn) LocalAddr() net.Addr              { return h.rd.LocalAddr() }
func (h *halfConn) RemoteAddr() net.Addr             { return h.rd.RemoteAddr() }
func (h *halfConn) SetDeadline(time.Time) error      { return nil }
func (h *halfConn) SetReadDeadline(time.Time) error  { return nil }
func (h *halfConn) SetWriteDeadline(time.Time) error { return nil }

type proxyDir struct {
	in, out      net.Conn
	plan         []int
	region       int // -1 none, 0 handshake packet, 1 frame stream
	off          int
	mask         byte
	forceHsBound bool
	closeAfterHs bool
	hsLen        int
	total        int
	tamperedAt   int
}

func (p *proxyDir) run(wg *sync.WaitGroup) {
	defer wg.Done()
	buf := make([]byte, 1<<16)
	var pending []byte
	emitted, pi := 0, 0
	dead := false
	p.tamperedAt = -1
	write := func(b []byte) {
		if !dead {
			c := append([]byte{}, b...)
			if p.hsLen > 0 && p.region >= 0 {
				abs := p.hsLen + p.off
				if p.region == 0 {
					abs = p.off % p.hsLen
				}
				if abs >= emitted && abs < emitted+len(c) {
					c[abs-emitted] ^= p.mask
					p.tamperedAt = abs
				}
			}
			if _, err := p.out.Write(c); err != nil {
				dead = true
			}
		}
		emitted += len(b)
		if p.closeAfterHs && emitted == p.hsLen && !dead {
			p.out.Close()
			dead = true
		}
	}
	emit := func(final bool) {
		for len(pending) > 0 {
			sz := p.plan[pi%len(p.plan)]
			if p.forceHsBound && p.hsLen > 0 && emitted < p.hsLen && emitted+sz > p.hsLen {
				sz = p.hsLen - emitted
			}
			if len(pending) < sz {
				if final || (p.forceHsBound && p.hsLen > 0 && emitted+len(pending) == p.hsLen) {
					sz = len(pending)
				} else {
					return
				}
			}
			write(pending[:sz])
			pending = pending[sz:]
			pi++
		}
	}
	for {
		n, err := p.in.Read(buf)
		if n > 0 {
			pending = append(pending, buf[:n]...)
			p.total += n
			if p.hsLen == 0 && len(pending) >= 2 && emitted == 0 {
				p.hsLen = 2 + int(binary.BigEndian.Uint16(pending[:2]))
			}
			emit(false)
		}
		if err != nil {
			emit(true)
			p.out.Close()
			return
		}
	}
}

type sideRes struct {
	hsErr  error
	remote *ecdsa.PublicKey
	eg, in []byte
	wr     []wres
	got    []rmsg
	rerr   error
	pan    interface{}
}

func runSide(conn *rlpx.Conn, hc *halfConn, key *ecdsa.PrivateKey, msgs []msg, expect int, snap bool, out *sideRes, wg *sync.WaitGroup) {
	defer wg.Done()
	defer func() {
		if e := recover(); e != nil {
			out.pan = e
			hc.Close()
		}
	}()
	pub, err := conn.Handshake(key)
	if err != nil {
		out.hsErr = err
		hc.Close()
		return
	}
	out.remote = pub
	out.eg, out.in = conn.VerifMACSumsC44()
	conn.SetSnappy(snap)
	var w sync.WaitGroup
	w.Add(1)
	out.wr = make([]wres, len(msgs))
	go func() {
		defer w.Done()
		defer hc.wr.Close()
		defer func() {
			if e := recover(); e != nil {
				out.pan = e
			}
		}()
		for i, m := range msgs {
			sz, err := conn.Write(m.code, append([]byte{}, m.data...))
			out.wr[i] = wres{sz, err}
			if err != nil {
				return
			}
		}
	}()
	for i := 0; i < expect; i++ {
		code, data, wsz, err := conn.Read()
		if err != nil {
			out.rerr = err
			break
		}
		out.got = append(out.got, rmsg{code, append([]byte{}, data...), wsz})
	}
	hc.rd.Close()
	w.Wait()
}

func keyFrom(r *Rng) *ecdsa.PrivateKey {
	for {
		k, err := crypto.ToECDSA(r.Bytes(32))
		if err == nil {
			return k
		}
	}
}

func runHandshake(l SL) Result {
	tl := AsList(l[3])
	dir, region, off := AsInt(tl[0]), AsInt(tl[1]), AsInt(tl[2])
	r := NewRng(AsU64(l[4]))
	snap := AsBool(l[5])
	msgsI, msgsR := parseMsgs(l[6]), parseMsgs(l[7])
	var plans [2][]int
	for d := 0; d < 2; d++ {
		for _, c := range AsList(l[8+d]) {
			plans[d] = append(plans[d], max(1, AsInt(c)))
		}
		if len(plans[d]) == 0 {
			plans[d] = []int{1 << 20}
		}
	}
	mask := byte(AsInt(l[10]))
	if (region == 0 || region == 1) && mask == 0 {
		panic("hxlib: tamper with a zero mask modifies nothing")
	}
	kI, kR := keyFrom(r), keyFrom(r)

	iW, p0in := net.Pipe()
	p0out, rR := net.Pipe()
	rW, p1in := net.Pipe()
	p1out, iR := net.Pipe()
	hcI, hcR := &halfConn{rd: iR, wr: iW}, &halfConn{rd: rR, wr: rW}
	pd := [2]*proxyDir{
		{in: p0in, out: p0out, plan: plans[0], region: -1, forceHsBound: true},
		{in: p1in, out: p1out, plan: plans[1], region: -1},
	}
	if region == 0 || region == 1 {
		pd[dir].region, pd[dir].off, pd[dir].mask = region, off, mask
		if region == 0 {
			pd[dir].closeAfterHs, pd[dir].forceHsBound = true, true
		}
	}
	var pwg, swg sync.WaitGroup
	pwg.Add(2)
	go pd[0].run(&pwg)
	go pd[1].run(&pwg)
	connI, connR := rlpx.NewConn(hcI, &kR.PublicKey), rlpx.NewConn(hcR, nil)
	var sI, sR sideRes
	swg.Add(2)
	go runSide(connI, hcI, kI, msgsI, len(msgsR), snap, &sI, &swg)
	go runSide(connR, hcR, kR, msgsR, len(msgsI), snap, &sR, &swg)
	swg.Wait()
	hcI.Close()
	hcR.Close()
	pwg.Wait()
	if sI.pan != nil {
		panic(sI.pan)
	}
	if sR.pan != nil {
		panic(sR.pan)
	}

	b2i := func(b bool) int64 {
		if b {
			return 1
		}
		return 0
	}
	hsI, hsR := sI.hsErr == nil, sR.hsErr == nil
	var dIR, eIR, dRI, eRI int64
	if hsI && hsR {
		dIR, eIR = int64(len(sR.got)), int64(errClass(sR.rerr))
		dRI, eRI = int64(len(sI.got)), int64(errClass(sI.rerr))
	}
	res := Result{Obs: L(I(b2i(hsI)), I(b2i(hsR)), I(dIR), I(eIR), I(dRI), I(eRI))}

	var fails []string
	chk := func(name string, got []rmsg, sent []msg, n int) {
		if len(got) != n {
			fails = append(fails, fmt.Sprintf("%s: delivered %d messages, expected %d", name, len(got), n))
		}
		for i, g := range got {
			if i >= len(sent) || g.code != sent[i].code || !bytes.Equal(g.data, sent[i].data) {
				fails = append(fails, fmt.Sprintf("%s: message %d delivered altered or out of order", name, i))
				break
			}
		}
	}
	switch region {
	case 0:
		if pd[dir].tamperedAt < 0 {
			panic("hxlib: handshake tamper was not applied")
		}
		if dir == 0 && hsR {
			fails = append(fails, "recipient accepted a modified auth packet")
		}
		if dir == 1 && hsI {
			fails = append(fails, "initiator accepted a modified authResp packet")
		}
		if len(sI.got)+len(sR.got) > 0 {
			fails = append(fails, "messages delivered after a failed handshake")
		}
	default:
		if !hsI || !hsR {
			fails = append(fails, fmt.Sprintf("honest handshake failed: initiator %v, recipient %v", sI.hsErr, sR.hsErr))
			break
		}
		if sI.remote == nil || !sI.remote.Equal(&kR.PublicKey) {
			fails = append(fails, "initiator learned a wrong remote key")
		}
		if sR.remote == nil || !sR.remote.Equal(&kI.PublicKey) {
			fails = append(fails, "recipient learned a wrong remote key")
		}
		if !bytes.Equal(sI.eg, sR.in) || !bytes.Equal(sI.in, sR.eg) {
			fails = append(fails, "MAC states of the two sides are not cross-equal after the handshake")
		}
		nIR, nRI := len(msgsI), len(msgsR)
		if region == 1 {
			if pd[dir].tamperedAt < 0 {
				panic("hxlib: frame tamper offset beyond the frame stream")
			}
			// frames entirely before the modified byte
			ms := msgsI
			if dir == 1 {
				ms = msgsR
			}
			fsz := AsList(l[1+dir])
			p, k := 0, 0
			for i := range ms {
				fl := frameLen(AsInt(fsz[i]))
				if off < p+fl {
					break
				}
				p += fl
				k++
			}
			var e error
			if dir == 0 {
				nIR, e = k, sR.rerr
			} else {
				nRI, e = k, sI.rerr
			}
			if c := errClass(e); c != 4 && c != 5 {
				fails = append(fails, fmt.Sprintf("modified frame byte not reported as a MAC error: %v", e))
			}
		}
		chk("I->R", sR.got, msgsI, nIR)
		chk("R->I", sI.got, msgsR, nRI)
	}
	if len(fails) > 0 {
		res.Oracle = strings.Join(fails, "; ")
	}
	res.Tags = append(res.Tags, fmt.Sprintf("k1-region%d-dir%d", region, dir), fmt.Sprintf("k1-snappy%v", snap))
	res.NonTrivial = (hsI && hsR && len(sI.got)+len(sR.got) > 0) || region == 0
	return res
}

// ---------------------------------------------------------------- kind 2

type authMsg struct {
	Signature       [65]byte
	InitiatorPubkey [64]byte
	Nonce           [32]byte
	Version         uint
}
type authResp struct {
	RandomPubkey [64]byte
	Nonce        [32]byte
	Version      uint
}

func seal(to *ecdsa.PublicKey, v interface{}) []byte {
	plain, err := rlp.EncodeToBytes(v)
	if err != nil {
		panic("hxlib: " + err.Error())
	}
	body := append(plain, make([]byte, 120)...)
	prefix := make([]byte, 2)
	binary.BigEndian.PutUint16(prefix, uint16(len(body)+113))
	enc, err := ecies.Encrypt(rand.Reader, ecies.ImportECDSAPublic(to), body, nil, prefix)
	if err != nil {
		panic("hxlib: " + err.Error())
	}
	return append(prefix, enc...)
}

func xorb(a, b []byte) []byte {
	o := make([]byte, len(a))
	for i := range a {
		o[i] = a[i] ^ b[i]
	}
	return o
}

func runCrafted(l SL) Result {
	pk := AsBytes(l[1])
	variant := AsInt(l[2])
	r := NewRng(AsU64(l[3]))
	kI, kR, kE := keyFrom(r), keyFrom(r), keyFrom(r)
	nonce := r.Bytes(32)

	mkAuth := func(pub64 []byte) []byte {
		token, err := ecies.ImportECDSA(kI).GenerateShared(ecies.ImportECDSAPublic(&kR.PublicKey), 16, 16)
		if err != nil {
			panic("hxlib: " + err.Error())
		}
		sig, err := crypto.Sign(xorb(token, nonce), kE)
		if err != nil {
			panic("hxlib: " + err.Error())
		}
		m := &authMsg{Version: 4}
		copy(m.Signature[:], sig)
		copy(m.InitiatorPubkey[:], pub64)
		copy(m.Nonce[:], nonce)
		return seal(&kR.PublicKey, m)
	}
	a, b := net.Pipe()
	defer a.Close()
	defer b.Close()
	var hsErr error
	var pub *ecdsa.PublicKey
	var pan interface{}
	done := make(chan struct{})
	hs := func(c *rlpx.Conn, k *ecdsa.PrivateKey) {
		defer close(done)
		defer func() { pan = recover() }()
		pub, hsErr = c.Handshake(k)
	}
	switch variant {
	case 0, 2:
		var packet []byte
		if variant == 0 {
			packet = mkAuth(pk)
		} else {
			packet = mkAuth(crypto.FromECDSAPub(&kI.PublicKey)[1:])
			copy(packet[2:], pk) // the ECIES ephemeral public key R
		}
		go hs(rlpx.NewConn(a, nil), kR)
		go io.Copy(io.Discard, b)
		b.Write(packet)
	default:
		go hs(rlpx.NewConn(a, &kR.PublicKey), kI)
		pre := make([]byte, 2)
		if _, err := io.ReadFull(b, pre); err == nil {
			io.ReadFull(b, make([]byte, binary.BigEndian.Uint16(pre)))
		}
		m := &authResp{Version: 4}
		copy(m.RandomPubkey[:], pk)
		copy(m.Nonce[:], nonce)
		b.Write(seal(&kI.PublicKey, m))
	}
	<-done
	if pan != nil {
		panic(pan)
	}
	res := Result{Obs: I(int64(errClass(hsErr)))}
	// direct oracle: an accepted key must be a point of the curve
	onCurve := func(b64 []byte) bool {
		if len(b64) != 64 {
			return false
		}
		x, y := new(big.Int).SetBytes(b64[:32]), new(big.Int).SetBytes(b64[32:])
		p := crypto.S256().Params().P
		if x.Cmp(p) >= 0 || y.Cmp(p) >= 0 {
			return false
		}
		l := new(big.Int).Mul(y, y)
		l.Mod(l, p)
		rr := new(big.Int).Mul(x, x)
		rr.Mul(rr, x).Add(rr, big.NewInt(7)).Mod(rr, p)
		return l.Cmp(rr) == 0
	}
	switch variant {
	case 0, 1:
		if !onCurve(pk) && hsErr == nil {
			res.Oracle = "handshake accepted a public key that is not on the curve"
		}
		if onCurve(pk) && hsErr != nil {
			res.Oracle = fmt.Sprintf("handshake rejected a well-formed packet with a valid key: %v", hsErr)
		}
		if variant == 0 && hsErr == nil && (pub == nil || !bytes.Equal(crypto.FromECDSAPub(pub)[1:], pk)) {
			res.Oracle = "recipient returned a remote key different from the one in the auth message"
		}
	case 2:
		if hsErr == nil {
			res.Oracle = "recipient accepted an auth packet with a replaced ECIES ephemeral key"
		}
	}
	res.Tags = append(res.Tags, fmt.Sprintf("k2-v%d-class%d", variant, errClass(hsErr)))
	res.NonTrivial = true
	return res
}

// ---------------------------------------------------------------- kind 3

type memConn struct {
	r *bytes.Reader
	w bytes.Buffer
}

func (m *memConn) Read(p []byte) (int, error) {
	if m.r == nil {
		return 0, io.EOF
	}
	return m.r.Read(p)
}
func (m *memConn) Write(p []byte) (int, error)      { return m.w.Write(p) }
func (m *memConn) Close() error                     { return nil }
func (m *memConn) LocalAddr() net.Addr              { return nil }
func (m *memConn) RemoteAddr() net.Addr             { return nil }
func (m *memConn) SetDeadline(time.Time) error      { return nil }
func (m *memConn) SetReadDeadline(time.Time) error  { return nil }
func (m *memConn) SetWriteDeadline(time.Time) error { return nil }

func bigData(n, pat int, seed uint64) []byte {
	d := make([]byte, n)
	if pat == 1 {
		r := NewRng(seed)
		for i := 0; i+8 <= n; i += 8 {
			binary.LittleEndian.PutUint64(d[i:], r.U64())
		}
	}
	return d
}

var fixedAES = bytes.Repeat([]byte{0x11}, 32)
var fixedMAC = bytes.Repeat([]byte{0x22}, 32)

func runSizes(l SL) Result {
	code := AsU64(l[1])
	dlen, snap := AsInt(l[2]), AsBool(l[3])
	pat, seed := AsInt(l[5]), AsU64(l[6])
	data := bigData(dlen, pat, seed)
	sm := &memConn{}
	sc := rlpx.NewConn(sm, nil)
	sc.InitWithSecrets(rlpx.Secrets{AES: fixedAES, MAC: fixedMAC, EgressMAC: macHash(nil), IngressMAC: macHash(nil)})
	sc.SetSnappy(snap)
	sz, err := sc.Write(code, data)
	res := Result{}
	wireLen := dlen
	if snap {
		wireLen = AsInt(l[4])
	}
	shouldFail := dlen > maxU24 || intSize(code)+wireLen > maxU24
	if err != nil {
		res.Obs = L(I(1), I(int64(errClass(err))))
		if !shouldFail {
			res.Oracle = fmt.Sprintf("in-limit message rejected: %v", err)
		}
		if sm.w.Len() != 0 {
			res.Oracle = "bytes were written for a rejected message"
		}
		res.Tags = []string{"k3-rejected"}
		res.NonTrivial = true
		return res
	}
	wire := sm.w.Bytes()
	blk, _ := aes.NewCipher(fixedAES)
	hdr := make([]byte, 16)
	cipher.NewCTR(blk, make([]byte, 16)).XORKeyStream(hdr, wire[:16])
	fsize := int(hdr[0])<<16 | int(hdr[1])<<8 | int(hdr[2])
	res.Obs = L(I(0), I(int64(fsize)), I(int64(len(wire))), B(hdr))
	var fails []string
	if shouldFail {
		fails = append(fails, "over-limit message accepted for writing")
	}
	if int(sz) != wireLen {
		fails = append(fails, "reported wire size differs from the (compressed) data length")
	}
	rm := &memConn{r: bytes.NewReader(wire)}
	rc := rlpx.NewConn(rm, nil)
	rc.InitWithSecrets(rlpx.Secrets{AES: fixedAES, MAC: fixedMAC, EgressMAC: macHash(nil), IngressMAC: macHash(nil)})
	rc.SetSnappy(snap)
	c2, d2, w2, err := rc.Read()
	if err != nil || c2 != code || !bytes.Equal(d2, data) || w2 != int(sz) {
		fails = append(fails, fmt.Sprintf("large message not delivered intact: err=%v code=%d len=%d", err, c2, len(d2)))
	}
	if len(fails) > 0 {
		res.Oracle = strings.Join(fails, "; ")
	}
	res.Tags = []string{"k3-accepted"}
	res.NonTrivial = true
	return res
}

func run(c Sx) Result {
	l := AsList(c)
	switch AsInt(l[0]) {
	case 0:
		return runSession(l)
	case 1:
		return runHandshake(l)
	case 2:
		return runCrafted(l)
	case 3:
		return runSizes(l)
	}
	panic("hxlib: unknown case kind")
}

// ---------------------------------------------------------------- generation

var dataSizes = []int{0, 1, 2, 13, 14, 15, 16, 17, 30, 31, 32, 33, 47, 48, 100, 255, 256, 1024}

func genMsg(r *Rng, big bool) msg {
	var code uint64
	switch r.Intn(8) {
	case 0:
		code = 0
	case 1, 2, 3:
		code = uint64(r.Intn(128))
	case 4:
		code = uint64(128 + r.Intn(128))
	case 5:
		code = uint64(256 + r.Intn(70000))
	case 6:
		code = r.U64()
	default:
		code = uint64(r.Intn(32))
	}
	n := dataSizes[r.Intn(len(dataSizes))]
	if r.Chance(1, 4) {
		n = r.Intn(300)
	}
	if big && r.Chance(1, 10) {
		n = 1024 + r.Intn(3000)
	}
	var d []byte
	if r.Chance(1, 3) && n > 0 { // compressible
		d = bytes.Repeat(r.Bytes(1+r.Intn(4)), n)[:n]
	} else {
		d = r.Bytes(n)
	}
	return msg{code, d}
}

func msgsSx(ms []msg) Sx {
	var out []Sx
	for _, m := range ms {
		out = append(out, L(U(m.code), B(m.data)))
	}
	return SL(out)
}

func genChunks(r *Rng, total int) Sx {
	var out []Sx
	switch r.Intn(6) {
	case 0: // one piece
	case 1: // byte by byte (bounded)
		for i := 0; i < min(total, 400); i++ {
			out = append(out, I(1))
		}
	case 2: // small pieces
		for p := 0; p < total && len(out) < 600; {
			n := r.Intn(40)
			out = append(out, I(int64(n)))
			p += n
		}
	case 3: // around the block sizes
		for p := 0; p < total && len(out) < 600; {
			n := []int{15, 16, 17, 31, 32, 33, 48, 1, 0}[r.Intn(9)]
			out = append(out, I(int64(n)))
			p += n
		}
	case 4: // few big pieces
		for i := 0; i < r.Intn(4); i++ {
			out = append(out, I(int64(r.Intn(total+1))))
		}
	default: // mixed
		for p := 0; p < total && len(out) < 300; {
			n := r.Intn(8)
			if r.Chance(1, 4) {
				n = r.Intn(700)
			}
			out = append(out, I(int64(n)))
			p += n
		}
	}
	return SL(out)
}

func genSession(r *Rng, emit func(Sx)) {
	flags := []int{0, 0, 0, 3, 3, 3, 1, 2}[r.Intn(8)]
	keyLen := []int{32, 32, 32, 16, 24}[r.Intn(5)]
	aesK := r.Bytes(keyLen)
	macK := r.Bytes([]int{32, 32, 32, 16, 24}[r.Intn(5)])
	macInit := r.Bytes(r.Intn(120))
	n := r.Intn(6)
	if r.Chance(1, 8) {
		n = 6 + r.Intn(10)
	}
	var ms []msg
	for i := 0; i < n; i++ {
		m := genMsg(r, true)
		if flags == 2 && r.Chance(1, 3) { // sender plain, receiver snappy: crafted snappy headers
			switch r.Intn(3) {
			case 0:
				m.data = append(binary.AppendUvarint(nil, uint64(maxU24+1+r.Intn(5))), r.Bytes(r.Intn(10))...)
			case 1:
				m.data = snappy.Encode(nil, r.Bytes(r.Intn(60)))
			default:
				m.data = append(binary.AppendUvarint(nil, uint64(r.Intn(100))), r.Bytes(r.Intn(10))...)
			}
		}
		ms = append(ms, m)
	}
	var etab, dtab []Sx
	total := 0
	for _, m := range ms {
		w := m.data
		if flags&1 != 0 {
			w = snappy.Encode(nil, m.data)
			etab = append(etab, L(B(m.data), B(w)))
		}
		if flags&2 != 0 {
			dl, err := snappy.DecodedLen(w)
			dlv := int64(dl)
			if err != nil {
				dlv = -1
			}
			var dec Sx = L()
			if err == nil && dl <= maxU24 {
				if d, err := snappy.Decode(nil, w); err == nil {
					dec = L(B(d))
				}
			}
			dtab = append(dtab, L(B(w), I(dlv), dec))
		}
		total += frameLen(intSize(m.code) + len(w))
	}
	tam := L(I(0), I(0), I(0))
	if n > 0 && r.Chance(1, 2) {
		switch r.Intn(6) {
		case 0, 1:
			tam = L(I(1), I(int64(r.Intn(total))), I(int64(1<<r.Intn(8))))
			if r.Chance(1, 3) {
				tam = L(I(1), I(int64(r.Intn(total))), I(int64(1+r.Intn(255))))
			}
		case 2:
			tam = L(I(2), I(int64(r.Intn(total+1))), I(0))
		case 3:
			tam = L(I(3), I(int64(r.Intn(n))), I(int64(r.Intn(n))))
		case 4:
			tam = L(I(4), I(int64(r.Intn(n))), I(0))
		default:
			tam = L(I(5), I(int64(r.Intn(n))), I(0))
		}
	}
	emit(L(I(0), I(int64(flags)), B(aesK), B(macK), B(macInit), msgsSx(ms), SL(etab), SL(dtab), genChunks(r, total), tam))
}

func genHandshake(r *Rng, emit func(Sx)) {
	snap := r.Bool()
	var sides [2][]msg
	var fs [2][]Sx
	var tot [2]int
	for d := 0; d < 2; d++ {
		n := r.Intn(5)
		for i := 0; i < n; i++ {
			m := genMsg(r, false)
			sides[d] = append(sides[d], m)
			w := len(m.data)
			if snap {
				w = len(snappy.Encode(nil, m.data))
			}
			f := intSize(m.code) + w
			fs[d] = append(fs[d], I(int64(f)))
			tot[d] += frameLen(f)
		}
	}
	dir, region, off := r.Intn(2), 2, 0
	switch r.Intn(4) {
	case 0:
		region, off = 0, r.Intn(4096)
		if r.Chance(1, 4) {
			off = r.Intn(70) // size prefix, ECIES ephemeral key
		}
	case 1:
		if tot[dir] > 0 {
			region, off = 1, r.Intn(tot[dir])
		}
	}
	plan := func() Sx {
		var out []Sx
		switch r.Intn(4) {
		case 0:
			out = append(out, I(1<<20))
		case 1:
			out = append(out, I(1))
		case 2:
			for i := 0; i < 1+r.Intn(6); i++ {
				out = append(out, I(int64(1+r.Intn(64))))
			}
		default:
			for i := 0; i < 1+r.Intn(4); i++ {
				out = append(out, I(int64(1+r.Intn(1500))))
			}
		}
		return SL(out)
	}
	emit(L(I(1), SL(fs[0]), SL(fs[1]), L(I(int64(dir)), I(int64(region)), I(int64(off))),
		U(r.U64()), Bool(snap), msgsSx(sides[0]), msgsSx(sides[1]), plan(), plan(), I(int64(1<<r.Intn(8)))))
}

func genCrafted(r *Rng, emit func(Sx)) {
	seed := r.U64()
	kI := keyFrom(NewRng(seed)) // the same first key runCrafted derives
	pk := crypto.FromECDSAPub(&kI.PublicKey)[1:]
	variant := r.Intn(3)
	if variant == 2 { // any valid point other than the real ephemeral key, or an invalid one
		pk = crypto.FromECDSAPub(&keyFrom(r).PublicKey)[1:]
	}
	pk = append([]byte{}, pk...)
	p := crypto.S256().Params().P
	switch r.Intn(7) {
	case 0, 1: // valid
	case 2:
		pk[r.Intn(64)] ^= 1 << r.Intn(8)
	case 3:
		copy(pk[:32], p.Bytes()) // x = P
	case 4:
		for i := range pk {
			pk[i] = 0
		}
	case 5:
		copy(pk[32:], new(big.Int).Add(p, big.NewInt(int64(r.Intn(5)))).Bytes()) // y >= P
	default:
		copy(pk[32:], r.Bytes(32))
	}
	if variant == 2 {
		tag := byte(4)
		if r.Chance(1, 6) {
			tag = []byte{2, 3, 5, 0}[r.Intn(4)]
		}
		pk = append([]byte{tag}, pk...)
	}
	emit(L(I(2), B(pk), I(int64(variant)), U(seed)))
}

func genSizes(r *Rng, emit func(Sx)) {
	code := []uint64{0, 5, 127, 128, 300, 1 << 40, ^uint64(0)}[r.Intn(7)]
	is := intSize(code)
	dlen := maxU24 - is + r.Intn(4) - 2
	if r.Chance(1, 3) {
		dlen = maxU24 + r.Intn(3) - 1
	}
	snap := r.Chance(1, 3)
	pat := r.Intn(2)
	seed := r.U64()
	clen := 0
	if snap && dlen <= maxU24 {
		clen = len(snappy.Encode(nil, bigData(dlen, pat, seed)))
	}
	emit(L(I(3), U(code), I(int64(dlen)), Bool(snap), I(int64(clen)), I(int64(pat)), U(seed)))
}

func gen(r *Rng, tier string, emit func(Sx)) {
	r = NewRng(r.U64())
	nS, nH, nC, nZ := 260, 260, 120, 8
	if tier == "thorough" {
		nS, nH, nC, nZ = 6000, 6000, 2000, 60
	}
	for i := 0; i < nZ; i++ {
		genSizes(r, emit)
	}
	for i := 0; i < nC; i++ {
		genCrafted(r, emit)
	}
	for i := 0; i < max(nS, nH); i++ {
		if i < nS {
			genSession(r, emit)
		}
		if i < nH {
			genHandshake(r, emit)
		}
	}
}

func main() {
	Main(Family{
		ID: "C44",
		Rule: "kind 0: framing sessions between two real rlpx.Conn with fixed random secrets (AES-128/192/256 keys, random initial MAC hash input) over net.Pipe through a recording proxy: 0-15 messages (codes 0, <128, 128-255, multi-byte, full uint64; payload sizes 0,1,2,13-17,30-33,47,48,100,255,256,1024, random <300, up to 4 KiB; compressible and random), snappy on/off on each side incl. mismatched sides with crafted snappy length headers (> 16 MiB), wire re-chunked arbitrarily (1-byte, around 16/32, few big, empty writes), half of the cases tampered: one xor-ed byte at a random wire offset, stream cut, two frames swapped, a frame dropped, a frame replayed. " +
			"kind 1: full handshake between two random keys through a streaming two-way re-chunking proxy, 0-4 messages each way, snappy on/off, a quarter with one modified byte inside a handshake packet (incl. size prefix and ECIES ephemeral key) and a quarter with one modified byte in the frame stream. kind 2: crafted auth / authResp packets whose InitiatorPubkey / RandomPubkey / ECIES ephemeral key is valid, bit-flipped, has x=P, y>=P, is zero or has a random y. kind 3: real writes of messages at 2^24-1 +/- 2 bytes (with every code length, snappy on/off, compressible or not). " +
			"Non-trivial: a session that delivered at least one message or detected a tamper; every handshake-tamper, crafted and size-limit case; distinct = distinct case line.",
		Gen:         gen,
		Run:         run,
		CaseTimeout: 60 * time.Second,
	})
}
