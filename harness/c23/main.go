// Family c23: ethdb key-value backends (memorydb, pebble v2, pebble v1, leveldb) and
// rawdb.NewTable views of each, vs coq/Storage/{KV,Table,MemDB,World}.v.
//
// case  (mask x<p1> x<p2> (op ...))   see coq/Run/C23.v for the op/observation syntax.
// mask  bit0 memorydb (always run), bit1 pebble v2, bit2 pebble v1, bit3 leveldb.
// Obs    = transcript of every op on memorydb (views: store, table p1, table p2, table(table p1) p2)
// Oracle = every selected backend produced the identical transcript; the memorydb transcript
//
//	equals an independent Go reference of the demanded semantics (plain map; a view =
//	the store restricted to the prefix, stripped; Replay never fails); and on every backend
//	each table view's full iteration equals the store's dump restricted to the
//	view's prefix with the prefix stripped.
package main

import (
	"bytes"
	"fmt"
	"os"
	"sort"
	"strings"

	. "gethverif/harness/hxlib"
	"github.com/ethereum/go-ethereum/core/rawdb"
	"github.com/ethereum/go-ethereum/ethdb"
	"github.com/ethereum/go-ethereum/ethdb/leveldb"
	"github.com/ethereum/go-ethereum/ethdb/memorydb"
	"github.com/ethereum/go-ethereum/ethdb/pebble"
	"github.com/ethereum/go-ethereum/log"
)

const (
	mMem = 1 << iota
	mPebble
	mPebbleV1
	mLevel
)

var backendNames = []string{"memorydb", "pebble", "pebblev1", "leveldb"}

func shape(msg string) { panic("hxlib: c23 " + msg) }

func openBackend(bit int) (ethdb.KeyValueStore, func(), error) {
	if bit == mMem {
		db := memorydb.New()
		return db, func() { db.Close() }, nil
	}
	dir, err := os.MkdirTemp("", "gv_c23_")
	if err != nil {
		return nil, nil, err
	}
	var db ethdb.KeyValueStore
	switch bit {
	case mPebble:
		db, err = pebble.New(dir, 16, 16, "", false)
	case mPebbleV1:
		db, err = pebble.NewV1(dir, 16, 16, "", false)
	case mLevel:
		db, err = leveldb.New(dir, 16, 16, "", false)
	}
	if err != nil {
		os.RemoveAll(dir)
		return nil, nil, err
	}
	return db, func() { db.Close(); os.RemoveAll(dir) }, nil
}

type sess struct {
	views   [4]ethdb.Database
	batches []ethdb.Batch
	iters   []ethdb.Iterator
}

func optBytes(s Sx) []byte {
	l, ok := s.(SL)
	if !ok || len(l) > 1 {
		shape("optional bytes")
	}
	if len(l) == 0 {
		return nil
	}
	b, ok := l[0].(SB)
	if !ok {
		shape("optional bytes")
	}
	if len(b) == 0 {
		return []byte{}
	}
	return append([]byte{}, b...)
}

func byts(s Sx) []byte {
	b, ok := s.(SB)
	if !ok {
		shape("bytes expected")
	}
	return append([]byte{}, b...) // non-nil even when empty
}

func small(s Sx, lim int) int {
	v, ok := s.(SI)
	if !ok || v.V.Sign() < 0 || !v.V.IsInt64() || v.V.Int64() >= int64(lim) {
		shape("small int expected")
	}
	return int(v.V.Int64())
}

func isNotFound(err error) bool { return err != nil && strings.Contains(err.Error(), "not found") }

var (
	obOk        = L()
	obBadHandle = L(I(-1), I(1))
)

func errOb(err error) Sx {
	if err == nil {
		return obOk
	}
	return L(I(-3)) // an error class the model never produces
}

func dumpOf(db ethdb.KeyValueStore) []Sx {
	it := db.NewIterator(nil, nil)
	defer it.Release()
	var out []Sx
	for it.Next() {
		out = append(out, L(B(it.Key()), B(it.Value())))
	}
	return out
}

// exec runs one op and returns its observation
func (s *sess) exec(o Sx) Sx {
	l, ok := o.(SL)
	if !ok || len(l) == 0 {
		shape("op")
	}
	kind := small(l[0], 15)
	need := []int{4, 3, 4, 3, 3, 2, 4, 3, 4, 2, 2, 3, 4, 2, 1}[kind]
	if len(l) != need {
		shape("op arity")
	}
	switch kind {
	case 0:
		return errOb(s.views[small(l[1], 4)].Put(byts(l[2]), byts(l[3])))
	case 1:
		return errOb(s.views[small(l[1], 4)].Delete(byts(l[2])))
	case 2:
		return errOb(s.views[small(l[1], 4)].DeleteRange(optBytes(l[2]), optBytes(l[3])))
	case 3:
		okh, err := s.views[small(l[1], 4)].Has(byts(l[2]))
		if err != nil {
			return L(I(-3))
		}
		return Bool(okh)
	case 4:
		v, err := s.views[small(l[1], 4)].Get(byts(l[2]))
		if err == nil {
			return L(B(v))
		}
		if isNotFound(err) {
			return L()
		}
		return L(I(-3))
	case 5:
		s.batches = append(s.batches, s.views[small(l[1], 4)].NewBatch())
		return obOk
	case 6, 7, 8, 9, 10, 11:
		bi := small(l[1], 1<<20)
		if bi >= len(s.batches) {
			// still validate the shape of the remaining fields
			return obBadHandle
		}
		b := s.batches[bi]
		switch kind {
		case 6:
			return errOb(b.Put(byts(l[2]), byts(l[3])))
		case 7:
			return errOb(b.Delete(byts(l[2])))
		case 8:
			return errOb(b.DeleteRange(optBytes(l[2]), optBytes(l[3])))
		case 9:
			return errOb(b.Write())
		case 10:
			b.Reset()
			return obOk
		default:
			if err := b.Replay(s.views[small(l[2], 4)]); err != nil {
				return L(I(9))
			}
			return obOk
		}
	case 12:
		s.iters = append(s.iters, s.views[small(l[1], 4)].NewIterator(byts(l[2]), byts(l[3])))
		return obOk
	case 13:
		ii := small(l[1], 1<<20)
		if ii >= len(s.iters) {
			return obBadHandle
		}
		it := s.iters[ii]
		if it.Next() {
			return L(B(it.Key()), B(it.Value()))
		}
		if it.Error() != nil {
			return L(I(-3))
		}
		return L()
	default:
		return SL(dumpOf(s.views[0]))
	}
}

type parsed struct {
	mask   int
	p1, p2 []byte
	ops    SL
}

func parseCase(c Sx) parsed {
	l, ok := c.(SL)
	if !ok || len(l) != 4 {
		shape("case")
	}
	ops, ok := l[3].(SL)
	if !ok {
		shape("ops")
	}
	return parsed{mask: small(l[0], 16) | mMem, p1: byts(l[1]), p2: byts(l[2]), ops: ops}
}

// runBackend executes the whole case on one backend; returns the transcript and the
// table-view consistency failure (if any)
func runBackend(bit int, pc parsed) (tr []Sx, viewFail string, err error) {
	kvs, cleanup, err := openBackend(bit)
	if err != nil {
		return nil, "", err
	}
	root := rawdb.NewDatabase(kvs)
	s := &sess{}
	s.views[0] = root
	s.views[1] = rawdb.NewTable(root, string(pc.p1))
	s.views[2] = rawdb.NewTable(root, string(pc.p2))
	s.views[3] = rawdb.NewTable(s.views[1], string(pc.p2))
	defer func() {
		for _, it := range s.iters {
			it.Release()
		}
		for _, b := range s.batches {
			b.Close()
		}
		cleanup()
	}()
	for _, o := range pc.ops {
		tr = append(tr, s.exec(o))
	}
	// table views vs the store's dump
	full := dumpOf(root)
	prefixes := [][]byte{nil, pc.p1, pc.p2, append(append([]byte{}, pc.p1...), pc.p2...)}
	for vi := 1; vi < 4; vi++ {
		var want []Sx
		for _, kvx := range full {
			k := []byte(kvx.(SL)[0].(SB))
			if bytes.HasPrefix(k, prefixes[vi]) {
				want = append(want, L(B(k[len(prefixes[vi]):]), kvx.(SL)[1]))
			}
		}
		got := dumpOf(s.views[vi])
		if String(SL(got)) != String(SL(want)) {
			viewFail = fmt.Sprintf("view %d of %s iterates %s, store restricted to its prefix is %s",
				vi, backendNames[bitIndex(bit)], String(SL(got)), String(SL(want)))
		}
	}
	return tr, viewFail, nil
}

func bitIndex(bit int) int {
	for i := 0; i < 4; i++ {
		if bit == 1<<i {
			return i
		}
	}
	return 0
}

func viewPrefix(pc parsed, v int) []byte {
	switch v {
	case 1:
		return pc.p1
	case 2:
		return pc.p2
	case 3:
		return append(append([]byte{}, pc.p1...), pc.p2...)
	}
	return nil
}

func run(c Sx) Result {
	pc := parseCase(c)
	res := Result{}
	// static features of the case (tags, classification of known divergences)
	var hasBatchRange, hasNilEnd, hasBigKey, hasEmptyKey, hasEmptyVal, hasReplay, hasRange, hasBatchWrite, hasIter bool
	bviews := []int{}
	for _, o := range pc.ops {
		l, ok := o.(SL)
		if !ok || len(l) == 0 {
			shape("op")
		}
		switch small(l[0], 15) {
		case 0:
			if len(l) == 4 {
				k := append(append([]byte{}, viewPrefix(pc, small(l[1], 4))...), byts(l[2])...)
				hasBigKey = hasBigKey || bytes.Contains(k, ethdb.MaximumKey)
				hasEmptyKey = hasEmptyKey || len(k) == 0
				hasEmptyVal = hasEmptyVal || len(byts(l[3])) == 0
			}
		case 2:
			hasRange = true
			if len(l) == 4 && optBytes(l[3]) == nil {
				hasNilEnd = true
			}
		case 5:
			if len(l) == 2 {
				bviews = append(bviews, small(l[1], 4))
			}
		case 6:
			if len(l) == 4 {
				bi := small(l[1], 1<<20)
				if bi < len(bviews) {
					k := append(append([]byte{}, viewPrefix(pc, bviews[bi])...), byts(l[2])...)
					hasBigKey = hasBigKey || bytes.Contains(k, ethdb.MaximumKey)
					hasEmptyKey = hasEmptyKey || len(k) == 0
				}
				hasEmptyVal = hasEmptyVal || len(byts(l[3])) == 0
			}
		case 8:
			hasBatchRange, hasRange = true, true
			if len(l) == 4 && optBytes(l[3]) == nil {
				hasNilEnd = true
			}
		case 9:
			hasBatchWrite = true
		case 11:
			hasReplay = true
		case 12:
			hasIter = true
		}
	}
	var ref []Sx
	var diverging []string
	var detail string
	var fails []string
	for bi := 0; bi < 4; bi++ {
		bit := 1 << bi
		if pc.mask&bit == 0 {
			continue
		}
		tr, viewFail, err := runBackend(bit, pc)
		if err != nil {
			fails = append(fails, fmt.Sprintf("C23-OPEN cannot open %s: %v", backendNames[bi], err))
			continue
		}
		if viewFail != "" {
			fails = append(fails, "C23-TABLE-VIEW "+viewFail)
		}
		if bit == mMem {
			ref = tr
			continue
		}
		for i := range ref {
			if String(tr[i]) != String(ref[i]) {
				diverging = append(diverging, backendNames[bi])
				if detail == "" {
					detail = fmt.Sprintf("op#%d %s: memorydb=%s %s=%s", i, String(pc.ops[i]), String(ref[i]), backendNames[bi], String(tr[i]))
				}
				break
			}
		}
	}
	res.Obs = SL(ref)
	if !hasBigKey && ref != nil {
		want := refRun(pc)
		for i := range ref {
			if String(ref[i]) != want[i] {
				fails = append(fails, fmt.Sprintf("C23-SPEC memorydb/table deviates from the reference semantics at op#%d %s: got %s want %s",
					i, String(pc.ops[i]), String(ref[i]), want[i]))
				break
			}
		}
	}
	if len(diverging) > 0 {
		onlyLevel, onlyPebble := true, true
		for _, d := range diverging {
			onlyLevel = onlyLevel && d == "leveldb"
			onlyPebble = onlyPebble && (d == "pebble" || d == "pebblev1")
		}
		prefix := "C23-DIVERGENCE"
		if onlyLevel && hasBatchRange {
			prefix = "C23-F2-leveldb-eager-range"
		} else if onlyPebble && hasNilEnd && hasBigKey {
			prefix = "C23-F4-maxkey-bound"
		}
		fails = append(fails, fmt.Sprintf("%s backends=%s first %s", prefix, strings.Join(diverging, "+"), detail))
	}
	if len(fails) > 0 {
		res.Oracle = strings.Join(fails, " | ")
	}
	// tags / non-triviality
	found := false
	for i, o := range pc.ops {
		k := small(o.(SL)[0], 15)
		s := String(ref[i])
		switch k {
		case 3:
			if s == "1" {
				found = true
			} else {
				res.Tags = append(res.Tags, "has-miss")
			}
		case 4:
			if s != "()" {
				found = true
			} else {
				res.Tags = append(res.Tags, "get-notfound")
			}
		case 13:
			if s != "()" && s != "(-1 1)" {
				found = true
				res.Tags = append(res.Tags, "iter-item")
			} else {
				res.Tags = append(res.Tags, "iter-end")
			}
		}
		if s == "(-1 1)" {
			res.Tags = append(res.Tags, "bad-handle")
		}
	}
	res.Tags = dedup(res.Tags)
	res.Tags = append(res.Tags, fmt.Sprintf("mask%x", pc.mask), fmt.Sprintf("ops%d", min(len(pc.ops)/10*10, 80)))
	for _, t := range []struct {
		b bool
		s string
	}{{hasBatchRange, "batch-range"}, {hasNilEnd, "range-nil-end"}, {hasBigKey, "key>=maxkey"}, {hasEmptyKey, "empty-key"},
		{hasEmptyVal, "empty-value"}, {hasReplay, "replay"}, {hasRange, "range"}, {hasBatchWrite, "batch-write"}, {hasIter, "iter"},
		{len(pc.p1) == 0 || len(pc.p2) == 0, "empty-table-prefix"}} {
		if t.b {
			res.Tags = append(res.Tags, t.s)
		}
	}
	res.NonTrivial = found && len(pc.ops) >= 5 && (hasBatchWrite || hasRange || hasIter)
	return res
}

func dedup(in []string) []string {
	seen := map[string]bool{}
	var out []string
	for _, s := range in {
		if !seen[s] {
			seen[s] = true
			out = append(out, s)
		}
	}
	return out
}

// ---------------- independent reference semantics (direct oracle) ----------------
// A plain Go map executed with the semantics the property demands of every backend and
// of every table view (a view with prefix p is the store restricted to keys with prefix
// p, prefix stripped).  Written independently of the Coq model; used only when all keys
// are below ethdb.MaximumKey (outside that domain see open finding C23-F4).

type refOp struct {
	kind       int // 0 put, 1 delete, 2 range
	k, v       []byte
	s, e       []byte
	sNil, eNil bool
}

type refBatch struct {
	view int
	ops  []refOp
}

type refIter struct {
	items [][2][]byte
	pos   int
}

func refApply(db map[string][]byte, p []byte, o refOp) {
	switch o.kind {
	case 0:
		db[string(p)+string(o.k)] = o.v
	case 1:
		delete(db, string(p)+string(o.k))
	default:
		for key := range db {
			if !bytes.HasPrefix([]byte(key), p) {
				continue
			}
			k := []byte(key)[len(p):]
			if !o.sNil && bytes.Compare(k, o.s) < 0 {
				continue
			}
			if !o.eNil && bytes.Compare(k, o.e) >= 0 {
				continue
			}
			delete(db, key)
		}
	}
}

func refItems(db map[string][]byte, p, pre, st []byte) [][2][]byte {
	var keys []string
	lo := string(pre) + string(st)
	for key := range db {
		if !bytes.HasPrefix([]byte(key), p) {
			continue
		}
		k := key[len(p):]
		if strings.HasPrefix(k, string(pre)) && k >= lo {
			keys = append(keys, k)
		}
	}
	sort.Strings(keys)
	var out [][2][]byte
	for _, k := range keys {
		out = append(out, [2][]byte{[]byte(k), db[string(p)+k]})
	}
	return out
}

func refRun(pc parsed) []string {
	db := map[string][]byte{}
	var batches []*refBatch
	var iters []*refIter
	var tr []string
	rng := func(l SL) refOp {
		s, e := optBytes(l[2]), optBytes(l[3])
		return refOp{kind: 2, s: s, e: e, sNil: s == nil, eNil: e == nil}
	}
	for _, o := range pc.ops {
		l := o.(SL)
		kind := small(l[0], 15)
		ob := "()"
		switch kind {
		case 0:
			refApply(db, viewPrefix(pc, small(l[1], 4)), refOp{kind: 0, k: byts(l[2]), v: byts(l[3])})
		case 1:
			refApply(db, viewPrefix(pc, small(l[1], 4)), refOp{kind: 1, k: byts(l[2])})
		case 2:
			refApply(db, viewPrefix(pc, small(l[1], 4)), rng(l))
		case 3:
			_, ok := db[string(viewPrefix(pc, small(l[1], 4)))+string(byts(l[2]))]
			ob = String(Bool(ok))
		case 4:
			if v, ok := db[string(viewPrefix(pc, small(l[1], 4)))+string(byts(l[2]))]; ok {
				ob = String(L(B(v)))
			}
		case 5:
			batches = append(batches, &refBatch{view: small(l[1], 4)})
		case 6, 7, 8, 9, 10, 11:
			bi := small(l[1], 1<<20)
			if bi >= len(batches) {
				ob = String(obBadHandle)
				break
			}
			b := batches[bi]
			switch kind {
			case 6:
				b.ops = append(b.ops, refOp{kind: 0, k: byts(l[2]), v: byts(l[3])})
			case 7:
				b.ops = append(b.ops, refOp{kind: 1, k: byts(l[2])})
			case 8:
				b.ops = append(b.ops, rng(l))
			case 9:
				for _, x := range b.ops {
					refApply(db, viewPrefix(pc, b.view), x)
				}
			case 10:
				b.ops = nil
			default:
				for _, x := range b.ops {
					refApply(db, viewPrefix(pc, small(l[2], 4)), x)
				}
			}
		case 12:
			iters = append(iters, &refIter{items: refItems(db, viewPrefix(pc, small(l[1], 4)), byts(l[2]), byts(l[3]))})
		case 13:
			ii := small(l[1], 1<<20)
			if ii >= len(iters) {
				ob = String(obBadHandle)
				break
			}
			it := iters[ii]
			if it.pos < len(it.items) {
				ob = String(L(B(it.items[it.pos][0]), B(it.items[it.pos][1])))
				it.pos++
			}
		default:
			var out []Sx
			for _, kx := range refItems(db, nil, nil, nil) {
				out = append(out, L(B(kx[0]), B(kx[1])))
			}
			ob = String(SL(out))
		}
		tr = append(tr, ob)
	}
	return tr
}

// ---------------- generator ----------------

var alphabet = []byte{0x00, 0x61, 0x62, 0xff}

type genCfg struct {
	batchRange bool // b.DeleteRange allowed (not with leveldb: open finding C23-F2)
	wild       bool // memorydb-only: keys >= MaximumKey, ops on written batches, bad handles
}

func genKey(r *Rng, pool *[][]byte, wild bool) []byte {
	if len(*pool) > 0 && r.Chance(3, 5) {
		k := (*pool)[r.Intn(len(*pool))]
		if r.Chance(1, 4) && len(k) > 0 { // a neighbour: shared prefix
			k = append([]byte{}, k[:r.Intn(len(k))]...)
			k = append(k, alphabet[r.Intn(4)])
		}
		return k
	}
	if wild && r.Chance(1, 12) {
		k := bytes.Repeat([]byte{0xff}, 31+r.Intn(3))
		if r.Bool() {
			k = append(k, alphabet[r.Intn(4)])
		}
		*pool = append(*pool, k)
		return k
	}
	n := 0
	if !r.Chance(1, 7) {
		n = 1 + r.Intn(4)
	}
	k := make([]byte, n)
	for i := range k {
		k[i] = alphabet[r.Intn(4)]
	}
	*pool = append(*pool, k)
	return k
}

func genVal(r *Rng) []byte {
	if r.Chance(1, 4) {
		return []byte{}
	}
	return r.Bytes(1 + r.Intn(3))
}

func optSx(b []byte) Sx {
	if b == nil {
		return L()
	}
	return L(B(b))
}

func genBound(r *Rng, pool *[][]byte, wild bool) []byte {
	switch r.Intn(6) {
	case 0:
		return nil
	case 1:
		return []byte{}
	}
	return genKey(r, pool, wild)
}

func genCase(r *Rng, mask int, cfg genCfg, maxOps int) Sx {
	pfx := func() []byte {
		n := r.Intn(3)
		if cfg.wild && r.Chance(1, 10) {
			return bytes.Repeat([]byte{0xff}, 30+r.Intn(3))
		}
		p := make([]byte, n)
		for i := range p {
			p[i] = alphabet[r.Intn(4)]
		}
		return p
	}
	p1, p2 := pfx(), pfx()
	if r.Chance(1, 4) { // overlapping tables: p2 extends p1
		p2 = append(append([]byte{}, p1...), alphabet[r.Intn(4)])
	}
	var pool [][]byte
	nops := 5 + r.Intn(maxOps-4)
	var ops []Sx
	type bstate struct{ written bool }
	var batches []*bstate
	iters := 0
	view := func() Sx { return I(int64(r.Intn(4))) }
	for len(ops) < nops {
		switch x := r.Intn(100); {
		case x < 14:
			ops = append(ops, L(I(0), view(), B(genKey(r, &pool, cfg.wild)), B(genVal(r))))
		case x < 19:
			ops = append(ops, L(I(1), view(), B(genKey(r, &pool, cfg.wild))))
		case x < 25:
			ops = append(ops, L(I(2), view(), optSx(genBound(r, &pool, cfg.wild)), optSx(genBound(r, &pool, cfg.wild))))
		case x < 31:
			ops = append(ops, L(I(3), view(), B(genKey(r, &pool, cfg.wild))))
		case x < 39:
			ops = append(ops, L(I(4), view(), B(genKey(r, &pool, cfg.wild))))
		case x < 44:
			if len(batches) < 4 {
				ops = append(ops, L(I(5), view()))
				batches = append(batches, &bstate{})
			}
		case x < 72:
			if len(batches) == 0 {
				continue
			}
			bi := r.Intn(len(batches))
			b := batches[bi]
			if cfg.wild && r.Chance(1, 40) {
				bi = len(batches) + r.Intn(3) // bad handle
				b = &bstate{}
			}
			if b.written && !cfg.wild { // pebble: a committed batch must be reset first
				ops = append(ops, L(I(10), I(int64(bi))))
				b.written = false
				continue
			}
			switch y := r.Intn(20); {
			case y < 8:
				ops = append(ops, L(I(6), I(int64(bi)), B(genKey(r, &pool, cfg.wild)), B(genVal(r))))
			case y < 12:
				ops = append(ops, L(I(7), I(int64(bi)), B(genKey(r, &pool, cfg.wild))))
			case y < 15:
				if cfg.batchRange {
					ops = append(ops, L(I(8), I(int64(bi)), optSx(genBound(r, &pool, cfg.wild)), optSx(genBound(r, &pool, cfg.wild))))
				}
			case y < 17:
				ops = append(ops, L(I(9), I(int64(bi))))
				b.written = true
			case y < 18:
				ops = append(ops, L(I(10), I(int64(bi))))
				b.written = false
			default:
				ops = append(ops, L(I(11), I(int64(bi)), view()))
			}
		case x < 80:
			if iters < 5 {
				pre := genKey(r, &pool, cfg.wild)
				if len(pre) > 2 || r.Chance(1, 3) {
					pre = pre[:r.Intn(min(len(pre), 2)+1)]
				}
				st := []byte{}
				if r.Bool() {
					st = genKey(r, &pool, cfg.wild)
				}
				ops = append(ops, L(I(12), view(), B(pre), B(st)))
				iters++
			}
		case x < 97:
			if iters == 0 {
				continue
			}
			ii := r.Intn(iters)
			if cfg.wild && r.Chance(1, 40) {
				ii = iters + r.Intn(3)
			}
			for n := 1 + r.Intn(3); n > 0; n-- {
				ops = append(ops, L(I(13), I(int64(ii))))
			}
		default:
			ops = append(ops, L(I(14)))
		}
	}
	// drain every iterator at the end (opened earlier, drained after all the writes), then dump
	for ii := 0; ii < iters; ii++ {
		for n := 0; n < 6; n++ {
			ops = append(ops, L(I(13), I(int64(ii))))
		}
	}
	ops = append(ops, L(I(14)))
	return L(I(int64(mask)), B(p1), B(p2), SL(ops))
}

func gen(r *Rng, tier string, emit func(Sx)) {
	nAll, nNoLevel, nMem, maxOps := 300, 250, 600, 40
	if tier == "thorough" {
		nAll, nNoLevel, nMem, maxOps = 6000, 5000, 20000, 90
	}
	for i := 0; i < nAll; i++ {
		emit(genCase(r, mMem|mPebble|mPebbleV1|mLevel, genCfg{}, maxOps))
	}
	for i := 0; i < nNoLevel; i++ {
		emit(genCase(r, mMem|mPebble|mPebbleV1, genCfg{batchRange: true}, maxOps))
	}
	for i := 0; i < nMem; i++ {
		emit(genCase(r, mMem, genCfg{batchRange: true, wild: true}, maxOps))
	}
}

func main() {
	log.SetDefault(log.NewLogger(log.DiscardHandler()))
	Main(Family{
		ID: "C23",
		Rule: "random histories of 5-40 (thorough 5-90) ops over a 4-symbol key alphabet {00,61,62,ff} with shared prefixes, empty keys and values: " +
			"Put/Delete/DeleteRange(nil, empty and overlapping bounds)/Has/Get, batches with interleaved puts/deletes of the same keys, Write/Reset/Replay onto any view, " +
			"iterators (prefix,start) opened before/after writes and drained at the end, dumps; every op through the store or one of three rawdb.NewTable views (incl. nested and empty-prefix tables). " +
			"Streams: all four backends (no batch range deletes: open finding C23-F2), memorydb+pebble v2+pebble v1 (with batch range deletes), memorydb only (unrestricted: keys >= 0xff*32, ops on written batches, bad handles = malformed stream). " +
			"Non-trivial: >= 5 ops, at least one read that found a value or an iterator item, and at least one batch Write, range deletion or iterator; distinct = distinct case line.",
		Gen: gen,
		Run: run,
	})
}
