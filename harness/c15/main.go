// Family c15: EIP-7928 block access lists. (a) the list returned by
// StateDB.Finalise under Amsterdam rules after every transaction of random block
// histories (reads, net changes, reverts, restore-original patterns) and the merged
// block list (ToEncodingObj, Validate, EncodeRLP) vs coq/State/Bal.v + BalEnc.v;
// (b) random bal.BlockAccessList values through Validate/EncodeRLP/DecodeRLP/Hash;
// (c) mutated encodings through DecodeRLP.  Direct oracle: an independent diff of
// full state dumps before/after each transaction, and an independent validity check.
//
// Cases: see coq/Run/C15.v.  The StateDB part (ops, naive reference, guards, dumps)
// is copied from harness/c13.
package main

import (
	"bytes"
	"fmt"
	"math/big"
	"sort"
	"strings"

	. "gethverif/harness/hxlib"
	"github.com/ethereum/go-ethereum/common"
	"github.com/ethereum/go-ethereum/core/state"
	"github.com/ethereum/go-ethereum/core/tracing"
	"github.com/ethereum/go-ethereum/core/types"
	"github.com/ethereum/go-ethereum/core/types/bal"
	"github.com/ethereum/go-ethereum/crypto"
	"github.com/ethereum/go-ethereum/params"
	"github.com/ethereum/go-ethereum/rlp"
	"github.com/holiman/uint256"
)

const (
	opCreateAccount = iota
	opCreateContract
	opAddBalance
	opSubBalance
	opSetBalance
	opSetNonce
	opSetCode
	opSetState
	opSetTransient
	opSelfDestruct
	opSelfDestruct6780
	opAddAddress
	opAddSlot
	opAddRefund
	opSubRefund
	opAddLog
	opSnapshot
	opRevert
	opFinalise
	opTxStart // not used by c15
	opSetTx
	opPrepare
	opGet
)

var opNames = []string{"createAccount", "createContract", "addBalance", "subBalance", "setBalance", "setNonce",
	"setCode", "setState", "setTransient", "selfDestruct", "selfDestruct6780", "addAddress", "addSlot",
	"addRefund", "subRefund", "addLog", "snapshot", "revert", "finalise", "txStart", "setTx", "prepare", "get"}

var (
	w256   = new(big.Int).Lsh(big.NewInt(1), 256)
	w64    = new(big.Int).Lsh(big.NewInt(1), 64)
	ripemd = 3
)

func addrOf(a int) common.Address { return common.BytesToAddress([]byte{byte(a)}) }
func hashOf(k int) common.Hash    { return common.BytesToHash([]byte{byte(k)}) }
func wordOf(v *big.Int) common.Hash {
	return common.BigToHash(v)
}
func codeOf(c int) []byte {
	b := make([]byte, c)
	for i := range b {
		b[i] = byte(0xC0 + c)
	}
	return b
}

var codeHashID = map[common.Hash]int{}

func init() {
	for c := 0; c < 8; c++ {
		codeHashID[crypto.Keccak256Hash(codeOf(c))] = c + 1
	}
	codeHashID[common.Hash{}] = 0
}

func rulesOf(bits int) params.Rules {
	return params.Rules{IsEIP158: bits&1 != 0, IsAmsterdam: bits&2 != 0, IsEIP2929: bits&4 != 0, IsShanghai: bits&8 != 0,
		IsBerlin: bits&4 != 0, IsCancun: bits&8 != 0}
}

// ---------------------------------------------------------------------------
// decoded case

type dbAcct struct {
	addr  int
	nonce uint64
	bal   *big.Int
	code  int
	stor  [][2]*big.Int // slot, value
}

type alEntry struct {
	addr  int
	slots []int
}

type op struct {
	tag              int
	a, k             int
	v                *big.Int // value / amount / nonce / gas / id / data
	rules            int
	th, ti           int
	sender, coinbase int
	dst              int // -1 = none
	al               []alEntry
	bai              int // blockAccessIndex (opSetTx)
	q                int // getter (opGet)
}

func decodeHistory(l SL) ([]dbAcct, []op) {
	if len(l) != 2 {
		panic("hxlib: history must be (db ops)")
	}
	var db []dbAcct
	for _, e := range AsList(l[0]) {
		f := AsList(e)
		if len(f) != 5 {
			panic("hxlib: bad db account")
		}
		d := dbAcct{addr: AsInt(f[0]), nonce: AsU64(f[1]), bal: AsBig(f[2]), code: AsInt(f[3])}
		if d.addr < 1 || d.addr > 4 || d.code < 0 || d.code > 7 {
			panic("hxlib: committed account outside the observed domain")
		}
		for _, sv := range AsList(f[4]) {
			p := AsList(sv)
			if len(p) != 2 {
				panic("hxlib: bad slot")
			}
			if !AsBig(p[0]).IsInt64() || AsBig(p[0]).Int64() < 0 || AsBig(p[0]).Int64() > 3 {
				panic("hxlib: committed slot outside the observed domain")
			}
			d.stor = append(d.stor, [2]*big.Int{AsBig(p[0]), AsBig(p[1])})
		}
		db = append(db, d)
	}
	var ops []op
	for _, e := range AsList(l[1]) {
		f := AsList(e)
		if len(f) == 0 {
			panic("hxlib: empty op")
		}
		o := op{tag: AsInt(f[0]), dst: -1, v: new(big.Int)}
		need := func(n int) {
			if len(f) != n+1 {
				panic("hxlib: bad op arity")
			}
		}
		switch o.tag {
		case opCreateAccount, opCreateContract, opSelfDestruct, opSelfDestruct6780, opAddAddress:
			need(1)
			o.a = AsInt(f[1])
		case opAddBalance, opSubBalance, opSetBalance, opSetNonce, opSetCode, opAddLog:
			need(2)
			o.a, o.v = AsInt(f[1]), AsBig(f[2])
		case opSetState, opSetTransient:
			need(3)
			o.a, o.k, o.v = AsInt(f[1]), AsInt(f[2]), AsBig(f[3])
		case opAddSlot:
			need(2)
			o.a, o.k = AsInt(f[1]), AsInt(f[2])
		case opAddRefund, opSubRefund, opRevert:
			need(1)
			o.v = AsBig(f[1])
		case opSnapshot:
			need(0)
		case opFinalise:
			need(1)
			o.rules = AsInt(f[1])
		case opSetTx:
			need(3)
			o.th, o.ti, o.bai = AsInt(f[1]), AsInt(f[2]), AsInt(f[3])
			if o.bai < 0 || !AsBig(f[3]).IsInt64() || AsBig(f[3]).Int64() > 0xffffffff {
				panic("hxlib: bad blockAccessIndex")
			}
		case opGet:
			if len(f) != 3 && len(f) != 4 {
				panic("hxlib: bad getter arity")
			}
			o.q, o.a = AsInt(f[1]), AsInt(f[2])
			if (o.q >= 8) != (len(f) == 4) || o.q < 0 || o.q > 9 {
				panic("hxlib: bad getter")
			}
			if len(f) == 4 {
				o.k = AsInt(f[3])
			}
		case opPrepare:
			need(5)
			o.rules, o.sender, o.coinbase = AsInt(f[1]), AsInt(f[2]), AsInt(f[3])
			d := AsList(f[4])
			if len(d) > 0 {
				o.dst = AsInt(d[0])
			}
			for _, e := range AsList(f[5]) {
				p := AsList(e)
				if len(p) != 2 {
					panic("hxlib: bad access list entry")
				}
				ae := alEntry{addr: AsInt(p[0])}
				for _, s := range AsList(p[1]) {
					ae.slots = append(ae.slots, AsInt(s))
				}
				o.al = append(o.al, ae)
			}
		default:
			panic("hxlib: unknown op tag")
		}
		if o.v.Sign() < 0 || o.a < 0 || o.a > 255 || o.k < 0 || o.k > 255 {
			panic("hxlib: negative or oversized argument")
		}
		// the dump-diff oracle observes addresses 1..4 and slots 0..3 only
		switch o.tag {
		case opCreateAccount, opCreateContract, opAddBalance, opSubBalance, opSetBalance, opSetNonce, opSetCode,
			opSetState, opSetTransient, opSelfDestruct, opSelfDestruct6780, opAddAddress, opAddSlot, opAddLog, opGet:
			if o.a < 1 || o.a > 4 || o.k > 3 {
				panic("hxlib: address/slot outside the observed domain")
			}
		}
		ops = append(ops, o)
	}
	return db, ops
}

func encodeOp(o op) Sx {
	switch o.tag {
	case opCreateAccount, opCreateContract, opSelfDestruct, opSelfDestruct6780, opAddAddress:
		return L(I(int64(o.tag)), I(int64(o.a)))
	case opAddBalance, opSubBalance, opSetBalance, opSetNonce, opSetCode, opAddLog:
		return L(I(int64(o.tag)), I(int64(o.a)), Big(o.v))
	case opSetState, opSetTransient:
		return L(I(int64(o.tag)), I(int64(o.a)), I(int64(o.k)), Big(o.v))
	case opAddSlot:
		return L(I(int64(o.tag)), I(int64(o.a)), I(int64(o.k)))
	case opAddRefund, opSubRefund, opRevert:
		return L(I(int64(o.tag)), Big(o.v))
	case opSnapshot:
		return L(I(int64(o.tag)))
	case opFinalise:
		return L(I(int64(o.tag)), I(int64(o.rules)))
	case opSetTx:
		return L(I(int64(o.tag)), I(int64(o.th)), I(int64(o.ti)), I(int64(o.bai)))
	case opGet:
		if o.q >= 8 {
			return L(I(int64(o.tag)), I(int64(o.q)), I(int64(o.a)), I(int64(o.k)))
		}
		return L(I(int64(o.tag)), I(int64(o.q)), I(int64(o.a)))
	case opPrepare:
		dst := SL{}
		if o.dst >= 0 {
			dst = SL{I(int64(o.dst))}
		}
		al := SL{}
		for _, e := range o.al {
			ks := SL{}
			for _, k := range e.slots {
				ks = append(ks, I(int64(k)))
			}
			al = append(al, L(I(int64(e.addr)), ks))
		}
		return L(I(int64(o.tag)), I(int64(o.rules)), I(int64(o.sender)), I(int64(o.coinbase)), dst, al)
	}
	panic("hxlib: encodeOp")
}

// ---------------------------------------------------------------------------
// the naive reference implementation (the oracle): whole-state copies

type rAcct struct {
	nonce   uint64
	bal     *big.Int
	code    int
	stor    map[int]*big.Int
	cstor   map[int]*big.Int
	created bool
	sd      bool
}

func newRAcct() *rAcct {
	return &rAcct{bal: new(big.Int), stor: map[int]*big.Int{}, cstor: map[int]*big.Int{}}
}
func (x *rAcct) empty() bool { return x.nonce == 0 && x.bal.Sign() == 0 && x.code == 0 }
func (x *rAcct) copy() *rAcct {
	y := &rAcct{nonce: x.nonce, bal: new(big.Int).Set(x.bal), code: x.code, created: x.created, sd: x.sd,
		stor: map[int]*big.Int{}, cstor: map[int]*big.Int{}}
	for k, v := range x.stor {
		y.stor[k] = v
	}
	for k, v := range x.cstor {
		y.cstor[k] = v
	}
	return y
}

type rLog struct{ th, ti, idx, addr, data int }

type rCore struct {
	accts   map[int]*rAcct
	touched map[int]bool
	tstor   map[[2]int]*big.Int
	alA     map[int]bool
	alS     map[[2]int]bool
	refund  *big.Int
	logs    []rLog
}

func (c *rCore) copy() *rCore {
	d := &rCore{accts: map[int]*rAcct{}, touched: map[int]bool{}, tstor: map[[2]int]*big.Int{}, alA: map[int]bool{},
		alS: map[[2]int]bool{}, refund: new(big.Int).Set(c.refund), logs: append([]rLog{}, c.logs...)}
	for a, x := range c.accts {
		d.accts[a] = x.copy()
	}
	for a := range c.touched {
		d.touched[a] = true
	}
	for k, v := range c.tstor {
		d.tstor[k] = v
	}
	for a := range c.alA {
		d.alA[a] = true
	}
	for k := range c.alS {
		d.alS[k] = true
	}
	return d
}

type rSnap struct {
	id   int
	core *rCore
}

type ref struct {
	cur    *rCore
	stack  []rSnap
	next   int
	sticky bool
	th, ti int
}

func newRef(db []dbAcct) *ref {
	c := &rCore{accts: map[int]*rAcct{}, touched: map[int]bool{}, tstor: map[[2]int]*big.Int{}, alA: map[int]bool{},
		alS: map[[2]int]bool{}, refund: new(big.Int)}
	for _, d := range db {
		x := newRAcct()
		x.nonce, x.bal, x.code = d.nonce, new(big.Int).Set(d.bal), d.code
		for _, sv := range d.stor {
			if sv[1].Sign() != 0 {
				x.stor[int(sv[0].Int64())] = sv[1]
				x.cstor[int(sv[0].Int64())] = sv[1]
			}
		}
		c.accts[d.addr] = x
	}
	return &ref{cur: c}
}

func (r *ref) getOrNew(a int) *rAcct {
	x := r.cur.accts[a]
	if x == nil {
		x = newRAcct()
		r.cur.accts[a] = x
		r.cur.touched[a] = true
	}
	return x
}

func sval(m map[int]*big.Int, k int) *big.Int {
	if v, ok := m[k]; ok {
		return v
	}
	return new(big.Int)
}

// step returns 0 none / 1 panic / id+2
func (r *ref) step(o op) int {
	c := r.cur
	switch o.tag {
	case opCreateAccount:
		c.accts[o.a] = newRAcct()
		c.touched[o.a] = true
	case opCreateContract:
		x := c.accts[o.a]
		if x == nil {
			return 1
		}
		x.created = true
	case opAddBalance:
		x := r.getOrNew(o.a)
		if o.v.Sign() == 0 {
			if x.empty() {
				c.touched[o.a] = true
				if o.a == ripemd {
					r.sticky = true
				}
			}
		} else {
			x.bal = new(big.Int).Mod(new(big.Int).Add(x.bal, o.v), w256)
			c.touched[o.a] = true
		}
	case opSubBalance:
		x := r.getOrNew(o.a)
		if o.v.Sign() != 0 {
			x.bal = new(big.Int).Mod(new(big.Int).Sub(x.bal, o.v), w256)
			c.touched[o.a] = true
		}
	case opSetBalance:
		x := r.getOrNew(o.a)
		x.bal = new(big.Int).Set(o.v)
		c.touched[o.a] = true
	case opSetNonce:
		x := r.getOrNew(o.a)
		x.nonce = o.v.Uint64()
		c.touched[o.a] = true
	case opSetCode:
		x := r.getOrNew(o.a)
		x.code = int(o.v.Int64())
		c.touched[o.a] = true
	case opSetState:
		x := r.getOrNew(o.a)
		if sval(x.stor, o.k).Cmp(o.v) != 0 {
			x.stor[o.k] = new(big.Int).Set(o.v)
			c.touched[o.a] = true
		}
	case opSetTransient:
		key := [2]int{o.a, o.k}
		if o.v.Sign() == 0 {
			delete(c.tstor, key)
		} else {
			c.tstor[key] = new(big.Int).Set(o.v)
		}
	case opSelfDestruct:
		if x := c.accts[o.a]; x != nil && !x.sd {
			x.sd = true
			c.touched[o.a] = true
		}
	case opSelfDestruct6780:
		if x := c.accts[o.a]; x != nil && x.created && !x.sd {
			x.sd = true
			c.touched[o.a] = true
		}
	case opAddAddress:
		c.alA[o.a] = true
	case opAddSlot:
		c.alA[o.a] = true
		c.alS[[2]int{o.a, o.k}] = true
	case opAddRefund:
		c.refund = new(big.Int).Mod(new(big.Int).Add(c.refund, o.v), w64)
	case opSubRefund:
		if o.v.Cmp(c.refund) > 0 {
			return 1
		}
		c.refund = new(big.Int).Sub(c.refund, o.v)
	case opAddLog:
		c.logs = append(c.logs, rLog{r.th, r.ti, len(c.logs), o.a, int(o.v.Int64())})
	case opSnapshot:
		id := r.next
		r.next++
		r.stack = append(r.stack, rSnap{id, c.copy()})
		return id + 2
	case opRevert:
		for i := len(r.stack) - 1; i >= 0; i-- {
			if o.v.IsInt64() && int64(r.stack[i].id) == o.v.Int64() {
				r.cur = r.stack[i].core
				r.stack = r.stack[:i]
				return 0
			}
		}
		return 1
	case opFinalise:
		is158, isAms := o.rules&1 != 0, o.rules&2 != 0
		for a, x := range c.accts {
			touched := c.touched[a] || (r.sticky && a == ripemd)
			switch {
			case x.sd:
				if isAms && x.bal.Sign() != 0 {
					y := newRAcct()
					y.bal = x.bal
					c.accts[a] = y
				} else {
					delete(c.accts, a)
				}
			case is158 && touched && x.empty():
				delete(c.accts, a)
			default:
				x.cstor = map[int]*big.Int{}
				for k, v := range x.stor {
					x.cstor[k] = v
				}
				x.created = false
			}
		}
		c.touched = map[int]bool{}
		c.refund = new(big.Int)
		r.stack = nil
		r.next = 0
		r.sticky = false
	case opSetTx:
		r.th, r.ti = o.th, o.ti
	case opPrepare:
		if o.rules&4 != 0 {
			c.alA = map[int]bool{o.sender: true}
			c.alS = map[[2]int]bool{}
			if o.dst >= 0 {
				c.alA[o.dst] = true
			}
			for _, e := range o.al {
				c.alA[e.addr] = true
				for _, k := range e.slots {
					c.alS[[2]int{e.addr, k}] = true
				}
			}
			if o.rules&8 != 0 {
				c.alA[o.coinbase] = true
			}
		}
		c.tstor = map[[2]int]*big.Int{}
	}
	return 0
}

func b2i(b bool) int64 {
	if b {
		return 1
	}
	return 0
}

var dumpAddrs = []int{1, 2, 3, 4}
var dumpSlots = []int{0, 1, 2, 3}
var dumpHashes = []int{1, 2, 3, 4, 5}

func (r *ref) dump() Sx {
	c := r.cur
	out := SL{}
	for _, a := range dumpAddrs {
		x := c.accts[a]
		if x == nil {
			out = append(out, I(0), I(1), I(0), I(0), I(0), I(0), I(0), I(0))
		} else {
			out = append(out, I(1), I(b2i(x.empty())), Big(x.bal), U(x.nonce), I(int64(x.code)), I(int64(x.code+1)),
				I(b2i(x.sd)), I(b2i(x.created)))
		}
		out = append(out, I(b2i(c.alA[a])))
		for _, k := range dumpSlots {
			st, cst := new(big.Int), new(big.Int)
			if x != nil {
				st, cst = sval(x.stor, k), sval(x.cstor, k)
			}
			ts := new(big.Int)
			if v, ok := c.tstor[[2]int{a, k}]; ok {
				ts = v
			}
			out = append(out, Big(st), Big(cst), Big(ts), I(b2i(c.alS[[2]int{a, k}])))
		}
	}
	out = append(out, Big(c.refund))
	for _, th := range dumpHashes {
		ls := SL{}
		for _, l := range c.logs {
			if l.th == th {
				ls = append(ls, L(I(int64(l.ti)), I(int64(l.idx)), I(int64(l.addr)), I(int64(l.data))))
			}
		}
		out = append(out, ls)
	}
	return out
}

// guard bookkeeping in reference terms (see Journal.v op_ok): the histories on which
// the reference is the specification
type guardState struct {
	originOK  map[int]bool // committed account absent or blank (nonce 0, no code, no storage), or deleted in this block
	unguarded string
}

func newGuard(db []dbAcct) *guardState {
	g := &guardState{originOK: map[int]bool{}}
	for a := 0; a < 256; a++ {
		g.originOK[a] = true
	}
	for _, d := range db {
		hasStor := false
		for _, sv := range d.stor {
			if sv[1].Sign() != 0 {
				hasStor = true
			}
		}
		g.originOK[d.addr] = d.nonce == 0 && d.code == 0 && !hasStor
	}
	return g
}

// before executes the guard check of op o on reference state r (before the op)
func (g *guardState) before(r *ref, o op) {
	if g.unguarded != "" {
		return
	}
	switch o.tag {
	case opCreateAccount:
		if r.cur.accts[o.a] != nil {
			g.unguarded = "createAccount-over-existing"
		}
	case opPrepare:
		if len(r.stack) != 0 || len(r.cur.touched) != 0 {
			g.unguarded = "prepare-mid-tx"
		}
	case opFinalise:
		for a, x := range r.cur.accts {
			touched := r.cur.touched[a] || (r.sticky && a == ripemd)
			if x.created && !touched {
				g.unguarded = "newContract-untouched-at-finalise"
			}
			if o.rules&2 != 0 && x.sd && x.bal.Sign() != 0 && !g.originOK[a] {
				g.unguarded = "amsterdam-selfdestruct-nonblank-origin"
			}
		}
	}
}

func (g *guardState) after(rBefore map[int]bool, r *ref, o op) {
	if o.tag == opFinalise {
		for a := range rBefore {
			if r.cur.accts[a] == nil {
				g.originOK[a] = true
			}
		}
	}
}

// ---------------------------------------------------------------------------
// the implementation

func buildState(db []dbAcct) *state.StateDB {
	sdb := state.NewDatabaseForTesting()
	st, err := state.New(types.EmptyRootHash, sdb)
	if err != nil {
		panic(err)
	}
	if len(db) == 0 {
		return st
	}
	for _, d := range db {
		a := addrOf(d.addr)
		st.CreateAccount(a)
		st.SetNonce(a, d.nonce, tracing.NonceChangeUnspecified)
		st.SetBalance(a, uint256.MustFromBig(d.bal), tracing.BalanceChangeUnspecified)
		if d.code != 0 {
			st.SetCode(a, codeOf(d.code), tracing.CodeChangeUnspecified)
		}
		for _, sv := range d.stor {
			st.SetState(a, hashOf(int(sv[0].Int64())), wordOf(sv[1]))
		}
	}
	root, err := st.Commit(params.Rules{}, 0)
	if err != nil {
		panic(err)
	}
	st2, err := state.New(root, sdb)
	if err != nil {
		panic(err)
	}
	return st2
}

func catchPanic(f func()) (panicked bool) {
	defer func() {
		if recover() != nil {
			panicked = true
		}
	}()
	f()
	return false
}

// applyOp runs one C13 call on the real StateDB: 0 none / 1 panic / id+2
func applyOp(st *state.StateDB, o op) int {
	a := addrOf(o.a)
	switch o.tag {
	case opCreateAccount:
		st.CreateAccount(a)
	case opCreateContract:
		if catchPanic(func() { st.CreateContract(a) }) { // nil dereference when the account does not exist
			return 1
		}
	case opAddBalance:
		st.AddBalance(a, uint256.MustFromBig(o.v), tracing.BalanceChangeUnspecified)
	case opSubBalance:
		st.SubBalance(a, uint256.MustFromBig(o.v), tracing.BalanceChangeUnspecified)
	case opSetBalance:
		st.SetBalance(a, uint256.MustFromBig(o.v), tracing.BalanceChangeUnspecified)
	case opSetNonce:
		st.SetNonce(a, o.v.Uint64(), tracing.NonceChangeUnspecified)
	case opSetCode:
		st.SetCode(a, codeOf(int(o.v.Int64())), tracing.CodeChangeUnspecified)
	case opSetState:
		st.SetState(a, hashOf(o.k), wordOf(o.v))
	case opSetTransient:
		st.SetTransientState(a, hashOf(o.k), wordOf(o.v))
	case opSelfDestruct:
		st.SelfDestruct(a)
	case opSelfDestruct6780: // the guard of vm.opSelfdestruct6780
		if st.IsNewContract(a) {
			st.SelfDestruct(a)
		}
	case opAddAddress:
		st.AddAddressToAccessList(a)
	case opAddSlot:
		st.AddSlotToAccessList(a, hashOf(o.k))
	case opAddRefund:
		st.AddRefund(o.v.Uint64())
	case opSubRefund:
		if catchPanic(func() { st.SubRefund(o.v.Uint64()) }) {
			return 1
		}
	case opAddLog:
		st.AddLog(&types.Log{Address: a, Data: []byte{byte(o.v.Int64())}})
	case opSnapshot:
		return st.Snapshot() + 2
	case opRevert:
		id := int(^uint(0) >> 1)
		if o.v.IsInt64() {
			id = int(o.v.Int64())
		}
		if catchPanic(func() { st.RevertToSnapshot(id) }) {
			return 1
		}
	case opSetTx:
		st.SetTxContext(hashOf(o.th), o.ti, uint32(o.bai))
	case opPrepare:
		var dst *common.Address
		if o.dst >= 0 {
			d := addrOf(o.dst)
			dst = &d
		}
		var al types.AccessList
		for _, e := range o.al {
			t := types.AccessTuple{Address: addrOf(e.addr)}
			for _, k := range e.slots {
				t.StorageKeys = append(t.StorageKeys, hashOf(k))
			}
			al = append(al, t)
		}
		st.Prepare(rulesOf(o.rules), addrOf(o.sender), addrOf(o.coinbase), dst, nil, al)
	}
	return 0
}

func dumpImpl(st *state.StateDB, fails *[]string) Sx {
	out := SL{}
	for _, ai := range dumpAddrs {
		a := addrOf(ai)
		code := st.GetCode(a)
		cid := len(code)
		if string(code) != string(codeOf(cid)) {
			cid = 999
		}
		if st.GetCodeSize(a) != len(code) {
			*fails = append(*fails, fmt.Sprintf("GetCodeSize(%d)=%d but len(GetCode)=%d", ai, st.GetCodeSize(a), len(code)))
		}
		hid, ok := codeHashID[st.GetCodeHash(a)]
		if !ok {
			hid = 998
		}
		out = append(out, I(b2i(st.Exist(a))), I(b2i(st.Empty(a))), Big(st.GetBalance(a).ToBig()), U(st.GetNonce(a)),
			I(int64(cid)), I(int64(hid)), I(b2i(st.HasSelfDestructed(a))), I(b2i(st.IsNewContract(a))),
			I(b2i(st.AddressInAccessList(a))))
		for _, k := range dumpSlots {
			h := hashOf(k)
			ap, sp := st.SlotInAccessList(a, h)
			if ap != st.AddressInAccessList(a) {
				*fails = append(*fails, "SlotInAccessList.addressPresent != AddressInAccessList")
			}
			cur, com := st.GetStateAndCommittedState(a, h)
			if cur != st.GetState(a, h) || com != st.GetCommittedState(a, h) {
				*fails = append(*fails, "GetStateAndCommittedState disagrees with GetState/GetCommittedState")
			}
			out = append(out, Big(st.GetState(a, h).Big()), Big(st.GetCommittedState(a, h).Big()),
				Big(st.GetTransientState(a, h).Big()), I(b2i(sp)))
		}
	}
	out = append(out, U(st.GetRefund()))
	total := 0
	for _, th := range dumpHashes {
		ls := SL{}
		for _, l := range st.GetLogs(hashOf(th), 0, common.Hash{}, 0) {
			d := 0
			if len(l.Data) > 0 {
				d = int(l.Data[0])
			}
			if l.TxHash != hashOf(th) {
				*fails = append(*fails, "log filed under the wrong tx hash")
			}
			ls = append(ls, L(I(int64(l.TxIndex)), I(int64(l.Index)), I(int64(l.Address[19])), I(int64(d))))
			total++
		}
		out = append(out, ls)
	}
	all := st.Logs()
	if !sort.SliceIsSorted(all, func(i, j int) bool { return all[i].Index < all[j].Index }) {
		*fails = append(*fails, "Logs() not sorted by index")
	}
	for i, l := range all {
		if int(l.Index) != i {
			*fails = append(*fails, fmt.Sprintf("Logs()[%d].Index=%d: indices are not 0..n-1", i, l.Index))
			break
		}
	}
	return out
}

// applyGet runs a getter on the real StateDB (it records reads when a transaction is open)
func applyGet(st *state.StateDB, o op) Sx {
	a := addrOf(o.a)
	switch o.q {
	case 0:
		return I(b2i(st.Exist(a)))
	case 1:
		return I(b2i(st.Empty(a)))
	case 2:
		return Big(st.GetBalance(a).ToBig())
	case 3:
		return U(st.GetNonce(a))
	case 4:
		code := st.GetCode(a)
		cid := len(code)
		if string(code) != string(codeOf(cid)) {
			cid = 999
		}
		return I(int64(cid))
	case 5:
		hid, ok := codeHashID[st.GetCodeHash(a)]
		if !ok {
			hid = 998
		}
		return I(int64(hid))
	case 6:
		return I(b2i(st.HasSelfDestructed(a)))
	case 7:
		return I(b2i(st.IsNewContract(a)))
	case 8:
		return Big(st.GetState(a, hashOf(o.k)).Big())
	case 9:
		return Big(st.GetCommittedState(a, hashOf(o.k)).Big())
	}
	panic("hxlib: getter")
}

// ---------------------------------------------------------------------------
// BlockAccessList <-> canonical dump

func balDump(l *bal.BlockAccessList) Sx {
	out := SL{}
	for _, a := range *l {
		ch := SL{}
		for _, sc := range a.StorageChanges {
			ws := SL{}
			for _, w := range sc.SlotChanges {
				ws = append(ws, L(U(uint64(w.BlockAccessIndex)), Big(w.PostValue.ToBig())))
			}
			ch = append(ch, L(Big(sc.Slot.ToBig()), ws))
		}
		rd := SL{}
		for _, s := range a.StorageReads {
			rd = append(rd, Big(s.ToBig()))
		}
		bl := SL{}
		for _, b := range a.BalanceChanges {
			bl = append(bl, L(U(uint64(b.BlockAccessIndex)), Big(b.PostBalance.ToBig())))
		}
		nn := SL{}
		for _, n := range a.NonceChanges {
			nn = append(nn, L(U(uint64(n.BlockAccessIndex)), U(n.PostNonce)))
		}
		cd := SL{}
		for _, c := range a.CodeChanges {
			cd = append(cd, L(U(uint64(c.BlockAccessIndex)), B(c.NewCode)))
		}
		out = append(out, L(Big(new(big.Int).SetBytes(a.Address[:])), ch, rd, bl, nn, cd))
	}
	return out
}

func asU32(v Sx) uint32 {
	b := AsBig(v)
	if b.Sign() < 0 || !b.IsUint64() || b.Uint64() > 0xffffffff {
		panic("hxlib: index out of uint32")
	}
	return uint32(b.Uint64())
}

func asU256(v Sx) *uint256.Int {
	b := AsBig(v)
	if b.Sign() < 0 || b.BitLen() > 256 {
		panic("hxlib: value out of uint256")
	}
	return uint256.MustFromBig(b)
}

func parseBal(v Sx) bal.BlockAccessList {
	list := bal.BlockAccessList{}
	for _, e := range AsList(v) {
		f := AsList(e)
		if len(f) != 6 {
			panic("hxlib: bad account access")
		}
		ab := AsBig(f[0])
		if ab.Sign() < 0 || ab.BitLen() > 160 {
			panic("hxlib: bad address")
		}
		a := bal.AccountAccess{Address: common.BigToAddress(ab)}
		for _, sc := range AsList(f[1]) {
			p := AsList(sc)
			if len(p) != 2 {
				panic("hxlib: bad slot changes")
			}
			x := bal.VerifSlotChanges{Slot: asU256(p[0])}
			for _, w := range AsList(p[1]) {
				q := AsList(w)
				if len(q) != 2 {
					panic("hxlib: bad write")
				}
				x.SlotChanges = append(x.SlotChanges, bal.VerifStorageWrite{BlockAccessIndex: asU32(q[0]), PostValue: asU256(q[1])})
			}
			a.StorageChanges = append(a.StorageChanges, x)
		}
		for _, s := range AsList(f[2]) {
			a.StorageReads = append(a.StorageReads, asU256(s))
		}
		for _, w := range AsList(f[3]) {
			q := AsList(w)
			if len(q) != 2 {
				panic("hxlib: bad balance change")
			}
			a.BalanceChanges = append(a.BalanceChanges, bal.VerifBalanceChange{BlockAccessIndex: asU32(q[0]), PostBalance: asU256(q[1])})
		}
		for _, w := range AsList(f[4]) {
			q := AsList(w)
			if len(q) != 2 || !AsBig(q[1]).IsUint64() {
				panic("hxlib: bad nonce change")
			}
			a.NonceChanges = append(a.NonceChanges, bal.VerifAccountNonce{BlockAccessIndex: asU32(q[0]), PostNonce: AsU64(q[1])})
		}
		for _, w := range AsList(f[5]) {
			q := AsList(w)
			if len(q) != 2 {
				panic("hxlib: bad code change")
			}
			a.CodeChanges = append(a.CodeChanges, bal.VerifCodeChange{BlockAccessIndex: asU32(q[0]), NewCode: AsBytes(q[1])})
		}
		list = append(list, a)
	}
	return list
}

// validateClass maps the error of Validate to the classes of coq/State/BalEnc.v (verr_*)
func validateClass(err error) int {
	if err == nil {
		return 0
	}
	m := err.Error()
	for _, p := range []struct {
		s string
		c int
	}{
		{"accounts not in lexicographic order", 1},
		{"storage write slots must be unique and sorted", 2},
		{"empty slot changes", 3},
		{"storage write indexes must be unique and sorted", 4},
		{"storage write index exceeds limit", 5},
		{"storage read slots must be unique and sorted", 6},
		{"storage key reported in both read/write sets", 7},
		{"balance changes must be unique and sorted", 8},
		{"balance change index exceeds limit", 9},
		{"nonce changes must be unique and sorted", 10},
		{"nonce change index exceeds limit", 11},
		{"code changes must be unique and sorted", 12},
		{"code change index exceeds limit", 13},
		{"code change contained oversized code", 14},
		{"exceeds size constraint", 15},
	} {
		if strings.Contains(m, p.s) {
			return p.c
		}
	}
	return 99
}

// independent statement of "sorted, duplicate-free, index bounds, sizes" on the dump of a list:
// structural = every level strictly ascending, no empty slot-change list, reads disjoint from writes
func checkDump(d Sx, gasLimit uint64, txCount int) (structural, bounds bool) {
	structural, bounds = true, true
	asc := func(keys []*big.Int) bool {
		for i := 1; i < len(keys); i++ {
			if keys[i-1].Cmp(keys[i]) >= 0 {
				return false
			}
		}
		return true
	}
	firsts := func(l SL) []*big.Int {
		var ks []*big.Int
		for _, e := range l {
			ks = append(ks, AsBig(AsList(e)[0]))
		}
		return ks
	}
	limit := big.NewInt(int64(txCount) + 1)
	idxOK := func(l SL) {
		for _, k := range firsts(l) {
			if k.Cmp(limit) > 0 {
				bounds = false
			}
		}
	}
	items := uint64(0)
	accts := AsList(d)
	if !asc(firsts(accts)) {
		structural = false
	}
	for _, e := range accts {
		f := AsList(e)
		ch, rd, bl, nn, cd := AsList(f[1]), AsList(f[2]), AsList(f[3]), AsList(f[4]), AsList(f[5])
		items += 1 + uint64(len(ch)) + uint64(len(rd))
		if !asc(firsts(ch)) {
			structural = false
		}
		written := map[string]bool{}
		for _, sc := range ch {
			p := AsList(sc)
			ws := AsList(p[1])
			if len(ws) == 0 || !asc(firsts(ws)) {
				structural = false
			}
			idxOK(ws)
			written[AsBig(p[0]).String()] = true
		}
		var rks []*big.Int
		for _, s := range rd {
			rks = append(rks, AsBig(s))
			if written[AsBig(s).String()] {
				structural = false
			}
		}
		if !asc(rks) || !asc(firsts(bl)) || !asc(firsts(nn)) || !asc(firsts(cd)) {
			structural = false
		}
		idxOK(bl)
		idxOK(nn)
		idxOK(cd)
		for _, c := range cd {
			if len(AsBytes(AsList(c)[1])) > 65536 {
				bounds = false
			}
		}
	}
	if items > gasLimit/2000 {
		bounds = false
	}
	return
}

func encodeBal(l *bal.BlockAccessList) ([]byte, error) {
	var buf bytes.Buffer
	err := l.EncodeRLP(&buf)
	return buf.Bytes(), err
}

// round-trip / hash oracle on one list; returns the encoding
func codecOracle(l *bal.BlockAccessList, fails *[]string) []byte {
	enc, err := encodeBal(l)
	if err != nil {
		*fails = append(*fails, "EncodeRLP failed: "+err.Error())
		return nil
	}
	var dec bal.BlockAccessList
	if err := rlp.DecodeBytes(enc, &dec); err != nil {
		*fails = append(*fails, "decode(encode(list)) failed: "+err.Error())
		return enc
	}
	if String(balDump(&dec)) != String(balDump(l)) {
		*fails = append(*fails, "decode(encode(list)) != list")
	}
	want := crypto.Keccak256Hash(enc)
	if l.Hash() != want || dec.Hash() != want {
		*fails = append(*fails, "Hash() is not keccak256 of the encoding / not stable across decode")
	}
	enc2, _ := encodeBal(&dec)
	if !bytes.Equal(enc, enc2) {
		*fails = append(*fails, "re-encoding the decoded list gives different bytes")
	}
	return enc
}

// ---------------------------------------------------------------------------
// independent per-transaction oracle: diff of full state dumps

type acctDump struct {
	exists bool
	bal    *big.Int
	nonce  uint64
	code   []byte
	stor   [4]*big.Int
}

func stateDump(st *state.StateDB) map[int]acctDump {
	out := map[int]acctDump{}
	for _, ai := range dumpAddrs {
		a := addrOf(ai)
		d := acctDump{exists: st.Exist(a), bal: st.GetBalance(a).ToBig(), nonce: st.GetNonce(a), code: append([]byte{}, st.GetCode(a)...)}
		for _, k := range dumpSlots {
			d.stor[k] = st.GetState(a, hashOf(k)).Big()
		}
		out[ai] = d
	}
	return out
}

func blankStorage(d acctDump) bool {
	for _, v := range d.stor {
		if v.Sign() != 0 {
			return false
		}
	}
	return true
}

// expected list of one transaction, as a dump, from pre/post and the touched sets
func expectedDump(pre, post map[int]acctDump, bai int, accts map[int]bool, slots map[[2]int]bool) Sx {
	var as []int
	for a := range accts {
		as = append(as, a)
	}
	sort.Ints(as)
	out := SL{}
	for _, a := range as {
		p, q := pre[a], post[a]
		ch, rd, bl, nn, cd := SL{}, SL{}, SL{}, SL{}, SL{}
		for _, k := range dumpSlots {
			switch {
			case p.stor[k].Cmp(q.stor[k]) != 0:
				ch = append(ch, L(I(int64(k)), L(L(I(int64(bai)), Big(q.stor[k])))))
			case slots[[2]int{a, k}]:
				rd = append(rd, I(int64(k)))
			}
		}
		if p.bal.Cmp(q.bal) != 0 {
			bl = append(bl, L(I(int64(bai)), Big(q.bal)))
		}
		if p.nonce != q.nonce {
			nn = append(nn, L(I(int64(bai)), U(q.nonce)))
		}
		if !bytes.Equal(p.code, q.code) {
			cd = append(cd, L(I(int64(bai)), B(q.code)))
		}
		out = append(out, L(I(int64(a)), ch, rd, bl, nn, cd))
	}
	return out
}

func touchesAccount(o op) bool {
	switch o.tag {
	case opCreateContract, opAddBalance, opSubBalance, opSetBalance, opSetNonce, opSetCode, opSetState,
		opSelfDestruct, opSelfDestruct6780, opGet:
		return true
	}
	return false
}

func countChanges(d Sx) int {
	n := 0
	for _, e := range AsList(d) {
		f := AsList(e)
		n += len(AsList(f[1])) + len(AsList(f[3])) + len(AsList(f[4])) + len(AsList(f[5]))
	}
	return n
}

func runHistory(l SL) Result {
	if len(l) != 5 {
		panic("hxlib: history case must be (0 db ops gaslimit txcount)")
	}
	db, ops := decodeHistory(l[1:3])
	gasLimit, txCount := AsU64(l[3]), AsInt(l[4])
	st := buildState(db)
	rf := newRef(db)
	g := newGuard(db)
	res := Result{}
	var fails []string
	obs := SL{}
	tags := map[string]bool{}
	block := bal.NewConstructionBlockAccessList()
	reverts, finalises, listsWithChanges := 0, 0, 0

	// per-transaction bookkeeping of the oracle
	inTx := false // a list is open (Prepare under Amsterdam rules seen, not yet finalised)
	sawSetTx := false
	var pre map[int]acctDump
	accts := map[int]bool{}
	slots := map[[2]int]bool{}
	bai := 0
	usedBai := map[int]bool{}
	txWrote := map[[2]int]bool{} // slots set to a different value at some point of the tx
	txChanged := false           // some journalled change was reverted in this tx

	for i, o := range ops {
		g.before(rf, o)
		before := map[int]bool{}
		for a := range rf.cur.accts {
			before[a] = true
		}
		tags[opNames[o.tag]] = true
		switch o.tag {
		case opGet:
			if inTx {
				accts[o.a] = true
				if o.q >= 8 && rf.cur.accts[o.a] != nil {
					slots[[2]int{o.a, o.k}] = true
				}
			}
			obs = append(obs, applyGet(st, o))
		case opSetTx:
			if !inTx && g.unguarded == "" {
				pre = stateDump(st) // stateAccessList is nil here: nothing is recorded
			}
			sawSetTx = true
			bai = o.bai
			obs = append(obs, I(int64(applyOp(st, o))))
		case opPrepare:
			if pre == nil || !sawSetTx {
				if g.unguarded == "" {
					g.unguarded = "prepare-without-setTx"
				}
			}
			obs = append(obs, I(int64(applyOp(st, o))))
			if o.rules&2 != 0 {
				inTx = true
				accts, slots, txWrote, txChanged = map[int]bool{}, map[[2]int]bool{}, map[[2]int]bool{}, false
			}
		case opFinalise:
			finalises++
			tags[fmt.Sprintf("rules%x", o.rules)] = true
			// guards of the net-change statement, in reference terms
			if inTx && o.rules&2 != 0 && g.unguarded == "" && pre != nil {
				for a, x := range rf.cur.accts {
					p, known := pre[a]
					if !known {
						continue
					}
					touched := rf.cur.touched[a] || (rf.sticky && a == ripemd)
					if x.sd {
						tags["selfdestruct"] = true
						if p.nonce != 0 || len(p.code) != 0 || !blankStorage(p) {
							g.unguarded = "selfdestruct-of-nonblank-pre-tx-account"
						}
					} else if touched && x.empty() {
						tags["delete158"] = true
						if !blankStorage(p) {
							g.unguarded = "empty-account-with-storage-deleted"
						}
					}
				}
			}
			ret := st.Finalise(rulesOf(o.rules))
			var retObs Sx = SL{}
			var retDump Sx
			if ret != nil {
				enc := ret.ToEncodingObj()
				retDump = balDump(enc)
				retObs = SL{retDump}
				if s, _ := checkDump(retDump, ^uint64(0), 1<<40); !s {
					fails = append(fails, fmt.Sprintf("op %d: ToEncodingObj of the returned list is not sorted/unique/disjoint", i))
				}
				if usedBai[bai] {
					tags["merge-collision"] = true
				}
				usedBai[bai] = true
				block.Merge(ret)
				if countChanges(retDump) > 0 {
					listsWithChanges++
				}
			} else {
				tags["finalise-nil"] = true
			}
			var dfails []string
			obs = append(obs, L(retObs, dumpImpl(st, &dfails)))
			fails = append(fails, dfails...)
			if (ret != nil) != (inTx && o.rules&2 != 0) && g.unguarded == "" {
				fails = append(fails, fmt.Sprintf("op %d: Finalise returned nil=%v but a list was open=%v", i, ret == nil, inTx))
			}
			if ret != nil && inTx && g.unguarded == "" && pre != nil {
				post := stateDump(st)
				want := expectedDump(pre, post, bai, accts, slots)
				if ws, gs := String(want), String(retDump); ws != gs {
					fails = append(fails, fmt.Sprintf("op %d: Finalise list is not the net change of the transaction: got %s want %s", i, gs, ws))
				}
				// restore-original pattern that surfaced as a read
				for _, e := range AsList(retDump) {
					f := AsList(e)
					for _, s := range AsList(f[2]) {
						if txWrote[[2]int{AsInt(f[0]), AsInt(s)}] {
							tags["restore-read"] = true
						}
					}
				}
				if txChanged {
					tags["reverted-change"] = true
				}
			}
			inTx, sawSetTx, pre = false, false, nil
		default:
			if inTx && touchesAccount(o) {
				accts[o.a] = true
				if o.tag == opSetState {
					slots[[2]int{o.a, o.k}] = true
					if x := rf.cur.accts[o.a]; x == nil || sval(x.stor, o.k).Cmp(o.v) != 0 {
						txWrote[[2]int{o.a, o.k}] = true
					}
				}
			}
			w := applyOp(st, o)
			obs = append(obs, I(int64(w)))
			if w == 1 {
				tags["panic-"+opNames[o.tag]] = true
			}
			if o.tag == opRevert && w == 0 {
				reverts++
				txChanged = true
			}
		}
		rf.step(o)
		g.after(before, rf, o)
	}
	// block level
	merged := block.ToEncodingObj()
	md := balDump(merged)
	vc := validateClass(merged.Validate(gasLimit, txCount))
	enc := codecOracle(merged, &fails)
	obs = append(obs, md, I(int64(vc)), B(enc))
	structural, bounds := checkDump(md, gasLimit, txCount)
	if !structural {
		fails = append(fails, "merged ToEncodingObj is not sorted/unique/disjoint")
	}
	if structural && (vc == 0) != bounds {
		fails = append(fails, fmt.Sprintf("Validate class %d on a constructed list, independent bounds check says ok=%v", vc, bounds))
	}
	tags[fmt.Sprintf("v%d", vc)] = true
	res.Obs = obs
	if g.unguarded != "" {
		tags["unguarded-"+g.unguarded] = true
	} else {
		tags["guarded"] = true
	}
	if len(db) > 0 {
		tags["committed-start"] = true
	} else {
		tags["empty-start"] = true
	}
	tags[fmt.Sprintf("txs%d", min(finalises, 6))] = true
	for t := range tags {
		res.Tags = append(res.Tags, t)
	}
	res.NonTrivial = reverts >= 1 && listsWithChanges >= 1 && len(ops) >= 8
	if len(fails) > 0 {
		if len(fails) > 3 {
			fails = fails[:3]
		}
		res.Oracle = fmt.Sprint(fails)
	}
	return res
}

func runList(l SL) Result {
	if len(l) != 4 {
		panic("hxlib: list case must be (1 bal gaslimit txcount)")
	}
	list := parseBal(l[1])
	gasLimit, txCount := AsU64(l[2]), AsInt(l[3])
	var fails []string
	d := balDump(&list)
	if String(d) != String(l[1]) {
		fails = append(fails, "harness: dump(parse(case)) != case")
	}
	vc := validateClass(list.Validate(gasLimit, txCount))
	enc := codecOracle(&list, &fails)
	var decObs Sx = L(I(1))
	var dec bal.BlockAccessList
	if err := rlp.DecodeBytes(enc, &dec); err == nil {
		decObs = L(I(0), balDump(&dec))
	}
	structural, bounds := checkDump(d, gasLimit, txCount)
	if (vc == 0) != (structural && bounds) {
		fails = append(fails, fmt.Sprintf("Validate class %d but independent check says sorted/unique=%v bounds=%v", vc, structural, bounds))
	}
	res := Result{Obs: L(I(int64(vc)), B(enc), decObs), NonTrivial: len(list) >= 1}
	res.Tags = []string{"list", fmt.Sprintf("v%d", vc), fmt.Sprintf("accounts%d", min(len(list), 5))}
	if len(fails) > 0 {
		res.Oracle = fmt.Sprint(fails)
	}
	return res
}

func runBytes(l SL) Result {
	if len(l) != 4 {
		panic("hxlib: bytes case must be (2 x<bytes> gaslimit txcount)")
	}
	in := AsBytes(l[1])
	gasLimit, txCount := AsU64(l[2]), AsInt(l[3])
	res := Result{NonTrivial: len(in) > 0}
	var dec bal.BlockAccessList
	if err := rlp.DecodeBytes(in, &dec); err != nil {
		res.Obs = L(I(1))
		res.Tags = []string{"bytes", "decode-err"}
		return res
	}
	vc := validateClass(dec.Validate(gasLimit, txCount))
	res.Obs = L(I(0), balDump(&dec), I(int64(vc)))
	res.Tags = []string{"bytes", "decode-ok", fmt.Sprintf("v%d", vc)}
	var fails []string
	enc, err := encodeBal(&dec)
	if err != nil || !bytes.Equal(enc, in) {
		fails = append(fails, "decode accepted a non-canonical encoding: encode(decode(b)) != b")
	}
	if dec.Hash() != crypto.Keccak256Hash(in) {
		fails = append(fails, "Hash() of the decoded list is not keccak256 of the received bytes")
	}
	if len(fails) > 0 {
		res.Oracle = fmt.Sprint(fails)
	}
	return res
}

func run(c Sx) Result {
	l := AsList(c)
	if len(l) == 0 {
		panic("hxlib: empty case")
	}
	switch AsInt(l[0]) {
	case 0:
		return runHistory(l)
	case 1:
		return runList(l)
	case 2:
		return runBytes(l)
	}
	panic("hxlib: unknown case kind")
}

// ---------------------------------------------------------------------------
// generators

func randWord(r *Rng) *big.Int {
	switch r.Intn(10) {
	case 0:
		return new(big.Int)
	case 1:
		return new(big.Int).Sub(w256, big.NewInt(int64(1+r.Intn(3))))
	case 2:
		return new(big.Int).SetBytes(r.Bytes(32))
	default:
		return big.NewInt(int64(r.Intn(6)))
	}
}

func randU64(r *Rng) *big.Int {
	switch r.Intn(8) {
	case 0:
		return new(big.Int).Sub(w64, big.NewInt(int64(1+r.Intn(3))))
	case 1:
		return new(big.Int).SetUint64(r.U64())
	default:
		return big.NewInt(int64(r.Intn(5)))
	}
}

func genDB(r *Rng, guarded bool) []dbAcct {
	var db []dbAcct
	for a := 1; a <= 4; a++ {
		if !r.Chance(3, 5) {
			continue
		}
		d := dbAcct{addr: a, bal: new(big.Int)}
		switch r.Intn(4) {
		case 0: // empty account (pre-EIP-158 leftover)
		case 1: // balance only
			d.bal = randWord(r)
		case 2: // EOA-like
			d.nonce = randU64(r).Uint64()
			d.bal = randWord(r)
		default: // contract
			d.nonce = uint64(1 + r.Intn(3))
			d.bal = randWord(r)
			d.code = 1 + r.Intn(3)
			for k := 0; k < 4; k++ {
				if r.Bool() {
					v := randWord(r)
					if v.Sign() != 0 {
						d.stor = append(d.stor, [2]*big.Int{big.NewInt(int64(k)), v})
					}
				}
			}
		}
		if !guarded && r.Chance(1, 4) { // storage without code (possible pre-7610)
			d.stor = append(d.stor[:0], [2]*big.Int{big.NewInt(int64(r.Intn(4))), big.NewInt(int64(1 + r.Intn(5)))})
		}
		db = append(db, d)
	}
	return db
}

func encodeDB(db []dbAcct) Sx {
	out := SL{}
	for _, d := range db {
		st := SL{}
		for _, sv := range d.stor {
			st = append(st, L(Big(sv[0]), Big(sv[1])))
		}
		out = append(out, L(I(int64(d.addr)), U(d.nonce), Big(d.bal), I(int64(d.code)), st))
	}
	return out
}

const amsterdam = 1 | 2 | 4 | 8

// genHistory produces one block history. guarded=true keeps every op inside the guards of
// the net-change statement; guarded=false may step outside (model vs implementation only).
func genHistory(r *Rng, guarded bool, long bool) Sx {
	rs := amsterdam
	if r.Chance(1, 20) {
		rs = []int{0, 1, 1 | 4 | 8}[r.Intn(3)] // Finalise returns nil
	}
	var db []dbAcct
	if r.Chance(2, 3) {
		db = genDB(r, guarded)
	}
	rf := newRef(db)
	g := newGuard(db)
	var ops []op
	emit := func(o op) {
		if o.v == nil {
			o.v = new(big.Int)
		}
		g.before(rf, o)
		before := map[int]bool{}
		for a := range rf.cur.accts {
			before[a] = true
		}
		rf.step(o)
		g.after(before, rf, o)
		ops = append(ops, o)
	}
	ntx := r.Range(1, 5)
	bai := 0
	for tx := 0; tx < ntx; tx++ {
		// pre-tx values, for the restore-original bias and the guards
		type pre struct {
			exists, blank bool
			bal           *big.Int
			nonce         uint64
			code          int
			stor          map[int]*big.Int
		}
		pres := map[int]pre{}
		for _, a := range []int{1, 2, 3, 4} {
			p := pre{bal: new(big.Int), stor: map[int]*big.Int{}, blank: true}
			if x := rf.cur.accts[a]; x != nil {
				p.exists, p.bal, p.nonce, p.code = true, new(big.Int).Set(x.bal), x.nonce, x.code
				for k, v := range x.stor {
					p.stor[k] = v
					if v.Sign() != 0 {
						p.blank = false
					}
				}
				if x.nonce != 0 || x.code != 0 {
					p.blank = false
				}
			}
			pres[a] = p
		}
		if !(tx > 0 && r.Chance(1, 8)) {
			bai = tx + 1
			if r.Chance(1, 12) {
				bai = r.Intn(8)
			}
		}
		outside := tx == 0 && r.Chance(1, 20) // ops before any Prepare: nothing is recorded
		if !outside {
			emit(op{tag: opSetTx, th: tx + 1, ti: tx, bai: bai})
			start := op{tag: opPrepare, rules: rs, sender: r.Range(1, 4), coinbase: r.Range(1, 4), dst: -1}
			if r.Bool() {
				start.dst = r.Range(1, 4)
			}
			for n := r.Intn(3); n > 0; n-- {
				e := alEntry{addr: r.Range(1, 4)}
				for m := r.Intn(3); m > 0; m-- {
					e.slots = append(e.slots, r.Intn(4))
				}
				start.al = append(start.al, e)
			}
			emit(start)
		}
		nops := r.Range(4, 16)
		if long {
			nops = r.Range(10, 40)
		}
		var pendingSub []op // AddBalance v issued: SubBalance v restores
		for n := 0; n < nops; n++ {
			a, k := r.Range(1, 4), r.Intn(4)
			if r.Chance(1, 6) {
				a = ripemd
			}
			p := pres[a]
			restore := r.Chance(1, 3)
			switch r.Intn(30) {
			case 0:
				if rf.cur.accts[a] == nil { // evm.create: CreateAccount only if !Exist
					emit(op{tag: opCreateAccount, a: a})
				}
			case 1, 2:
				x := rf.cur.accts[a]
				switch {
				case x == nil:
					if !guarded && r.Chance(1, 3) {
						emit(op{tag: opCreateContract, a: a}) // Go panics (nil dereference)
					}
				case guarded && (!p.blank || !g.originOK[a]):
					// only accounts blank at the start of the transaction become new contracts
				default:
					emit(op{tag: opCreateContract, a: a})
					if guarded || r.Chance(1, 3) {
						emit(op{tag: opSetNonce, a: a, v: big.NewInt(1)}) // evm.create bumps the nonce
					}
				}
			case 3, 4:
				v := randWord(r)
				if r.Chance(1, 4) {
					v = new(big.Int)
				}
				o := op{tag: opAddBalance, a: a, v: v}
				emit(o)
				if v.Sign() != 0 && r.Bool() {
					pendingSub = append(pendingSub, op{tag: opSubBalance, a: a, v: v})
				}
			case 5:
				if len(pendingSub) > 0 && r.Chance(2, 3) {
					i := r.Intn(len(pendingSub))
					emit(pendingSub[i])
					pendingSub = append(pendingSub[:i], pendingSub[i+1:]...)
				} else {
					emit(op{tag: opSubBalance, a: a, v: randWord(r)})
				}
			case 6, 7:
				v := randWord(r)
				if restore {
					v = p.bal
				}
				emit(op{tag: opSetBalance, a: a, v: v})
			case 8, 9:
				v := randU64(r)
				if restore {
					v = new(big.Int).SetUint64(p.nonce)
				}
				emit(op{tag: opSetNonce, a: a, v: v})
			case 10, 11:
				c := r.Intn(4)
				if restore {
					c = p.code
				}
				emit(op{tag: opSetCode, a: a, v: big.NewInt(int64(c))})
			case 12, 13, 14, 15, 16:
				v := randWord(r)
				if restore {
					v = sval(p.stor, k)
				}
				emit(op{tag: opSetState, a: a, k: k, v: v})
			case 17:
				emit(op{tag: opSetTransient, a: a, k: k, v: randWord(r)})
			case 18:
				if guarded || r.Chance(1, 2) {
					emit(op{tag: opSelfDestruct6780, a: a})
				} else {
					emit(op{tag: opSelfDestruct, a: a})
				}
			case 19:
				if r.Bool() {
					emit(op{tag: opAddAddress, a: a})
				} else {
					emit(op{tag: opAddSlot, a: a, k: k})
				}
			case 20:
				switch r.Intn(3) {
				case 0:
					emit(op{tag: opAddRefund, v: randU64(r)})
				case 1:
					if rf.cur.refund.Sign() != 0 {
						emit(op{tag: opSubRefund, v: new(big.Int).Mod(new(big.Int).SetUint64(r.U64()), new(big.Int).Add(rf.cur.refund, big.NewInt(1)))})
					}
				default:
					emit(op{tag: opAddLog, a: a, v: big.NewInt(int64(r.Intn(200)))})
				}
			case 21, 22, 23:
				q := r.Intn(10)
				emit(op{tag: opGet, q: q, a: a, k: k})
			case 24, 25, 26:
				if len(rf.stack) < 6 {
					emit(op{tag: opSnapshot})
				}
			default:
				if len(rf.stack) > 0 && r.Chance(9, 10) {
					pick := rf.stack[len(rf.stack)-1]
					if r.Chance(1, 3) {
						pick = rf.stack[r.Intn(len(rf.stack))] // drop several nested snapshots at once
					}
					emit(op{tag: opRevert, v: big.NewInt(int64(pick.id))})
				} else if r.Chance(1, 4) {
					emit(op{tag: opRevert, v: big.NewInt(int64(rf.next + r.Intn(3)))}) // invalid id: Go panics
				}
			}
		}
		if guarded { // every new contract has been touched by tx end (evm.create sets the nonce inside the snapshot)
			var fix []int
			for a, x := range rf.cur.accts {
				if x.created && !(rf.cur.touched[a] || (rf.sticky && a == ripemd)) {
					fix = append(fix, a)
				}
			}
			sort.Ints(fix)
			for _, a := range fix {
				emit(op{tag: opSetNonce, a: a, v: big.NewInt(1)})
			}
		}
		emit(op{tag: opFinalise, rules: rs})
	}
	enc := SL{}
	for _, o := range ops {
		enc = append(enc, encodeOp(o))
	}
	gasLimit := uint64(30000000)
	if r.Chance(1, 10) {
		gasLimit = 2000 * uint64(r.Intn(12))
	}
	txCount := ntx
	if r.Chance(1, 10) {
		txCount = r.Intn(ntx + 1)
	}
	return L(I(0), encodeDB(db), enc, U(gasLimit), I(int64(txCount)))
}

func randAddrBig(r *Rng) *big.Int {
	switch r.Intn(4) {
	case 0:
		return big.NewInt(int64(r.Intn(6)))
	case 1:
		return new(big.Int).Sub(new(big.Int).Lsh(big.NewInt(1), 160), big.NewInt(int64(1+r.Intn(3))))
	default:
		return new(big.Int).SetBytes(r.Bytes(20))
	}
}

func randU256(r *Rng) *big.Int {
	switch r.Intn(6) {
	case 0:
		return new(big.Int)
	case 1:
		return new(big.Int).Sub(w256, big.NewInt(1))
	case 2:
		return new(big.Int).SetBytes(r.Bytes(32))
	case 3:
		return new(big.Int).SetBytes(r.Bytes(1 + r.Intn(31)))
	default:
		return big.NewInt(int64(r.Intn(300)))
	}
}

// ascending distinct small numbers
func ascending(r *Rng, n, lo, step int) []int {
	out := make([]int, 0, n)
	x := lo
	for i := 0; i < n; i++ {
		x += r.Intn(step)
		out = append(out, x)
		x++
	}
	return out
}

func sortedBigs(r *Rng, n int, f func(*Rng) *big.Int) []*big.Int {
	seen := map[string]bool{}
	var out []*big.Int
	for len(out) < n {
		v := f(r)
		if !seen[v.String()] {
			seen[v.String()] = true
			out = append(out, v)
		}
	}
	sort.Slice(out, func(i, j int) bool { return out[i].Cmp(out[j]) < 0 })
	return out
}

// genList: a valid list (dump form, Go-side mutable slices), then maybe one mutation
func genList(r *Rng) Sx {
	txCount := r.Range(1, 6)
	gasLimit := uint64(30000000)
	idxs := func(n int) []int { return ascending(r, n, 0, 2) }
	clampIdx := func(l []int) []int {
		var out []int
		for _, i := range l {
			if i <= txCount+1 {
				out = append(out, i)
			}
		}
		return out
	}
	pairs := func(n int, val func() Sx) SL {
		out := SL{}
		for _, i := range clampIdx(idxs(n)) {
			out = append(out, SL{I(int64(i)), val()})
		}
		return out
	}
	accts := SL{}
	for _, a := range sortedBigs(r, r.Intn(5), randAddrBig) {
		slots := sortedBigs(r, r.Intn(4)+r.Intn(3), randU256)
		nw := r.Intn(len(slots) + 1)
		perm := r.Intn(2) == 0
		ch, rd := SL{}, SL{}
		for i, s := range slots {
			isWrite := i < nw
			if perm {
				isWrite = i%2 == 0 && nw > 0
			}
			if isWrite {
				ws := pairs(1+r.Intn(3), func() Sx { return Big(randU256(r)) })
				if len(ws) == 0 {
					ws = SL{SL{I(0), Big(randU256(r))}}
				}
				ch = append(ch, SL{Big(s), ws})
			} else {
				rd = append(rd, Big(s))
			}
		}
		bl := pairs(r.Intn(3), func() Sx { return Big(randU256(r)) })
		nn := pairs(r.Intn(3), func() Sx { return Big(randU64(r)) })
		cd := pairs(r.Intn(3), func() Sx { return B(r.Bytes(r.Intn(40))) })
		accts = append(accts, SL{Big(a), ch, rd, bl, nn, cd})
	}
	if r.Bool() && len(accts) > 0 { // one mutation
		ai := r.Intn(len(accts))
		acc := accts[ai].(SL)
		swapOrDup := func(l SL) SL {
			if len(l) == 0 {
				return l
			}
			if len(l) >= 2 && r.Bool() {
				i := r.Intn(len(l) - 1)
				l[i], l[i+1] = l[i+1], l[i]
				return l
			}
			i := r.Intn(len(l))
			return append(l[:i+1], l[i:]...)
		}
		far := func(l SL) SL { // index beyond the limit on the last element
			if len(l) == 0 {
				return l
			}
			last := l[len(l)-1].(SL)
			last[0] = I(int64(txCount + 2 + r.Intn(3)))
			if r.Chance(1, 6) {
				last[0] = U(0xffffffff)
			}
			return l
		}
		switch r.Intn(16) {
		case 0:
			accts = swapOrDup(accts)
		case 1:
			acc[1] = swapOrDup(acc[1].(SL))
		case 2:
			if l := acc[1].(SL); len(l) > 0 {
				l[r.Intn(len(l))].(SL)[1] = SL{}
			}
		case 3:
			if l := acc[1].(SL); len(l) > 0 {
				sc := l[r.Intn(len(l))].(SL)
				sc[1] = swapOrDup(sc[1].(SL))
			}
		case 4:
			if l := acc[1].(SL); len(l) > 0 {
				sc := l[r.Intn(len(l))].(SL)
				sc[1] = far(sc[1].(SL))
			}
		case 5:
			acc[2] = swapOrDup(acc[2].(SL))
		case 6:
			if l := acc[1].(SL); len(l) > 0 { // a read equal to a written slot, kept sorted
				w := AsBig(l[r.Intn(len(l))].(SL)[0])
				var bs []*big.Int
				dup := false
				for _, s := range acc[2].(SL) {
					bs = append(bs, AsBig(s))
					dup = dup || AsBig(s).Cmp(w) == 0
				}
				if !dup {
					bs = append(bs, w)
				}
				sort.Slice(bs, func(i, j int) bool { return bs[i].Cmp(bs[j]) < 0 })
				rd := SL{}
				for _, b := range bs {
					rd = append(rd, Big(b))
				}
				acc[2] = rd
			}
		case 7:
			acc[3] = swapOrDup(acc[3].(SL))
		case 8:
			acc[3] = far(acc[3].(SL))
		case 9:
			acc[4] = swapOrDup(acc[4].(SL))
		case 10:
			acc[4] = far(acc[4].(SL))
		case 11:
			acc[5] = swapOrDup(acc[5].(SL))
		case 12:
			acc[5] = far(acc[5].(SL))
		case 13:
			if l := acc[5].(SL); len(l) > 0 && r.Chance(1, 3) {
				l[r.Intn(len(l))].(SL)[1] = B(r.Bytes(65537 + r.Intn(3)))
			} else if len(l) > 0 {
				l[r.Intn(len(l))].(SL)[1] = B(r.Bytes(300))
			}
		case 14:
			gasLimit = 2000 * uint64(r.Intn(6))
		default:
			txCount = r.Intn(2)
		}
		accts[ai] = acc
	}
	return L(I(1), deepCopy(accts), U(gasLimit), I(int64(txCount)))
}

// deepCopy breaks the aliasing introduced by duplicating list elements
func deepCopy(v Sx) Sx {
	if l, ok := v.(SL); ok {
		out := make(SL, len(l))
		for i := range l {
			out[i] = deepCopy(l[i])
		}
		return out
	}
	return v
}

func genBytes(r *Rng) Sx {
	c := AsList(genList(r))
	list := parseBal(c[1])
	enc, _ := encodeBal(&list)
	b := append([]byte{}, enc...)
	for n := r.Intn(4); n > 0 && len(b) > 0; n-- {
		i := r.Intn(len(b))
		switch r.Intn(7) {
		case 0:
			b[i] ^= 1 << uint(r.Intn(8))
		case 1:
			b = b[:i]
		case 2:
			b = append(b, r.Bytes(1+r.Intn(3))...)
		case 3:
			b[i]++
		case 4:
			b[i]--
		case 5: // insert a zero byte (leading zero of an integer / longer string)
			b = append(b[:i], append([]byte{0}, b[i:]...)...)
		default:
			b = append(b[:i], b[i+1:]...)
		}
	}
	return L(I(2), B(b), c[2], c[3])
}

func gen(r *Rng, tier string, emit func(Sx)) {
	r = NewRng(r.U64())
	nh, nl, nb := 1200, 500, 300
	if tier == "thorough" {
		nh, nl, nb = 12000, 5000, 3000
	}
	for i := 0; i < nh; i++ {
		switch {
		case i%10 == 9:
			emit(genHistory(r.Fork(), false, false)) // adversarial stream: outside the guards
		case i%10 == 8:
			emit(genHistory(r.Fork(), true, true)) // long transactions
		default:
			emit(genHistory(r.Fork(), true, false))
		}
	}
	for i := 0; i < nl; i++ {
		emit(genList(r.Fork()))
	}
	for i := 0; i < nb; i++ {
		emit(genBytes(r.Fork()))
	}
}

func main() {
	Main(Family{
		ID: "C15",
		Rule: "(0) block histories on a real state.StateDB over addresses 1..4 (3 = RIPEMD-160) x slots 0..3, Amsterdam rules (1/20 other rule sets: Finalise returns nil): " +
			"1-5 transactions = SetTxContext(th, ti, blockAccessIndex) + Prepare + 4-16 calls (every tenth history 10-40) + Finalise; calls are the C13 setters, " +
			"getters (1/10), nested snapshots to depth 6 with reverts to arbitrary live ids (and invalid ids), CreateAccount/CreateContract/SelfDestruct(6780); one third of the mutating calls " +
			"restore the pre-transaction value of the field (A->B->A), AddBalance v is later undone by SubBalance v; 1/8 of the transactions reuse the previous blockAccessIndex (Merge collisions); " +
			"from the empty state and from committed states; 90% inside the guards of the net-change statement (oracle = independent diff of full state dumps before/after each transaction " +
			"+ independently tracked touched accounts/slots), 10% adversarial (model vs implementation only). Observed: every return value, the list returned by every Finalise (ToEncodingObj), all getters after every Finalise, " +
			"the merged block list, its Validate class and its RLP. (1) random BlockAccessList values (0-4 accounts, random/extreme addresses, slots, values, indices), half of them with one mutation " +
			"(unsorted/duplicate at every level, empty slot changes, index beyond txcount+1, read also written, oversized code, tiny gas limit): Validate class, EncodeRLP, decode(encode). " +
			"(2) encodings with 0-3 byte mutations through DecodeRLP (+Validate). Non-trivial: history with >=1 successful revert, >=1 returned list with a change entry and >=8 calls; list with >=1 account; non-empty input. Distinct = distinct case line.",
		Gen: gen,
		Run: run,
	})
}
